#!/bin/bash
# usage: tools/seedtest.sh <seeded-dir> <property> [<property>...]
# Applies the seeded change to a scratch worktree of /repo (never to /repo
# itself), runs the checks against it and removes the worktree. Evidence and
# replay files of these runs go to a scratch directory, so the files of the
# real tree stay as they are. TIER=thorough and VERIF_SEED=n are honoured.
set -u
V=$(dirname "$(dirname "$(realpath "$0")")")
dir=$(realpath "$1"); shift
name=$(basename "$dir")
work=$(mktemp -d /tmp/seedtest-$name-XXXXXX)
trap 'git -C /repo worktree remove --force "$work/repo" 2>/dev/null; rm -rf "$work"' EXIT
base=$(python3 -c "import json;print(json.load(open('$dir/meta.json')).get('base_commit','HEAD'))" 2>/dev/null || echo HEAD)
git -C /repo worktree add --detach "$work/repo" "$base" -q || exit 2
git -C "$work/repo" apply "$dir/patch.diff" || { echo "patch does not apply: $name"; exit 2; }
rc=0
for p in "$@"; do
  echo "=== $p against $name"
  VERIF_REPO="$work/repo" VERIF_EVIDENCE_OUT="$work/evidence" VERIF_REPLAY_OUT="$work/replays" VERIF_SEED=${VERIF_SEED:-1} \
    "$V/check" $p ${TIER:-quick} 2>&1 | grep -E "^(VIOLATION|INCONCLUSIVE|property=|KNOWN|BUILD)" | cut -c1-220
  echo "exit=${PIPESTATUS[0]}"
  for f in "$work"/replays/*.json; do
    [ -e "$f" ] && python3 -c "import json,sys;d=json.load(open('$f'));print('  sig',d.get('sig'))"
  done
  rm -rf "$work/replays"
done
