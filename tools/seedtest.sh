#!/bin/bash
# usage: tools/seedtest.sh <seeded-dir> <property> [<property>...]
# Applies the seeded change to /repo, runs the quick checks, undoes it.
set -u
dir=$(realpath "$1"); shift
cd /repo || exit 2
if ! git diff --quiet; then echo "/repo has uncommitted changes"; exit 2; fi
git apply "$dir/patch.diff" || { echo "patch does not apply"; exit 2; }
rm -rf /tmp/evidence.bak && cp -r /verif/evidence /tmp/evidence.bak
trap 'git -C /repo checkout -- . ; rm -rf /verif/evidence; mv /tmp/evidence.bak /verif/evidence; rm -f /verif/replays/C*.json' EXIT
cd /verif
for p in "$@"; do
  echo "=== $p against $(basename $dir)"
  VERIF_SEED=${VERIF_SEED:-1} ./check $p ${TIER:-quick} 2>&1 | grep -E "^(VIOLATION|INCONCLUSIVE|property=|KNOWN)" | cut -c1-220
  echo "exit=${PIPESTATUS[0]}"
done
