#!/usr/bin/env python3
"""Generate MANIFEST.json from the table below (kept in one place so that the
manifest stays valid and consistent with ./check)."""
import json, os
V = os.path.dirname(os.path.dirname(os.path.abspath(__file__)))
props = [json.loads(l) for l in open(os.path.join(V, "properties.jsonl"))]

claimed = {
 "C01": dict(
   level="exploration", technique="property-based testing (rapid): generated (device,target) pairs, tool's script executed on an independent strict ASA model, compared with the target by name-free canonical form; round trip through a second compare",
   text="Generated-input search: for thousands (quick) to ~200k (thorough) generated ASA device/target pairs the emitted script is executed on an executable ASA model and the result must be canonically equal to the target, a second compare of the printed result must be empty, and 'unchanged' must imply equivalence. Exploration, not proof: it samples the pair space with generators built to hit renames, shared/duplicated groups, moves and left-overs.",
   note="Trusted: the harness's ASA model (harness/asam) for ACLs, object-groups, access-group and routes, calibrated against the repository's expected outputs; VPN objects are covered by the schema part of the model. Device spelling variants limited to the respellings listed in DESIGN 2.1.",
   ref="DESIGN.md §3 C01"),
}

checks = []
for p in props:
    i = p["id"]
    if i in claimed:
        c = claimed[i]
        checks.append({
            "property_id": i,
            "quick_cmd": "./check %s quick" % i,
            "thorough_cmd": "./check %s thorough" % i,
            "evidence_file": "/verif/evidence/%s.json" % i,
            "replay_cmd_template": "./check %s --replay {path}" % i,
            "engine": "rapid-harness",
            "level_claimed": {"category": c["level"], "text": c["text"], "design_ref": c["ref"]},
            "level_note": c["note"],
            "technique": c["technique"],
        })
na = [{"property_id": p["id"], "reason": "check not built yet in this session (planned, see DESIGN.md §3); nothing is claimed for it"} for p in props if p["id"] not in claimed]
m = {
 "version": 1,
 "setup_cmd": "./check --setup",
 "hooks": {
   "guard": "verif",
   "enable": "go build -tags verif / go test -tags verif (the driver passes -tags verif to every build of /repo/go)",
   "baseline_off_cmd": "cd /repo/go && GOFLAGS=-mod=mod GOPROXY=off GOSUMDB=off go test -json -vet=off -count=1 -timeout 25m ./...",
   "source_commits": [],
   "add_only": True,
 },
 "engines": [
   {"name": "rapid-harness", "path": "/verif/harness", "serves_properties": sorted(claimed),
    "kind_free_text": "Go module: pgregory.net/rapid v1.3.0 generators + executable device models + oracles; driver ./check shards the run over the cores, merges evidence, re-executes failures from their saved JSON case before reporting"},
 ],
 "checks": checks,
 "not_applicable": na,
 "notes": "Known findings and fixed defects: /verif/known_findings.json. Regression cases of fixed defects: /verif/replays/regress/.",
}
json.dump(m, open(os.path.join(V, "MANIFEST.json"), "w"), indent=1)
print("claimed", len(checks), "not_applicable", len(na))
