#!/usr/bin/env python3
"""Generate MANIFEST.json from the table below (kept in one place so that the
manifest stays valid and consistent with ./check)."""
import json, os
V = os.path.dirname(os.path.dirname(os.path.abspath(__file__)))
props = [json.loads(l) for l in open(os.path.join(V, "properties.jsonl"))]

claimed = {
 "C02": dict(
   level="exploration", technique="property-based testing (rapid): generated IOS (device,target) pairs, script executed on an independent strict IOS model (sequence numbers, resequence, numbered inserts, no N), result compared per run of same-action entries; second compare must be empty",
   text="Generated IOS pairs (block structure, remarks, log variants, IOS-XE numbers, shared ACLs, VRFs, crypto filter ACLs, routes) are run through the real compare; the script is executed on the IOS model and every managed interface must filter as the target (runs of same-action entries compared as multisets), routes of managed VRFs equal, second compare empty, 'unchanged' only if equivalent. Known root causes F18/F20 are set aside by signature.",
   note="Trusted: harness IOS model (harness/iosm), calibrated on the repository's expected outputs (TestCorpusIOS).",
   ref="DESIGN.md §3 C02"),
 "C12": dict(
   level="exploration", technique="property-based testing (rapid) with harness-owned schedules: the holder's simulator parks it at a drawn dialogue step (FIFO), contenders run to completion meanwhile, then release or SIGKILL; session-overlap detector in the simulator transcript; snapshots of status/history/log directories",
   text="A holder (drc or do-approve, approve or compare, device given as absolute path, relative path, ipv6 path or name) is parked by its simulator before a drawn dialogue step; 1-3 contenders of all front-end x spelling combinations must each fail at once with 'Approve in progress', open no session on the device and leave status, history and log directories byte-identical; after release the holder's own result is unaffected, after release or SIGKILL a follower gets the lock; the simulator transcript never shows two overlapping sessions. A stress arm starts 2-4 runs at once under the OS scheduler.",
   note="Trusted: kernel flock semantics; the lock-acquisition race itself is only stressed (OS-owned schedule), every other schedule is harness-owned. SSH families only (the lock code is family-independent).",
   ref="DESIGN.md §3 C12"),
 "C13": dict(
   level="exploration", technique="model-based property testing (rapid): generated histories of policy changes, approves, compares, drift, bzip2, removal and status damage; real missing-approve binary compared after every action with a reference model of the latest conclusive observation",
   text="Histories over 1-3 devices are executed against the real status package (SetApprove/SetCompare under a TEST_TIME clock) and the real missing-approve binary; after every action the set of listed devices must satisfy the must-list and must-omit clauses of the property computed by an independent reference model. Known root cause F4/F4b (two-slot status memory) is set aside by signature.",
   note="Trusted: the reference model of observations in harness/c13/oracle.go (written from the property text); approve/compare results are dictated by the model device, the do-approve front-end derivation of FAILED/DIFF is covered by C09, not here.",
   ref="DESIGN.md §3 C13"),
 "C15": dict(
   level="exploration", technique="property-based testing (rapid) with simulator-owned schedule: banner plans (command index x form x offset x kind x split write) against the real binaries; transcript-order invariants plus metamorphic equality with the banner-free run",
   text="For generated IOS change scripts the real drc/do-approve runs against sshdev with a plan of asynchronous reload banners (inside the echo at a drawn offset, before the echo with a fresh prompt, after the echo with and without an extra prompt; 0:02:00 and 0:01:00; optionally split into two write() calls). From the ordered transcript: 'reload in N' precedes the first change, 'reload cancel' follows the last, 'write memory' comes after the cancel and only if every change was accepted, no reload is left pending, a 0:01:00 banner is followed by 'do reload in N' before the next change; and exit status, accepted commands and final running/startup configuration equal those of the same run without banners. Known finding F39 (time-out-0 prompt probe drains the buffer) is set aside by signature.",
   note="Trusted: sshdev writes each response with one write() so the tool sees it atomically, except for the explicit split arm; only the banner forms the device is known to produce are claimed. A time-out of the banner run is re-run once before it counts.",
   ref="DESIGN.md §3 C15"),
 "C17": dict(
   level="exploration", technique="property-based testing (rapid) over end-to-end dialogues with generated secrets and injected faults; byte scan of every produced file and stream for each secret in plain, query-escaped and path-escaped form",
   text="Unique high-entropy secrets (login password with URL- and regexp-significant characters, PAN-OS API key, NSX session token) are used in real drc/do-approve runs (approve and compare, -L logging on) against the simulators, on success and with one fault at a drawn position (all kinds, concentrated on login and first requests); every file under basedir, the policy log directory and the -L directory plus stdout/stderr must be free of every secret. The SSH simulator does not echo input typed at a password prompt. Known finding F6 (API key in transport error URL, pinned by the suite) is set aside by signature.",
   note="Trusted: simulators; the credentials file itself is excluded from the scan.",
   ref="DESIGN.md §3 C17"),
 "C18": dict(
   level="exploration", technique="property-based testing (rapid): generated (IPv4, IPv6, raw) parts whose every line carries a tag encoding part and action; the effective target is observed as the script of 'drc MINIMAL_DEVICE NETSPOC'; order/completeness clauses of the property checked on the tag sequence; NSX via the store model and an independent reference merge",
   text="For ASA, IOS, Linux and PAN-OS small parts with overlapping ACL/chain/rulebase names are generated (with and without APPEND sections, parts without any permit line, empty parts, trailing deny blocks of length 0-3); each line carries a unique tag for its part and action, and the emitted creation script must contain every tag exactly once, keep the order inside each part, put raw lines before all Netspoc lines and APPEND lines after the last Netspoc permitting line and before the trailing deny/drop lines. For NSX the union of all parts is compared by content. Negative raw entries (unknown command, unbound or doubly bound ACL, tunnel-group-map, redefined chain, r<NUM> rule name) must end in an error or a warning, never in silent loss.",
   note="Trusted: the tag extraction from the tool's own creation script for an empty device (no device model needed); PAN-OS: documented behaviour is 'appended', the generator keeps the Netspoc rulebase free of trailing deny rules so that both readings coincide.",
   ref="DESIGN.md §3 C18"),
 "C19": dict(
   level="fault_enumeration", technique="property-based testing (rapid) over histories of commits/runs/kills around the unmodified newpolicy.sh plus enumeration of every kill position (DEBUG-trap injection via BASH_ENV)",
   text="Histories of good/bad commits, undisturbed runs, runs killed at the k-th simple command, simultaneous invocations and manual removal of 'current' are executed against the unmodified bin/newpolicy.sh with a local bare repository and stub compiler; after every action the link/number/compile invariants are checked and a final undisturbed run must promote the newest compiling revision. Thorough enumerates every kill position of a run. Known root cause F9/F9b (stale next/) is set aside by signature.",
   note="Trusted: bash DEBUG trap as kill-point enumerator (simple-command boundaries only), stub netspoc compiler, kernel flock; concurrent arm is OS-scheduled.",
   ref="DESIGN.md §3 C19"),
 "C03": dict(
   level="exploration", technique="property-based testing (rapid): generated PAN-OS vsys pairs, XML-API script executed on an independent XML-tree model with xpath set/edit/delete/move semantics and referential checks; rulebase compared in order by expanded content; second compare must be empty",
   text="Generated PAN-OS pairs (rules inserted/deleted/reordered/renamed, groups renamed/shared/split/duplicated, equal names with different values, unknown XML, uuid attributes, ignorable 'any' members, two vsys, response envelope and pretty-printed spelling) are run through the real compare; the emitted commands are executed on the XML model and each targeted vsys must end with the target's rules in order (members compared by expanded content), second compare empty, 'unchanged' only if equivalent. Known root cause F21 (service-group members sent with set) is set aside by signature.",
   note="Trusted: harness PAN-OS model (harness/panm): set merges, edit replaces, delete/move need existing nodes; calibrated on the repository's expected outputs (TestCorpusPANOS).",
   ref="DESIGN.md §3 C03"),
 "C04": dict(
   level="exploration", technique="property-based testing (rapid): generated NSX store pairs, REST script executed on an independent strict store model (PUT/PATCH/POST/DELETE with referential checks); rules compared per policy as multisets with groups expanded to address sets and services to definitions; left-over predicate; second compare must be empty",
   text="Generated NSX pairs (several policies, rules sharing sequence numbers, groups renamed/shared/duplicated, small and large address-list changes, in-place service changes, id clashes, IPv6/raw parts) are run through the real compare; the emitted requests are executed on the store model and each policy must end with the target's rules, no left-over Netspoc service/group, second compare empty, 'unchanged' only if equivalent. Known root cause F32 (tied rules paired by listing order) is set aside by signature.",
   note="Trusted: harness NSX model (harness/nsxm) incl. its reference merge of IPv4/IPv6/raw parts; calibrated on the repository's expected outputs (TestCorpusNSX, 42 of 44 covered).",
   ref="DESIGN.md §3 C04"),
 "C05": dict(
   level="exploration", technique="property-based testing (rapid): route-table model executing the emitted 'ip route add/del' commands; metamorphic relation between two independent printers (Netspoc spelling / iptables-save spelling) of one abstract ruleset; round trip of the emitted restore file through an independent parser",
   text="Generated route-set pairs are compared by the real tool and the emitted commands executed on a kernel-like route table (File exists / No such process) which must end with exactly the target's static routes; generated iptables rulesets are printed in Netspoc spelling and in iptables-save spelling by two independent printers: the tool must report a difference iff the abstract rulesets differ, the emitted restore file must parse to the target, and the round trip target -> device -> iptables-save -> compare must be empty. Known normalisation gaps F30-F34, F36 are set aside by signature.",
   note="Trusted: harness Linux model (harness/linuxm): the author's reading of ip-route and iptables-save spelling restricted to the options normalizeIPTables claims to handle; calibrated on the repository's expected outputs (19 of 21).",
   ref="DESIGN.md §3 C05"),
 "C06": dict(
   level="exploration", technique="property-based testing (rapid) over end-to-end dialogues: real drc/do-approve binaries against stateful simulators (sshdev on a pty, httpdev over HTTPS); the oracle reads the simulator's transcript",
   text="For all five device types and both front-ends, scenarios vary the hostname the device reports, the managed-by marker (present, absent, other spelling, checkbanner not configured) and the PAN-OS HA state, always with a generated pending change; from the simulator's transcript a blocking combination must show no change/prepare/save line, unchanged device state, non-zero exit and a diagnostic, every other combination must run to completion. Known finding F5 (Linux marker not enforced) is set aside by signature.",
   note="Trusted: the simulators' dialogue (harness/sim/sshdev, harness/sim/httpdev) mirrors what the tool's own SIMULATE_ROUTER tests exercise; time-outs without an injected fault are discarded as load noise, never reported.",
   ref="DESIGN.md §3 C06"),
 "C09": dict(
   level="fault_enumeration", technique="fault injection over end-to-end dialogues (rapid draws scenario, fault kind and position; a clean run fixes the number of dialogue steps)",
   text="A clean run of the real binary against the simulator fixes the dialogue length n; then one fault (device error text, unexpected output, garbled echo, connection close, stall beyond the timeout, HTTP 5xx/4xx, malformed reply, status=error, failed commit job, non-zero exit status) is injected at a drawn step. After the fault no change/save may reach the device except documented clean-up and the second half of a joined line, exit status must be non-zero, do-approve must record FAILED/DIFF and END: FAILED; conversely status OK requires every command accepted and the save confirmed.",
   note="Trusted: simulators; steps whose answer is free-form by design (version, pager, terminal settings, login banner text, enable) are exempt for output-level faults; Go's transparent retry of an idempotent request after a closed connection is not counted as a fault. Quick samples positions; thorough samples many more (not every k of every scenario).",
   ref="DESIGN.md §3 C09"),
 "C11": dict(
   level="exploration", technique="property-based testing (rapid) over end-to-end compare dialogues with interlock outcomes and injected faults; simulator state hash before/after and read-only whitelist",
   text="Real 'drc -C' and 'do-approve compare' runs against the simulators for all five device types, with generated non-empty differences, missing marker / wrong hostname and optionally one fault: the simulator's state hash must be identical before and after, no change/prepare/save/reload line may be received (ASA 'terminal width 511' is the one permitted config-mode command) and a .cmp file appears iff changes were found.",
   note="Trusted: simulators' classification of received lines/requests.",
   ref="DESIGN.md §3 C11"),
 "C20": dict(
   level="exploration", technique="deterministic enumeration of the mutation family named by the property (quick: seed-indexed sample, thorough: exhaustive, 536,894 mutants) plus native go fuzz targets seeded from the corpus; oracle = exit status 0/1, diagnostic on rejection, no escaped panic, watchdog with fresh-process confirmation",
   text="Every configuration line of every DEVICE/NETSPOC/IPv6/raw/info block of the repository's test data is mutated (word-prefix truncation, token deletion/duplication/swap, indentation changes, line duplication/move, empty/garbage/oversized files, truncation at structural boundaries) for all five device types and both argument positions and run through the function behind 'drc FILE1 FILE2'; in-process crashes and a sample are confirmed with the real drc binary; status-file mutants are run through missing-approve and do-approve. Two deliberate panic(err) sites pinned by the repository's own expected outputs are listed as known findings.",
   note="Trusted: the enumeration is over the repository's example lines, not all bytes; ios_long-acl.t (10,003 generated lines) is represented by its distinct line shapes. Thorough is exhaustive over the stated family (evidence notes 'exhaustive').",
   ref="DESIGN.md §3 C20"),
 "C07": dict(
   level="exploration", technique="property-based testing (rapid): device decorated with out-of-scope content; frame condition checked on the model after every executed command",
   text="Generated pairs whose device side carries content outside Netspoc's scope; the protected set is computed by the harness from the property's definition (independently of the tool's needed/toDelete marking) and its text must be identical after every step of the emitted script executed on the model.",
   note="Trusted: harness device models and the harness's reading of the scope rules (DESIGN App. C). Known finding F3 is set aside by signature and reported as KNOWN-FINDING.",
   ref="DESIGN.md §3 C07"),
 "C08": dict(
   level="exploration", technique="property-based testing (rapid): every emitted command executed on strict device models that refuse dangling references, deletes of referenced objects, duplicate entries, wrong line numbers and wrong modes",
   text="The scripts of generated pairs are executed command by command on strict executable device models; any refusal is a violation. The strictness rules are those stated by the property and are calibrated on the repository's own expected outputs.",
   note="Trusted: the strictness rules of the models (DESIGN App. B), calibrated by TestCorpus* on the maintainers' expected outputs.",
   ref="DESIGN.md §3 C08"),
 "C10": dict(
   level="fault_enumeration", technique="property-based testing (rapid) with crash-point enumeration: script cut after every single command (thorough) or drawn cuts (quick), tool re-run against the printed prefix state",
   text="For generated pairs the emitted script is cut after k commands (every k in thorough, including between the halves of joined lines and inside sub-mode blocks); the real compare is re-run against the model's prefix state, its script executed, and the result must be equivalent to the target with an empty third compare.",
   note="Trusted: harness device models; crash points are command boundaries of the model, not of a real session.",
   ref="DESIGN.md §3 C10"),
 "C14": dict(
   level="exploration", technique="property-based testing (rapid): first-match packet evaluation of the bound ACL after every executed step over a representative packet universe",
   text="For generated (old,new) ACL pairs with heavy overlap, the script is executed step by step (a joined line is one step) and after every step every packet of the universe on which old and new agree must get that verdict from the ACL currently bound. Known root causes F8 and F13 are set aside by signature.",
   note="Trusted: harness ASA/IOS models and packet evaluator; packet universe is the product of representative points of the case's own vocabulary.",
   ref="DESIGN.md §3 C14"),
 "C16": dict(
   level="exploration", technique="property-based testing (rapid): metamorphic repeat-run relation on byte-identical inputs with generated ties",
   text="Generated inputs with forced ties are run 8 times in-process (Go randomises map iteration per range statement); stdout, stderr and status must be byte-identical.",
   note="Trusted: nothing beyond the Go runtime's map-order randomisation as the source of schedule variation; fresh-process runs added in thorough.",
   ref="DESIGN.md §3 C16"),
 "C01": dict(
   level="exploration", technique="property-based testing (rapid): generated (device,target) pairs, tool's script executed on an independent strict ASA model, compared with the target by name-free canonical form; round trip through a second compare",
   text="Generated-input search: for thousands (quick) to ~200k (thorough) generated ASA device/target pairs the emitted script is executed on an executable ASA model and the result must be canonically equal to the target, a second compare of the printed result must be empty, and 'unchanged' must imply equivalence. Exploration, not proof: it samples the pair space with generators built to hit renames, shared/duplicated groups, moves and left-overs.",
   note="Trusted: the harness's ASA model (harness/asam) for ACLs, object-groups, access-group and routes, calibrated against the repository's expected outputs; VPN objects are covered by the schema part of the model. Device spelling variants limited to the respellings listed in DESIGN 2.1.",
   ref="DESIGN.md §3 C01"),
}

checks = []
for p in props:
    i = p["id"]
    if i in claimed:
        c = claimed[i]
        checks.append({
            "property_id": i,
            "quick_cmd": "./check %s quick" % i,
            "thorough_cmd": "./check %s thorough" % i,
            "evidence_file": "/verif/evidence/%s.json" % i,
            "replay_cmd_template": "./check %s --replay {path}" % i,
            "engine": "rapid-harness",
            "level_claimed": {"category": c["level"], "text": c["text"], "design_ref": c["ref"]},
            "level_note": c["note"],
            "technique": c["technique"],
        })
na = [{"property_id": p["id"], "reason": "check not built yet in this session (planned, see DESIGN.md §3); nothing is claimed for it"} for p in props if p["id"] not in claimed]
m = {
 "version": 1,
 "setup_cmd": "./check --setup",
 "hooks": {
   "guard": "verif",
   "enable": "go build -tags verif / go test -tags verif (the driver passes -tags verif to every build of /repo/go)",
   "baseline_off_cmd": "cd /repo/go && GOFLAGS=-mod=mod GOPROXY=off GOSUMDB=off go test -json -vet=off -count=1 -timeout 25m ./...",
   "source_commits": [],
   "add_only": True,
 },
 "engines": [
   {"name": "rapid-harness", "path": "/verif/harness", "serves_properties": sorted(claimed),
    "kind_free_text": "Go module: pgregory.net/rapid v1.3.0 generators + executable device models + oracles; driver ./check shards the run over the cores, merges evidence, re-executes failures from their saved JSON case before reporting"},
 ],
 "checks": checks,
 "not_applicable": na,
 "notes": "Known findings and fixed defects: /verif/known_findings.json. Regression cases of fixed defects: /verif/replays/regress/.",
}
json.dump(m, open(os.path.join(V, "MANIFEST.json"), "w"), indent=1)
print("claimed", len(checks), "not_applicable", len(na))
