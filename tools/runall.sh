#!/bin/bash
# usage: tools/runall.sh [quick|thorough] [ids...]  - runs the registered checks on the current tree
tier=${1:-quick}; shift
ids=${@:-C01 C02 C03 C04 C05 C06 C07 C08 C09 C10 C11 C12 C13 C14 C15 C16 C17 C18 C19 C20}
cd /verif
for p in $ids; do
  s=$(date +%s)
  out=$(./check $p $tier 2>&1); rc=$?
  echo "$p rc=$rc $(( $(date +%s) - s ))s  $(echo "$out" | grep -E '^property=' | cut -c1-120)"
  echo "$out" | grep -E '^(VIOLATION|INCONCLUSIVE)' | cut -c1-300
done
