#!/usr/bin/env python3
"""Run the repository's pinned test suite (guard OFF) and compare with BASELINE.json.
usage: suite.py [repo]   exit 0 iff every stable_pass test passes."""
import json, subprocess, sys, os
repo = sys.argv[1] if len(sys.argv) > 1 else "/repo"
base = json.load(open("/root/.vp/BASELINE.json"))
env = dict(os.environ, GOFLAGS="-mod=mod", GOPROXY="off", GOSUMDB="off", GOTOOLCHAIN="local")
p = subprocess.run(["go", "test", "-json", "-vet=off", "-count=1", "-timeout", "25m", "./..."],
                   cwd=repo + "/go", env=env, capture_output=True, text=True)
res = {}
for line in p.stdout.splitlines():
    try:
        e = json.loads(line)
    except Exception:
        continue
    if e.get("Test") and e.get("Action") in ("pass", "fail", "skip"):
        res[e["Package"] + "::" + e["Test"]] = e["Action"]
missing = [t for t in base["stable_pass"] if res.get(t) != "pass"]
print("passed", sum(1 for v in res.values() if v == "pass"), "failed", sum(1 for v in res.values() if v == "fail"),
      "baseline", len(base["stable_pass"]), "baseline tests not passing", len(missing))
for t in missing[:40]:
    print("  NOT PASSING:", t, res.get(t))
sys.exit(1 if missing else 0)
