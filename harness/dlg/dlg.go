// Package dlg runs the real binaries (drc, do-approve) end to end against
// the simulators: it prepares HOME, config, basedir and policy tree, writes
// the simulator plan, runs one subprocess per invocation and collects the
// transcript and all files written.
package dlg

import (
	"bytes"
	"crypto/sha256"
	"encoding/hex"
	"encoding/json"
	"fmt"
	"io/fs"
	"os"
	"os/exec"
	"path/filepath"
	"sort"
	"strings"
	"sync"
	"syscall"
	"time"
)

var (
	binOnce sync.Once
	binDir  string
	binErr  error
)

func repoDir() string {
	if v := os.Getenv("VERIF_REPO"); v != "" {
		return v
	}
	return "/repo"
}

func harnessDir() string {
	if v := os.Getenv("VERIF_DIR"); v != "" {
		if _, err := os.Stat(filepath.Join(v, "harness", "go.mod")); err == nil {
			return filepath.Join(v, "harness")
		}
	}
	return "/verif/harness"
}

// Bins returns the directory with drc, do-approve, missing-approve and
// sshdev, building them once per process (or taking $VERIF_BIN, which the
// driver fills).
func Bins() (string, error) {
	binOnce.Do(func() {
		if v := os.Getenv("VERIF_BIN"); v != "" {
			if _, err := os.Stat(filepath.Join(v, "sshdev")); err == nil {
				binDir = v
				return
			}
		}
		base := os.Getenv("VERIF_SCRATCH")
		d, err := os.MkdirTemp(base, "dlgbin-")
		if err != nil {
			binErr = err
			return
		}
		env := append(os.Environ(), "GOFLAGS=-mod=mod", "GOPROXY=off", "GOSUMDB=off", "GOTOOLCHAIN=local", "CGO_ENABLED=0")
		for _, c := range []string{"drc", "do-approve", "missing-approve"} {
			cmd := exec.Command("go", "build", "-tags", "verif", "-o", filepath.Join(d, c), "./cmd/"+c)
			cmd.Dir = filepath.Join(repoDir(), "go")
			cmd.Env = env
			if out, err := cmd.CombinedOutput(); err != nil {
				binErr = fmt.Errorf("build %s: %v\n%s", c, err, out)
				return
			}
		}
		cmd := exec.Command("go", "build", "-o", filepath.Join(d, "sshdev"), "./sim/sshdev")
		cmd.Dir = harnessDir()
		cmd.Env = env
		if out, err := cmd.CombinedOutput(); err != nil {
			binErr = fmt.Errorf("build sshdev: %v\n%s", err, out)
			return
		}
		binDir = d
	})
	return binDir, binErr
}

// Env is one isolated installation: HOME, basedir, policies.
type Env struct {
	Dir      string // scratch root
	Home     string
	Base     string // basedir
	LogDir   string // -L directory for drc
	Password string
	Banner   string // checkbanner regexp ("" = not configured)
	Timeout  int
	Clock    time.Time
	Policy   int
}

type Options struct {
	Password    string
	CheckBanner string
	Timeout     int
}

func NewEnv(o Options) (*Env, error) {
	base := os.Getenv("VERIF_SCRATCH")
	d, err := os.MkdirTemp(base, "dlg-")
	if err != nil {
		return nil, err
	}
	e := &Env{Dir: d, Home: filepath.Join(d, "home"), Base: filepath.Join(d, "base"), LogDir: filepath.Join(d, "drclog"),
		Password: o.Password, Banner: o.CheckBanner, Timeout: o.Timeout,
		Clock: time.Date(2026, 10, 1, 12, 0, 0, 0, time.UTC)}
	if e.Password == "" {
		e.Password = "secret"
	}
	if e.Timeout == 0 {
		e.Timeout = 5
	}
	for _, p := range []string{e.Home, e.Base, filepath.Join(e.Base, "policies"), filepath.Join(e.Base, "lock"),
		filepath.Join(e.Base, "status"), filepath.Join(e.Base, "history"), e.LogDir} {
		if err := os.MkdirAll(p, 0755); err != nil {
			return nil, err
		}
	}
	cfg := fmt.Sprintf("basedir = %s\nsystemuser = admin\ntimeout = %d\nlogin_timeout = %d\n", e.Base, e.Timeout, e.Timeout)
	if e.Banner != "" {
		cfg += "checkbanner = " + e.Banner + "\n"
	}
	if err := os.WriteFile(filepath.Join(e.Home, ".netspoc-approve"), []byte(cfg), 0644); err != nil {
		return nil, err
	}
	if err := os.WriteFile(filepath.Join(e.Base, "credentials"), []byte("* admin "+e.Password+"\n"), 0600); err != nil {
		return nil, err
	}
	return e, nil
}

func (e *Env) Close() { os.RemoveAll(e.Dir) }

// NewPolicy writes policies/pN/code/<files> and points current to it.
// files keys are relative to the code dir ("router", "ipv6/router",
// "router.raw", "router.info").
func (e *Env) NewPolicy(files map[string]string) (string, error) {
	e.Policy++
	name := fmt.Sprintf("p%d", e.Policy)
	dir := filepath.Join(e.Base, "policies", name)
	for f, content := range files {
		p := filepath.Join(dir, "code", f)
		os.MkdirAll(filepath.Dir(p), 0755)
		if err := os.WriteFile(p, []byte(content), 0644); err != nil {
			return "", err
		}
	}
	cur := filepath.Join(e.Base, "policies", "current")
	os.Remove(cur)
	if err := os.Symlink(name, cur); err != nil {
		return "", err
	}
	return name, nil
}

func (e *Env) CodeFile(dev string) string {
	return filepath.Join(e.Base, "policies", fmt.Sprintf("p%d", e.Policy), "code", dev)
}

// PlanFile writes a simulator plan and returns the SIMULATE_ROUTER value.
func (e *Env) PlanFile(name string, plan any) (string, error) {
	bins, err := Bins()
	if err != nil {
		return "", err
	}
	p := filepath.Join(e.Dir, name+".plan.json")
	b, _ := json.Marshal(plan)
	if err := os.WriteFile(p, b, 0644); err != nil {
		return "", err
	}
	return filepath.Join(bins, "sshdev") + " " + p, nil
}

type RunResult struct {
	Exit     int
	Stdout   string
	Stderr   string
	Killed   bool
	TimedOut bool
	Dur      time.Duration
}

// Cmd prepares an invocation of one of the real binaries.
func (e *Env) Cmd(simulate string, prog string, args ...string) (*exec.Cmd, error) {
	bins, err := Bins()
	if err != nil {
		return nil, err
	}
	cmd := exec.Command(filepath.Join(bins, prog), args...)
	cmd.Dir = e.Dir
	e.Clock = e.Clock.Add(2 * time.Second)
	cmd.Env = []string{"HOME=" + e.Home, "PATH=/usr/bin:/bin", "SIMULATE_ROUTER=" + simulate,
		"TEST_TIME=" + e.Clock.Format("2006-Jan-02 15:04:05")}
	cmd.SysProcAttr = &syscall.SysProcAttr{Setpgid: true}
	return cmd, nil
}

// Run runs the binary to completion (with a generous watchdog).
func (e *Env) Run(simulate string, prog string, args ...string) RunResult {
	cmd, err := e.Cmd(simulate, prog, args...)
	if err != nil {
		return RunResult{Exit: -1, Stderr: err.Error()}
	}
	var so, se bytes.Buffer
	cmd.Stdout, cmd.Stderr = &so, &se
	start := time.Now()
	if err := cmd.Start(); err != nil {
		return RunResult{Exit: -1, Stderr: err.Error()}
	}
	done := make(chan error, 1)
	go func() { done <- cmd.Wait() }()
	var r RunResult
	select {
	case err = <-done:
	case <-time.After(time.Duration(e.Timeout*6+60) * time.Second):
		syscall.Kill(-cmd.Process.Pid, syscall.SIGKILL)
		err = <-done
		r.TimedOut = true
	}
	r.Dur = time.Since(start)
	r.Stdout, r.Stderr = so.String(), se.String()
	if err != nil {
		if ee, ok := err.(*exec.ExitError); ok {
			r.Exit = ee.ExitCode()
		} else {
			r.Exit = -1
		}
	}
	return r
}

// Event is one transcript record written by sshdev.
type Event struct {
	Ev    string `json:"ev"`
	Pid   int    `json:"pid"`
	T     int64  `json:"t"`
	N     int    `json:"n"`
	Text  string `json:"text"`
	Mode  string `json:"mode"`
	Phase string `json:"phase"`
	Res   string `json:"res"`
	Msg   string `json:"msg"`
	Hash  string `json:"hash"`
}

func ReadTranscript(path string) []Event {
	data, err := os.ReadFile(path)
	if err != nil {
		return nil
	}
	var l []Event
	for _, line := range strings.Split(string(data), "\n") {
		if line == "" {
			continue
		}
		var e Event
		if json.Unmarshal([]byte(line), &e) == nil {
			l = append(l, e)
		}
	}
	return l
}

// Snapshot maps every file under the given roots to a hash of its content
// (for "untouched" checks) .
func Snapshot(roots ...string) map[string]string {
	m := map[string]string{}
	for _, root := range roots {
		filepath.WalkDir(root, func(p string, d fs.DirEntry, err error) error {
			if err != nil || d.IsDir() {
				return nil
			}
			b, err := os.ReadFile(p)
			if err != nil {
				return nil
			}
			h := sha256.Sum256(b)
			m[p] = fmt.Sprintf("%d:%s", len(b), hex.EncodeToString(h[:8]))
			return nil
		})
	}
	return m
}

func DiffSnapshots(a, b map[string]string) []string {
	var l []string
	for k, v := range a {
		if w, ok := b[k]; !ok {
			l = append(l, "removed "+k)
		} else if v != w {
			l = append(l, "changed "+k)
		}
	}
	for k := range b {
		if _, ok := a[k]; !ok {
			l = append(l, "created "+k)
		}
	}
	sort.Strings(l)
	return l
}

// AllFiles returns path -> content of every regular file under root.
func AllFiles(root string) map[string]string {
	m := map[string]string{}
	filepath.WalkDir(root, func(p string, d fs.DirEntry, err error) error {
		if err != nil || d.IsDir() {
			return nil
		}
		if b, err := os.ReadFile(p); err == nil {
			m[p] = string(b)
		}
		return nil
	})
	return m
}
