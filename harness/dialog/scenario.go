// Package dialog holds the end-to-end checks: the real drc / do-approve
// binaries talk to the simulators (sshdev on a pty, httpdev over HTTPS).
package dialog

import (
	"encoding/json"
	"fmt"
	"os"
	"path/filepath"
	"sort"
	"strings"

	"verif/harness/dlg"
	"verif/harness/nsxm"
	"verif/harness/panm"
	"verif/harness/props"
	"verif/harness/sim/httpdev"
	"verif/harness/tool"
)

type FaultSpec struct {
	Pos  int    `json:"pos"`
	Kind string `json:"kind"`
	// Chg, if set, replaces Pos (ssh families): index among the change lines.
	Chg *int `json:"chg,omitempty"`
}

type BannerSpec struct {
	Chg    int    `json:"chg"`
	Form   string `json:"form"`
	Offset int    `json:"offset"`
	Kind   string `json:"kind"`
	Split  bool   `json:"split"`
	// At: "" (change command Chg) | "conf" | "end" (the commands that frame
	// the guarded block)
	At string `json:"at,omitempty"`
}

// Scenario is the replayable description of one end-to-end run.
type Scenario struct {
	Family      string            `json:"family"`               // asa ios linux panos nsx
	Front       string            `json:"front"`                // drc | do-approve
	NoLogDir    bool              `json:"no_log_dir,omitempty"` // drc without -L
	Quiet       bool              `json:"quiet,omitempty"`      // drc -q
	Verb        string            `json:"verb"`                 // approve | compare
	Device      string            `json:"device"`
	Routes      []string          `json:"routes,omitempty"`
	IPTables    string            `json:"iptables,omitempty"`
	Target      map[string]string `json:"target"` // code files: router, ipv6/router, router.raw
	Hostname    string            `json:"hostname"`
	BannerText  string            `json:"banner_text"`
	CheckBanner string            `json:"checkbanner"`
	Password    string            `json:"password"`
	HostKey     bool              `json:"hostkey,omitempty"`
	EnablePass  bool              `json:"enable_pass,omitempty"`
	Faults      []FaultSpec       `json:"faults,omitempty"`
	// PAN-OS: "first" = only the first vsys lacks the marker, the others carry it.
	MarkerVsys string `json:"marker_vsys,omitempty"`
	// PAN-OS: number of rule entries of the candidate configuration shown
	// with the attributes of an uncommitted change, and whose they are
	// ("" = the login user).
	Dirty      int    `json:"dirty,omitempty"`
	DirtyAdmin string `json:"dirty_admin,omitempty"`
	// NSX: objects on the manager whose ids lack the Netspoc prefix (raw JSON).
	ForeignGroups   []string            `json:"foreign_groups,omitempty"`
	ForeignServices []string            `json:"foreign_services,omitempty"`
	ForeignPolicies []string            `json:"foreign_policies,omitempty"`
	Banners         []BannerSpec        `json:"banners,omitempty"`
	Members         []httpdev.PanMember `json:"members,omitempty"` // PAN-OS HA members (one per name in name_list)
	APIKey          string              `json:"api_key,omitempty"`
	Token           string              `json:"token,omitempty"`
	Timeout         int                 `json:"timeout,omitempty"`
	Modified        bool                `json:"modified,omitempty"`
	NoStateKeep     bool                `json:"-"`
}

func (sc *Scenario) Case(property string) *props.Case {
	b, _ := json.Marshal(sc)
	return &props.Case{Property: property, Family: sc.Family, Params: map[string]string{"scenario": string(b)}}
}

func ScenarioOf(c *props.Case) (*Scenario, error) {
	var sc Scenario
	if err := json.Unmarshal([]byte(c.Params["scenario"]), &sc); err != nil {
		return nil, err
	}
	return &sc, nil
}

func modelName(fam string) string {
	switch fam {
	case "asa":
		return "ASA"
	case "ios":
		return "IOS"
	case "linux":
		return "Linux"
	case "panos":
		return "PAN-OS"
	case "nsx":
		return "NSX"
	}
	return ""
}

// Line is one thing the device received, family independent.
type Line struct {
	N     int
	Text  string
	Class string // login | readonly | session-setting | prepare | change | save | reload-arm | reload-cancel | cleanup | unknown | poll
	Res   string // accepted | refused | unsupported | ok | fault:<kind> | ...
	Hash  string
}

// Outcome is everything observable of one run.
type Outcome struct {
	Run             dlg.RunResult
	Lines           []Line
	FaultAt         int // index into Lines of the first line hit by a fault (-1 none)
	HashBefore      string
	HashAfter       string
	Running         string // device running/candidate config text after the run
	Saved           string // startup/active config text after the run
	ReloadLeft      bool
	Files           map[string]string // every file under basedir, -L dir (relative names)
	ConfigSent      string            // ASA/IOS: the configuration text the simulator printed last
	Status          string
	History         string
	Dir             string
	SessionsOverlap bool
	Harness         error
}

func isCleanup(fam, text string) bool {
	switch text {
	case "end", "exit", "":
		return true
	case "reload cancel":
		return fam == "ios"
	}
	return false
}

// isSessionSetting: configuration-mode lines that only set up the session
// (their answer is not checked by the tool and need not be).
func isSessionSetting(fam, text string) bool {
	switch text {
	case "terminal width 511":
		return fam == "asa"
	case "no logging console", "line vty 0 15", "logging synchronous level all", "ip subnet-zero", "ip classless":
		return fam == "ios"
	}
	return false
}

func classifySSH(fam string, evs []dlg.Event) ([]Line, int) {
	var lines []Line
	byN := map[int]int{}
	modeConfig := map[int]bool{}
	faultAt := -1
	for _, e := range evs {
		switch e.Ev {
		case "line":
			byN[e.N] = len(lines)
			cl := "readonly"
			if e.Phase != "cmd" {
				cl = "login"
			}
			if e.Mode == "config" && cl == "readonly" {
				modeConfig[e.N] = true
			}
			lines = append(lines, Line{N: e.N, Text: e.Text, Class: cl})
		case "result":
			i, ok := byN[e.N]
			if !ok {
				continue
			}
			l := &lines[i]
			l.Res, l.Hash = e.Res, e.Hash
			switch e.Res {
			case "accepted", "refused", "unsupported":
				l.Class = "change"
				if e.Mode == "shell" && strings.HasPrefix(l.Text, "mv -f") {
					l.Class = "save"
				}
			case "save":
				l.Class = "save"
			case "reload-arm", "reload-cancel", "session-setting", "prepare", "unknown":
				l.Class = e.Res
			}
			if l.Class == "readonly" && isCleanup(fam, l.Text) {
				l.Class = "cleanup"
			}
			if strings.HasPrefix(e.Res, "fault:") && (l.Class == "readonly" || l.Class == "cleanup") {
				// A faulted line in configuration mode was a change attempt.
				if e.Mode == "config" && !isCleanup(fam, l.Text) && !isSessionSetting(fam, l.Text) {
					l.Class = "change"
				}
			}
		case "fault":
			if i, ok := byN[e.N]; ok && !strings.HasPrefix(e.Res, "perturb:") {
				if faultAt < 0 {
					faultAt = i
				}
				lines[i].Res = e.Res
				// A line that got no answer at all (close, stall) while in
				// configuration mode was a change attempt.
				if l := &lines[i]; l.Class == "readonly" && modeConfig[e.N] && !isCleanup(fam, l.Text) && !isSessionSetting(fam, l.Text) {
					l.Class = "change"
				}
			}
		}
	}
	return lines, faultAt
}

func classifyHTTP(reqs []*httpdev.Request) ([]Line, int) {
	var lines []Line
	faultAt := -1
	for i, q := range reqs {
		text := q.Method + " " + q.Path
		if a := q.Query.Get("action"); a != "" {
			text += " action=" + a + " xpath=" + q.Query.Get("xpath")
		} else if t := q.Query.Get("type"); t != "" {
			text += " type=" + t
		}
		cl := q.Class
		if cl == "commit" {
			cl = "save"
		}
		res := q.Res
		if res == "ok" && cl == "change" {
			res = "accepted"
		}
		if strings.HasPrefix(q.Res, "fault:") {
			if faultAt < 0 {
				faultAt = i
			}
			if cl == "" {
				// transport fault before classification: classify by request shape
				switch {
				case q.Method != "GET" && q.Path != "/api/session/create":
					cl = "change"
				case q.Query.Get("type") == "commit":
					cl = "save"
				case q.Query.Get("type") == "config" && q.Query.Get("action") != "get":
					cl = "change"
				default:
					cl = "readonly"
				}
			}
		}
		lines = append(lines, Line{N: q.N, Text: text, Class: cl, Res: res, Hash: q.Hash})
	}
	return lines, faultAt
}

// Execute runs the scenario once, in a fresh environment.
func Execute(sc *Scenario) *Outcome {
	o := &Outcome{FaultAt: -1}
	timeout := sc.Timeout
	if timeout == 0 {
		timeout = 4
	}
	e, err := dlg.NewEnv(dlg.Options{Password: sc.Password, CheckBanner: sc.CheckBanner, Timeout: timeout})
	if err != nil {
		o.Harness = err
		return o
	}
	defer e.Close()
	o.Dir = e.Dir
	files := map[string]string{}
	for k, v := range sc.Target {
		files[k] = v
	}
	if _, ok := files["router.info"]; !ok {
		files["router.info"] = tool.Info(modelName(sc.Family))
	}
	if _, err := e.NewPolicy(files); err != nil {
		o.Harness = err
		return o
	}
	var simulate string
	var pan *httpdev.PanServer
	var nsx *httpdev.NsxServer
	transcript := filepath.Join(e.Dir, "transcript")
	stateFile := filepath.Join(e.Dir, "state.json")
	switch sc.Family {
	case "asa", "ios", "linux":
		plan := map[string]any{"family": sc.Family, "hostname": sc.Hostname, "password": e.Password,
			"banner": sc.BannerText, "transcript": transcript, "state_file": stateFile, "hostkey": sc.HostKey,
			"enable_pass": sc.EnablePass, "device": sc.Device, "faults": sc.Faults, "banners": sc.Banners,
			"routes": sc.Routes, "iptables": sc.IPTables, "modified": sc.Modified}
		simulate, err = e.PlanFile("dev", plan)
		if err != nil {
			o.Harness = err
			return o
		}
	case "panos":
		st, err := panm.Parse(sc.Device)
		if err != nil {
			o.Harness = err
			return o
		}
		var faults []httpdev.Fault
		for _, f := range sc.Faults {
			faults = append(faults, httpdev.Fault{Pos: f.Pos, Kind: f.Kind})
		}
		pan = httpdev.NewPanServer(st, httpdev.PanOpts{User: "admin", Password: e.Password, Key: sc.APIKey,
			Members: sc.Members, Faults: faults, CommitPend: 1, Dirty: sc.Dirty, DirtyAdmin: sc.DirtyAdmin})
		defer pan.Close()
		simulate = pan.URL()
		o.HashBefore = pan.StateHash()
	case "nsx":
		st, err := nsxm.Parse(sc.Device)
		if err != nil {
			o.Harness = err
			return o
		}
		var faults []httpdev.Fault
		for _, f := range sc.Faults {
			faults = append(faults, httpdev.Fault{Pos: f.Pos, Kind: f.Kind})
		}
		nsx = httpdev.NewNsxServer(st, httpdev.NsxOpts{User: "admin", Password: e.Password, Token: sc.Token, Faults: faults,
			ForeignGroups: sc.ForeignGroups, ForeignServices: sc.ForeignServices, ForeignPolicies: sc.ForeignPolicies})
		defer nsx.Close()
		simulate = nsx.URL()
		o.HashBefore = nsx.StateHash()
	default:
		o.Harness = fmt.Errorf("family %q", sc.Family)
		return o
	}
	switch sc.Front {
	case "drc":
		var args []string
		if !sc.NoLogDir {
			args = append(args, "-L", e.LogDir)
		}
		if sc.Quiet {
			args = append(args, "-q")
		}
		if sc.Verb == "compare" {
			args = append(args, "-C")
		}
		args = append(args, e.CodeFile("router"))
		o.Run = e.Run(simulate, "drc", args...)
	case "do-approve":
		o.Run = e.Run(simulate, "do-approve", sc.Verb, "router")
	default:
		o.Harness = fmt.Errorf("front %q", sc.Front)
		return o
	}
	// ---- collect
	switch sc.Family {
	case "asa", "ios", "linux":
		evs := dlg.ReadTranscript(transcript)
		o.Lines, o.FaultAt = classifySSH(sc.Family, evs)
		for _, ev := range evs {
			if ev.Ev == "begin" && o.HashBefore == "" {
				o.HashBefore = ev.Hash
			}
			if ev.Ev == "end" {
				o.HashAfter = ev.Hash
			}
		}
		if b, err := os.ReadFile(stateFile); err == nil {
			var p struct {
				Running, Saved string
				Reload         bool `json:"reload_pending"`
			}
			json.Unmarshal(b, &p)
			o.Running, o.Saved, o.ReloadLeft = p.Running, p.Saved, p.Reload
		}
		if o.HashAfter == "" && len(o.Lines) > 0 {
			// sim was killed before writing "end": take the last known hash
			for i := len(o.Lines) - 1; i >= 0; i-- {
				if o.Lines[i].Hash != "" {
					o.HashAfter = o.Lines[i].Hash
					break
				}
			}
			if o.HashAfter == "" {
				o.HashAfter = o.HashBefore
			}
		}
	case "panos":
		o.Lines, o.FaultAt = classifyHTTP(pan.Requests())
		o.HashAfter = pan.StateHash()
		o.Running = pan.Candidate.Print(panm.Spelling{})
		o.Saved = pan.Active.Print(panm.Spelling{})
	case "nsx":
		o.Lines, o.FaultAt = classifyHTTP(nsx.Requests())
		o.HashAfter = nsx.StateHash()
		o.Running = nsx.Store.Print(nsxm.Spelling{})
		o.Saved = o.Running
	}
	o.Files = map[string]string{}
	for p, c := range dlg.AllFiles(e.Base) {
		rel, _ := filepath.Rel(e.Dir, p)
		o.Files[rel] = c
	}
	for p, c := range dlg.AllFiles(e.LogDir) {
		rel, _ := filepath.Rel(e.Dir, p)
		o.Files[rel] = c
	}
	if data, err := os.ReadFile(filepath.Join(e.Dir, "config-sent")); err == nil {
		o.ConfigSent = string(data)
	}
	o.Status = o.Files["base/status/router"]
	o.History = o.Files["base/history/router"]
	return o
}

func (o *Outcome) Summary() string {
	var b strings.Builder
	fmt.Fprintf(&b, "exit=%d timedout=%v dur=%v\n--- stdout\n%s--- stderr\n%s--- device received\n", o.Run.Exit, o.Run.TimedOut, o.Run.Dur, o.Run.Stdout, o.Run.Stderr)
	for i, l := range o.Lines {
		mark := ""
		if i == o.FaultAt {
			mark = "  <== fault"
		}
		fmt.Fprintf(&b, "%3d [%s/%s] %s%s\n", l.N, l.Class, l.Res, l.Text, mark)
	}
	fmt.Fprintf(&b, "--- status\n%s\n--- history\n%s", o.Status, o.History)
	return b.String()
}

func (o *Outcome) FileNames() []string {
	var l []string
	for k := range o.Files {
		l = append(l, k)
	}
	sort.Strings(l)
	return l
}

// Changes counts change lines by result.
func (o *Outcome) Changes() (total, accepted int) {
	for _, l := range o.Lines {
		if l.Class == "change" {
			total++
			if l.Res == "accepted" {
				accepted++
			}
		}
	}
	return
}

func (o *Outcome) Saves() int {
	n := 0
	for _, l := range o.Lines {
		if l.Class == "save" && !strings.HasPrefix(l.Res, "fault:") {
			n++
		}
	}
	return n
}

// timeoutUnderLoad: the run failed with a time-out although no fault was
// injected; with a loaded machine this is not evidence against the tool.
func (o *Outcome) TimeoutNoise() bool {
	return o.FaultAt < 0 && (o.Run.TimedOut || strings.Contains(o.Run.Stderr, "timer expired") ||
		strings.Contains(o.allLogs(), "timer expired") || strings.Contains(o.allLogs(), "Client.Timeout"))
}

func (o *Outcome) allLogs() string {
	var b strings.Builder
	for k, v := range o.Files {
		if strings.Contains(k, "/log/") || strings.HasPrefix(k, "drclog/") {
			b.WriteString(v)
		}
	}
	return b.String()
}
