package dialog

import (
	"os"
	"testing"

	"pgregory.net/rapid"
)

func TestSmokeHTTP(t *testing.T) {
	if os.Getenv("VERIF_SMOKE") == "" {
		t.Skip("set VERIF_SMOKE=1")
	}
	for _, fam := range []string{"panos", "nsx"} {
		for _, front := range []string{"drc", "do-approve"} {
			rapid.Check(t, func(rt *rapid.T) {
				sc := genBase(rt, fam)
				sc.Front = front
				o := Execute(sc)
				t.Logf("%s %s\n%s\nfiles: %v", fam, front, o.Summary(), o.FileNames())
			})
		}
	}
}
