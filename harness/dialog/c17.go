package dialog

import (
	"net/url"
	"strings"

	"verif/harness/props"
)

func secretForms(s string) []string {
	forms := []string{s}
	if q := url.QueryEscape(s); q != s {
		forms = append(forms, q)
	}
	if p := url.PathEscape(s); p != s && p != url.QueryEscape(s) {
		forms = append(forms, p)
	}
	return forms
}

// oracleC17: no secret in logs, history, status, stdout or stderr.
func oracleC17(c *props.Case) props.Verdict {
	sc, err := ScenarioOf(c)
	if err != nil {
		return props.DiscardV("bad scenario")
	}
	o := Execute(sc)
	if o.Harness != nil {
		return props.DiscardV("harness: " + o.Harness.Error())
	}
	if len(o.Lines) == 0 {
		return props.DiscardV("no dialogue")
	}
	secrets := map[string]string{"password": sc.Password}
	if sc.Family == "panos" && sc.APIKey != "" {
		secrets["api-key"] = sc.APIKey
	}
	if sc.Family == "nsx" && sc.Token != "" {
		secrets["token"] = sc.Token
	}
	places := map[string]string{"<stdout>": o.Run.Stdout, "<stderr>": o.Run.Stderr}
	for name, content := range o.Files {
		if name == "base/credentials" {
			continue
		}
		places[name] = content
	}
	for what, sec := range secrets {
		for _, form := range secretForms(sec) {
			for place, content := range places {
				if i := strings.Index(content, form); i >= 0 {
					lo, hi := i-120, i+len(form)+60
					if lo < 0 {
						lo = 0
					}
					if hi > len(content) {
						hi = len(content)
					}
					sig := sc.Family + ":" + what + "-leaked"
					// F6: the error of http.Client.Get for a request that got
					// no answer at all (connection closed, time-out) names the
					// URL. Other failures (e.g. an answer cut off inside its
					// body) do not, on the unchanged tree.
					noAnswer := o.FaultAt >= 0 && (o.Lines[o.FaultAt].Res == "fault:close" || o.Lines[o.FaultAt].Res == "fault:stall")
					if sc.Family == "panos" && what == "api-key" && noAnswer && strings.Contains(content[lo:hi], "key=") &&
						(strings.Contains(content[lo:hi], "Get \"") || strings.Contains(content[lo:hi], "Get ")) {
						sig = "panos:F6-api-key-in-transport-error-url"
					}
					return props.FailV(sig, "%s appears in %s:\n...%s...\n%s", what, place, content[lo:hi], o.Summary())
				}
			}
		}
	}
	// Non-trivial: the secret was really sent / received.
	nt := false
	for _, l := range o.Lines {
		if l.Class == "login" && (l.Res == "ok" || l.Text == "<password:true>") {
			nt = true
		}
	}
	classes := []string{"c17:" + sc.Family + ":" + sc.Front + ":" + sc.Verb}
	if o.FaultAt >= 0 {
		classes = append(classes, "c17:fault:"+o.Lines[o.FaultAt].Class)
		if fl := o.Lines[o.FaultAt]; (sc.Family == "panos" || sc.Family == "nsx") && fl.Res == "fault:close" &&
			(strings.Contains(fl.Text, "type=keygen") || strings.Contains(fl.Text, "/api/session/create")) {
			classes = append(classes, "c17:"+sc.Family+":transport-error-at-login")
		}
		if fl := o.Lines[o.FaultAt]; fl.Res == "fault:truncated" && o.FaultAt > 0 {
			classes = append(classes, "c17:"+sc.Family+":answer-cut-off-after-login")
		}
	}
	return props.PassV(nt, classes...)
}

func init() {
	for _, f := range families {
		props.Register("C17", f, oracleC17)
	}
}
