package dialog

import (
	"bytes"
	"encoding/json"
	"fmt"
	"os"
	"os/exec"
	"path/filepath"
	"sort"
	"strings"
	"syscall"
	"time"

	"verif/harness/dlg"
	"verif/harness/props"
	"verif/harness/tool"
)

// Invocation is one way to start a run for device "router".
type Invocation struct {
	Front string `json:"front"` // drc | do-approve
	Verb  string `json:"verb"`  // approve | compare
	Spell string `json:"spell"` // drc only: abs | rel | ipv6
	// drc only: called with --LOGFILE naming the log of a do-approve session
	LogFile bool `json:"logfile,omitempty"`
}

// LockScenario is the replayable description of one C12 schedule.
type LockScenario struct {
	Family     string       `json:"family"`
	Device     string       `json:"device"`
	Routes     []string     `json:"routes,omitempty"`
	Target     string       `json:"target"`
	Holder     Invocation   `json:"holder"`
	PausePos   int          `json:"pause_pos"` // holder is parked before reading this line
	Contenders []Invocation `json:"contenders"`
	Kill       bool         `json:"kill"` // holder is SIGKILLed instead of released
	Follower   Invocation   `json:"follower"`
	Stress     int          `json:"stress"` // >0: start that many runs at once, no pause
	// Tail: the holder (do-approve) is not parked inside its device session
	// but after it, while it reports and records the result: its output
	// goes to a pipe that is already full.
	Tail bool `json:"tail,omitempty"`
}

func (ls *LockScenario) Case() *props.Case {
	b, _ := json.Marshal(ls)
	return &props.Case{Property: "C12", Family: ls.Family, Params: map[string]string{"lock": string(b)}}
}

type lockEnv struct {
	e          *dlg.Env
	transcript string
	state      string
	ls         *LockScenario
	nPlan      int
}

func (le *lockEnv) simulate(pause map[string]any) (string, error) {
	le.nPlan++
	plan := map[string]any{"family": le.ls.Family, "hostname": "router", "password": le.e.Password,
		"banner": "** " + marker + " **\n", "transcript": le.transcript, "state_file": le.state,
		"device": le.ls.Device, "routes": le.ls.Routes}
	if pause != nil {
		plan["pause"] = pause
	}
	return le.e.PlanFile(fmt.Sprintf("lock%d", le.nPlan), plan)
}

func (le *lockEnv) args(inv Invocation) (prog string, args []string) {
	if inv.Front == "do-approve" {
		return "do-approve", []string{inv.Verb, "router"}
	}
	args = []string{"-L", le.e.LogDir}
	if inv.Verb == "compare" {
		args = append(args, "-C")
	}
	code := le.e.CodeFile("router")
	if inv.LogFile {
		// --LOGFILE names the file into which the session of a do-approve
		// run for the current policy redirects its messages
		ext := "drc"
		if le.ls.Holder.Verb == "compare" {
			ext = "compare"
		}
		args = append(args, "--LOGFILE", filepath.Join(filepath.Dir(filepath.Dir(code)), "log", "router."+ext))
	}
	switch inv.Spell {
	case "rel":
		rel, _ := filepath.Rel(le.e.Dir, code)
		code = rel
	case "ipv6":
		code = filepath.Join(filepath.Dir(code), "ipv6", "router")
	}
	return "drc", append(args, code)
}

type procResult struct {
	exit   int
	stdout string
	stderr string
}

func waitProc(cmd *exec.Cmd, so, se *bytes.Buffer, d time.Duration) (procResult, bool) {
	done := make(chan error, 1)
	go func() { done <- cmd.Wait() }()
	select {
	case err := <-done:
		r := procResult{stdout: so.String(), stderr: se.String()}
		if err != nil {
			if ee, ok := err.(*exec.ExitError); ok {
				r.exit = ee.ExitCode()
			} else {
				r.exit = -1
			}
		}
		return r, true
	case <-time.After(d):
		syscall.Kill(-cmd.Process.Pid, syscall.SIGKILL)
		<-done
		return procResult{exit: -2, stdout: so.String(), stderr: se.String()}, false
	}
}

// blockedOnPipe reports whether a thread of the process sleeps in a write
// to a pipe (wchan of the task, as the kernel names it).
func blockedOnPipe(pid int) bool {
	tasks, _ := filepath.Glob(fmt.Sprintf("/proc/%d/task/*/wchan", pid))
	for _, t := range tasks {
		if b, err := os.ReadFile(t); err == nil && strings.Contains(string(b), "pipe") && strings.Contains(string(b), "write") {
			return true
		}
	}
	return false
}

type session struct {
	pid        int
	begin, end int64
}

func sessions(evs []dlg.Event) []session {
	m := map[int]*session{}
	var order []int
	for _, e := range evs {
		s := m[e.Pid]
		if s == nil {
			s = &session{pid: e.Pid}
			m[e.Pid] = s
			order = append(order, e.Pid)
		}
		if e.Ev == "begin" {
			s.begin = e.T
		}
		// The session lasts as long as the tool talks to the device. The
		// simulator's own "end" event comes later (after it noticed the
		// closed line and saved its state; tens of milliseconds for a big
		// configuration), when the tool may long have exited and released
		// the lock.
		if e.Ev != "end" && e.T > s.end {
			s.end = e.T
		}
	}
	var l []session
	for _, p := range order {
		l = append(l, *m[p])
	}
	return l
}

func overlap(l []session) string {
	sort.Slice(l, func(i, j int) bool { return l[i].begin < l[j].begin })
	for i := 1; i < len(l); i++ {
		if l[i].begin < l[i-1].end {
			return fmt.Sprintf("sessions of pid %d [%d..%d] and pid %d [%d..%d] overlap", l[i-1].pid, l[i-1].begin, l[i-1].end, l[i].pid, l[i].begin, l[i].end)
		}
	}
	return ""
}

func oracleC12(c *props.Case) props.Verdict {
	var ls LockScenario
	if err := json.Unmarshal([]byte(c.Params["lock"]), &ls); err != nil {
		return props.DiscardV("bad scenario")
	}
	e, err := dlg.NewEnv(dlg.Options{CheckBanner: "NetSPoC", Timeout: 6})
	if err != nil {
		return props.DiscardV("harness: " + err.Error())
	}
	defer e.Close()
	if _, err := e.NewPolicy(map[string]string{"router": ls.Target, "router.info": tool.Info(modelName(ls.Family))}); err != nil {
		return props.DiscardV("harness: " + err.Error())
	}
	le := &lockEnv{e: e, transcript: filepath.Join(e.Dir, "transcript"), state: filepath.Join(e.Dir, "state.json"), ls: &ls}
	watched := []string{filepath.Join(e.Base, "status"), filepath.Join(e.Base, "history"),
		filepath.Join(e.Base, "policies", "p1", "log"), e.LogDir}
	classes := []string{"c12:" + ls.Family}

	if ls.Stress > 0 {
		// ---- stress arm: several runs at once, OS-owned schedule
		type started struct {
			cmd    *exec.Cmd
			so, se *bytes.Buffer
			inv    Invocation
		}
		var procs []started
		invs := append([]Invocation{ls.Holder}, ls.Contenders...)
		for i := 0; i < ls.Stress && i < len(invs); i++ {
			sim, err := le.simulate(nil)
			if err != nil {
				return props.DiscardV("harness")
			}
			prog, args := le.args(invs[i])
			cmd, err := e.Cmd(sim, prog, args...)
			if err != nil {
				return props.DiscardV("harness")
			}
			so, se := &bytes.Buffer{}, &bytes.Buffer{}
			cmd.Stdout, cmd.Stderr = so, se
			if err := cmd.Start(); err != nil {
				return props.DiscardV("harness")
			}
			procs = append(procs, started{cmd, so, se, invs[i]})
		}
		okRuns, refused := 0, 0
		var all strings.Builder
		for _, p := range procs {
			r, fin := waitProc(p.cmd, p.so, p.se, 90*time.Second)
			fmt.Fprintf(&all, "%+v exit=%d finished=%v\n%s%s\n", p.inv, r.exit, fin, r.stdout, r.stderr)
			if !fin {
				return props.DiscardV("timeout-under-load")
			}
			if strings.Contains(r.stderr, "Approve in progress") {
				refused++
			} else {
				okRuns++
			}
		}
		evs := dlg.ReadTranscript(le.transcript)
		if msg := overlap(sessions(evs)); msg != "" {
			return props.FailV(ls.Family+":sessions-overlap", "%s\n%s", msg, all.String())
		}
		if okRuns == 0 {
			return props.FailV(ls.Family+":nobody-got-the-lock", "all simultaneous runs were refused\n%s", all.String())
		}
		if len(sessions(evs)) > okRuns {
			return props.FailV(ls.Family+":refused-run-talked-to-device", "%d sessions but only %d runs were not refused\n%s", len(sessions(evs)), okRuns, all.String())
		}
		classes = append(classes, "c12:stress", fmt.Sprintf("c12:stress-refused-%d", refused))
		return props.PassV(refused > 0, classes...)
	}

	// ---- schedule owned by the harness
	fifo := filepath.Join(e.Dir, "release.fifo")
	mark := filepath.Join(e.Dir, "parked")
	if err := syscall.Mkfifo(fifo, 0600); err != nil {
		return props.DiscardV("harness: " + err.Error())
	}
	pausePlan := map[string]any{"pos": ls.PausePos, "fifo": fifo, "mark": mark}
	if ls.Tail {
		pausePlan = nil
	}
	sim, err := le.simulate(pausePlan)
	if err != nil {
		return props.DiscardV("harness")
	}
	prog, args := le.args(ls.Holder)
	holder, err := e.Cmd(sim, prog, args...)
	if err != nil {
		return props.DiscardV("harness")
	}
	hso, hse := &bytes.Buffer{}, &bytes.Buffer{}
	holder.Stdout, holder.Stderr = hso, hse
	var tailR, tailW *os.File
	if ls.Tail {
		// a pipe filled to capacity: the first write of the holder blocks
		tailR, tailW, err = os.Pipe()
		if err != nil {
			return props.DiscardV("harness")
		}
		fd := int(tailW.Fd())
		syscall.SetNonblock(fd, true)
		chunk := make([]byte, 4096)
		for {
			if _, err := syscall.Write(fd, chunk); err != nil {
				break
			}
		}
		syscall.SetNonblock(fd, false)
		holder.Stdout, holder.Stderr = tailW, tailW
	}
	if err := holder.Start(); err != nil {
		return props.DiscardV("harness")
	}
	if tailW != nil {
		tailW.Close()
	}
	holderDone := make(chan struct{})
	var hres procResult
	go func() {
		err := holder.Wait()
		hres = procResult{stdout: hso.String(), stderr: hse.String()}
		if err != nil {
			if ee, ok := err.(*exec.ExitError); ok {
				hres.exit = ee.ExitCode()
			} else {
				hres.exit = -1
			}
		}
		close(holderDone)
	}()
	release := func() {
		if tailR != nil {
			// drain the pipe: the holder's writes complete
			go func(r *os.File) {
				buf := make([]byte, 65536)
				for {
					if _, err := r.Read(buf); err != nil {
						break
					}
				}
				r.Close()
			}(tailR)
			tailR = nil
			return
		}
		// opening the FIFO for writing unblocks the simulator
		if f, err := os.OpenFile(fifo, os.O_WRONLY|syscall.O_NONBLOCK, 0); err == nil {
			f.Write([]byte("x"))
			f.Close()
		}
	}
	parked := false
	deadline := time.Now().Add(40 * time.Second)
	for time.Now().Before(deadline) {
		if _, err := os.Stat(mark); err == nil {
			parked = true
			break
		}
		if ls.Tail && blockedOnPipe(holder.Process.Pid) {
			// The holder sleeps in a write to its full output pipe (after
			// its session, or in the middle of it when it prints a warning
			// while computing the changes): it holds the lock and will not
			// go on until the pipe is drained.
			parked = true
			break
		}
		select {
		case <-holderDone:
			deadline = time.Now()
		default:
			time.Sleep(5 * time.Millisecond)
		}
	}
	if !parked {
		release()
		select {
		case <-holderDone:
		case <-time.After(30 * time.Second):
			syscall.Kill(-holder.Process.Pid, syscall.SIGKILL)
			<-holderDone
		}
		return props.Verdict{Status: props.Discard, Reason: "pause-position-not-reached", Classes: classes}
	}
	// Holder is parked after lock acquisition. Run the contenders.
	var log strings.Builder
	for i, inv := range ls.Contenders {
		before := dlg.Snapshot(watched...)
		nSess := len(sessions(dlg.ReadTranscript(le.transcript)))
		csim, err := le.simulate(nil)
		if err != nil {
			break
		}
		cprog, cargs := le.args(inv)
		r := e.Run(csim, cprog, cargs...)
		fmt.Fprintf(&log, "contender %d %+v: exit=%d\n%s%s\n", i, inv, r.Exit, r.Stdout, r.Stderr)
		ctx := func() string {
			return fmt.Sprintf("holder %+v parked before line %d\n%s", ls.Holder, ls.PausePos, log.String())
		}
		fail := func(sig, format string, a ...any) props.Verdict {
			release()
			select {
			case <-holderDone:
			case <-time.After(20 * time.Second):
				syscall.Kill(-holder.Process.Pid, syscall.SIGKILL)
				<-holderDone
			}
			return props.FailV(ls.Family+":"+sig, format+"\n%s", append(a, ctx())...)
		}
		if r.TimedOut {
			return fail("contender-blocked", "contender did not fail immediately but hung while the holder is parked")
		}
		if !strings.Contains(r.Stderr, "Approve in progress") {
			return fail("contender-not-refused", "contender was not refused with 'Approve in progress' (exit %d)", r.Exit)
		}
		if r.Exit == 0 {
			return fail("contender-exit-0", "contender refused but exit status 0")
		}
		if n := len(sessions(dlg.ReadTranscript(le.transcript))); n != nSess {
			return fail("contender-talked-to-device", "a refused contender opened a session on the device")
		}
		// (In tail mode the holder itself may still be writing its files.)
		if d := dlg.DiffSnapshots(before, dlg.Snapshot(watched...)); len(d) > 0 && !ls.Tail {
			return fail("contender-touched-files", "a refused contender touched status/history/log files: %v", d)
		}
		classes = append(classes, "c12:contender:"+inv.Front+":"+inv.Verb+":"+inv.Spell)
	}
	// Release or kill the holder.
	if ls.Kill {
		syscall.Kill(-holder.Process.Pid, syscall.SIGKILL)
		<-holderDone
		release()
		classes = append(classes, "c12:kill")
		// give the orphaned simulator a moment to see EOF and exit
		time.Sleep(50 * time.Millisecond)
	} else {
		release()
		select {
		case <-holderDone:
		case <-time.After(60 * time.Second):
			syscall.Kill(-holder.Process.Pid, syscall.SIGKILL)
			<-holderDone
			return props.DiscardV("timeout-under-load")
		}
		classes = append(classes, "c12:release")
		if strings.Contains(hres.stderr, "Approve in progress") {
			return props.FailV(ls.Family+":holder-refused", "the holder itself was refused\n%s%s", hres.stdout, hres.stderr)
		}
		if hres.exit != 0 && !strings.Contains(hres.stderr+hres.stdout, "timer expired") {
			// the holder's own result must not be affected by the contenders
			cleanSc := Scenario{Family: ls.Family, Front: ls.Holder.Front, Verb: ls.Holder.Verb, Device: ls.Device, Routes: ls.Routes,
				Target: map[string]string{"router": ls.Target}, Hostname: "router", BannerText: "** " + marker + " **\n", CheckBanner: "NetSPoC", Password: "secret"}
			if ref := Execute(&cleanSc); ref.Run.Exit == 0 {
				return props.FailV(ls.Family+":holder-result-affected", "holder failed (exit %d) although the same run alone succeeds\n%s%s\n%s", hres.exit, hres.stdout, hres.stderr, log.String())
			}
		}
	}
	// Follower must get the lock now.
	fsim, err := le.simulate(nil)
	if err != nil {
		return props.DiscardV("harness")
	}
	fprog, fargs := le.args(ls.Follower)
	fr := e.Run(fsim, fprog, fargs...)
	if strings.Contains(fr.Stderr, "Approve in progress") {
		return props.FailV(ls.Family+":lock-not-released", "after the holder %s the next run is still refused\n%s%s", map[bool]string{true: "was killed", false: "exited"}[ls.Kill], fr.Stdout, fr.Stderr)
	}
	evs := dlg.ReadTranscript(le.transcript)
	if msg := overlap(sessions(evs)); msg != "" && !ls.Kill {
		return props.FailV(ls.Family+":sessions-overlap", "%s", msg)
	}
	classes = append(classes, "c12:holder:"+ls.Holder.Front+":"+ls.Holder.Verb, fmt.Sprintf("c12:pause-at-%d", ls.PausePos/5*5))
	return props.PassV(len(ls.Contenders) > 0, classes...)
}

func init() {
	for _, f := range []string{"asa", "ios", "linux"} {
		props.Register("C12", f, oracleC12)
	}
}
