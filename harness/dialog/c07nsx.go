package dialog

import (
	"encoding/json"
	"strings"

	"verif/harness/props"
)

// C07 on NSX through the real dialogue: the manager also holds objects
// whose ids lack the Netspoc prefix (some of them contain the word in
// another place or spelling). No modifying request may name them.

func foreignIDs(sc *Scenario) []string {
	var ids []string
	for _, l := range [][]string{sc.ForeignGroups, sc.ForeignServices, sc.ForeignPolicies} {
		for _, raw := range l {
			var x struct{ Id string }
			json.Unmarshal([]byte(raw), &x)
			if x.Id != "" {
				ids = append(ids, x.Id)
			}
		}
	}
	return ids
}

func oracleC07nsx(c *props.Case) props.Verdict {
	sc, err := ScenarioOf(c)
	if err != nil {
		return props.DiscardV("bad scenario")
	}
	o := Execute(sc)
	if o.Harness != nil || len(o.Lines) == 0 {
		return props.DiscardV("harness")
	}
	if o.TimeoutNoise() {
		return props.DiscardV("timeout-under-load")
	}
	ids := foreignIDs(sc)
	changes := 0
	for _, l := range o.Lines {
		if l.Class != "change" {
			continue
		}
		changes++
		f := strings.Fields(l.Text)
		if len(f) < 2 {
			continue
		}
		path := f[1]
		if i := strings.Index(path, "?"); i >= 0 {
			path = path[:i]
		}
		for _, el := range strings.Split(path, "/") {
			for _, id := range ids {
				if el == id {
					return props.FailV("nsx:foreign-object-touched", "request %q names %s, an object whose id lacks the Netspoc prefix\n%s", l.Text, id, o.Summary())
				}
			}
		}
	}
	classes := []string{"c07:nsx-dialog:" + sc.Verb}
	for _, id := range ids {
		if strings.Contains(strings.ToLower(id), "netspoc") {
			classes = append(classes, "c07:nsx-foreign-id-contains-word")
		}
	}
	return props.PassV(changes > 0 && len(ids) > 0, classes...)
}

func init() { props.Register("C07", "nsx", oracleC07nsx) }
