package dialog

import (
	"strings"

	"verif/harness/props"
)

// oracleC11: a compare run never changes the device.
func oracleC11(c *props.Case) props.Verdict {
	sc, err := ScenarioOf(c)
	if err != nil {
		return props.DiscardV("bad scenario")
	}
	sc.Verb = "compare"
	o := Execute(sc)
	if o.Harness != nil {
		return props.DiscardV("harness: " + o.Harness.Error())
	}
	if len(o.Lines) == 0 {
		return props.DiscardV("no dialogue")
	}
	if o.HashBefore != o.HashAfter {
		return props.FailV(sc.Family+":compare-changed-device", "device state differs before and after a compare run\n%s", o.Summary())
	}
	for _, l := range o.Lines {
		if l.Text == "exit" {
			// Leaves a mode (or the session); not a configuration command.
			continue
		}
		switch l.Class {
		case "change", "save", "reload-arm", "reload-cancel", "prepare":
			return props.FailV(sc.Family+":compare-sent-"+l.Class, "compare run sent %q (%s)\n%s", l.Text, l.Class, o.Summary())
		case "session-setting":
			if sc.Family != "asa" {
				return props.FailV(sc.Family+":compare-sent-config", "compare run sent config-mode command %q\n%s", l.Text, o.Summary())
			}
		}
	}
	// Linux: startup files reach the device by scp outside the console
	// session; the tool announces every copy (unless run with -q).
	if sc.Family == "linux" {
		all := o.Run.Stdout + o.Run.Stderr + o.allLogs()
		if i := strings.Index(all, "Executing "); i >= 0 && strings.Contains(all[i:], "scp") {
			line := all[i:]
			if j := strings.Index(line, "\n"); j >= 0 {
				line = line[:j]
			}
			return props.FailV("linux:compare-copied-file-to-device", "compare run copies a file to the device: %s\n%s", line, o.Summary())
		}
	}
	changed := strings.Contains(o.Run.Stderr, "*** device changed ***")
	cmpFile := ""
	for name, content := range o.Files {
		if strings.Contains(content, "*** device changed ***") {
			changed = true
		}
		if strings.HasSuffix(name, "router.cmp") {
			cmpFile = name
		}
	}
	clean := o.Run.Exit == 0 && o.FaultAt < 0
	if clean {
		unchanged := strings.Contains(o.Run.Stderr, "comp: device unchanged")
		for _, content := range o.Files {
			if strings.Contains(content, "comp: device unchanged") {
				unchanged = true
			}
		}
		if changed && cmpFile == "" && !(sc.Front == "drc" && sc.NoLogDir) {
			return props.FailV(sc.Family+":cmp-file-missing", "differences found but no .cmp file written\nfiles: %v\n%s", o.FileNames(), o.Summary())
		}
		if unchanged && !changed && cmpFile != "" {
			return props.FailV(sc.Family+":cmp-file-spurious", ".cmp file written although no differences found\n%s", o.Summary())
		}
	}
	classes := []string{"c11:" + sc.Family + ":" + sc.Front}
	if o.FaultAt >= 0 {
		classes = append(classes, "c11:fault")
	}
	if changed {
		classes = append(classes, "c11:diff-nonempty")
	}
	if sc.Family == "panos" && sc.Dirty > 0 {
		who := "login-user"
		if sc.DirtyAdmin != "" {
			who = "other-admin"
		}
		classes = append(classes, "c11:panos:uncommitted-changes-of-"+who)
	}
	return props.PassV(changed, classes...)
}

func init() {
	for _, f := range families {
		props.Register("C11", f, oracleC11)
	}
}
