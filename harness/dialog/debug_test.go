package dialog

import (
	"encoding/json"
	"os"
	"strings"
	"testing"

	"verif/harness/props"
)

// TestDebugCase executes the scenario of a saved case ($VERIF_DEBUG_CASE)
// and prints the dialogue summary and every log file the tool wrote.
func TestDebugCase(t *testing.T) {
	path := os.Getenv("VERIF_DEBUG_CASE")
	if path == "" {
		t.Skip("set VERIF_DEBUG_CASE")
	}
	data, err := os.ReadFile(path)
	if err != nil {
		t.Fatal(err)
	}
	var c props.Case
	if err := json.Unmarshal(data, &c); err != nil {
		t.Fatal(err)
	}
	sc, err := ScenarioOf(&c)
	if err != nil {
		t.Fatal(err)
	}
	if c.Property == "C15" {
		c15Debug = func(sc *Scenario, ref, o *Outcome) {
			t.Logf("banners %+v faults %+v", sc.Banners, sc.Faults)
			for _, x := range []*Outcome{ref, o} {
				t.Logf("%s", x.Summary())
				for _, n := range x.FileNames() {
					if strings.HasSuffix(n, ".change") || strings.HasSuffix(n, ".drc") {
						t.Logf("--- %s\n%s", n, x.Files[n])
					}
				}
			}
		}
		v := oracleC15(&c)
		t.Logf("verdict %v %s", v.Status, v.Sig)
		return
	}
	if os.Getenv("VERIF_DEBUG_NOBANNER") != "" {
		sc.Banners = nil
	}
	o := Execute(sc)
	t.Logf("%s", o.Summary())
	for _, n := range o.FileNames() {
		if strings.Contains(n, "log") {
			t.Logf("--- %s\n%s", n, o.Files[n])
		}
	}
}
