package dialog

import (
	"flag"
	"fmt"
	"os"
	"strconv"
	"strings"
	"testing"

	"pgregory.net/rapid"
	"verif/harness/evid"
	"verif/harness/props"
	"verif/harness/sim/httpdev"
)

var replayFile = flag.String("replayfile", "", "re-evaluate the oracle on a saved case (no generator)")

func TestMain(m *testing.M) {
	flag.Parse()
	os.Exit(m.Run())
}

func TestReplay(t *testing.T) { props.ReplayMain(t, *replayFile) }

var faultKindsSSH = []string{"error", "garbage", "warnerror", "badecho", "close", "stall"}
var faultKindsHTTP = []string{"http500", "http503", "http403", "http500-empty", "http401-empty", "malformed", "status-error", "close", "truncated", "stall"}

func drawFault(rt *rapid.T, fam string, maxPos int, allowStall bool) FaultSpec {
	kinds := faultKindsSSH
	if fam == "panos" || fam == "nsx" {
		kinds = faultKindsHTTP
		if fam == "panos" {
			kinds = append(append([]string{}, kinds...), "commit-fail")
		}
	} else if fam == "linux" {
		kinds = append(append([]string{}, kinds...), "status")
	}
	k := rapid.SampledFrom(kinds).Draw(rt, "faultKind")
	if k == "stall" && !allowStall {
		k = kinds[0]
	}
	return FaultSpec{Pos: rapid.IntRange(0, maxPos).Draw(rt, "faultPos"), Kind: k}
}

const ruleC11 = "5 families x {drc -C, do-approve compare} x generated pairs x interlock outcomes (marker missing, wrong hostname) x optionally one fault at a drawn dialogue position; the simulator's state hash must be identical before and after, and the received commands/requests must be read-only (ASA: 'terminal width 511' is the one permitted config-mode command); " +
	"non-trivial = the compare found a non-empty difference; distinct = hash of the scenario"

func TestC11(t *testing.T) {
	ev := evid.New("C11", ruleC11)
	props.Finish(t, ev)
	rapid.Check(t, func(rt *rapid.T) {
		fam := rapid.SampledFrom(families).Draw(rt, "family")
		sc := genBase(rt, fam)
		sc.Front = rapid.SampledFrom([]string{"drc", "do-approve"}).Draw(rt, "front")
		switch rapid.IntRange(0, 5).Draw(rt, "interlock") {
		case 0:
			sc.BannerText = "no marker here\n"
		case 1:
			sc.Hostname = "otherbox"
		}
		if rapid.IntRange(0, 2).Draw(rt, "withFault") != 2 {
			// mostly during session set-up and configuration retrieval
			max := 25
			if rapid.IntRange(0, 2).Draw(rt, "earlyFault") != 0 {
				max = 11
			}
			f := drawFault(rt, fam, max, rapid.IntRange(0, 9).Draw(rt, "stallOK") == 0)
			// harmless chatter of the device (an INFO or WARNING line) must
			// not make a compare run change anything either
			if (fam == "asa" || fam == "ios" || fam == "linux") && rapid.IntRange(0, 3).Draw(rt, "chatter") == 0 {
				f.Kind = rapid.SampledFrom([]string{"info", "warning"}).Draw(rt, "chatterKind")
			}
			sc.Faults = []FaultSpec{f}
		}
		c := sc.Case("C11")
		props.Judge(rt, ev, oracleC11, c, func() any { return sc })
	})
}

const ruleC06 = "5 families x {drc, do-approve approve} x device hostname in {exact, other case, prefix, suffix, FQDN} x marker in {present, absent, different spelling, checkbanner not configured} x PAN-OS HA in {disabled, A/P active, A/P passive, A/A primary, A/A secondary, suspended, malformed} x a generated pending change; blocked combinations must send no change/prepare/save and end non-zero with a diagnostic, the others must run normally; " +
	"non-trivial = a blocking combination; distinct = hash of the scenario"

func TestC06(t *testing.T) {
	ev := evid.New("C06", ruleC06)
	props.Finish(t, ev)
	rapid.Check(t, func(rt *rapid.T) {
		fam := rapid.SampledFrom(families).Draw(rt, "family")
		sc := genBase(rt, fam)
		sc.Front = rapid.SampledFrom([]string{"drc", "do-approve"}).Draw(rt, "front")
		sc.Hostname = rapid.SampledFrom([]string{"router", "router", "router", "Router", "router1", "rout", "router.example.com", "otherbox"}).Draw(rt, "hostname")
		switch rapid.IntRange(0, 5).Draw(rt, "marker") {
		case 0:
			sc.BannerText = "*** authorized access only ***\n"
		case 1:
			sc.BannerText = "*** managed by netspoc-approve v2 (NETSPOC) ***\n" // other spelling: matches PAN-OS rule, not the case-sensitive regexp
		case 2:
			sc.CheckBanner = "" // not configured
			sc.BannerText = "*** authorized access only ***\n"
		}
		if fam == "nsx" {
			sc.Hostname = "router"
		}
		if fam == "panos" && rapid.IntRange(0, 3).Draw(rt, "firstVsysUnmanaged") == 0 {
			sc.MarkerVsys = "first"
			if strings.Count(sc.Device, "</display-name>") >= 2 {
				ev.Class("c06:first-of-several-vsys-unmanaged")
			}
		}
		if fam == "panos" {
			sc.Members = []httpdev.PanMember{rapid.SampledFrom([]httpdev.PanMember{
				{}, {}, {HAEnabled: true, Mode: "Active-Passive", State: "active"},
				{HAEnabled: true, Mode: "Active-Passive", State: "passive"},
				{HAEnabled: true, Mode: "Active-Active", State: "active-primary"},
				{HAEnabled: true, Mode: "Active-Active", State: "active-secondary"},
				{HAEnabled: true, Mode: "Active-Passive", State: "suspended"},
				// a non-active member whose mode is reported in another spelling / not at all
				{HAEnabled: true, Mode: "active-passive", State: "passive"},
				{HAEnabled: true, Mode: "Active-Active (A/A)", State: "suspended"},
				{HAEnabled: true, Mode: "-", State: "passive"},
				{BadReply: true},
			}).Draw(rt, "ha")}
		}
		c := sc.Case("C06")
		props.Judge(rt, ev, oracleC06, c, func() any { return sc })
	})
}

const ruleC09 = "generated scenario (family, device, target, front-end in {drc approve, drc -C, do-approve approve, do-approve compare}); a clean run fixes the number n of dialogue steps; then one fault (error text, unexpected output, a tolerated warning followed by error text, garbled echo, connection close, stall, HTTP 5xx/4xx, malformed reply, status=error, failed commit job, non-zero exit status) at a drawn position k<n or, in three of four cases, concentrated on a change step, on the first or second half of a two-command packet, or on the save step; " +
	"non-trivial = the fault lands on a step the clean run reaches, on a step whose answer must be verified, and the scenario has >= 2 change commands; distinct = hash of scenario+kind+position"

func TestC09(t *testing.T) {
	ev := evid.New("C09", ruleC09)
	props.Finish(t, ev)
	rapid.Check(t, func(rt *rapid.T) {
		fam := rapid.SampledFrom(families).Draw(rt, "family")
		target := rapid.SampledFrom([]string{"", "change", "change", "change", "joined1", "joined1", "joined1", "joined2", "save", "retrieve", "echo"}).Draw(rt, "target")
		if target == "echo" {
			// the exit status query behind a change command exists on Linux only
			fam = "linux"
		}
		sc := genBase(rt, fam)
		sc.Front = rapid.SampledFrom([]string{"drc", "do-approve"}).Draw(rt, "front")
		sc.Verb = rapid.SampledFrom([]string{"approve", "approve", "compare"}).Draw(rt, "verb")
		switch target {
		case "echo", "change", "joined1", "joined2", "save":
			sc.Verb = "approve" // a compare run has no such step
		}
		f := drawFault(rt, fam, 60, rapid.IntRange(0, 14).Draw(rt, "stallOK") == 0)
		// Kinds that matter most at a position are drawn more often there:
		// an error text on the first half of a two-command packet, a
		// tolerated warning followed by an error on an ASA change command.
		if target == "joined1" && (fam == "ios" || fam == "asa") && rapid.Bool().Draw(rt, "joinedError") {
			f.Kind = "error"
		}
		if target == "change" && fam == "asa" && rapid.IntRange(0, 2).Draw(rt, "asaWarnError") == 0 {
			f.Kind = "warnerror"
		}
		if target == "echo" && rapid.Bool().Draw(rt, "echoGarbage") {
			f.Kind = rapid.SampledFrom([]string{"garbage", "error"}).Draw(rt, "echoKind")
		}
		if strings.HasPrefix(target, "joined") && (fam == "asa" || fam == "ios") {
			// Prefer a pair whose script has a two-command packet.
			for i := 0; i < 12 && len(joinedSecond(sc)) == 0; i++ {
				front, verb := sc.Front, sc.Verb
				sc = genBase(rt, fam)
				sc.Front, sc.Verb = front, verb
			}
		}
		if target == "retrieve" {
			// An error text instead of the configuration goes unnoticed
			// least when nothing else can fail afterwards: an IOS target
			// without interface definitions.
			if fam == "ios" {
				for i := 0; i < 12 && strings.Contains(sc.Target["router"], "interface "); i++ {
					front, verb := sc.Front, sc.Verb
					sc = genBase(rt, fam)
					sc.Front, sc.Verb = front, verb
				}
			}
			if (fam == "ios" || fam == "asa") && rapid.Bool().Draw(rt, "retrieveError") {
				f.Kind = "error"
			}
		}
		c := sc.Case("C09")
		c.Params["kind"] = f.Kind
		c.Params["kpos"] = strconv.Itoa(f.Pos)
		c.Params["target"] = target
		props.Judge(rt, ev, oracleC09, c, func() any { return map[string]any{"scenario": sc, "kind": f.Kind, "kpos": f.Pos} })
	})
}

const ruleC17 = "5 families x both front-ends x approve/compare x secrets drawn from an alphabet with URL- and regexp-significant characters (password; PAN-OS API key; NSX session token) x success or one fault at a drawn position (all kinds, concentrated on login and first requests); every file under basedir, the policy log dir and the -L dir plus stdout/stderr is scanned for each secret in plain, query-escaped and path-escaped form (credentials file excluded); the SSH simulator does not echo input typed at a password prompt; " +
	"non-trivial = the secret was really sent/received in the run; distinct = hash of the scenario"

func drawSecret(rt *rapid.T, label string) string {
	alpha := []rune("abcXYZ0189&=%+?#/$.*:;,!@^~-_()[]{}<>|")
	if label == "key" {
		// A PAN-OS API key is base64 text; the tool puts it into the URL as is.
		alpha = []rune("abcdefXYZ0123456789-_=")
	}
	n := rapid.IntRange(8, 14).Draw(rt, label+"len")
	var b []rune
	for i := 0; i < n; i++ {
		b = append(b, rapid.SampledFrom(alpha).Draw(rt, label))
	}
	// unique high-entropy core so that a hit is never accidental
	return "S3c" + string(b) + "r3T"
}

func TestC17(t *testing.T) {
	ev := evid.New("C17", ruleC17)
	props.Finish(t, ev)
	rapid.Check(t, func(rt *rapid.T) {
		// The property names "transport errors whose messages embed the
		// request URL": in a quarter of the cases an HTTP family is taken
		// and the connection is closed on one of the first requests (key
		// generation / session creation carry the password), or a later
		// answer (those requests carry key or token) is cut off inside
		// its body.
		special := rapid.IntRange(0, 7).Draw(rt, "special")
		fam := rapid.SampledFrom(families).Draw(rt, "family")
		if special <= 1 {
			fam = rapid.SampledFrom([]string{"panos", "nsx"}).Draw(rt, "httpFamily")
		}
		sc := genBase(rt, fam)
		sc.Front = rapid.SampledFrom([]string{"drc", "do-approve"}).Draw(rt, "front")
		sc.Verb = rapid.SampledFrom([]string{"approve", "compare"}).Draw(rt, "verb")
		sc.Password = drawSecret(rt, "pw")
		sc.APIKey = drawSecret(rt, "key")
		sc.Token = drawSecret(rt, "tok")
		switch {
		case special == 0:
			sc.Faults = []FaultSpec{{Pos: rapid.SampledFrom([]int{0, 0, 0, 1, 2}).Draw(rt, "transportPos"), Kind: "close"}}
		case special == 1:
			sc.Faults = []FaultSpec{{Pos: rapid.SampledFrom([]int{1, 1, 2, 2, 3, 4, 6, 9}).Draw(rt, "bodyCutPos"), Kind: "truncated"}}
		case rapid.IntRange(0, 3).Draw(rt, "withFault") != 0:
			max := 30
			if rapid.Bool().Draw(rt, "early") {
				max = 4
			}
			sc.Faults = []FaultSpec{drawFault(rt, fam, max, rapid.IntRange(0, 9).Draw(rt, "stallOK") == 0)}
		}
		c := sc.Case("C17")
		props.Judge(rt, ev, oracleC17, c, func() any { return sc })
	})
}

const ruleC15 = "generated IOS change scripts (real drc approve against sshdev) x a banner plan of 1-3 banners: command index x form in {inside the echo at character offset j, before the echo followed by a fresh prompt, after the echo, after the echo with an extra prompt} x kind in {0:02:00, 0:01:00} x optionally split into two write() calls x in one of four cases a further banner at one of the two commands that frame the guarded block (the 'configure terminal' behind 'reload in', the 'end' in front of 'reload cancel') x in one of three cases one change command (drawn position, or the second half of a two-command packet with the first banner on the first half) is rejected by the device; oracle: reload guard ordering from the transcript and metamorphic equality (exit status, accepted commands, final running and startup configuration) with the same run without banners; " +
	"non-trivial = at least one banner lands on a change command; distinct = hash of scenario + banner plan"

func TestC15(t *testing.T) {
	ev := evid.New("C15", ruleC15)
	props.Finish(t, ev)
	rapid.Check(t, func(rt *rapid.T) {
		sc := genBase(rt, "ios")
		sc.Front = rapid.SampledFrom([]string{"drc", "do-approve"}).Draw(rt, "front")
		n := rapid.IntRange(1, 3).Draw(rt, "nBanners")
		used := map[int]bool{}
		for i := 0; i < n; i++ {
			b := BannerSpec{
				Chg:    rapid.IntRange(0, 30).Draw(rt, "chg"),
				Form:   rapid.SampledFrom([]string{"inside", "inside", "before", "after", "after-prompt"}).Draw(rt, "form"),
				Offset: rapid.IntRange(1, 40).Draw(rt, "offset"),
				Kind:   rapid.SampledFrom([]string{"0:02:00", "0:02:00", "0:01:00"}).Draw(rt, "kind"),
				Split:  rapid.IntRange(0, 3).Draw(rt, "split") == 0,
			}
			if used[b.Chg] {
				continue
			}
			used[b.Chg] = true
			sc.Banners = append(sc.Banners, b)
		}
		// a banner at one of the two commands that frame the guarded block
		if rapid.IntRange(0, 3).Draw(rt, "framing") == 0 {
			at := rapid.SampledFrom([]string{"conf", "end", "end"}).Draw(rt, "at")
			kind := "0:02:00"
			if at == "end" && rapid.Bool().Draw(rt, "atKind") {
				kind = "0:01:00"
			}
			sc.Banners = append(sc.Banners, BannerSpec{At: at, Kind: kind,
				Form:   rapid.SampledFrom([]string{"inside", "before", "after"}).Draw(rt, "atForm"),
				Offset: rapid.IntRange(1, 12).Draw(rt, "atOffset")})
		}
		rel := ""
		if rapid.IntRange(0, 2).Draw(rt, "withReject") == 0 {
			chg := rapid.IntRange(0, 30).Draw(rt, "faultChg")
			sc.Faults = []FaultSpec{{Kind: rapid.SampledFrom([]string{"error", "garbage"}).Draw(rt, "faultKind"), Chg: &chg}}
			rel = rapid.SampledFrom([]string{"", "0", "-1", "-1j", "-1j"}).Draw(rt, "rel")
			if rel == "-1j" {
				for i := 0; i < 12 && len(joinedSecond(sc)) == 0; i++ {
					front, banners, faults := sc.Front, sc.Banners, sc.Faults
					sc = genBase(rt, "ios")
					sc.Front, sc.Banners, sc.Faults = front, banners, faults
				}
			}
		}
		c := sc.Case("C15")
		c.Params["rel"] = rel
		props.Judge(rt, ev, oracleC15, c, func() any { return sc })
	})
}

const ruleC07nsx = "NSX through the real dialogue (drc / do-approve approve and compare against the manager simulator): besides a generated managed part the manager holds 1-4 groups, services and gateway policies whose ids lack the Netspoc prefix, among them ids that contain the word in another position or spelling; no modifying request may name one of them; " +
	"non-trivial = the run sent at least one modifying request; distinct = hash of the scenario"

var (
	foreignGroupIDs   = []string{"admin-hosts", "pre-Netspoc-migration", "netspoc-lab", "DMZ_servers"}
	foreignServiceIDs = []string{"HTTP", "legacy_netspoc_tcp_8080", "NETSPOC-old", "custom-ssh"}
	foreignPolicyIDs  = []string{"default-tier0", "netspoc-manual-tier0", "Manual-Netspoc"}
)

func TestC07nsx(t *testing.T) {
	ev := evid.New("C07", ruleC07nsx)
	props.Finish(t, ev)
	rapid.Check(t, func(rt *rapid.T) {
		sc := genBase(rt, "nsx")
		sc.Front = rapid.SampledFrom([]string{"drc", "do-approve"}).Draw(rt, "front")
		sc.Verb = rapid.SampledFrom([]string{"approve", "approve", "approve", "compare"}).Draw(rt, "verb")
		for _, id := range rapid.SliceOfNDistinct(rapid.SampledFrom(foreignGroupIDs), 1, 3, rapid.ID[string]).Draw(rt, "fg") {
			sc.ForeignGroups = append(sc.ForeignGroups, `{"id":"`+id+`","expression":[{"id":"id","resource_type":"IPAddressExpression","ip_addresses":["10.99.1.1","10.99.2.0/24"]}]}`)
		}
		for _, id := range rapid.SliceOfNDistinct(rapid.SampledFrom(foreignServiceIDs), 1, 3, rapid.ID[string]).Draw(rt, "fs") {
			sc.ForeignServices = append(sc.ForeignServices, `{"id":"`+id+`","service_entries":[{"id":"id","resource_type":"L4PortSetServiceEntry","l4_protocol":"TCP","source_ports":[],"destination_ports":["8080"]}]}`)
		}
		for _, id := range rapid.SliceOfNDistinct(rapid.SampledFrom(foreignPolicyIDs), 0, 2, rapid.ID[string]).Draw(rt, "fp") {
			sc.ForeignPolicies = append(sc.ForeignPolicies, `{"id":"`+id+`","resource_type":"GatewayPolicy","rules":[{"id":"m1","action":"ALLOW","sequence_number":10,"source_groups":["ANY"],"destination_groups":["10.99.1.1"],"services":["ANY"],"scope":["/infra/tier-0s/v1"],"direction":"IN_OUT","ip_protocol":"IPV4"}]}`)
		}
		c := sc.Case("C07")
		props.Judge(rt, ev, oracleC07nsx, c, func() any { return sc })
	})
}

const ruleC12 = "schedules owned by the harness: a holder (drc or do-approve, approve or compare, device given as absolute path / relative path / ipv6 path / name) is started against sshdev and parked before reading dialogue line p (before login, after login, during config read, between change commands, before save, after save) or, for a do-approve holder in one of six cases, blocked after its device session while it reports and records the result (its output pipe is full), in one of four ASA/IOS cases on a device configuration of more than 4000 lines (long session with much allocation between taking the lock and the contender's start); while it is parked 1-3 contenders of all front-end x spelling combinations run to completion; then the holder is released or SIGKILLed and a follower is started; plus a stress arm that starts 2-4 runs at once (OS-owned schedule); " +
	"non-trivial = at least one contender ran while the holder was parked after lock acquisition (stress arm: at least one run was refused); distinct = hash of the schedule"

// bigUnmanagedACL is an unbound ACL without generated name (outside
// Netspoc's scope, never changed) of n lines.
func bigUnmanagedACL(fam string, n int) string {
	var b strings.Builder
	if fam == "ios" {
		b.WriteString("ip access-list extended big_manual_acl\n")
	}
	for i := 0; i < n; i++ {
		if fam == "ios" {
			fmt.Fprintf(&b, " permit ip host 10.%d.%d.1 any\n", 100+i/250, i%250)
		} else {
			fmt.Fprintf(&b, "access-list big_manual_acl extended permit ip host 10.%d.%d.1 any4\n", 100+i/250, i%250)
		}
	}
	return b.String()
}

func drawInvocation(rt *rapid.T, label string) Invocation {
	inv := Invocation{Front: rapid.SampledFrom([]string{"drc", "do-approve"}).Draw(rt, label+"front"),
		Verb: rapid.SampledFrom([]string{"approve", "compare"}).Draw(rt, label+"verb")}
	if inv.Front == "drc" {
		inv.Spell = rapid.SampledFrom([]string{"abs", "rel", "ipv6"}).Draw(rt, label+"spell")
		inv.LogFile = label == "contender" && rapid.IntRange(0, 3).Draw(rt, label+"logfile") == 0
	}
	return inv
}

func TestC12(t *testing.T) {
	ev := evid.New("C12", ruleC12)
	props.Finish(t, ev)
	rapid.Check(t, func(rt *rapid.T) {
		fam := rapid.SampledFrom([]string{"asa", "ios", "linux"}).Draw(rt, "family")
		sc := genBase(rt, fam)
		ls := &LockScenario{Family: fam, Device: sc.Device, Routes: sc.Routes, Target: sc.Target["router"]}
		// A long session on a big configuration: the holder allocates (and
		// collects) a lot between taking the lock and the contender's start.
		if fam != "linux" && rapid.IntRange(0, 3).Draw(rt, "bigConfig") == 0 {
			ls.Device += bigUnmanagedACL(fam, 4000)
			ev.Class("c12:big-config")
		}
		ls.Holder = drawInvocation(rt, "holder")
		if ls.Holder.Spell == "ipv6" {
			ls.Holder.Spell = "abs" // the holder must be able to run
		}
		ls.PausePos = rapid.SampledFrom([]int{0, 1, 2, 4, 6, 8, 10, 12, 13, 14, 15, 16, 17, 18, 19, 20, 22, 24, 27}).Draw(rt, "pausePos")
		n := rapid.IntRange(1, 3).Draw(rt, "nContenders")
		for i := 0; i < n; i++ {
			ls.Contenders = append(ls.Contenders, drawInvocation(rt, "contender"))
		}
		ls.Kill = rapid.IntRange(0, 2).Draw(rt, "kill") == 0
		if rapid.IntRange(0, 5).Draw(rt, "tail") == 0 {
			// holder blocked while it reports its result (after the session)
			ls.Tail = true
			ls.Holder.Front = "do-approve"
			ls.Holder.Spell = ""
			ev.Class("c12:tail")
		}
		ls.Follower = drawInvocation(rt, "follower")
		if ls.Follower.Spell == "ipv6" {
			ls.Follower.Spell = "rel"
		}
		if rapid.IntRange(0, 5).Draw(rt, "stress") == 0 {
			ls.Stress = rapid.IntRange(2, 4).Draw(rt, "nStress")
			for len(ls.Contenders) < 3 {
				ls.Contenders = append(ls.Contenders, drawInvocation(rt, "contender"))
			}
			for i := range ls.Contenders {
				if ls.Contenders[i].Spell == "ipv6" {
					ls.Contenders[i].Spell = "abs"
				}
			}
		}
		c := ls.Case()
		props.Judge(rt, ev, oracleC12, c, func() any { return ls })
	})
}
