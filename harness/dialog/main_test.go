package dialog

import (
	"flag"
	"os"
	"strconv"
	"testing"

	"pgregory.net/rapid"
	"verif/harness/evid"
	"verif/harness/props"
	"verif/harness/sim/httpdev"
)

var replayFile = flag.String("replayfile", "", "re-evaluate the oracle on a saved case (no generator)")

func TestMain(m *testing.M) {
	flag.Parse()
	os.Exit(m.Run())
}

func TestReplay(t *testing.T) { props.ReplayMain(t, *replayFile) }

var faultKindsSSH = []string{"error", "garbage", "badecho", "close", "stall"}
var faultKindsHTTP = []string{"http500", "http403", "malformed", "status-error", "close", "stall"}

func drawFault(rt *rapid.T, fam string, maxPos int, allowStall bool) FaultSpec {
	kinds := faultKindsSSH
	if fam == "panos" || fam == "nsx" {
		kinds = faultKindsHTTP
		if fam == "panos" {
			kinds = append(append([]string{}, kinds...), "commit-fail")
		}
	} else if fam == "linux" {
		kinds = append(append([]string{}, kinds...), "status")
	}
	k := rapid.SampledFrom(kinds).Draw(rt, "faultKind")
	if k == "stall" && !allowStall {
		k = kinds[0]
	}
	return FaultSpec{Pos: rapid.IntRange(0, maxPos).Draw(rt, "faultPos"), Kind: k}
}

const ruleC11 = "5 families x {drc -C, do-approve compare} x generated pairs x interlock outcomes (marker missing, wrong hostname) x optionally one fault at a drawn dialogue position; the simulator's state hash must be identical before and after, and the received commands/requests must be read-only (ASA: 'terminal width 511' is the one permitted config-mode command); " +
	"non-trivial = the compare found a non-empty difference; distinct = hash of the scenario"

func TestC11(t *testing.T) {
	ev := evid.New("C11", ruleC11)
	props.Finish(t, ev)
	rapid.Check(t, func(rt *rapid.T) {
		fam := rapid.SampledFrom(families).Draw(rt, "family")
		sc := genBase(rt, fam)
		sc.Front = rapid.SampledFrom([]string{"drc", "do-approve"}).Draw(rt, "front")
		switch rapid.IntRange(0, 5).Draw(rt, "interlock") {
		case 0:
			sc.BannerText = "no marker here\n"
		case 1:
			sc.Hostname = "otherbox"
		}
		if rapid.IntRange(0, 2).Draw(rt, "withFault") == 0 {
			sc.Faults = []FaultSpec{drawFault(rt, fam, 25, rapid.IntRange(0, 9).Draw(rt, "stallOK") == 0)}
		}
		c := sc.Case("C11")
		props.Judge(rt, ev, oracleC11, c, func() any { return sc })
	})
}

const ruleC06 = "5 families x {drc, do-approve approve} x device hostname in {exact, other case, prefix, suffix, FQDN} x marker in {present, absent, different spelling, checkbanner not configured} x PAN-OS HA in {disabled, A/P active, A/P passive, A/A primary, A/A secondary, suspended, malformed} x a generated pending change; blocked combinations must send no change/prepare/save and end non-zero with a diagnostic, the others must run normally; " +
	"non-trivial = a blocking combination; distinct = hash of the scenario"

func TestC06(t *testing.T) {
	ev := evid.New("C06", ruleC06)
	props.Finish(t, ev)
	rapid.Check(t, func(rt *rapid.T) {
		fam := rapid.SampledFrom(families).Draw(rt, "family")
		sc := genBase(rt, fam)
		sc.Front = rapid.SampledFrom([]string{"drc", "do-approve"}).Draw(rt, "front")
		sc.Hostname = rapid.SampledFrom([]string{"router", "router", "router", "Router", "router1", "rout", "router.example.com", "otherbox"}).Draw(rt, "hostname")
		switch rapid.IntRange(0, 5).Draw(rt, "marker") {
		case 0:
			sc.BannerText = "*** authorized access only ***\n"
		case 1:
			sc.BannerText = "*** managed by netspoc-approve v2 (NETSPOC) ***\n" // other spelling: matches PAN-OS rule, not the case-sensitive regexp
		case 2:
			sc.CheckBanner = "" // not configured
			sc.BannerText = "*** authorized access only ***\n"
		}
		if fam == "nsx" {
			sc.Hostname = "router"
		}
		if fam == "panos" {
			sc.Members = []httpdev.PanMember{rapid.SampledFrom([]httpdev.PanMember{
				{}, {}, {HAEnabled: true, Mode: "Active-Passive", State: "active"},
				{HAEnabled: true, Mode: "Active-Passive", State: "passive"},
				{HAEnabled: true, Mode: "Active-Active", State: "active-primary"},
				{HAEnabled: true, Mode: "Active-Active", State: "active-secondary"},
				{HAEnabled: true, Mode: "Active-Passive", State: "suspended"},
				{BadReply: true},
			}).Draw(rt, "ha")}
		}
		c := sc.Case("C06")
		props.Judge(rt, ev, oracleC06, c, func() any { return sc })
	})
}

const ruleC09 = "generated scenario (family, device, target, front-end in {drc approve, drc -C, do-approve approve, do-approve compare}); a clean run fixes the number n of dialogue steps; then one fault (error text, unexpected output, garbled echo, connection close, stall, HTTP 5xx/4xx, malformed reply, status=error, failed commit job, non-zero exit status) at a drawn position k<n; " +
	"non-trivial = the fault lands on a step the clean run reaches, on a step whose answer must be verified, and the scenario has >= 2 change commands; distinct = hash of scenario+kind+position"

func TestC09(t *testing.T) {
	ev := evid.New("C09", ruleC09)
	props.Finish(t, ev)
	rapid.Check(t, func(rt *rapid.T) {
		fam := rapid.SampledFrom(families).Draw(rt, "family")
		sc := genBase(rt, fam)
		sc.Front = rapid.SampledFrom([]string{"drc", "do-approve"}).Draw(rt, "front")
		sc.Verb = rapid.SampledFrom([]string{"approve", "approve", "compare"}).Draw(rt, "verb")
		f := drawFault(rt, fam, 60, rapid.IntRange(0, 14).Draw(rt, "stallOK") == 0)
		c := sc.Case("C09")
		c.Params["kind"] = f.Kind
		c.Params["kpos"] = strconv.Itoa(f.Pos)
		props.Judge(rt, ev, oracleC09, c, func() any { return map[string]any{"scenario": sc, "kind": f.Kind, "kpos": f.Pos} })
	})
}
