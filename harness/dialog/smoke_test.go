package dialog

import (
	"encoding/json"
	"os"
	"path/filepath"
	"testing"

	"verif/harness/dlg"
	"verif/harness/tool"
)

func TestSmoke(t *testing.T) {
	if os.Getenv("VERIF_SMOKE") == "" {
		t.Skip("set VERIF_SMOKE=1")
	}
	for _, fam := range []string{"asa", "ios", "linux"} {
		t.Run(fam, func(t *testing.T) {
			e, err := dlg.NewEnv(dlg.Options{CheckBanner: "NetSPoC"})
			if err != nil {
				t.Fatal(err)
			}
			defer e.Close()
			var device, target, model string
			plan := map[string]any{"family": fam, "hostname": "router", "password": "secret",
				"banner": "*** managed by NetSPoC ***\n", "transcript": filepath.Join(e.Dir, "transcript"),
				"state_file": filepath.Join(e.Dir, "state.json"), "hostkey": true}
			switch fam {
			case "asa":
				model = "ASA"
				device = "interface Ethernet0/0\n nameif inside\naccess-list inside_in extended permit ip host 1.1.1.1 any4\naccess-list inside_in extended deny ip any4 any4\naccess-group inside_in in interface inside\n"
				target = "access-list inside_in extended permit ip host 2.2.2.2 any4\naccess-list inside_in extended permit ip host 1.1.1.1 any4\naccess-list inside_in extended deny ip any4 any4\naccess-group inside_in in interface inside\nroute inside 10.0.0.0 255.0.0.0 10.1.1.1\n"
				plan["enable_pass"] = true
			case "ios":
				model = "IOS"
				device = "ip access-list extended e0_in\n permit ip host 1.1.1.1 any\n deny ip any any\ninterface Ethernet0\n ip address 10.1.1.1 255.255.255.0\n ip access-group e0_in in\n"
				target = "ip access-list extended e0_in\n permit ip host 2.2.2.2 any\n permit ip host 1.1.1.1 any\n deny ip any any\ninterface Ethernet0\n ip address 10.1.1.1 255.255.255.0\n ip access-group e0_in in\nip route 10.0.0.0 255.0.0.0 10.1.1.2\n"
				plan["banners"] = []map[string]any{{"chg": 1, "form": "inside", "offset": 5, "kind": "0:02:00"}, {"chg": 2, "form": "after-prompt", "kind": "0:01:00"}}
			case "linux":
				model = "Linux"
				target = "ip route add 10.0.0.0/8 via 10.1.1.2\n"
				plan["routes"] = []string{"10.9.0.0/16 via 10.1.1.3", "10.1.1.0/24 dev eth0 proto kernel scope link src 10.1.1.1"}
				plan["iptables"] = ""
			}
			plan["device"] = device
			if _, err := e.NewPolicy(map[string]string{"router": target, "router.info": tool.Info(model)}); err != nil {
				t.Fatal(err)
			}
			sim, err := e.PlanFile("p", plan)
			if err != nil {
				t.Fatal(err)
			}
			r := e.Run(sim, "drc", "-L", e.LogDir, e.CodeFile("router"))
			t.Logf("exit=%d dur=%v\nstdout:\n%s\nstderr:\n%s", r.Exit, r.Dur, r.Stdout, r.Stderr)
			for _, ev := range dlg.ReadTranscript(filepath.Join(e.Dir, "transcript")) {
				b, _ := json.Marshal(ev)
				t.Logf("%s", b)
			}
			for p, c := range dlg.AllFiles(e.LogDir) {
				t.Logf("--- %s\n%s", p, c)
			}
			b, _ := os.ReadFile(filepath.Join(e.Dir, "state.json"))
			t.Logf("state: %s", b)
			if r.Exit != 0 {
				t.Fatalf("approve failed")
			}
		})
	}
}
