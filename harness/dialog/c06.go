package dialog

import (
	"strings"

	"verif/harness/props"
)

// c06Expectation says whether approve must be blocked for the scenario,
// and why, from the property text alone.
func c06Blocked(sc *Scenario) (bool, string) {
	switch sc.Family {
	case "nsx":
		// NSX has neither hostname nor marker in its protocol.
		return false, ""
	case "panos":
		if sc.Hostname != "router" {
			return true, "hostname"
		}
		if !strings.Contains(strings.ToLower(sc.BannerText), "netspoc") || sc.MarkerVsys == "first" {
			return true, "marker"
		}
		if len(sc.Members) > 0 {
			m := sc.Members[0]
			if m.BadReply {
				return true, "ha"
			}
			if m.HAEnabled {
				ok := m.Mode == "Active-Passive" && m.State == "active" || m.Mode == "Active-Active" && m.State == "active-primary"
				if !ok {
					return true, "ha"
				}
			}
		}
		return false, ""
	}
	if sc.Hostname != "router" {
		return true, "hostname"
	}
	if sc.CheckBanner != "" && !strings.Contains(sc.BannerText, sc.CheckBanner) {
		return true, "marker"
	}
	return false, ""
}

// panDevice rewrites hostname and display-name of a PAN-OS device text.
func panDevice(dev, hostname, display string) string {
	dev = strings.Replace(dev, "<hostname>router</hostname>", "<hostname>"+hostname+"</hostname>", 1)
	// every vsys display-name
	for {
		i := strings.Index(dev, " netspoc</display-name>")
		if i < 0 {
			break
		}
		j := strings.LastIndex(dev[:i], "<display-name>")
		dev = dev[:j] + "<display-name>" + display + "</display-name>" + dev[i+len(" netspoc</display-name>"):]
	}
	return dev
}

func hasDiagnostic(o *Outcome) bool {
	if strings.Contains(o.Run.Stderr, "ERROR>>>") || strings.Contains(o.Run.Stderr, "Error:") {
		return true
	}
	for name, c := range o.Files {
		if (strings.Contains(name, "/log/") || strings.HasPrefix(name, "drclog/")) && strings.Contains(c, "ERROR>>>") {
			return true
		}
	}
	return false
}

func oracleC06(c *props.Case) props.Verdict {
	sc, err := ScenarioOf(c)
	if err != nil {
		return props.DiscardV("bad scenario")
	}
	sc.Verb = "approve"
	if sc.Family == "panos" {
		// For PAN-OS the marker lives in the display-name, the hostname in the config.
		disp := "vsys managed by " + sc.BannerText
		if sc.MarkerVsys == "first" {
			// only the first vsys is not managed by Netspoc
			sc.Device = strings.Replace(sc.Device, " netspoc</display-name>", " of a customer</display-name>", 1)
			disp = "vsys managed by NetSPoC"
		}
		sc.Device = panDevice(sc.Device, sc.Hostname, strings.TrimSpace(strings.ReplaceAll(disp, "\n", " ")))
	}
	blocked, why := c06Blocked(sc)
	o := Execute(sc)
	if o.Harness != nil {
		return props.DiscardV("harness: " + o.Harness.Error())
	}
	if len(o.Lines) == 0 {
		return props.DiscardV("no dialogue")
	}
	classes := []string{"c06:" + sc.Family + ":" + sc.Front}
	if blocked {
		classes = append(classes, "c06:blocked:"+why)
		for _, l := range o.Lines {
			switch l.Class {
			case "change", "save", "prepare", "reload-arm":
				sig := sc.Family + ":approve-on-" + why + "-mismatch-sent-" + l.Class
				if sc.Family == "linux" && why == "marker" {
					sig = "linux:F5-missing-marker-not-enforced"
				}
				return props.FailV(sig, "approve must be blocked (%s), but the device received %q (%s)\n%s", why, l.Text, l.Class, o.Summary())
			}
		}
		if o.HashBefore != o.HashAfter {
			return props.FailV(sc.Family+":blocked-approve-changed-device", "approve must be blocked (%s), but the device state changed\n%s", why, o.Summary())
		}
		if o.Run.Exit == 0 {
			sig := sc.Family + ":blocked-approve-exit-0"
			if sc.Family == "linux" && why == "marker" {
				sig = "linux:F5-missing-marker-not-enforced"
			}
			return props.FailV(sig, "approve must be blocked (%s), but exit status is 0\n%s", why, o.Summary())
		}
		if !hasDiagnostic(o) {
			return props.FailV(sc.Family+":blocked-approve-no-diagnostic", "approve blocked (%s) without a diagnostic\n%s", why, o.Summary())
		}
		// Non-trivial: something was pending. A blocked run cannot tell;
		// the generator's pairs are non-empty in the vast majority.
		return props.PassV(true, classes...)
	}
	classes = append(classes, "c06:allowed")
	if sc.CheckBanner == "" {
		classes = append(classes, "c06:checkbanner-not-configured")
	}
	if o.TimeoutNoise() {
		return props.DiscardV("timeout-under-load")
	}
	if o.Run.Exit != 0 {
		// The pending change itself may be one the device refuses (C08's
		// business) or the pair may be rejected by the tool.
		total, _ := o.Changes()
		for _, l := range o.Lines {
			if l.Res == "refused" {
				return props.DiscardV("device-refused-command")
			}
		}
		if total == 0 && strings.Contains(o.allLogs()+o.Run.Stderr, "ERROR>>>") &&
			!strings.Contains(o.allLogs()+o.Run.Stderr, "banner") && !strings.Contains(o.allLogs()+o.Run.Stderr, "device name") &&
			!strings.Contains(o.allLogs()+o.Run.Stderr, "NetSPoC") && !strings.Contains(o.allLogs()+o.Run.Stderr, "panic") {
			return props.DiscardV("pair-rejected")
		}
		return props.FailV(sc.Family+":allowed-approve-failed", "approve must work (hostname right, marker present or not configured), but it failed\n%s", o.Summary())
	}
	total, accepted := o.Changes()
	if total != accepted {
		return props.DiscardV("device-refused-command")
	}
	return props.PassV(false, classes...)
}

func init() {
	for _, f := range families {
		props.Register("C06", f, oracleC06)
	}
}
