package dialog

import (
	"os"
	"testing"

	"pgregory.net/rapid"
)

func TestDbgConfigFault(t *testing.T) {
	if os.Getenv("VERIF_SMOKE") == "" {
		t.Skip()
	}
	rapid.Check(t, func(rt *rapid.T) {
		sc := genBase(rt, os.Getenv("DBG_FAM"))
		o := Execute(sc)
		pos := -1
		for _, l := range o.Lines {
			if l.Text == "write term" || l.Text == "sh run" || l.Text == "ip route show" {
				pos = l.N
			}
		}
		sc.Faults = []FaultSpec{{Pos: pos, Kind: os.Getenv("DBG_KIND")}}
		o = Execute(sc)
		t.Logf("%s", o.Summary())
	})
}
