package dialog

import (
	"strconv"
	"strings"

	"verif/harness/props"
	"verif/harness/tool"
)

// strictReadonly: read-only dialogue steps whose answer the tool must
// verify (login, device name, configuration retrieval). Free-form
// informational commands (version, pager, terminal settings) are not
// required to stop the run.
func strictStep(fam string, l Line) bool {
	switch l.Class {
	case "login", "change", "save", "reload-arm":
		return true
	}
	switch fam {
	case "asa":
		return l.Text == "write term" || l.Text == "show hostname" || l.Text == "enable"
	case "ios":
		return l.Text == "sh run" || l.Text == "enable"
	case "linux":
		// The answer of the marker grep is not enforced on Linux at all
		// (known finding F5 of C06), so it is not a step of its own here.
		// "echo $?" asks for the exit status of the change command before it.
		return l.Text == "hostname -s" || l.Text == "iptables-save" || l.Text == "ip route show" ||
			l.Text == "PS1=router#" || l.Text == "echo $?"
	case "panos", "nsx":
		return true
	}
	return false
}

// joinedMap: first half of a joined line -> its possible second halves.
type joinedMap map[string][]string

func (m joinedMap) has(first, second string) bool {
	for _, x := range m[first] {
		if x == second {
			return true
		}
	}
	return false
}

// joinedSecond maps the first half of every joined line of the planned
// script to its second half (sent in the same packet, hence allowed to
// arrive after a fault on the first half).
func joinedSecond(sc *Scenario) joinedMap {
	return joinedFor(sc, sc.Device)
}

// joinedOf uses the configuration text that the tool really read in a run
// (its .config log), which may be spelled differently from sc.Device.
func joinedOf(sc *Scenario, o *Outcome) joinedMap {
	m := joinedFor(sc, sc.Device)
	if o == nil {
		return m
	}
	if o.ConfigSent != "" {
		for k, l := range joinedFor(sc, o.ConfigSent) {
			m[k] = append(m[k], l...)
		}
	}
	for _, name := range o.FileNames() {
		if strings.HasSuffix(name, "router.config") && o.Files[name] != "" {
			for k, l := range joinedFor(sc, o.Files[name]) {
				m[k] = append(m[k], l...)
			}
		}
	}
	return m
}

func joinedFor(sc *Scenario, device string) joinedMap {
	m := joinedMap{}
	if sc.Family != "asa" && sc.Family != "ios" {
		return m
	}
	files := tool.Files{"device": device, "code/router.info": tool.Info(modelName(sc.Family))}
	for k, v := range sc.Target {
		files["code/"+k] = v
	}
	res := tool.CompareStd(files)
	for _, st := range tool.CiscoScript(res.Stdout) {
		if len(st) == 2 {
			m[st[0]] = append(m[st[0]], st[1])
		}
	}
	return m
}

// linuxJoined: "ip route del D via X" directly followed by "ip route add D via Y".
func linuxJoined(a, b string) bool {
	fa, fb := strings.Fields(a), strings.Fields(b)
	return len(fa) >= 4 && len(fb) >= 4 && fa[0] == "ip" && fa[1] == "route" && fa[2] == "del" &&
		fb[0] == "ip" && fb[1] == "route" && fb[2] == "add" && normDst(fa[3]) == normDst(fb[3])
}

func normDst(d string) string {
	if d == "default" {
		return "0.0.0.0/0"
	}
	return d
}

func lastHistoryLine(h string) string {
	lines := strings.Split(strings.TrimSpace(h), "\n")
	return lines[len(lines)-1]
}

// oracleC09: any device-side failure stops the run and is reported
// truthfully. Params: scenario; "kpos" (position, taken modulo the length
// of a clean run) and "kind".
func oracleC09(c *props.Case) (verdict props.Verdict) {
	// Known finding F41: Linux sends "ip route del ..." and "ip route add ..."
	// in one packet and asks for the exit status once, so a first command
	// that fails without any output goes unnoticed.
	f41 := false
	defer func() {
		if f41 && verdict.Status == props.Fail {
			verdict.Sig = "linux:F41-exit-status-of-first-joined-command-not-checked"
		}
	}()
	sc, err := ScenarioOf(c)
	if err != nil {
		return props.DiscardV("bad scenario")
	}
	kind := c.Params["kind"]
	kpos, _ := strconv.Atoi(c.Params["kpos"])
	clean := *sc
	clean.Faults = nil
	oc := Execute(&clean)
	if oc.Harness != nil || len(oc.Lines) == 0 {
		return props.DiscardV("harness")
	}
	if oc.TimeoutNoise() {
		return props.DiscardV("timeout-under-load")
	}
	classes := []string{"c09:" + sc.Family + ":" + sc.Front + ":" + sc.Verb}
	// Converse clause on the clean run: OK is recorded only if every
	// command was accepted and the save was confirmed.
	if v := checkOK(sc, oc); v != nil {
		return *v
	}
	if kind == "" {
		return props.PassV(false, append(classes, "c09:clean-only")...)
	}
	n := len(oc.Lines)
	pos := kpos % n
	// "target" concentrates the fault on one kind of step of the clean run:
	// any change, the first / second half of a two-command packet, the save.
	if tgt := c.Params["target"]; tgt != "" {
		jm := joinedOf(sc, oc)
		var cand []int
		for i, l := range oc.Lines {
			switch tgt {
			case "change":
				if l.Class == "change" {
					cand = append(cand, i)
				}
			case "save":
				if l.Class == "save" {
					cand = append(cand, i)
				}
			case "echo":
				// the query for the exit status of a change command
				if l.Text == "echo $?" && i > 0 && oc.Lines[i-1].Class == "change" {
					cand = append(cand, i)
				}
			case "retrieve":
				// the step that fetches the configuration
				switch l.Text {
				case "sh run", "write term", "iptables-save", "ip route show":
					cand = append(cand, i)
				default:
					if l.Class == "readonly" && (strings.Contains(l.Text, "action=get") || strings.HasPrefix(l.Text, "GET ")) {
						cand = append(cand, i)
					}
				}
			case "joined1":
				if l.Class == "change" && i+1 < n && (jm.has(l.Text, oc.Lines[i+1].Text) || linuxJoined(l.Text, oc.Lines[i+1].Text)) {
					cand = append(cand, i)
				}
			case "joined2":
				if l.Class == "change" && i > 0 && (jm.has(oc.Lines[i-1].Text, l.Text) || linuxJoined(oc.Lines[i-1].Text, l.Text)) {
					cand = append(cand, i)
				}
			}
		}
		if len(cand) == 0 && (tgt == "joined1" || tgt == "joined2") {
			tgt = "change"
			for i, l := range oc.Lines {
				if l.Class == "change" {
					cand = append(cand, i)
				}
			}
		}
		if len(cand) > 0 {
			pos = cand[kpos%len(cand)]
			classes = append(classes, "c09:target:"+tgt)
		}
	}
	sc.Faults = []FaultSpec{{Pos: oc.Lines[pos].N, Kind: kind}}
	o := Execute(sc)
	if o.Harness != nil {
		return props.DiscardV("harness")
	}
	if o.FaultAt < 0 {
		return props.Verdict{Status: props.Discard, Reason: "fault-not-reached", Classes: append(classes, "c09:not-reached:"+sc.Family+":"+oc.Lines[pos].Class+":"+kind)}
	}
	fl := o.Lines[o.FaultAt]
	// The dialogue is deterministic up to the fault: the faulted step is
	// the step of the clean run at the same position, where its role
	// (change, save, ...) is known from the device's answer.
	if o.FaultAt < len(oc.Lines) && oc.Lines[o.FaultAt].Text == fl.Text {
		fl.Class = oc.Lines[o.FaultAt].Class
	}
	classes = append(classes, "c09:kind:"+kind, "c09:phase:"+fl.Class)
	// Faults without an observable effect are no faults.
	// The save step and the arming of the reload are verified through the
	// device's confirmation ([OK], [confirm]), which a garbled echo line in
	// front of it does not take away.
	if kind == "badecho" && (fl.Class == "login" || fl.Class == "save" || fl.Class == "reload-arm" || len(fl.Text) <= 1) {
		return props.Verdict{Status: props.Discard, Reason: "fault-without-effect", Classes: classes}
	}
	if kind == "commit-fail" && fl.Class != "save" && fl.Class != "poll" {
		return props.Verdict{Status: props.Discard, Reason: "fault-without-effect", Classes: classes}
	}
	if kind == "status" && fl.Class != "change" && fl.Class != "save" {
		return props.Verdict{Status: props.Discard, Reason: "fault-without-effect", Classes: classes}
	}
	// NSX reports the outcome of a modifying request through the HTTP
	// status alone; a 200 answer with an unexpected body is not a failure
	// the protocol knows.
	if sc.Family == "nsx" && kind == "malformed" && fl.Class == "change" {
		return props.Verdict{Status: props.Discard, Reason: "fault-without-effect", Classes: classes}
	}
	// Go's HTTP transport silently repeats an idempotent request whose
	// connection was closed before any answer; then the fault had no effect.
	if kind == "close" && o.FaultAt+1 < len(o.Lines) && o.Lines[o.FaultAt+1].Text == fl.Text &&
		!strings.HasPrefix(o.Lines[o.FaultAt+1].Res, "fault:") {
		return props.Verdict{Status: props.Discard, Reason: "transport-retried", Classes: classes}
	}
	// Text shown during login is banner text; only transport faults count there.
	if (fl.Class == "login" || fl.Text == "enable" || fl.Text == "PS1=router#") && (kind == "error" || kind == "garbage" || kind == "badecho" || kind == "warnerror") {
		return props.Verdict{Status: props.Discard, Reason: "fault-on-freeform-step", Classes: classes}
	}
	if !strictStep(sc.Family, fl) {
		return props.Verdict{Status: props.Discard, Reason: "fault-on-freeform-step", Classes: classes}
	}
	f41 = sc.Family == "linux" && kind == "status" && o.FaultAt+1 < len(o.Lines) && linuxJoined(fl.Text, o.Lines[o.FaultAt+1].Text)
	if v := checkOK(sc, o); v != nil {
		return *v
	}
	joined := joinedOf(sc, oc)
	sigBase := sc.Family + ":after-" + kind + "-at-" + fl.Class
	for i := o.FaultAt + 1; i < len(o.Lines); i++ {
		l := o.Lines[i]
		switch l.Class {
		case "change", "prepare", "reload-arm":
			if i == o.FaultAt+1 && joined.has(fl.Text, l.Text) && l.Class == "change" {
				continue // second half of the same packet
			}
			if i == o.FaultAt+1 && sc.Family == "linux" && linuxJoined(fl.Text, l.Text) {
				continue // replacement of a route: del and add travel in one packet
			}
			return props.FailV(sigBase+":sent-"+l.Class, "after the fault (%s at %q) the device still received %q (%s)\n%s", kind, fl.Text, l.Text, l.Class, o.Summary())
		case "save":
			if sc.Family == "panos" && kind == "commit-fail" {
				continue
			}
			return props.FailV(sigBase+":saved", "after the fault (%s at %q) the configuration was saved/committed (%q)\n%s", kind, fl.Text, l.Text, o.Summary())
		}
	}
	// A compare that only failed to log in / read is still a failure.
	if o.Run.Exit == 0 {
		return props.FailV(sigBase+":exit-0", "fault (%s at %q) but exit status 0\n%s", kind, fl.Text, o.Summary())
	}
	if sc.Front == "do-approve" {
		if sc.Verb == "approve" {
			if !strings.Contains(o.Status, `"approve":{"result":"FAILED"`) {
				return props.FailV(sigBase+":status-not-failed", "fault during approve but status file does not say FAILED\n%s", o.Summary())
			}
		} else if !strings.Contains(o.Status, `"compare":{"result":"DIFF"`) {
			return props.FailV(sigBase+":status-not-diff", "fault during compare but status file does not say DIFF\n%s", o.Summary())
		}
		if !strings.HasSuffix(lastHistoryLine(o.History), "END: FAILED") {
			return props.FailV(sigBase+":history-not-failed", "fault but history does not end with END: FAILED\n%s", o.Summary())
		}
	}
	total, _ := oc.Changes()
	return props.PassV(total >= 2, classes...)
}

// checkOK: status OK => every change accepted and save confirmed.
func checkOK(sc *Scenario, o *Outcome) *props.Verdict {
	if sc.Front != "do-approve" || sc.Verb != "approve" {
		return nil
	}
	if !strings.Contains(o.Status, `"approve":{"result":"OK"`) {
		return nil
	}
	total, accepted := o.Changes()
	if total != accepted {
		v := props.FailV(sc.Family+":ok-with-rejected-command", "status OK although the device did not accept every command\n%s", o.Summary())
		return &v
	}
	if total > 0 && sc.Family != "nsx" && sc.Family != "linux" && o.Saves() == 0 {
		v := props.FailV(sc.Family+":ok-without-save", "status OK although no save/commit was confirmed\n%s", o.Summary())
		return &v
	}
	for i, l := range o.Lines {
		if l.Res == "fault:close" && i+1 < len(o.Lines) && o.Lines[i+1].Text == l.Text {
			continue // repeated by the HTTP transport
		}
		if sc.Family == "nsx" && l.Res == "fault:malformed" && l.Class == "change" {
			continue
		}
		if strings.HasPrefix(l.Res, "fault:") && strictStep(sc.Family, l) &&
			!(l.Res == "fault:badecho" && (l.Class == "login" || l.Class == "save" || l.Class == "reload-arm" || len(l.Text) <= 1)) {
			v := props.FailV(sc.Family+":ok-despite-fault", "status OK although %q was answered with %s\n%s", l.Text, l.Res, o.Summary())
			return &v
		}
	}
	return nil
}

func init() {
	for _, f := range families {
		props.Register("C09", f, oracleC09)
	}
}
