package dialog

import (
	"fmt"
	"strings"

	"verif/harness/props"
)

func changeTrace(o *Outcome) string {
	var l []string
	for _, x := range o.Lines {
		if x.Class == "change" {
			l = append(l, x.Res+" "+x.Text)
		}
	}
	return strings.Join(l, "\n")
}

// reloadOrder checks the reload guard from the ordered transcript.
func reloadOrder(sc *Scenario, o *Outcome) *props.Verdict {
	firstChg, lastChg, arm, cancel, save := -1, -1, -1, -1, -1
	allAccepted := true
	for i, l := range o.Lines {
		switch l.Class {
		case "change":
			if firstChg < 0 {
				firstChg = i
			}
			lastChg = i
			if l.Res != "accepted" {
				allAccepted = false
			}
		case "reload-arm":
			if arm < 0 {
				arm = i
			}
		case "reload-cancel":
			cancel = i
		case "save":
			save = i
		}
	}
	fail := func(sig, format string, a ...any) *props.Verdict {
		v := props.FailV("ios:"+sig, format+"\n%s", append(a, o.Summary())...)
		return &v
	}
	if firstChg >= 0 {
		if arm < 0 || arm > firstChg {
			return fail("change-before-reload-armed", "a change command was sent before 'reload in N' was scheduled")
		}
		if cancel >= 0 && cancel < lastChg {
			return fail("change-after-reload-cancel", "a change command was sent after 'reload cancel'")
		}
		if o.Run.Exit == 0 && cancel < 0 {
			return fail("reload-not-cancelled", "successful run without 'reload cancel'")
		}
	}
	if save >= 0 {
		if firstChg >= 0 && (cancel < 0 || save < cancel) {
			return fail("save-before-cancel", "'write memory' was sent before the reload was cancelled")
		}
		if !allAccepted {
			return fail("save-after-rejected-change", "'write memory' although a change was not accepted")
		}
	}
	if o.Run.Exit == 0 && o.ReloadLeft {
		return fail("reload-left-pending", "successful run leaves a reload pending")
	}
	return nil
}

// oracleC15: IOS reload guard and banner robustness (metamorphic against
// the same run without banners).
func oracleC15(c *props.Case) (verdict props.Verdict) {
	knownSig := ""
	defer func() {
		if knownSig != "" && verdict.Status == props.Fail {
			verdict.Sig = knownSig
		}
	}()
	sc, err := ScenarioOf(c)
	if err != nil {
		return props.DiscardV("bad scenario")
	}
	// Clean run: fixes the number of change commands, to which banner and
	// fault positions refer.
	clean := *sc
	clean.Banners, clean.Faults = nil, nil
	ref := Execute(&clean)
	if ref.Harness != nil || len(ref.Lines) == 0 {
		return props.DiscardV("harness")
	}
	if ref.TimeoutNoise() {
		return props.DiscardV("timeout-under-load")
	}
	if v := reloadOrder(sc, ref); v != nil {
		return *v
	}
	nChg, _ := ref.Changes()
	if len(sc.Banners) == 0 || nChg == 0 {
		return props.PassV(false, "c15:no-banner")
	}
	// Optionally the device rejects one change command (fault indexed by
	// change position): the run with banners must then fail in the same way
	// as the run without.
	faultChg := -1
	if len(sc.Faults) > 0 && sc.Faults[0].Chg != nil {
		faultChg = *sc.Faults[0].Chg % nChg
		if c.Params["rel"] == "-1j" {
			// the rejected command is the second half of a two-command packet
			jm := joinedOf(sc, ref)
			var cand []int
			idx := -1
			for i, l := range ref.Lines {
				if l.Class != "change" {
					continue
				}
				idx++
				if i > 0 && ref.Lines[i-1].Class == "change" && jm.has(ref.Lines[i-1].Text, l.Text) {
					cand = append(cand, idx)
				}
			}
			if len(cand) > 0 {
				faultChg = cand[*sc.Faults[0].Chg%len(cand)]
			}
		}
		sc.Faults = []FaultSpec{{Kind: sc.Faults[0].Kind, Chg: &faultChg}}
		plain := *sc
		plain.Banners = nil
		ref = Execute(&plain)
		if ref.Harness != nil || len(ref.Lines) == 0 {
			return props.DiscardV("harness")
		}
		if ref.TimeoutNoise() {
			return props.DiscardV("timeout-under-load")
		}
		if v := reloadOrder(sc, ref); v != nil {
			return *v
		}
	} else {
		sc.Faults = nil
	}
	// place banners on existing change commands
	// (at most one banner per command: the device prints the 2:00 and the
	// 1:00 warning a minute apart)
	var bl []BannerSpec
	seen := map[int]bool{}
	for i, b := range sc.Banners {
		if b.At != "" {
			bl = append(bl, b)
			continue
		}
		b.Chg = b.Chg % nChg
		if i == 0 && faultChg >= 0 {
			// "rel": first banner on the rejected command or the one before it
			switch c.Params["rel"] {
			case "0":
				b.Chg = faultChg
			case "-1", "-1j":
				if faultChg > 0 {
					b.Chg = faultChg - 1
				}
			}
		}
		if b.Chg > faultChg && faultChg >= 0 {
			continue // never reached
		}
		if !seen[b.Chg] {
			seen[b.Chg] = true
			bl = append(bl, b)
		}
	}
	if len(bl) == 0 {
		return props.PassV(false, "c15:no-banner")
	}
	sc.Banners = bl
	o := Execute(sc)
	if o.Harness != nil {
		return props.DiscardV("harness")
	}
	if c15Debug != nil {
		c15Debug(sc, ref, o)
	}
	if o.TimeoutNoise() {
		// A time-out may be load noise or the effect of the banner; the
		// reference run was fine, so run once more: only a repeated
		// time-out counts.
		o = Execute(sc)
		if o.Harness != nil {
			return props.DiscardV("harness")
		}
	}
	// Known findings F39 / F42 are recognised by the shape of the scenario
	// (a banner at the first of two commands sent in one packet) together
	// with their symptom (the run with banners loses synchronisation: time-out,
	// unexpected echo, or the leftover of an answer taken for output).
	all := o.Run.Stdout + o.Run.Stderr
	symptom := o.Run.Exit != 0 && (strings.Contains(all, "timer expired") || strings.Contains(all, "unexpected echo") || strings.Contains(all, "Got unexpected output"))
	if symptom {
		switch {
		case isF39(sc, ref):
			knownSig = sigF39
		case isF42(sc, ref):
			knownSig = sigF42
		case isF44(sc):
			knownSig = sigF44
		}
	}
	f39 := knownSig != ""
	if v := reloadOrder(sc, o); v != nil {
		if f39 {
			v.Sig = knownSig
		}
		return *v
	}
	var classes []string
	if faultChg >= 0 {
		classes = append(classes, "c15:with-rejected-command")
		for _, b := range sc.Banners {
			if b.Chg == faultChg-1 && b.Kind == "0:01:00" {
				classes = append(classes, "c15:one-minute-banner-before-rejected-command")
			}
		}
	}
	for _, b := range sc.Banners {
		if b.At != "" {
			classes = append(classes, "c15:at-"+b.At)
		}
		classes = append(classes, "c15:"+b.Form+":"+b.Kind)
		if b.Split {
			classes = append(classes, "c15:split-write")
		}
	}
	ctx := func() string {
		return fmt.Sprintf("banners: %+v\n=== with banners\n%s\n=== without banners\n%s", sc.Banners, o.Summary(), ref.Summary())
	}
	if o.Run.Exit != ref.Run.Exit && f39 {
		return props.FailV(knownSig, "exit status %d with banners, %d without\n%s", o.Run.Exit, ref.Run.Exit, ctx())
	}
	if o.Run.Exit != ref.Run.Exit {
		return props.FailV("ios:banner-changes-exit-status", "exit status %d with banners, %d without\n%s", o.Run.Exit, ref.Run.Exit, ctx())
	}
	if changeTrace(o) != changeTrace(ref) {
		return props.FailV("ios:banner-changes-commands", "the accepted change commands differ with banners\n%s", ctx())
	}
	if o.Running != ref.Running || o.Saved != ref.Saved {
		return props.FailV("ios:banner-changes-result", "final running/startup configuration differs with banners\n%s", ctx())
	}
	// a 0:01:00 banner must be answered by re-arming before the next change
	joined := joinedOf(sc, ref)
	idx := -1
	for i, l := range o.Lines {
		if l.Class == "change" {
			idx++
			for _, b := range sc.Banners {
				if b.At == "" && b.Kind == "0:01:00" && b.Chg == idx {
					rearmed := false
					for k, m := range o.Lines[i+1:] {
						if m.Class == "reload-arm" {
							rearmed = true
							break
						}
						if m.Class == "change" {
							if k == 0 && joined.has(l.Text, m.Text) {
								continue // second half of the same packet, already in flight
							}
							break
						}
						if m.Class == "reload-cancel" {
							rearmed = true // nothing left to protect
							break
						}
					}
					if !rearmed {
						return props.FailV("ios:one-minute-banner-not-rearmed", "0:01:00 banner at change %d not followed by 'do reload in N' before the next change\n%s", idx, ctx())
					}
				}
			}
		}
	}
	return props.PassV(true, classes...)
}

// c15Debug, if set (debug test only), sees both runs of the oracle.
var c15Debug func(sc *Scenario, ref, o *Outcome)

const sigF39 = "ios:F39-banner-after-echo-of-first-joined-command-drains-second-answer"

// isF39 recognises the scenario shape of known finding F39: a banner
// directly behind the complete echo of the first of two commands that are
// sent in one packet. The tool then probes for an extra prompt with
// time-out 0, which drains whatever the expect buffer holds - possibly the
// (partial) answer to the second command.
func isF39(sc *Scenario, ref *Outcome) bool {
	joined := joinedOf(sc, ref)
	idx := -1
	for _, l := range ref.Lines {
		if l.Class != "change" {
			continue
		}
		idx++
		if len(joined[l.Text]) == 0 {
			continue
		}
		for _, b := range sc.Banners {
			if b.Chg == idx && (b.Form == "after" || b.Form == "after-prompt" || b.Form == "inside" && b.Offset >= len(l.Text)) {
				return true
			}
		}
	}
	return false
}

const sigF44 = "ios:F44-banner-with-fresh-prompt-at-framing-command-desynchronises-dialogue"

// isF44 recognises the shape of known finding F44: a banner followed by a
// fresh prompt in front of the echo of one of the two commands that frame
// the guarded block ("configure terminal" behind "reload in", "end" in front
// of "reload cancel"). These are sent with SendCmd, which waits for one
// prompt and knows nothing of banners: it takes the fresh prompt for the
// answer, and the real echo and answer are taken for the output of the next
// command.
func isF44(sc *Scenario) bool {
	for _, b := range sc.Banners {
		if b.At != "" && (b.Form == "before" || b.Form == "after-prompt") {
			return true
		}
	}
	return false
}

const sigF42 = "ios:F42-banner-before-first-joined-command-extra-prompt-wait-swallows-second-answer"

// isF42 recognises the shape of known finding F42: a banner in front of the
// echo of the first of two commands sent in one packet. The tool then waits
// for "another prompt" with a pattern anchored at the end of the received
// text (`[#] ?$`); the echo and prompt of the second command may already
// follow, so the wait consumes both answers and the second check times out.
func isF42(sc *Scenario, ref *Outcome) bool {
	joined := joinedOf(sc, ref)
	idx := -1
	for _, l := range ref.Lines {
		if l.Class != "change" {
			continue
		}
		idx++
		if len(joined[l.Text]) == 0 {
			continue
		}
		for _, b := range sc.Banners {
			if b.Chg == idx && b.Form == "before" {
				return true
			}
		}
	}
	return false
}

func init() { props.Register("C15", "ios", oracleC15) }
