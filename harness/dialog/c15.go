package dialog

import (
	"fmt"
	"strings"

	"verif/harness/props"
)

func changeTrace(o *Outcome) string {
	var l []string
	for _, x := range o.Lines {
		if x.Class == "change" {
			l = append(l, x.Res+" "+x.Text)
		}
	}
	return strings.Join(l, "\n")
}

// reloadOrder checks the reload guard from the ordered transcript.
func reloadOrder(sc *Scenario, o *Outcome) *props.Verdict {
	firstChg, lastChg, arm, cancel, save := -1, -1, -1, -1, -1
	allAccepted := true
	for i, l := range o.Lines {
		switch l.Class {
		case "change":
			if firstChg < 0 {
				firstChg = i
			}
			lastChg = i
			if l.Res != "accepted" {
				allAccepted = false
			}
		case "reload-arm":
			if arm < 0 {
				arm = i
			}
		case "reload-cancel":
			cancel = i
		case "save":
			save = i
		}
	}
	fail := func(sig, format string, a ...any) *props.Verdict {
		v := props.FailV("ios:"+sig, format+"\n%s", append(a, o.Summary())...)
		return &v
	}
	if firstChg >= 0 {
		if arm < 0 || arm > firstChg {
			return fail("change-before-reload-armed", "a change command was sent before 'reload in N' was scheduled")
		}
		if cancel >= 0 && cancel < lastChg {
			return fail("change-after-reload-cancel", "a change command was sent after 'reload cancel'")
		}
		if o.Run.Exit == 0 && cancel < 0 {
			return fail("reload-not-cancelled", "successful run without 'reload cancel'")
		}
	}
	if save >= 0 {
		if firstChg >= 0 && (cancel < 0 || save < cancel) {
			return fail("save-before-cancel", "'write memory' was sent before the reload was cancelled")
		}
		if !allAccepted {
			return fail("save-after-rejected-change", "'write memory' although a change was not accepted")
		}
	}
	if o.Run.Exit == 0 && o.ReloadLeft {
		return fail("reload-left-pending", "successful run leaves a reload pending")
	}
	return nil
}

// oracleC15: IOS reload guard and banner robustness (metamorphic against
// the same run without banners).
func oracleC15(c *props.Case) props.Verdict {
	sc, err := ScenarioOf(c)
	if err != nil {
		return props.DiscardV("bad scenario")
	}
	plain := *sc
	plain.Banners = nil
	ref := Execute(&plain)
	if ref.Harness != nil || len(ref.Lines) == 0 {
		return props.DiscardV("harness")
	}
	if ref.TimeoutNoise() {
		return props.DiscardV("timeout-under-load")
	}
	if v := reloadOrder(sc, ref); v != nil {
		return *v
	}
	nChg, _ := ref.Changes()
	if len(sc.Banners) == 0 || nChg == 0 {
		return props.PassV(false, "c15:no-banner")
	}
	// place banners on existing change commands
	// (at most one banner per command: the device prints the 2:00 and the
	// 1:00 warning a minute apart)
	var bl []BannerSpec
	seen := map[int]bool{}
	for _, b := range sc.Banners {
		b.Chg = b.Chg % nChg
		if !seen[b.Chg] {
			seen[b.Chg] = true
			bl = append(bl, b)
		}
	}
	sc.Banners = bl
	o := Execute(sc)
	if o.Harness != nil {
		return props.DiscardV("harness")
	}
	if o.TimeoutNoise() {
		// A time-out may be load noise or the effect of the banner; the
		// reference run was fine, so run once more: only a repeated
		// time-out counts.
		o = Execute(sc)
		if o.Harness != nil {
			return props.DiscardV("harness")
		}
	}
	f39 := isF39(sc, ref)
	if v := reloadOrder(sc, o); v != nil {
		if f39 {
			v.Sig = sigF39
		}
		return *v
	}
	var classes []string
	for _, b := range sc.Banners {
		classes = append(classes, "c15:"+b.Form+":"+b.Kind)
		if b.Split {
			classes = append(classes, "c15:split-write")
		}
	}
	ctx := func() string {
		return fmt.Sprintf("banners: %+v\n=== with banners\n%s\n=== without banners\n%s", sc.Banners, o.Summary(), ref.Summary())
	}
	if o.Run.Exit != ref.Run.Exit && f39 {
		return props.FailV(sigF39, "exit status %d with banners, %d without\n%s", o.Run.Exit, ref.Run.Exit, ctx())
	}
	if o.Run.Exit != ref.Run.Exit {
		return props.FailV("ios:banner-changes-exit-status", "exit status %d with banners, %d without\n%s", o.Run.Exit, ref.Run.Exit, ctx())
	}
	if changeTrace(o) != changeTrace(ref) {
		return props.FailV("ios:banner-changes-commands", "the accepted change commands differ with banners\n%s", ctx())
	}
	if o.Running != ref.Running || o.Saved != ref.Saved {
		return props.FailV("ios:banner-changes-result", "final running/startup configuration differs with banners\n%s", ctx())
	}
	// a 0:01:00 banner must be answered by re-arming before the next change
	joined := joinedOf(sc, ref)
	idx := -1
	for i, l := range o.Lines {
		if l.Class == "change" {
			idx++
			for _, b := range sc.Banners {
				if b.Kind == "0:01:00" && b.Chg == idx {
					rearmed := false
					for k, m := range o.Lines[i+1:] {
						if m.Class == "reload-arm" {
							rearmed = true
							break
						}
						if m.Class == "change" {
							if k == 0 && joined.has(l.Text, m.Text) {
								continue // second half of the same packet, already in flight
							}
							break
						}
						if m.Class == "reload-cancel" {
							rearmed = true // nothing left to protect
							break
						}
					}
					if !rearmed {
						return props.FailV("ios:one-minute-banner-not-rearmed", "0:01:00 banner at change %d not followed by 'do reload in N' before the next change\n%s", idx, ctx())
					}
				}
			}
		}
	}
	return props.PassV(true, classes...)
}

const sigF39 = "ios:F39-banner-after-echo-of-first-joined-command-drains-second-answer"

// isF39 recognises the scenario shape of known finding F39: a banner
// directly behind the complete echo of the first of two commands that are
// sent in one packet. The tool then probes for an extra prompt with
// time-out 0, which drains whatever the expect buffer holds - possibly the
// (partial) answer to the second command.
func isF39(sc *Scenario, ref *Outcome) bool {
	joined := joinedOf(sc, ref)
	idx := -1
	for _, l := range ref.Lines {
		if l.Class != "change" {
			continue
		}
		idx++
		if len(joined[l.Text]) == 0 {
			continue
		}
		for _, b := range sc.Banners {
			if b.Chg == idx && (b.Form == "after" || b.Form == "after-prompt" || b.Form == "inside" && b.Offset >= len(l.Text)) {
				return true
			}
		}
	}
	return false
}

func init() { props.Register("C15", "ios", oracleC15) }
