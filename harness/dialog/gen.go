package dialog

import (
	"fmt"
	"strings"

	"pgregory.net/rapid"
	"verif/harness/asam"
	"verif/harness/iosm"
	"verif/harness/nsxm"
	"verif/harness/panm"
	"verif/harness/sim/httpdev"
)

var families = []string{"asa", "ios", "linux", "panos", "nsx"}

const marker = "managed by NetSPoC"

// genBase draws a scenario with a non-trivial pending change where
// possible: right hostname, marker present, checkbanner configured.
func genBase(rt *rapid.T, fam string) *Scenario {
	sc := &Scenario{Family: fam, Front: "drc", Verb: "approve", Hostname: "router",
		BannerText: "***********\n** " + marker + " **\n***********\n", CheckBanner: "NetSPoC", Password: "secret", Target: map[string]string{}}
	// Invocation shape of drc (ignored by the do-approve front-end).
	sc.NoLogDir = rapid.IntRange(0, 3).Draw(rt, "noLogDir") == 0
	sc.Quiet = rapid.IntRange(0, 3).Draw(rt, "quiet") == 0
	switch fam {
	case "asa":
		p := asam.GenPair(rt, asam.GenOpts{MaxLines: 4})
		sc.Device = p.A.Print(p.Sp)
		sc.Target["router"] = p.B.NetspocText()
		sc.HostKey = rapid.Bool().Draw(rt, "hostkey")
		sc.EnablePass = rapid.Bool().Draw(rt, "enablePass")
	case "ios":
		p := iosm.GenPair(rt, iosm.GenOpts{MaxLines: 4, RoutingOnlyIn: 4})
		sc.Device = p.A.Print(p.Sp)
		sc.Target["router"] = p.B.NetspocText()
		sc.HostKey = rapid.Bool().Draw(rt, "hostkey")
		sc.Modified = rapid.Bool().Draw(rt, "modified")
	case "linux":
		dsts := []string{"10.0.0.0/8", "10.3.0.0/16", "10.3.3.0/24", "192.168.0.0/16", "default"}
		hops := []string{"10.1.1.2", "10.1.1.3"}
		seen := map[string]bool{}
		n := rapid.IntRange(0, 3).Draw(rt, "nDevRoutes")
		for i := 0; i < n; i++ {
			d := rapid.SampledFrom(dsts).Draw(rt, fmt.Sprintf("dd%d", i))
			if seen[d] {
				continue
			}
			seen[d] = true
			sc.Routes = append(sc.Routes, d+" via "+rapid.SampledFrom(hops).Draw(rt, fmt.Sprintf("dh%d", i)))
		}
		sc.Routes = append(sc.Routes, "10.1.1.0/24 dev eth0 proto kernel scope link src 10.1.1.1")
		var tgt []string
		seenT := map[string]bool{}
		m := rapid.IntRange(1, 3).Draw(rt, "nTgtRoutes")
		for i := 0; i < m; i++ {
			d := rapid.SampledFrom(dsts).Draw(rt, fmt.Sprintf("td%d", i))
			if seenT[d] {
				continue
			}
			seenT[d] = true
			dd := d
			if d == "default" {
				dd = "0.0.0.0/0"
			}
			tgt = append(tgt, "ip route add "+dd+" via "+rapid.SampledFrom(hops).Draw(rt, fmt.Sprintf("th%d", i)))
		}
		sc.Target["router"] = strings.Join(tgt, "\n") + "\n"
		sc.HostKey = rapid.Bool().Draw(rt, "hostkey")
	case "panos":
		// every second PAN-OS device has two vsys (failures, markers and
		// changes may then hit one of them only)
		p := panm.GenPair(rt, panm.GenOpts{TwoVsys: rapid.Bool().Draw(rt, "twoVsys")})
		sc.Device = p.A.State(true).Print(panm.Spelling{})
		sc.Target["router"] = p.B.State(false).Print(panm.Spelling{})
		sc.Members = []httpdev.PanMember{{}}
		// what an approve that was interrupted before its commit leaves
		// behind: entries marked as changed and not committed
		if rapid.IntRange(0, 3).Draw(rt, "dirty") == 0 {
			sc.Dirty = rapid.IntRange(1, 3).Draw(rt, "dirtyN")
			if rapid.IntRange(0, 2).Draw(rt, "dirtyOther") == 0 {
				sc.DirtyAdmin = "alice"
			}
		}
	case "nsx":
		p := nsxm.GenPair(rt, nsxm.GenOpts{})
		sc.Device = p.A.Print(nsxm.Spelling{})
		for n, txt := range p.TargetFiles() {
			sc.Target[strings.TrimPrefix(n, "code/")] = txt
		}
	}
	return sc
}
