package asam

import (
	"sort"
	"strings"
)

// Scope says which part of a device the target manages (DESIGN App. C).
type Scope struct {
	Intfs   map[string]bool // interfaces named by the target's bindings
	Route4  bool            // target has at least one IPv4 route
	Route6  bool
}

// ScopeOf derives the managed scope from the (effective) target.
func ScopeOf(b *State) Scope {
	sc := Scope{Intfs: map[string]bool{}}
	for slot := range b.Bind {
		if slot.Dir != "global" {
			sc.Intfs[slot.Intf] = true
		}
	}
	for _, i := range b.Gen.boundIntfs() {
		sc.Intfs[i] = true
	}
	for r := range b.Routes {
		if strings.HasPrefix(r, "ipv6 ") {
			sc.Route6 = true
		} else {
			sc.Route4 = true
		}
	}
	return sc
}

func (s *State) groupCanon(name string, seen map[string]bool) string {
	g := s.Groups[name]
	if g == nil {
		return "<missing group " + name + ">"
	}
	if seen[name] {
		return "<cycle>"
	}
	seen[name] = true
	defer delete(seen, name)
	ms := make([]string, 0, len(g.Members))
	for _, m := range g.Members {
		if n, ok := strings.CutPrefix(m, "group-object "); ok {
			ms = append(ms, "group-object "+s.groupCanon(n, seen))
		} else {
			ms = append(ms, m)
		}
	}
	sort.Strings(ms)
	return "{" + g.Kind + "|" + strings.Join(ms, ",") + "}"
}

// aceCanon is the ACE with every group name replaced by the group's content.
func (s *State) aceCanon(a *ACE) string {
	c := *a
	sub := func(n *string) {
		if *n != "" {
			*n = s.groupCanon(*n, map[string]bool{})
		}
	}
	sub(&c.ProtoGroup)
	sub(&c.Src.Group)
	sub(&c.Dst.Group)
	sub(&c.SPort.Group)
	sub(&c.DPort.Group)
	return c.Key(true)
}

// ACLCanon is the name-free content of an ACL.
func (s *State) ACLCanon(name string) []string {
	var res []string
	for _, a := range s.ACLs[name] {
		res = append(res, s.aceCanon(a))
	}
	return res
}

// Canon is the name-free content of the managed part of the state.
func (s *State) Canon(sc Scope) string {
	var out []string
	for slot, acl := range s.Bind {
		if slot.Dir != "global" && !sc.Intfs[slot.Intf] {
			continue
		}
		lines := s.ACLCanon(acl)
		if _, ok := s.ACLs[acl]; !ok {
			lines = []string{"<missing acl>"}
		}
		out = append(out, "bind "+slot.Dir+" "+slot.Intf+":\n    "+strings.Join(lines, "\n    "))
	}
	for r := range s.Routes {
		if strings.HasPrefix(r, "ipv6 ") {
			if sc.Route6 {
				out = append(out, r)
			}
		} else if sc.Route4 {
			out = append(out, r)
		}
	}
	out = append(out, s.Gen.canon(s, sc)...)
	sort.Strings(out)
	return strings.Join(out, "\n")
}

// Protected computes the set of device objects outside Netspoc's scope
// (C07), from the property's own definition: ACLs and object-groups that
// are not reachable from a managed anchor and carry no generated-name tag,
// ACLs bound at interfaces the target does not know, and everything such
// objects reference. Keys are "acl:NAME" / "grp:NAME".
func (s *State) Protected(sc Scope) map[string]bool {
	prot, _ := s.protectedAndReach(sc)
	return prot
}

// ManagedReach is the set of ACLs ("acl:NAME") and object-groups
// ("grp:NAME") reachable from a managed anchor.
func (s *State) ManagedReach(sc Scope) map[string]bool {
	_, reach := s.protectedAndReach(sc)
	return reach
}

func (s *State) protectedAndReach(sc Scope) (map[string]bool, map[string]bool) {
	reach := map[string]bool{}
	var visitGroup func(string, map[string]bool)
	visitGroup = func(n string, set map[string]bool) {
		if set["grp:"+n] || s.Groups[n] == nil {
			return
		}
		set["grp:"+n] = true
		for _, m := range s.Groups[n].Members {
			if g, ok := strings.CutPrefix(m, "group-object "); ok {
				visitGroup(g, set)
			}
		}
	}
	visitACL := func(n string, set map[string]bool) {
		if set["acl:"+n] || s.ACLs[n] == nil {
			return
		}
		set["acl:"+n] = true
		for _, a := range s.ACLs[n] {
			for _, g := range []string{a.Src.Group, a.Dst.Group, a.ProtoGroup, a.SPort.Group, a.DPort.Group} {
				if g != "" {
					visitGroup(g, set)
				}
			}
		}
	}
	for slot, acl := range s.Bind {
		if slot.Dir == "global" || sc.Intfs[slot.Intf] {
			visitACL(acl, reach)
		}
	}
	for _, n := range s.Gen.managedACLs(s, sc) {
		visitACL(n, reach)
	}
	prot := map[string]bool{}
	for n := range s.ACLs {
		if !reach["acl:"+n] && !strings.Contains(n, "-DRC-") {
			visitACL(n, prot)
		}
	}
	for n := range s.Groups {
		if !reach["grp:"+n] && !strings.Contains(n, "-DRC-") {
			visitGroup(n, prot)
		}
	}
	for slot, acl := range s.Bind {
		if slot.Dir != "global" && !sc.Intfs[slot.Intf] {
			visitACL(acl, prot)
		}
	}
	for _, n := range s.Gen.protectedACLs(s, sc) {
		visitACL(n, prot)
	}
	return prot, reach
}

// ObjText is the textual content of a protected object.
func (s *State) ObjText(key string) (string, bool) {
	kind, name, _ := strings.Cut(key, ":")
	switch kind {
	case "acl":
		l, ok := s.ACLs[name]
		if !ok {
			return "", false
		}
		var b strings.Builder
		for _, a := range l {
			b.WriteString(a.Key(true) + "\n")
		}
		return b.String(), true
	case "grp":
		g, ok := s.Groups[name]
		if !ok {
			return "", false
		}
		return g.Kind + "\n" + strings.Join(g.Members, "\n") + "\n", true
	}
	return "", false
}

// FrameText is the remaining protected content: bindings of unmanaged
// interfaces, routes of unmanaged families, interface definitions and
// unmodelled lines.
func (s *State) FrameText(sc Scope) string {
	var out []string
	for slot, acl := range s.Bind {
		if slot.Dir != "global" && !sc.Intfs[slot.Intf] {
			out = append(out, "access-group "+acl+" "+slot.Dir+" interface "+slot.Intf)
		}
	}
	for r := range s.Routes {
		v6 := strings.HasPrefix(r, "ipv6 ")
		if v6 && !sc.Route6 || !v6 && !sc.Route4 {
			out = append(out, r)
		}
	}
	sort.Strings(out)
	for _, i := range s.Intfs {
		out = append(out, "interface "+i.HW+" nameif "+i.Nameif+" "+strings.Join(i.Extra, ";"))
	}
	out = append(out, s.Opaque...)
	return strings.Join(out, "\n")
}
