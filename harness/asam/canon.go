package asam

import (
	"sort"
	"strings"
)

// Scope says which part of a device the target manages (DESIGN App. C).
type Scope struct {
	Intfs   map[string]bool // interfaces named by the target's bindings
	Route4  bool            // target has at least one IPv4 route
	Route6  bool
}

// ScopeOf derives the managed scope from the (effective) target.
func ScopeOf(b *State) Scope {
	sc := Scope{Intfs: map[string]bool{}}
	for slot := range b.Bind {
		if slot.Dir != "global" {
			sc.Intfs[slot.Intf] = true
		}
	}
	for _, i := range b.Gen.boundIntfs() {
		sc.Intfs[i] = true
	}
	for r := range b.Routes {
		if strings.HasPrefix(r, "ipv6 ") {
			sc.Route6 = true
		} else {
			sc.Route4 = true
		}
	}
	return sc
}

func (s *State) groupCanon(name string, seen map[string]bool) string {
	g := s.Groups[name]
	if g == nil {
		return "<missing group " + name + ">"
	}
	if seen[name] {
		return "<cycle>"
	}
	seen[name] = true
	defer delete(seen, name)
	ms := make([]string, 0, len(g.Members))
	for _, m := range g.Members {
		if n, ok := strings.CutPrefix(m, "group-object "); ok {
			ms = append(ms, "group-object "+s.groupCanon(n, seen))
		} else {
			ms = append(ms, m)
		}
	}
	sort.Strings(ms)
	return "{" + g.Kind + "|" + strings.Join(ms, ",") + "}"
}

// aceCanon is the ACE with every group name replaced by the group's content.
func (s *State) aceCanon(a *ACE) string {
	c := *a
	sub := func(n *string) {
		if *n != "" {
			*n = s.groupCanon(*n, map[string]bool{})
		}
	}
	sub(&c.ProtoGroup)
	sub(&c.Src.Group)
	sub(&c.Dst.Group)
	sub(&c.SPort.Group)
	sub(&c.DPort.Group)
	return c.Key(true)
}

// ACLCanon is the name-free content of an ACL.
func (s *State) ACLCanon(name string) []string {
	var res []string
	for _, a := range s.ACLs[name] {
		res = append(res, s.aceCanon(a))
	}
	return res
}

// Canon is the name-free content of the managed part of the state.
func (s *State) Canon(sc Scope) string {
	var out []string
	for slot, acl := range s.Bind {
		if slot.Dir != "global" && !sc.Intfs[slot.Intf] {
			continue
		}
		lines := s.ACLCanon(acl)
		if _, ok := s.ACLs[acl]; !ok {
			lines = []string{"<missing acl>"}
		}
		out = append(out, "bind "+slot.Dir+" "+slot.Intf+":\n    "+strings.Join(lines, "\n    "))
	}
	for r := range s.Routes {
		if strings.HasPrefix(r, "ipv6 ") {
			if sc.Route6 {
				out = append(out, r)
			}
		} else if sc.Route4 {
			out = append(out, r)
		}
	}
	out = append(out, s.Gen.canon(s, sc)...)
	sort.Strings(out)
	return strings.Join(out, "\n")
}
