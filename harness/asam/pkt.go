package asam

import (
	"net/netip"
	"sort"
	"strconv"
	"strings"
)

// Packet is one representative packet of the case's own vocabulary.
type Packet struct {
	Proto        string // "tcp","udp","icmp", or number as string
	Src, Dst     netip.Addr
	SPort, DPort int
	ICMPType     int
	ICMPCode     int
}

func (p Packet) String() string {
	return p.Proto + " " + p.Src.String() + ":" + strconv.Itoa(p.SPort) + " -> " + p.Dst.String() + ":" + strconv.Itoa(p.DPort) +
		" icmp " + strconv.Itoa(p.ICMPType) + "/" + strconv.Itoa(p.ICMPCode)
}

func (s *State) groupPrefixes(name string, depth int) []netip.Prefix {
	g := s.Groups[name]
	if g == nil || depth > 8 {
		return nil
	}
	var res []netip.Prefix
	for _, m := range g.Members {
		f := strings.Fields(m)
		switch {
		case f[0] == "group-object":
			res = append(res, s.groupPrefixes(f[1], depth+1)...)
		case f[0] == "network-object" && len(f) == 3 && f[1] == "host":
			if a, err := netip.ParseAddr(f[2]); err == nil {
				res = append(res, netip.PrefixFrom(a, a.BitLen()))
			}
		case f[0] == "network-object" && len(f) == 3:
			if a, err := netip.ParseAddr(f[1]); err == nil {
				if bits, ok := parseMask(f[2]); ok {
					res = append(res, netip.PrefixFrom(a, bits))
				}
			}
		case f[0] == "network-object" && len(f) == 2:
			if p, err := netip.ParsePrefix(f[1]); err == nil {
				res = append(res, p)
			}
		}
	}
	return res
}

func (s *State) objMatch(o Obj, a netip.Addr) bool {
	if o.Group != "" {
		for _, p := range s.groupPrefixes(o.Group, 0) {
			if p.Contains(a) {
				return true
			}
		}
		return false
	}
	return o.Pfx.Contains(a)
}

func portMatchOne(op string, lo, hi, p int) bool {
	switch op {
	case "":
		return true
	case "eq":
		return p == lo
	case "neq":
		return p != lo
	case "gt":
		return p > lo
	case "lt":
		return p < lo
	case "range":
		return lo <= p && p <= hi
	}
	return false
}

func (s *State) portMatch(po Port, p int) bool {
	if po.Group != "" {
		g := s.Groups[po.Group]
		if g == nil {
			return false
		}
		for _, m := range g.Members {
			f := strings.Fields(m)
			if f[0] != "port-object" {
				continue
			}
			lo, _ := strconv.Atoi(f[len(f)-1])
			hi := lo
			if f[1] == "range" && len(f) == 4 {
				lo, _ = strconv.Atoi(f[2])
				hi, _ = strconv.Atoi(f[3])
				if portMatchOne("range", lo, hi, p) {
					return true
				}
			} else if portMatchOne(f[1], lo, hi, p) {
				return true
			}
		}
		return false
	}
	return portMatchOne(po.Op, po.Lo, po.Hi, p)
}

func (s *State) aceMatch(a *ACE, p Packet) bool {
	if a.IsRemark {
		return false
	}
	if a.Std {
		return s.objMatch(a.Src, p.Dst)
	}
	if a.ProtoGroup != "" {
		return false // not generated for packet evaluation
	}
	if a.Proto != "ip" && a.Proto != p.Proto {
		return false
	}
	if !s.objMatch(a.Src, p.Src) || !s.objMatch(a.Dst, p.Dst) {
		return false
	}
	switch a.Proto {
	case "tcp", "udp":
		return s.portMatch(a.SPort, p.SPort) && s.portMatch(a.DPort, p.DPort)
	case "icmp":
		if a.ICMP != "" {
			t, c, hasCode := strings.Cut(a.ICMP, " ")
			tn, _ := strconv.Atoi(t)
			if tn != p.ICMPType {
				return false
			}
			if hasCode {
				cn, _ := strconv.Atoi(c)
				return cn == p.ICMPCode
			}
		}
	}
	return true
}

// Verdict evaluates the ACL first-match; no match = deny. The second
// result is the 1-based number of the deciding line (0 = implicit deny).
func (s *State) Verdict(acl string, p Packet) (bool, int) {
	for i, a := range s.ACLs[acl] {
		if s.aceMatch(a, p) {
			return a.Permit, i + 1
		}
	}
	return false, 0
}

// Universe builds the representative packets from the vocabulary of the
// given states: every host, one address inside and outside each network,
// every port plus neighbours, the protocols in use.
func Universe(states ...*State) []Packet {
	addrs := map[netip.Addr]bool{}
	portsSet := map[int]bool{1: true, 65000: true}
	protos := map[string]bool{"tcp": true}
	icmp := map[[2]int]bool{{8, 0}: true}
	addPfx := func(p netip.Prefix) {
		if !p.IsValid() || !p.Addr().Is4() {
			return
		}
		p = p.Masked()
		addrs[p.Addr()] = true
		// last address of the prefix and the first one after it
		a := p.Addr().As4()
		v := uint32(a[0])<<24 | uint32(a[1])<<16 | uint32(a[2])<<8 | uint32(a[3])
		size := uint32(1) << (32 - p.Bits())
		if p.Bits() == 0 {
			return
		}
		for _, x := range []uint32{v + size, v + 1} {
			addrs[netip.AddrFrom4([4]byte{byte(x >> 24), byte(x >> 16), byte(x >> 8), byte(x)})] = true
		}
	}
	srcPorts := false
	addPort := func(po Port, s *State) {
		if po.Group != "" {
			if g := s.Groups[po.Group]; g != nil {
				for _, m := range g.Members {
					f := strings.Fields(m)
					for _, w := range f[2:] {
						if n, err := strconv.Atoi(w); err == nil {
							portsSet[n] = true
							portsSet[n+1] = true
						}
					}
				}
			}
			return
		}
		if po.Op == "" {
			return
		}
		for _, n := range []int{po.Lo, po.Lo + 1, po.Hi, po.Hi + 1} {
			if n > 0 && n < 65536 {
				portsSet[n] = true
			}
		}
	}
	for _, s := range states {
		for _, acl := range s.ACLs {
			for _, a := range acl {
				if a.IsRemark {
					continue
				}
				for _, o := range []Obj{a.Src, a.Dst} {
					if o.Group != "" {
						for _, p := range s.groupPrefixes(o.Group, 0) {
							addPfx(p)
						}
					} else {
						addPfx(o.Pfx)
					}
				}
				if a.SPort.Op != "" || a.SPort.Group != "" {
					srcPorts = true
				}
				addPort(a.SPort, s)
				addPort(a.DPort, s)
				if a.Proto != "ip" && a.Proto != "" {
					protos[a.Proto] = true
				}
				if a.ICMP != "" {
					t, c, _ := strings.Cut(a.ICMP, " ")
					tn, _ := strconv.Atoi(t)
					cn, _ := strconv.Atoi(c)
					icmp[[2]int{tn, cn}] = true
					icmp[[2]int{tn, cn + 1}] = true
				}
			}
		}
	}
	addrs[netip.MustParseAddr("8.8.8.8")] = true
	var al []netip.Addr
	for a := range addrs {
		al = append(al, a)
	}
	sort.Slice(al, func(i, j int) bool { return al[i].Less(al[j]) })
	var pl []int
	for p := range portsSet {
		pl = append(pl, p)
	}
	sort.Ints(pl)
	var prl []string
	for p := range protos {
		prl = append(prl, p)
	}
	sort.Strings(prl)
	var il [][2]int
	for k := range icmp {
		il = append(il, k)
	}
	sort.Slice(il, func(i, j int) bool { return il[i][0] < il[j][0] || il[i][0] == il[j][0] && il[i][1] < il[j][1] })
	var res []Packet
	for _, src := range al {
		for _, dst := range al {
			for _, pr := range prl {
				switch pr {
				case "tcp", "udp":
					for _, dp := range pl {
						res = append(res, Packet{Proto: pr, Src: src, Dst: dst, SPort: 40000, DPort: dp})
					}
					// source-port sensitive variants with a fixed destination port
					if srcPorts {
						for _, sp := range pl {
							res = append(res, Packet{Proto: pr, Src: src, Dst: dst, SPort: sp, DPort: pl[len(pl)/2]})
						}
					}
				case "icmp":
					for _, tc := range il {
						res = append(res, Packet{Proto: pr, Src: src, Dst: dst, ICMPType: tc[0], ICMPCode: tc[1]})
					}
				default:
					res = append(res, Packet{Proto: pr, Src: src, Dst: dst})
				}
			}
		}
	}
	return res
}
