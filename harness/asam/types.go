// Package asam is an independent, strict, executable model of the part of
// the Cisco ASA configuration language that Netspoc-Approve manages:
// extended/standard ACLs, object-groups, access-group bindings, static
// routes, plus a schema-driven store for the VPN objects. It shares no code
// with the tool under test.
package asam

import (
	"fmt"
	"net/netip"
	"sort"
	"strconv"
	"strings"
)

// ErrUnsupported marks vocabulary outside the model; such cases are counted
// as "not covered", never as violations.
type ErrUnsupported struct{ What string }

func (e *ErrUnsupported) Error() string { return "unsupported by model: " + e.What }

func unsupported(format string, a ...any) error {
	return &ErrUnsupported{fmt.Sprintf(format, a...)}
}

// Refusal is what a strict device answers to a command that must not be
// sent (C08): dangling reference, delete of a referenced object, duplicate
// ACE, wrong line number, wrong mode.
type Refusal struct {
	Rule string
	Msg  string
}

func (e *Refusal) Error() string { return "refused[" + e.Rule + "]: " + e.Msg }

func refuse(rule, format string, a ...any) error {
	return &Refusal{rule, fmt.Sprintf(format, a...)}
}

// Obj is an address operand of an ACE.
type Obj struct {
	Group string
	Pfx   netip.Prefix
}

// Port is a port operand.
type Port struct {
	Group  string
	Op     string // "", eq, range, gt, lt, neq
	Lo, Hi int
}

type Log struct {
	On       bool
	Level    int    // -1 unspecified (default = 6)
	Interval int    // -1 unspecified
	Special  string // "disable" | "default"
}

type ACE struct {
	Std        bool
	Remark     string
	IsRemark   bool
	Permit     bool
	Proto      string
	ProtoGroup string
	Src, Dst   Obj
	SPort      Port
	DPort      Port
	ICMP       string // "type" or "type code", numeric
	Log        Log
	Tail       string
}

type Group struct {
	Kind    string   // "network", "service", "service tcp", "service udp", "service tcp-udp", "protocol"
	Members []string // canonical member lines, e.g. "network-object host 10.1.1.1"
	Descr   string
}

type Slot struct {
	Intf string // "" for global
	Dir  string // "in", "out", "global"
}

type Intf struct {
	HW     string // e.g. Ethernet0/0
	Nameif string
	Shut   bool
	Extra  []string
}

// GObj is a generically modelled (VPN) object: see schema.go.
type GObj struct {
	Kind  string // schema kind, e.g. "group-policy"
	Name  string
	Seq   int
	Lines []string // top-level attribute lines (for multi-line objects)
	Sub   map[string][]string // sub-mode name -> lines
	Exists bool
}

type State struct {
	Intfs   []*Intf
	ACLs    map[string][]*ACE
	Groups  map[string]*Group
	Bind    map[Slot]string
	Routes  map[string]bool // canonical "route IF NET MASK GW" / "ipv6 route IF PFX GW"
	Gen     *GenStore
	Opaque  []string
	// mode is the current configuration sub-mode while executing.
	mode    modeRef
	left    bool // left config mode by a surplus exit
}

func NewState() *State {
	return &State{
		ACLs:   map[string][]*ACE{},
		Groups: map[string]*Group{},
		Bind:   map[Slot]string{},
		Routes: map[string]bool{},
		Gen:    newGenStore(),
	}
}

func (s *State) Clone() *State {
	n := NewState()
	for _, i := range s.Intfs {
		c := *i
		c.Extra = append([]string(nil), i.Extra...)
		n.Intfs = append(n.Intfs, &c)
	}
	for k, l := range s.ACLs {
		nl := make([]*ACE, len(l))
		for i, a := range l {
			c := *a
			nl[i] = &c
		}
		n.ACLs[k] = nl
	}
	for k, g := range s.Groups {
		c := *g
		c.Members = append([]string(nil), g.Members...)
		n.Groups[k] = &c
	}
	for k, v := range s.Bind {
		n.Bind[k] = v
	}
	for k, v := range s.Routes {
		n.Routes[k] = v
	}
	n.Gen = s.Gen.clone()
	n.Opaque = append([]string(nil), s.Opaque...)
	return n
}

// ---------------------------------------------------------------- printing

// Spelling selects semantics-preserving respellings used when the model
// prints its state the way a device would.
type Spelling struct {
	NamedPorts bool // eq www instead of eq 80
	HostMask   bool // A 255.255.255.255 instead of host A
	ZeroAny    bool // 0.0.0.0 0.0.0.0 instead of any4
	LogNames   bool // log warnings instead of log 4; log informational
	Metric     bool // trailing metric 1 on routes
	NamedProto bool // esp/gre/... names for numbers
}

func maskOf(bits int) string {
	var m uint32
	if bits > 0 {
		m = ^uint32(0) << (32 - bits)
	}
	return fmt.Sprintf("%d.%d.%d.%d", byte(m>>24), byte(m>>16), byte(m>>8), byte(m))
}

func (o Obj) print(sp Spelling) string {
	if o.Group != "" {
		return "object-group " + o.Group
	}
	p := o.Pfx
	if p.Addr().Is4() {
		switch p.Bits() {
		case 0:
			if sp.ZeroAny {
				return "0.0.0.0 0.0.0.0"
			}
			return "any4"
		case 32:
			if sp.HostMask {
				return p.Addr().String() + " 255.255.255.255"
			}
			return "host " + p.Addr().String()
		}
		return p.Addr().String() + " " + maskOf(p.Bits())
	}
	switch p.Bits() {
	case 0:
		if sp.ZeroAny {
			return "::/0"
		}
		return "any6"
	case 128:
		if sp.HostMask {
			return p.Addr().String() + "/128"
		}
		return "host " + p.Addr().String()
	}
	return p.String()
}

// Independent sub-table of ASA's named ports (from Cisco's documentation of
// "TCP and UDP ports" literal names), used only for printing device spelling.
var devTCPNames = map[int]string{
	80: "www", 22: "ssh", 53: "domain", 443: "https", 25: "smtp", 21: "ftp",
	23: "telnet", 110: "pop3", 179: "bgp", 389: "ldap", 636: "ldaps",
	143: "imap4", 119: "nntp", 1521: "sqlnet", 49: "tacacs", 111: "sunrpc",
}
var devUDPNames = map[int]string{
	53: "domain", 123: "ntp", 161: "snmp", 162: "snmptrap", 514: "syslog",
	69: "tftp", 67: "bootps", 68: "bootpc", 500: "isakmp", 1645: "radius",
	137: "netbios-ns", 138: "netbios-dgm", 520: "rip", 80: "www", 111: "sunrpc",
}
var devProtoNames = map[int]string{
	50: "esp", 51: "ah", 47: "gre", 89: "ospf", 88: "eigrp", 2: "igmp", 103: "pim", 4: "ipinip",
}
var devICMPNames = map[string]string{
	"8": "echo", "0": "echo-reply", "3": "unreachable", "11": "time-exceeded",
}
var devLogNames = []string{
	"emergencies", "alerts", "critical", "errors", "warnings",
	"notifications", "informational", "debugging",
}

func portName(proto string, n int, sp Spelling) string {
	if sp.NamedPorts {
		switch proto {
		case "tcp":
			if s, ok := devTCPNames[n]; ok {
				return s
			}
		case "udp":
			if s, ok := devUDPNames[n]; ok {
				return s
			}
		}
	}
	return strconv.Itoa(n)
}

func (p Port) print(proto string, sp Spelling) string {
	if p.Group != "" {
		return "object-group " + p.Group
	}
	switch p.Op {
	case "":
		return ""
	case "range":
		return "range " + portName(proto, p.Lo, sp) + " " + portName(proto, p.Hi, sp)
	}
	return p.Op + " " + portName(proto, p.Lo, sp)
}

func (l Log) print(sp Spelling) string {
	if !l.On {
		return ""
	}
	s := "log"
	if l.Special != "" {
		return s + " " + l.Special
	}
	if l.Level >= 0 {
		if sp.LogNames {
			s += " " + devLogNames[l.Level]
		} else {
			s += " " + strconv.Itoa(l.Level)
		}
	} else if sp.LogNames && l.Interval < 0 {
		// A device may print the default level explicitly.
		s += " informational"
	}
	if l.Interval >= 0 {
		s += " interval " + strconv.Itoa(l.Interval)
	}
	return s
}

func protoPrint(p string, sp Spelling) string {
	if sp.NamedProto {
		if n, err := strconv.Atoi(p); err == nil {
			if s, ok := devProtoNames[n]; ok {
				return s
			}
		}
	}
	return p
}

// Body prints the ACE without "access-list NAME [line N]".
func (a *ACE) Body(sp Spelling) string {
	if a.IsRemark {
		return "remark " + a.Remark
	}
	act := "deny"
	if a.Permit {
		act = "permit"
	}
	if a.Std {
		return "standard " + act + " " + a.Src.print(sp)
	}
	w := []string{"extended", act}
	if a.ProtoGroup != "" {
		w = append(w, "object-group "+a.ProtoGroup)
	} else {
		w = append(w, protoPrint(a.Proto, sp))
	}
	w = append(w, a.Src.print(sp))
	if s := a.SPort.print(a.Proto, sp); s != "" {
		w = append(w, s)
	}
	w = append(w, a.Dst.print(sp))
	if s := a.DPort.print(a.Proto, sp); s != "" {
		w = append(w, s)
	}
	if a.ICMP != "" {
		typ, code, hasCode := strings.Cut(a.ICMP, " ")
		if n, ok := devICMPNames[typ]; ok && sp != plain && a.Proto == "icmp" {
			typ = n
		}
		w = append(w, typ)
		if hasCode {
			w = append(w, code)
		}
	}
	if s := a.Log.print(sp); s != "" {
		w = append(w, s)
	}
	if a.Tail != "" {
		w = append(w, a.Tail)
	}
	return strings.Join(w, " ")
}

var plain = Spelling{}

// Key is the canonical identity of an ACE inside the model (names of
// groups included); withLog=false gives the identity a device uses to
// detect duplicates.
func (a *ACE) Key(withLog bool) string {
	c := *a
	if !withLog {
		c.Log = Log{}
	} else if c.Log.On && c.Log.Level == 6 && c.Log.Special == "" {
		c.Log.Level = -1
	}
	return c.Body(plain)
}

func sortedKeys[V any](m map[string]V) []string {
	l := make([]string, 0, len(m))
	for k := range m {
		l = append(l, k)
	}
	sort.Strings(l)
	return l
}

// Print renders the state as a device would show it ("write term").
func (s *State) Print(sp Spelling) string {
	var b strings.Builder
	for _, i := range s.Intfs {
		fmt.Fprintf(&b, "interface %s\n", i.HW)
		if i.Shut {
			b.WriteString(" shutdown\n")
		}
		if i.Nameif != "" {
			fmt.Fprintf(&b, " nameif %s\n", i.Nameif)
		}
		for _, e := range i.Extra {
			b.WriteString(" " + e + "\n")
		}
	}
	// Opaque lines that belong in front (hostname etc.) are printed first.
	for _, l := range s.Opaque {
		b.WriteString(l + "\n")
	}
	for _, name := range sortedKeys(s.Groups) {
		g := s.Groups[name]
		kind, extra, _ := strings.Cut(g.Kind, " ")
		if extra != "" {
			fmt.Fprintf(&b, "object-group %s %s %s\n", kind, name, extra)
		} else {
			fmt.Fprintf(&b, "object-group %s %s\n", kind, name)
		}
		if g.Descr != "" {
			fmt.Fprintf(&b, " description %s\n", g.Descr)
		}
		for _, m := range g.Members {
			b.WriteString(" " + m + "\n")
		}
	}
	for _, name := range sortedKeys(s.ACLs) {
		for _, a := range s.ACLs[name] {
			fmt.Fprintf(&b, "access-list %s %s\n", name, a.Body(sp))
		}
	}
	s.Gen.print(&b, sp)
	slots := make([]Slot, 0, len(s.Bind))
	for k := range s.Bind {
		slots = append(slots, k)
	}
	sort.Slice(slots, func(i, j int) bool {
		if slots[i].Intf != slots[j].Intf {
			return slots[i].Intf < slots[j].Intf
		}
		return slots[i].Dir < slots[j].Dir
	})
	for _, k := range slots {
		if k.Dir == "global" {
			fmt.Fprintf(&b, "access-group %s global\n", s.Bind[k])
		} else {
			fmt.Fprintf(&b, "access-group %s %s interface %s\n", s.Bind[k], k.Dir, k.Intf)
		}
	}
	for _, r := range sortedKeys(s.Routes) {
		if sp.Metric {
			b.WriteString(r + " 1\n")
		} else {
			b.WriteString(r + "\n")
		}
	}
	return b.String()
}
