package asam

import (
	"strings"
)

// Strict execution of the VPN commands (DESIGN Appendix B). Refusal rules:
//   dangling  a named object does not exist at this moment
//   in-use    an object that something still references would disappear
//   missing   a line / object to remove is not there
//   order     "attributes" before the creating line ("internal", "type", "nopassword")
//   type      the type of an existing tunnel-group cannot be changed
//   mode      a sub-command sent outside the mode of its parent

const nestedWebvpn = "/webvpn"

// exitMode leaves one level: the nested webvpn mode of a group-policy or
// username returns to the attributes mode, everything else to top level.
func (g *GenStore) exitMode(m modeRef) modeRef {
	if strings.HasSuffix(m.sub, nestedWebvpn) {
		m.sub = strings.TrimSuffix(m.sub, nestedWebvpn)
		return m
	}
	return modeRef{}
}

// exists: does the object (kind, name) exist right now?
func (g *GenStore) exists(s *State, kind, name string) bool {
	switch kind {
	case kACL:
		return len(s.ACLs[name]) > 0
	case kAAA:
		if name == "LOCAL" {
			return true
		}
	}
	if isDefaultObj(kind, name) {
		return true
	}
	o := g.get(kind, name)
	if o == nil {
		return false
	}
	if kindByID[kind].shape == shapeLines {
		return len(o.Modes) > 0
	}
	return true
}

// refsOfObj lists everything the object names, as "kind:name".
func (g *GenStore) refsOfObj(kind string, o *vobj) []string {
	var res []string
	k := kindByID[kind]
	for _, id := range o.seqs() {
		ms := k.mode(id)
		if ms == nil {
			continue
		}
		for _, l := range o.Modes[id].Lines {
			a := ms.find(strings.Fields(firstLine(l)))
			if a == nil {
				continue
			}
			for _, n := range lineRefs(kind, a, l) {
				res = append(res, a.ref+":"+n)
			}
		}
	}
	return res
}

// userOfKind names something that references (kind, name), or "".
func (g *GenStore) userOfKind(kind, name string) string {
	want := kind + ":" + name
	for _, k := range schema {
		for _, n := range g.names(k.id) {
			for _, r := range g.refsOfObj(k.id, g.Objs[k.id][n]) {
				if r == want {
					return k.label + " " + n
				}
			}
		}
	}
	switch kind {
	case kCMap:
		for _, i := range sortedKeys(g.CryptoIf) {
			if g.CryptoIf[i] == name {
				return "crypto map " + name + " interface " + i
			}
		}
	case kCert:
		for _, e := range g.TGMap {
			if e.Cert == name {
				return "tunnel-group-map " + e.words()
			}
		}
		for _, e := range g.CGMap {
			if e.Cert == name {
				return "certificate-group-map " + e.words()
			}
		}
	case kTG:
		for _, e := range g.TGMap {
			if e.TG == name {
				return "tunnel-group-map " + e.words()
			}
		}
		for _, e := range g.CGMap {
			if e.TG == name {
				return "certificate-group-map " + e.words()
			}
		}
	}
	return ""
}

// userOf is the hook of exec.go: who uses the ACL?
func (g *GenStore) userOf(prefix, name string) string {
	if prefix == "access-list" {
		return g.userOfKind(kACL, name)
	}
	for _, k := range schema {
		if k.label == prefix {
			return g.userOfKind(k.id, name)
		}
	}
	return ""
}

// renameRef renames an object in every reference (generator helper).
func (g *GenStore) renameRef(kind, old, new string) {
	for _, k := range schema {
		for _, n := range g.names(k.id) {
			o := g.Objs[k.id][n]
			for id, md := range o.Modes {
				ms := k.mode(id)
				if ms == nil {
					continue
				}
				for i, l := range md.Lines {
					a := ms.find(strings.Fields(firstLine(l)))
					if a == nil || a.ref != kind {
						continue
					}
					w := strings.Fields(firstLine(l))
					nk := len(strings.Fields(a.key))
					if k.id == kLDAP {
						nk = len(w) - 1
					}
					for j := nk; j < len(w); j++ {
						if w[j] == old && (a.refAll || j == nk) {
							w[j] = new
						}
					}
					_, nested, has := strings.Cut(l, "\n")
					md.Lines[i] = strings.Join(w, " ")
					if has {
						md.Lines[i] += "\n" + nested
					}
				}
			}
		}
	}
	switch kind {
	case kCMap:
		for i, n := range g.CryptoIf {
			if n == old {
				g.CryptoIf[i] = new
			}
		}
	case kCert, kTG:
		for _, l := range []*[]mapEntry{&g.TGMap, &g.CGMap} {
			for i := range *l {
				if kind == kCert && (*l)[i].Cert == old {
					(*l)[i].Cert = new
				}
				if kind == kTG && (*l)[i].TG == old {
					(*l)[i].TG = new
				}
			}
		}
	}
}

func (g *GenStore) checkRefs(s *State, kind string, a *attrSpec, line string) error {
	for _, n := range lineRefs(kind, a, line) {
		if !g.exists(s, a.ref, n) {
			label := "access-list"
			if a.ref != kACL {
				label = kindByID[a.ref].label
			}
			return refuse("dangling", "%q references missing %s %s", firstLine(line), label, n)
		}
	}
	return nil
}

// setLine adds an attribute line to a mode: a single-valued attribute
// replaces its present value.
func (g *GenStore) setLine(s *State, kind string, ms *modeSpec, md *vmode, line string) error {
	line, err := normLine(kind, line)
	if err != nil {
		return err
	}
	if kind == kCert && strings.HasPrefix(line, "subject-name") {
		line = strings.ToLower(line) // the device stores it in lower case
	}
	w := strings.Fields(line)
	a := ms.find(w)
	if a == nil {
		return unsupported("attribute %q", line)
	}
	if err := g.checkRefs(s, kind, a, line); err != nil {
		return err
	}
	for _, l := range md.Lines {
		if sameLine(kind, l, line) {
			return nil // re-entering a present line changes nothing
		}
	}
	if !a.multi {
		key := lineKey(kind, a, line)
		if a.key == "set peer" {
			for _, l := range md.Lines {
				if x := ms.find(strings.Fields(l)); x != nil && x.key == "set peer" {
					// Not a rule of the device (it keeps a list of peers),
					// but of C08: entries are identified by their peer and
					// a new entry gets a free number, so a peer is only
					// set in an entry that has none; otherwise the number
					// addresses the entry of somebody else.
					return refuse("seq-occupied", "crypto map entry already has %q; %q would add a second peer to it", l, line)
				}
			}
		}
		j := 0
		for _, l := range md.Lines {
			x := ms.find(strings.Fields(firstLine(l)))
			if x != nil && lineKey(kind, x, l) == key {
				continue
			}
			md.Lines[j] = l
			j++
		}
		md.Lines = md.Lines[:j]
	}
	md.Lines = append(md.Lines, line)
	return nil
}

// unsetLine removes exactly the given line.
func (g *GenStore) unsetLine(kind string, md *vmode, line, where string) error {
	line, err := normLine(kind, line)
	if err != nil {
		return err
	}
	if md != nil {
		for i, l := range md.Lines {
			if sameLine(kind, l, line) {
				md.Lines = append(md.Lines[:i:i], md.Lines[i+1:]...)
				return nil
			}
		}
	}
	return refuse("missing", "%s has no line %q", where, line)
}

func (g *GenStore) findEntry(l []mapEntry, e mapEntry) int {
	for i, x := range l {
		if x == e {
			return i
		}
	}
	return -1
}

// execMapEntry handles tunnel-group-map / certificate-group-map arguments.
func (g *GenStore) execMapEntry(s *State, list *[]mapEntry, cmd string, neg bool, args []string) error {
	var e mapEntry
	switch {
	case len(args) == 2 && args[0] == "default-group" && cmd == "tunnel-group-map":
		e = mapEntry{"", "", args[1]}
	case len(args) == 3 && isNum(args[1]):
		e = mapEntry{args[0], args[1], args[2]}
	default:
		return unsupported("%s form %v", cmd, args)
	}
	if neg {
		i := g.findEntry(*list, e)
		if i < 0 {
			return refuse("missing", "there is no entry '%s %s'", cmd, e.words())
		}
		*list = append((*list)[:i:i], (*list)[i+1:]...)
		return nil
	}
	if e.Cert != "" && !g.exists(s, kCert, e.Cert) {
		return refuse("dangling", "'%s %s' references missing crypto ca certificate map %s", cmd, e.words(), e.Cert)
	}
	if !g.exists(s, kTG, e.TG) {
		return refuse("dangling", "'%s %s' references missing tunnel-group %s", cmd, e.words(), e.TG)
	}
	// One rule (map, number) selects one tunnel-group: a new one replaces it.
	for i, x := range *list {
		if x.Cert == e.Cert && x.Seq == e.Seq {
			(*list)[i] = e
			return nil
		}
	}
	*list = append(*list, e)
	return nil
}

// execSub executes a line inside the current schema sub-mode. It reports
// false if the line is not a sub-command of that mode.
func (g *GenStore) execSub(s *State, f []string, line string) (bool, error) {
	m := s.mode
	neg := false
	w := f
	if w[0] == "no" {
		neg = true
		w = w[1:]
		if len(w) == 0 {
			return false, nil
		}
	}
	if m.kind == "webvpn" {
		if w[0] == "certificate-group-map" {
			return true, g.execMapEntry(s, &g.CGMap, "certificate-group-map", neg, w[1:])
		}
		if topWords[w[0]] {
			return false, nil
		}
		return true, unsupported("webvpn sub-command %q", line)
	}
	if strings.HasSuffix(m.sub, nestedWebvpn) {
		// The webvpn mode of a group-policy / username knows none of the
		// commands the model covers.
		if topWords[w[0]] || w[0] == "certificate-group-map" {
			return false, nil
		}
		return true, unsupported("sub-command %q of %s webvpn mode", line, m.kind)
	}
	k := kindByID[m.kind]
	if k == nil {
		return false, nil
	}
	o := g.get(m.kind, m.name)
	if o == nil {
		return false, nil
	}
	ms := k.mode(m.sub)
	if ms == nil {
		return false, nil
	}
	a := ms.find(w)
	if a == nil {
		switch {
		case topWords[w[0]]:
			return false, nil
		case knownElsewhere(w[0]):
			return false, nil // execTop refuses it with rule "mode"
		}
		return true, unsupported("sub-command %q of %s %s", line, k.label, m.sub)
	}
	if a.nested {
		if neg {
			return true, g.unsetLine(m.kind, o.Modes[m.sub], "webvpn", k.label+" "+m.name)
		}
		s.mode.sub += nestedWebvpn
		return true, nil
	}
	text := strings.Join(w, " ")
	if neg {
		return true, g.unsetLine(m.kind, o.Modes[m.sub], text, k.label+" "+m.name+" "+m.sub)
	}
	return true, g.setLine(s, m.kind, ms, o.mode(m.sub), text)
}

// dropShells removes dynamic maps without lines that nothing names any more.
func (g *GenStore) dropShells() {
	for _, n := range g.names(kDyn) {
		if len(g.Objs[kDyn][n].Modes) == 0 && g.userOfKind(kDyn, n) == "" {
			g.del(kDyn, n)
		}
	}
}

// removeObj deletes an object unless something references it.
func (g *GenStore) removeObj(kind, name, cmd string) error {
	if who := g.userOfKind(kind, name); who != "" {
		return refuse("in-use", "%q removes %s %s which is still used by %s", cmd, kindByID[kind].label, name, who)
	}
	g.del(kind, name)
	return nil
}

// execClear executes "clear configure PREFIX NAME".
func (g *GenStore) execClear(s *State, f []string) (bool, error) {
	k, rest := matchKind(f)
	cmd := "clear configure " + strings.Join(f, " ")
	if k == nil || k.removal != "clear" || len(rest) != 1 {
		return true, unsupported("%s", cmd)
	}
	name := rest[0]
	if g.get(k.id, name) == nil {
		if isDefaultObj(k.id, name) {
			return true, nil // resets the built-in object
		}
		return true, refuse("missing", "%s %s does not exist", k.label, name)
	}
	if isDefaultObj(k.id, name) {
		g.del(k.id, name) // back to the built-in state; the object itself stays
		return true, nil
	}
	return true, g.removeObj(k.id, name, cmd)
}

// execTop executes a top-level command of the schema part.
func (g *GenStore) execTop(s *State, neg bool, f []string, line string) (bool, error) {
	switch f[0] {
	case "sysopt":
		if strings.Join(f, " ") != "sysopt connection permit-vpn" {
			return false, nil
		}
		s.mode = modeRef{}
		g.NoSysopt = neg
		return true, nil
	case "webvpn":
		if len(f) != 1 || neg {
			return true, unsupported("command %q", line)
		}
		g.Webvpn = true
		s.mode = modeRef{kind: "webvpn"}
		return true, nil
	case "certificate-group-map":
		return true, refuse("mode", "%q is only valid in global webvpn mode, but the session is in mode %q %s %s",
			line, s.mode.kind, s.mode.name, s.mode.sub)
	case "tunnel-group-map":
		s.mode = modeRef{}
		return true, g.execMapEntry(s, &g.TGMap, "tunnel-group-map", neg, f[1:])
	}
	k, rest := matchKind(f)
	if k == nil {
		if knownElsewhere(f[0]) {
			if s.mode.kind == "" {
				return true, refuse("mode", "sub-command %q sent at top level", line)
			}
			return true, refuse("mode", "%q is not a sub-command of mode %q %s %s", line, s.mode.kind, s.mode.name, s.mode.sub)
		}
		return false, nil
	}
	if len(rest) == 0 {
		return true, unsupported("command %q", line)
	}
	s.mode = modeRef{}
	name := rest[0]
	rest = rest[1:]
	o := g.get(k.id, name)
	switch k.id {
	case kCMap, kDyn:
		if k.id == kCMap && len(rest) == 2 && rest[0] == "interface" {
			intf := rest[1]
			if neg {
				if g.CryptoIf[intf] != name {
					return true, refuse("missing", "crypto map %s is not bound at interface %s", name, intf)
				}
				delete(g.CryptoIf, intf)
				return true, nil
			}
			if !g.exists(s, kCMap, name) {
				return true, refuse("dangling", "crypto map %s has no entry", name)
			}
			if !s.hasNameif(intf) {
				return true, refuse("dangling", "crypto map names unknown interface %s", intf)
			}
			g.CryptoIf[intf] = name
			return true, nil
		}
		if len(rest) < 2 || !isNum(rest[0]) {
			return true, unsupported("command %q", line)
		}
		seq := rest[0]
		text := strings.Join(rest[1:], " ")
		ms := k.modes[0]
		if ms.find(rest[1:]) == nil {
			return true, unsupported("%s attribute %q", k.label, text)
		}
		if neg {
			var md *vmode
			if o != nil {
				md = o.Modes[seq]
			}
			// Would the object disappear with its last line?
			// A crypto map bound at an interface must keep an entry. (A
			// dynamic map may lose its last line while a crypto map entry
			// still names it: what a device does then is not known to the
			// model, so it keeps an empty shell and refuses nothing; a
			// shell that stays shows up in the final comparison.)
			if k.id == kCMap && md != nil && len(o.Modes) == 1 && len(md.Lines) == 1 {
				if n, _ := normLine(k.id, text); sameLine(k.id, md.Lines[0], n) {
					if who := g.userOfKind(k.id, name); who != "" {
						return true, refuse("in-use", "%q removes the last line of %s %s which is still used by %s",
							line, k.label, name, who)
					}
				}
			}
			if err := g.unsetLine(k.id, md, text, k.label+" "+name+" "+seq); err != nil {
				return true, err
			}
			if len(md.Lines) == 0 {
				delete(o.Modes, seq)
			}
			if len(o.Modes) == 0 && (k.id == kCMap || g.userOfKind(k.id, name) == "") {
				g.del(k.id, name)
			}
			g.dropShells()
			return true, nil
		}
		if o == nil {
			o = newObj()
		}
		if err := g.setLine(s, k.id, ms, o.mode(seq), text); err != nil {
			if len(o.Modes[seq].Lines) == 0 {
				delete(o.Modes, seq)
			}
			return true, err
		}
		g.put(k.id, name).Modes = o.Modes
		return true, nil
	case kTSet, kPool:
		text := strings.Join(rest, " ")
		if neg {
			if o == nil {
				return true, refuse("missing", "%s %s does not exist", k.label, name)
			}
			if text != "" && text != o.Top[0] {
				return true, refuse("missing", "%s %s is %q, not %q", k.label, name, o.Top[0], text)
			}
			return true, g.removeObj(k.id, name, line)
		}
		if text == "" {
			return true, unsupported("command %q", line)
		}
		if o != nil && o.Top[0] != text {
			if k.id == kPool {
				return true, unsupported("redefinition of %s %s", k.label, name)
			}
		}
		g.put(k.id, name).Top = []string{text}
		return true, nil
	case kProp, kLDAP:
		if len(rest) != 0 {
			return true, unsupported("command %q", line)
		}
		if neg {
			if k.removal != "no" {
				return true, unsupported("command %q", line)
			}
			if o == nil {
				return true, refuse("missing", "%s %s does not exist", k.label, name)
			}
			return true, g.removeObj(k.id, name, line)
		}
		g.put(k.id, name).mode("")
		s.mode = modeRef{kind: k.id, name: name, sub: ""}
		return true, nil
	case kCert:
		if len(rest) != 1 || !isNum(rest[0]) {
			return true, unsupported("command %q", line)
		}
		seq := rest[0]
		if neg {
			if o == nil || o.Modes[seq] == nil {
				return true, refuse("missing", "%s %s %s does not exist", k.label, name, seq)
			}
			if len(o.Modes) == 1 {
				return true, g.removeObj(k.id, name, line)
			}
			delete(o.Modes, seq)
			return true, nil
		}
		g.put(k.id, name).mode(seq)
		s.mode = modeRef{kind: k.id, name: name, sub: seq}
		return true, nil
	case kGP, kTG, kUser:
		if len(rest) == 0 {
			return true, unsupported("command %q", line)
		}
		isCreate := rest[0] == k.create[0]
		if isCreate {
			text := strings.Join(rest, " ")
			if neg || (k.id == kGP && len(rest) != 1) || (k.id == kTG && len(rest) != 2) || (k.id == kUser && len(rest) != 1) {
				return true, unsupported("command %q", line)
			}
			if k.id == kTG {
				have := ""
				if o != nil && len(o.Top) > 0 {
					have = o.Top[0]
				} else if d, ok := k.defaults[name]; ok {
					have = d
				}
				if have != "" && have != text {
					return true, refuse("type", "tunnel-group %s exists with %q", name, have)
				}
			}
			o = g.put(k.id, name)
			o.Top = addUnique(o.Top, text)
			return true, nil
		}
		ms := k.mode(rest[0])
		if len(rest) != 1 || ms == nil || ms.id != rest[0] {
			return true, unsupported("command %q", line)
		}
		if o == nil && !isDefaultObj(k.id, name) {
			if neg {
				return true, refuse("missing", "%s %s does not exist", k.label, name)
			}
			return true, refuse("order", "%q before '%s %s %s ...'", line, k.label, name, k.create[0])
		}
		if neg {
			if o == nil || o.Modes[ms.id] == nil {
				return true, refuse("missing", "%s %s has no %s", k.label, name, ms.id)
			}
			delete(o.Modes, ms.id)
			if isDefaultObj(k.id, name) && len(o.Modes) == 0 && len(o.Top) == 0 {
				g.del(k.id, name)
			}
			return true, nil
		}
		g.put(k.id, name).mode(ms.id)
		s.mode = modeRef{kind: k.id, name: name, sub: ms.id}
		return true, nil
	case kAAA:
		if neg {
			return true, unsupported("command %q", line)
		}
		id, ok := aaaHost(rest)
		if !ok {
			return true, unsupported("command %q", line)
		}
		if o == nil {
			return true, refuse("dangling", "aaa-server group %s does not exist", name)
		}
		want := id[strings.Index(id, "host "):]
		for _, have := range o.seqs() {
			if have[strings.Index(have, "host "):] == want {
				s.mode = modeRef{kind: k.id, name: name, sub: have}
				return true, nil
			}
		}
		return true, refuse("dangling", "%q: aaa-server group %s has no such server", line, name)
	}
	return true, unsupported("command %q", line)
}
