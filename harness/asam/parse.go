package asam

import (
	"net/netip"
	"strconv"
	"strings"
)

// ----------------------------------------------------------- ACE parsing

// Names a device may print; independent of the tool's tables (subset taken
// from Cisco's command reference).
var tcpByName = map[string]int{
	"www": 80, "http": 80, "ssh": 22, "domain": 53, "https": 443, "smtp": 25, "ftp": 21,
	"ftp-data": 20, "telnet": 23, "pop3": 110, "bgp": 179, "ldap": 389, "ldaps": 636,
	"imap4": 143, "nntp": 119, "sqlnet": 1521, "tacacs": 49, "sunrpc": 111,
	"echo": 7, "discard": 9, "daytime": 13, "chargen": 19, "whois": 43, "gopher": 70,
	"finger": 79, "hostname": 101, "pop2": 109, "ident": 113, "irc": 194, "exec": 512,
	"login": 513, "cmd": 514, "rsh": 514, "lpd": 515, "talk": 517, "uucp": 540, "klogin": 543,
	"kshell": 544, "rtsp": 554, "kerberos": 750, "lotusnotes": 1352, "citrix-ica": 1494,
	"h323": 1720, "pptp": 1723, "nfs": 2049, "ctiqbe": 2748, "cifs": 3020, "sip": 5060,
	"aol": 5190, "pcanywhere-data": 5631, "netbios-ssn": 139, "pim-auto-rp": 496,
}
var udpByName = map[string]int{
	"domain": 53, "dns": 53, "ntp": 123, "snmp": 161, "snmptrap": 162, "syslog": 514, "tftp": 69,
	"bootps": 67, "bootpc": 68, "isakmp": 500, "radius": 1645, "radius-acct": 1646,
	"netbios-ns": 137, "netbios-dgm": 138, "rip": 520, "www": 80, "http": 80, "sunrpc": 111,
	"echo": 7, "discard": 9, "time": 37, "nameserver": 42, "tacacs": 49, "biff": 512, "who": 513,
	"talk": 517, "xdmcp": 177, "dnsix": 195, "mobile-ip": 434, "pim-auto-rp": 496, "kerberos": 750,
	"nfs": 2049, "cifs": 3020, "sip": 5060, "pcanywhere-status": 5632, "secureid-udp": 5510,
	"non500-isakmp": 4500, "vxlan": 4789,
}
var protoByName = map[string]int{
	"esp": 50, "ah": 51, "gre": 47, "ospf": 89, "eigrp": 88, "igmp": 2, "pim": 103,
	"ipinip": 4, "ipsec": 50, "pptp": 47, "nos": 94, "pcp": 108, "snp": 109, "sctp": 132, "igrp": 9,
}
var logByName = map[string]int{
	"emergencies": 0, "alerts": 1, "critical": 2, "errors": 3, "warnings": 4,
	"notifications": 5, "informational": 6, "debugging": 7,
}
var icmpByName = map[string]string{
	"echo": "8", "echo-reply": "0", "unreachable": "3", "time-exceeded": "11",
	"source-quench": "4", "redirect": "5", "parameter-problem": "12",
	"timestamp-request": "13", "timestamp-reply": "14",
}

type words []string

func (w *words) peek() string {
	if len(*w) == 0 {
		return ""
	}
	return (*w)[0]
}
func (w *words) next() string {
	if len(*w) == 0 {
		return ""
	}
	x := (*w)[0]
	*w = (*w)[1:]
	return x
}

func parseMask(s string) (int, bool) {
	a, err := netip.ParseAddr(s)
	if err != nil || !a.Is4() {
		return 0, false
	}
	b := a.As4()
	m := uint32(b[0])<<24 | uint32(b[1])<<16 | uint32(b[2])<<8 | uint32(b[3])
	bits := 0
	for bits < 32 && m&(1<<(31-bits)) != 0 {
		bits++
	}
	if bits < 32 && m<<bits != 0 {
		return 0, false
	}
	return bits, true
}

func (s *State) parseAddr(w *words) (Obj, error) {
	t := w.next()
	switch t {
	case "":
		return Obj{}, unsupported("missing address")
	case "any4":
		return Obj{Pfx: netip.MustParsePrefix("0.0.0.0/0")}, nil
	case "any6":
		return Obj{Pfx: netip.MustParsePrefix("::/0")}, nil
	case "host":
		a, err := netip.ParseAddr(w.next())
		if err != nil {
			return Obj{}, unsupported("host address")
		}
		return Obj{Pfx: netip.PrefixFrom(a, a.BitLen())}, nil
	case "object-group":
		n := w.next()
		if n == "" {
			return Obj{}, unsupported("missing group name")
		}
		return Obj{Group: n}, nil
	case "any", "interface", "object", "object-group-security", "object-group-user",
		"security-group", "user", "user-group":
		return Obj{}, unsupported("address keyword %q", t)
	}
	if strings.Contains(t, "/") {
		p, err := netip.ParsePrefix(t)
		if err != nil {
			return Obj{}, unsupported("prefix %q", t)
		}
		return Obj{Pfx: p.Masked()}, nil
	}
	a, err := netip.ParseAddr(t)
	if err != nil || !a.Is4() {
		return Obj{}, unsupported("address %q", t)
	}
	bits, ok := parseMask(w.next())
	if !ok {
		return Obj{}, unsupported("netmask after %q", t)
	}
	return Obj{Pfx: netip.PrefixFrom(a, bits)}, nil
}

func portNum(proto, t string) (int, error) {
	if n, err := strconv.Atoi(t); err == nil && n >= 0 && n <= 65535 {
		return n, nil
	}
	var m map[string]int
	switch proto {
	case "tcp":
		m = tcpByName
	case "udp":
		m = udpByName
	}
	if n, ok := m[t]; ok {
		return n, nil
	}
	return 0, unsupported("port %q for %s", t, proto)
}

// parsePort parses an optional port operand. An "object-group G" is a port
// operand only if G is a service group with a protocol (tcp/udp/tcp-udp).
func (s *State) parsePort(proto string, w *words) (Port, error) {
	switch w.peek() {
	case "eq", "gt", "lt", "neq":
		op := w.next()
		n, err := portNum(proto, w.next())
		if err != nil {
			return Port{}, err
		}
		return Port{Op: op, Lo: n}, nil
	case "range":
		w.next()
		lo, err := portNum(proto, w.next())
		if err != nil {
			return Port{}, err
		}
		hi, err := portNum(proto, w.next())
		if err != nil {
			return Port{}, err
		}
		return Port{Op: "range", Lo: lo, Hi: hi}, nil
	case "object-group":
		if len(*w) >= 2 {
			if g := s.Groups[(*w)[1]]; g != nil && strings.HasPrefix(g.Kind, "service ") {
				w.next()
				return Port{Group: w.next()}, nil
			}
		}
	}
	return Port{}, nil
}

func parseLog(w *words) (Log, error) {
	l := Log{Level: -1, Interval: -1}
	if w.peek() != "log" {
		return l, nil
	}
	w.next()
	l.On = true
	switch t := w.peek(); t {
	case "disable", "default":
		l.Special = w.next()
		return l, nil
	case "":
		return l, nil
	default:
		if n, err := strconv.Atoi(t); err == nil && n >= 0 && n <= 7 {
			w.next()
			l.Level = n
		} else if n, ok := logByName[t]; ok {
			w.next()
			l.Level = n
		}
	}
	if w.peek() == "interval" {
		w.next()
		n, err := strconv.Atoi(w.next())
		if err != nil {
			return l, unsupported("log interval")
		}
		l.Interval = n
	}
	if l.Level == 6 {
		l.Level = -1
	}
	return l, nil
}

// ParseACE parses the words after "access-list NAME [line N]".
func (s *State) ParseACE(body string) (*ACE, error) {
	f := words(strings.Fields(body))
	a := &ACE{Log: Log{Level: -1, Interval: -1}}
	switch kind := f.next(); kind {
	case "remark":
		a.IsRemark = true
		_, a.Remark, _ = strings.Cut(body, "remark ")
		return a, nil
	case "standard":
		a.Std = true
	case "extended":
	default:
		return nil, unsupported("access-list kind %q", kind)
	}
	switch act := f.next(); act {
	case "permit":
		a.Permit = true
	case "deny":
	default:
		return nil, unsupported("action %q", act)
	}
	var err error
	if a.Std {
		if a.Src, err = s.parseAddr(&f); err != nil {
			return nil, err
		}
		if len(f) > 0 {
			return nil, unsupported("tail of standard ACE %v", f)
		}
		return a, nil
	}
	// Protocol
	switch p := f.next(); p {
	case "object-group":
		a.ProtoGroup = f.next()
	case "object", "":
		return nil, unsupported("protocol %q", p)
	default:
		if n, ok := protoByName[p]; ok {
			p = strconv.Itoa(n)
		}
		switch p {
		case "1":
			p = "icmp"
		case "6":
			p = "tcp"
		case "17":
			p = "udp"
		case "58":
			p = "icmp6"
		}
		if _, err := strconv.Atoi(p); err != nil {
			switch p {
			case "ip", "tcp", "udp", "icmp", "icmp6":
			default:
				return nil, unsupported("protocol name %q", p)
			}
		}
		a.Proto = p
	}
	if a.Src, err = s.parseAddr(&f); err != nil {
		return nil, err
	}
	ported := a.Proto == "tcp" || a.Proto == "udp"
	if ported {
		if a.SPort, err = s.parsePort(a.Proto, &f); err != nil {
			return nil, err
		}
	}
	if a.Dst, err = s.parseAddr(&f); err != nil {
		return nil, err
	}
	if ported || a.ProtoGroup != "" {
		if a.DPort, err = s.parsePort(a.Proto, &f); err != nil {
			return nil, err
		}
	}
	if a.Proto == "icmp" || a.Proto == "icmp6" {
		if t := f.peek(); t != "" && t != "log" {
			if _, err := strconv.Atoi(t); err == nil {
				a.ICMP = f.next()
			} else if v, ok := icmpByName[t]; ok && a.Proto == "icmp" {
				f.next()
				a.ICMP = v
			} else {
				return nil, unsupported("icmp type %q", t)
			}
			if t := f.peek(); t != "" {
				if _, err := strconv.Atoi(t); err == nil {
					a.ICMP += " " + f.next()
				}
			}
		}
	}
	if a.Log, err = parseLog(&f); err != nil {
		return nil, err
	}
	if len(f) > 0 {
		return nil, unsupported("tail of ACE %v", []string(f))
	}
	return a, nil
}

// ------------------------------------------------------- config parsing

// Parse loads a configuration text (device or Netspoc spelling) into a
// fresh state. Unknown top-level lines are kept verbatim as opaque lines
// together with their indented sub-lines.
func Parse(text string) (*State, error) {
	s := NewState()
	lines := strings.Split(text, "\n")
	// Pass 1: object-groups must be known before ACEs are parsed (port
	// group vs. address group disambiguation).
	type block struct {
		head string
		sub  []string
	}
	var blocks []*block
	for _, raw := range lines {
		line := strings.TrimRight(raw, " \t\r")
		if line == "" || line[0] == '!' {
			continue
		}
		if line[0] == ' ' {
			if len(blocks) == 0 {
				return nil, unsupported("indented first line")
			}
			b := blocks[len(blocks)-1]
			b.sub = append(b.sub, line)
			continue
		}
		blocks = append(blocks, &block{head: line})
	}
	for pass := 0; pass < 2; pass++ {
		for _, b := range blocks {
			isGroup := strings.HasPrefix(b.head, "object-group ")
			if isGroup != (pass == 0) {
				continue
			}
			if err := s.loadBlock(b.head, b.sub); err != nil {
				return nil, err
			}
		}
	}
	return s, nil
}

func subLines(sub []string) ([]string, error) {
	if len(sub) == 0 {
		return nil, nil
	}
	indent := len(sub[0]) - len(strings.TrimLeft(sub[0], " "))
	var res []string
	for _, l := range sub {
		ind := len(l) - len(strings.TrimLeft(l, " "))
		if ind < indent {
			return nil, unsupported("decreasing indentation")
		}
		if ind > indent {
			// sub-sub command: kept attached to previous line verbatim
			if len(res) == 0 {
				return nil, unsupported("sub-sub line first")
			}
			res[len(res)-1] += "\n" + l
			continue
		}
		res = append(res, strings.Join(strings.Fields(l), " "))
	}
	return res, nil
}

func (s *State) loadBlock(head string, sub []string) error {
	f := strings.Fields(head)
	subs, err := subLines(sub)
	if err != nil {
		return err
	}
	switch {
	case f[0] == "access-list" && len(f) >= 3:
		name := f[1]
		body := strings.Join(f[2:], " ")
		a, err := s.ParseACE(body)
		if err != nil {
			return err
		}
		s.ACLs[name] = append(s.ACLs[name], a)
		return nil
	case f[0] == "object-group" && len(f) >= 3:
		g := &Group{Kind: f[1]}
		name := f[2]
		if len(f) == 4 {
			g.Kind += " " + f[3]
		} else if len(f) > 4 {
			return unsupported("object-group header %q", head)
		}
		switch f[1] {
		case "network", "service", "protocol":
		default:
			return unsupported("object-group type %q", f[1])
		}
		for _, l := range subs {
			if d, ok := strings.CutPrefix(l, "description "); ok {
				g.Descr = d
				continue
			}
			m, err := canonMember(g.Kind, l)
			if err != nil {
				return err
			}
			g.Members = append(g.Members, m)
		}
		if _, dup := s.Groups[name]; dup {
			return unsupported("object-group %s defined twice", name)
		}
		s.Groups[name] = g
		return nil
	case f[0] == "access-group":
		slot, acl, err := parseAccessGroup(f)
		if err != nil {
			return err
		}
		s.Bind[slot] = acl
		return nil
	case f[0] == "route" && len(f) >= 5:
		if len(f) > 6 {
			return unsupported("route tail")
		}
		s.Routes[strings.Join(f[:5], " ")] = true
		return nil
	case f[0] == "ipv6" && len(f) >= 5 && f[1] == "route":
		if len(f) > 6 {
			return unsupported("ipv6 route tail")
		}
		s.Routes[strings.Join(f[:5], " ")] = true
		return nil
	case f[0] == "interface" && len(f) == 2:
		i := &Intf{HW: f[1]}
		for _, l := range subs {
			sf := strings.Fields(l)
			switch {
			case l == "shutdown":
				i.Shut = true
			case sf[0] == "nameif" && len(sf) == 2:
				i.Nameif = sf[1]
			default:
				i.Extra = append(i.Extra, l)
			}
		}
		s.Intfs = append(s.Intfs, i)
		return nil
	}
	if ok, err := s.Gen.load(head, subs); ok || err != nil {
		return err
	}
	// Opaque: keep verbatim, including sub lines.
	s.Opaque = append(s.Opaque, head)
	s.Opaque = append(s.Opaque, sub...)
	return nil
}

func parseAccessGroup(f []string) (Slot, string, error) {
	switch {
	case len(f) == 3 && f[2] == "global":
		return Slot{"", "global"}, f[1], nil
	case len(f) == 5 && (f[2] == "in" || f[2] == "out") && f[3] == "interface":
		return Slot{f[4], f[2]}, f[1], nil
	}
	return Slot{}, "", unsupported("access-group form %v", f)
}

// canonMember normalises a member line of an object-group to the spelling
// the device stores. Only whitespace is normalised; the tool compares
// member lines literally, so the model does too.
func canonMember(kind, l string) (string, error) {
	f := strings.Fields(l)
	if len(f) < 2 {
		return "", unsupported("group member %q", l)
	}
	switch kind {
	case "network":
		if f[0] != "network-object" && f[0] != "group-object" {
			return "", unsupported("member %q of network group", l)
		}
	case "protocol":
		if f[0] != "protocol-object" && f[0] != "group-object" {
			return "", unsupported("member %q of protocol group", l)
		}
	case "service":
		if f[0] != "service-object" && f[0] != "group-object" {
			return "", unsupported("member %q of service group", l)
		}
	default: // service tcp|udp|tcp-udp
		if f[0] != "port-object" && f[0] != "group-object" {
			return "", unsupported("member %q of port group", l)
		}
	}
	return strings.Join(f, " "), nil
}
