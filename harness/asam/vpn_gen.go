package asam

import (
	"fmt"
	"strings"

	"pgregory.net/rapid"
)

// Generator for the VPN part (GenOpts.VPN). Small universe: one crypto map
// with <= 2 static peers and one dynamic entry, two transform-sets / two
// proposals, one IP-named and one certificate-mapped tunnel-group, two
// group-policies plus DfltGrpPolicy, two users, one pool, one aaa-server
// with its ldap attribute-map. Only vocabulary the tool documents or the
// repository's examples show is emitted.

var (
	vpnPeers  = []string{"10.0.0.1", "10.0.0.2", "10.0.0.3"}
	vpnNets   = []string{"10.0.1.0 255.255.255.0", "10.0.2.0 255.255.255.0", "10.0.3.0 255.255.255.0", "10.99.2.0 255.255.255.0"}
	tsetNames = []string{"Trans1", "Trans2"}
	tsetDefs  = []string{"esp-3des esp-md5-hmac", "esp-aes-256 esp-sha-hmac", "esp-aes esp-md5-hmac"}
	propNames = []string{"Prop1", "Prop2"}
	propEnc   = []string{"protocol esp encryption aes-256", "protocol esp encryption aes-192 aes-256", "protocol esp encryption aes"}
	propInt   = []string{"protocol esp integrity sha-1", "protocol esp integrity sha-256"}
	pfsVals   = []string{"set pfs", "set pfs group14", "set pfs group19", "set pfs group5"}
	lifeVals  = []string{"set security-association lifetime seconds 3600", "set security-association lifetime seconds 43200",
		"set security-association lifetime kilobytes 4608000"}
	flagVals     = []string{"set nat-t-disable", "set reverse-route"}
	poolDefs     = []string{"10.1.219.192-10.1.219.255 mask 0.0.0.63", "10.1.219.192-10.1.219.208 mask 0.0.0.15"}
	gpExtra      = []string{"vpn-idle-timeout 60", "vpn-idle-timeout 120", "vpn-session-timeout 40", "split-tunnel-policy tunnelall", "banner value Willkommen!", "banner value Welcome!", "dns-server value 10.1.2.3", "dns-server value 10.1.2.3 10.44.55.66", "vpn-simultaneous-logins 4", "pfs enable"}
	dfltExtra    = []string{"banner value Willkommen!", "vpn-idle-timeout 240", "vpn-simultaneous-logins 1", "vpn-tunnel-protocol ikev2", "vpn-tunnel-protocol ikev1 ikev2"}
	l2lIpsec     = []string{"peer-id-validate nocheck", "peer-id-validate req", "ikev2 local-authentication certificate Trustpoint2", "ikev2 remote-authentication certificate", "trust-point ASDM_TrustPoint5", "ikev1 trust-point ASDM_TrustPoint1"}
	raIpsec      = []string{"peer-id-validate req", "isakmp ikev1-user-authentication none", "trust-point ASDM_TrustPoint4", "trust-point ASDM_TrustPoint5", "ikev1 user-authentication none"}
	raWebvpn     = []string{"authentication aaa certificate", "authentication certificate", "authentication aaa"}
	userExtra    = []string{"vpn-framed-ip-address 10.1.1.67 255.255.254.0", "vpn-framed-ip-address 10.11.22.33 255.255.0.0", "service-type remote-access", "vpn-idle-timeout 60", "vpn-simultaneous-logins 4", "password-storage enable"}
	userNames    = []string{"jon.doe@token.example.com", "ann@example.com"}
	subjects     = []string{"subject-name attr ea co @sub.example.com", "subject-name attr ea co @SUB.Example.com", "subject-name attr cn co G1", "subject-name attr ea eq x@a.example.com"}
	ekuVals      = []string{"extended-key-usage co clientauth", "extended-key-usage co 1.3.6.1.4.1.311.20.2.2"}
	ignorableTG  = []string{"ikev1 pre-shared-key *****", "ikev2 local-authentication pre-shared-key *****", "ikev2 remote-authentication pre-shared-key *****", "isakmp keepalive threshold 15 retry 3"}
	aaaDevExtras = []string{"ldap-base-dn DC=example,DC=com", "ldap-scope subtree", "ldap-naming-attribute dNSHostName", "ldap-login-password *****"}
)

const (
	aaaName  = "LDAP_KV"
	ldapName = "LDAPMAP"
	dynName  = "dyn1@example.com"
)

func pick(t *rapid.T, l []string, label string) string { return rapid.SampledFrom(l).Draw(t, label) }

func chance(t *rapid.T, num, den int, label string) bool {
	return rapid.IntRange(0, den-1).Draw(t, label) < num
}

// subset draws a sub-list in which no two lines share their first word
// (one value per attribute).
func subset(t *rapid.T, l []string, min, max int, label string) []string {
	n := rapid.IntRange(min, max).Draw(t, label+"n")
	var res []string
	seen := map[string]bool{}
	for i := 0; i < n; i++ {
		x := pick(t, l, fmt.Sprintf("%s%d", label, i))
		w := strings.Fields(x)
		k := w[0]
		if k == "ikev2" || k == "ikev1" || k == "isakmp" || k == "set" {
			k = strings.Join(w[:len(w)-1], " ")
		}
		if !seen[k] {
			seen[k] = true
			res = append(res, x)
		}
	}
	return res
}

func vpnACL(t *rapid.T, label string, std bool) []*ACE {
	n := rapid.IntRange(1, 2).Draw(t, label+"n")
	var acl []*ACE
	for i := 0; i < n; i++ {
		f := strings.Fields(pick(t, vpnNets, fmt.Sprintf("%snet%d", label, i)))
		bits, _ := parseMask(f[1])
		a := &ACE{Permit: true, Log: Log{Level: -1, Interval: -1}}
		if std {
			a.Std = true
			a.Src = Obj{Pfx: pfx(fmt.Sprintf("%s/%d", f[0], bits))}
		} else {
			a.Proto = "ip"
			a.Src = Obj{Pfx: genAddrPfx(t, fmt.Sprintf("%ssrc%d", label, i))}
			a.Dst = Obj{Pfx: pfx(fmt.Sprintf("%s/%d", f[0], bits))}
		}
		if !hasDup(acl, a) {
			acl = append(acl, a)
		}
	}
	if !std && chance(t, 1, 2, label+"deny") {
		acl = append(acl, &ACE{Proto: "ip", Src: Obj{Pfx: pfx("0.0.0.0/0")}, Dst: Obj{Pfx: pfx("0.0.0.0/0")}, Log: Log{Level: -1, Interval: -1}})
	}
	return acl
}

// ensureTransform makes sure the named transform-set / proposal exists.
func (s *State) ensureTransform(t *rapid.T, kind, name, label string) {
	g := s.Gen
	if g.get(kind, name) != nil {
		return
	}
	o := g.put(kind, name)
	if kind == kTSet {
		o.Top = []string{pick(t, tsetDefs, label+"def")}
	} else {
		o.mode("").Lines = []string{pick(t, propEnc, label+"enc"), pick(t, propInt, label+"int")}
		// a proposal may also consist of one of the two lines only
		switch rapid.IntRange(0, 5).Draw(t, label+"propLines") {
		case 0:
			o.mode("").Lines = o.mode("").Lines[:1]
		case 1:
			o.mode("").Lines = o.mode("").Lines[1:]
		}
	}
}

// genEntryBody draws the attribute lines of a crypto entry (without peer).
func (s *State) genEntryBody(t *rapid.T, acl, label string) []string {
	var lines []string
	if acl != "" {
		if s.ACLs[acl] == nil {
			s.ACLs[acl] = vpnACL(t, label+"acl", false)
		}
		lines = append(lines, "match address "+acl)
	}
	if chance(t, 2, 3, label+"v1") {
		n := pick(t, tsetNames, label+"ts")
		s.ensureTransform(t, kTSet, n, label+"ts")
		l := "set ikev1 transform-set " + n
		if chance(t, 1, 5, label+"ts2") {
			for _, m := range tsetNames {
				if m != n {
					s.ensureTransform(t, kTSet, m, label+"tsB")
					l += " " + m
				}
			}
		}
		lines = append(lines, l)
	} else {
		n := pick(t, propNames, label+"pr")
		s.ensureTransform(t, kProp, n, label+"pr")
		lines = append(lines, "set ikev2 ipsec-proposal "+n)
	}
	if chance(t, 1, 2, label+"pfs") {
		lines = append(lines, pick(t, pfsVals, label+"pfsV"))
	}
	if chance(t, 1, 3, label+"life") {
		lines = append(lines, pick(t, lifeVals, label+"lifeV"))
	}
	if chance(t, 1, 6, label+"flag") {
		lines = append(lines, pick(t, flagVals, label+"flagV"))
	}
	return lines
}

func cryptoIntf(s *State) string {
	for _, i := range s.Intfs {
		if i.Nameif == "outside" {
			return "outside"
		}
	}
	return s.Intfs[0].Nameif
}

func (s *State) genGroupPolicy(t *rapid.T, name, label string, ra bool) {
	g := s.Gen
	if g.get(kGP, name) != nil {
		return
	}
	o := g.put(kGP, name)
	o.Top = []string{"internal"}
	var lines []string
	if ra {
		if g.get(kPool, "pool") == nil {
			g.put(kPool, "pool").Top = []string{pick(t, poolDefs, label+"pool")}
		}
		lines = append(lines, "address-pools value pool")
	}
	if chance(t, 3, 4, label+"vf") {
		acl := "vpn-filter-" + name
		if s.ACLs[acl] == nil {
			s.ACLs[acl] = vpnACL(t, label+"vfacl", false)
		}
		lines = append(lines, "vpn-filter value "+acl)
	}
	if ra && chance(t, 1, 3, label+"st") {
		if s.ACLs["split-tunnel"] == nil {
			s.ACLs["split-tunnel"] = vpnACL(t, label+"stacl", true)
		}
		lines = append(lines, "split-tunnel-network-list value split-tunnel", "split-tunnel-policy tunnelspecified")
	}
	for _, x := range subset(t, gpExtra, 0, 2, label+"x") {
		if strings.HasPrefix(x, "split-tunnel-policy") && len(lines) > 0 && strings.HasPrefix(lines[len(lines)-1], "split-tunnel-policy") {
			continue
		}
		lines = append(lines, x)
	}
	if len(lines) > 0 || chance(t, 1, 2, label+"emptyAttr") {
		o.mode("attributes").Lines = lines
	}
}

// genVPN adds a VPN part to a (target or independent device) state.
func genVPN(t *rapid.T, s *State, opts GenOpts, label string) {
	g := s.Gen
	// 1. crypto map with static and dynamic entries, IP-named tunnel-groups
	if chance(t, 2, 3, label+"crypto") {
		intf := cryptoIntf(s)
		name := "crypto-" + intf
		o := g.put(kCMap, name)
		nStatic := rapid.IntRange(0, 2).Draw(t, label+"nStatic")
		used := map[string]bool{}
		for i := 0; i < nStatic; i++ {
			peer := pick(t, vpnPeers, fmt.Sprintf("%speer%d", label, i))
			if used[peer] {
				continue
			}
			used[peer] = true
			el := fmt.Sprintf("%se%d", label, i)
			acl := "crypto-" + peer
			if chance(t, 1, 8, el+"noacl") {
				acl = ""
			}
			lines := s.genEntryBody(t, acl, el)
			// Netspoc writes the peer after the ACL.
			at := 0
			if acl != "" {
				at = 1
			}
			lines = append(lines[:at:at], append([]string{"set peer " + peer}, lines[at:]...)...)
			o.mode(fmt.Sprint(i + 1)).Lines = lines
			if chance(t, 1, 2, el+"tg") {
				tg := g.put(kTG, peer)
				tg.Top = []string{"type ipsec-l2l"}
				if chance(t, 1, 2, el+"tgGen") {
					gp := "VPN-l2l"
					s.genGroupPolicy(t, gp, el+"gp", false)
					tg.mode("general-attributes").Lines = []string{"default-group-policy " + gp}
				}
				tg.mode("ipsec-attributes").Lines = subset(t, l2lIpsec, 0, 3, el+"tgIpsec")
			}
		}
		// C16 names "several crypto entries with the same peer" as a tie.
		if opts.Ties && len(o.Modes) > 0 && chance(t, 1, 4, label+"dupPeer") {
			src := o.Modes[o.seqs()[0]]
			dup := &vmode{}
			for _, l := range src.Lines {
				if !strings.HasPrefix(l, "set pfs") {
					dup.Lines = append(dup.Lines, l)
				}
			}
			dup.Lines = append(dup.Lines, pick(t, pfsVals[2:], label+"dupPfs"))
			o.Modes["9"] = dup
		}
		if len(o.Modes) == 0 || chance(t, 1, 3, label+"dyn") {
			d := g.put(kDyn, dynName)
			acl := "crypto-dyn"
			if chance(t, 1, 4, label+"dynNoACL") {
				acl = ""
			}
			body := s.genEntryBody(t, acl, label+"dynE")
			var keep []string
			for _, l := range body {
				if l != "set nat-t-disable" {
					keep = append(keep, l)
				}
			}
			d.mode("20").Lines = keep
			o.mode("65535").Lines = []string{"ipsec-isakmp dynamic " + dynName}
		}
		if chance(t, 7, 8, label+"bound") {
			g.CryptoIf[intf] = name
		}
	}
	// 2. remote access: pool, group-policy, mapped tunnel-group, aaa
	if chance(t, 1, 2, label+"ra") {
		gp := "VPN-group"
		s.genGroupPolicy(t, gp, label+"raGP", true)
		tgName := "VPN-tunnel"
		tg := g.put(kTG, tgName)
		tg.Top = []string{"type remote-access"}
		gen := []string{"default-group-policy " + gp}
		if chance(t, 1, 3, label+"aaa") {
			a := g.put(kAAA, aaaName)
			a.Top = []string{"protocol ldap"}
			a.mode("host X").Lines = []string{"ldap-attribute-map " + ldapName}
			lm := g.put(kLDAP, ldapName)
			ml := []string{"map-name memberOf Group-Policy", `map-value memberOf "CN=g-m1,OU=VPN,OU=group,DC=example,DC=com" ` + gp}
			if chance(t, 1, 2, label+"aaaGP2") {
				s.genGroupPolicy(t, "VPN-group2", label+"raGP2", true)
				ml = append(ml, `map-value memberOf "CN=g-m2,OU=VPN,OU=local group,DC=example,DC=com" VPN-group2`)
			}
			lm.mode("").Lines = ml
			gen = append(gen, "authentication-server-group "+aaaName)
			if chance(t, 1, 3, label+"noDGP") {
				gen = gen[1:]
			}
		}
		if len(gen) > 0 || chance(t, 1, 2, label+"emptyGen") {
			tg.mode("general-attributes").Lines = gen
		}
		if chance(t, 1, 2, label+"raIpsec") {
			tg.mode("ipsec-attributes").Lines = subset(t, raIpsec, 1, 3, label+"raIpsecL")
		}
		if chance(t, 1, 2, label+"raWeb") {
			tg.mode("webvpn-attributes").Lines = []string{pick(t, raWebvpn, label+"raWebL")}
		}
		cm := g.put(kCert, "ca-map")
		seq := pick(t, []string{"10", "20"}, label+"certSeq")
		cl := []string{pick(t, subjects, label+"subj")}
		if chance(t, 1, 3, label+"eku") {
			cl = append(cl, pick(t, ekuVals, label+"ekuV"))
		}
		cm.mode(seq).Lines = cl
		k := rapid.IntRange(0, 3).Draw(t, label+"maps")
		if k != 1 {
			g.TGMap = append(g.TGMap, mapEntry{"ca-map", seq, tgName})
		}
		if k == 1 || k == 2 {
			g.Webvpn = true
			g.CGMap = append(g.CGMap, mapEntry{"ca-map", seq, tgName})
		}
		// A second mapped tunnel-group: its own rule of the certificate map
		// (another index, another subject), entries in the same lists.
		if chance(t, 2, 3, label+"tg2") {
			tg2Name := "VPN-tunnel2"
			tg2 := g.put(kTG, tg2Name)
			if chance(t, 1, 3, label+"tg2l2l") {
				tg2.Top = []string{"type ipsec-l2l"}
				tg2.mode("ipsec-attributes").Lines = subset(t, l2lIpsec, 1, 3, label+"tg2Ipsec")
			} else {
				tg2.Top = []string{"type remote-access"}
				tg2.mode("general-attributes").Lines = []string{"default-group-policy " + gp}
				if chance(t, 1, 2, label+"tg2Ipsec") {
					tg2.mode("ipsec-attributes").Lines = subset(t, raIpsec, 1, 2, label+"tg2IpsecL")
				}
			}
			// Its own map name: the tool identifies a map entry by the first
			// rule found under the map's name, i.e. it relies on one rule per
			// name, as Netspoc generates them.
			cert2, seq2 := "ca-map2", pick(t, []string{"10", "20", "30"}, label+"cert2seq")
			var subj2 []string
			for _, x := range subjects {
				if strings.ToLower(x) != strings.ToLower(cl[0]) {
					subj2 = append(subj2, x)
				}
			}
			g.put(kCert, cert2).mode(seq2).Lines = []string{pick(t, subj2, label+"subj2")}
			if k != 1 {
				g.TGMap = append(g.TGMap, mapEntry{cert2, seq2, tg2Name})
			}
			if k == 1 || k == 2 {
				g.CGMap = append(g.CGMap, mapEntry{cert2, seq2, tg2Name})
			}
		}
		if chance(t, 1, 6, label+"dfltMap") {
			g.TGMap = append(g.TGMap, mapEntry{"", "", pick(t, []string{tgName, "DefaultRAGroup", "DefaultL2LGroup"}, label+"dfltMapTG")})
		}
	}
	// 3. DfltGrpPolicy and built-in tunnel-groups
	if chance(t, 1, 3, label+"dflt") {
		g.put(kGP, "DfltGrpPolicy").mode("attributes").Lines = subset(t, dfltExtra, 1, 3, label+"dfltL")
	}
	if chance(t, 1, 8, label+"dfltTG") {
		n := pick(t, []string{"DefaultL2LGroup", "DefaultRAGroup"}, label+"dfltTGn")
		o := g.put(kTG, n)
		if chance(t, 1, 2, label+"dfltTGtype") {
			o.Top = []string{kindByID[kTG].defaults[n]}
		}
		o.mode("ipsec-attributes").Lines = subset(t, l2lIpsec, 1, 2, label+"dfltTGl")
	}
	// 4. users
	for i, n := 0, rapid.IntRange(0, 2).Draw(t, label+"nUsers"); i < n; i++ {
		ul := fmt.Sprintf("%su%d", label, i)
		name := userNames[i]
		u := g.put(kUser, name)
		u.Top = []string{"nopassword"}
		lines := subset(t, userExtra, 0, 3, ul+"x")
		if chance(t, 1, 2, ul+"vf") {
			acl := fmt.Sprintf("vpn-filter-u%d", i)
			s.ACLs[acl] = vpnACL(t, ul+"acl", false)
			lines = append(lines, "vpn-filter value "+acl)
		}
		if chance(t, 1, 2, ul+"gp") {
			gp := "VPN-group"
			if g.get(kGP, gp) == nil || chance(t, 1, 3, ul+"ownGP") {
				gp = "VPN-user"
			}
			s.genGroupPolicy(t, gp, ul+"gpDef", gp == "VPN-group")
			lines = append(lines, "vpn-group-policy "+gp)
		}
		if len(lines) > 0 || chance(t, 1, 2, ul+"emptyAttr") {
			u.mode("attributes").Lines = lines
		}
	}
	// 5. sysopt
	if chance(t, 1, 4, label+"sysopt") {
		g.NoSysopt = true
	}
	g.oneValuePerAttr()
}

// oneValuePerAttr makes every mode hold at most one value per single-valued
// attribute (the later line wins), as on a device.
func (g *GenStore) oneValuePerAttr() {
	for _, k := range schema {
		for _, n := range g.names(k.id) {
			obj := g.Objs[k.id][n]
			for _, id := range obj.seqs() {
				ms := k.mode(id)
				if ms == nil {
					continue
				}
				old := obj.Modes[id].Lines
				md := &vmode{}
				for _, l := range old {
					if ms.find(strings.Fields(firstLine(l))) == nil {
						md.Lines = append(md.Lines, l)
						continue
					}
					putLine(k.id, ms, md, l)
				}
				obj.Modes[id].Lines = md.Lines
			}
		}
	}
}

// renameObj renames a schema object and every reference to it.
func (g *GenStore) renameObj(kind, old, new string) bool {
	if old == new || g.get(kind, old) == nil || g.get(kind, new) != nil {
		return false
	}
	g.Objs[kind][new] = g.Objs[kind][old]
	delete(g.Objs[kind], old)
	g.renameRef(kind, old, new)
	return true
}

// renamable kinds: the tool generates names for them.
var renamableKinds = []string{kGP, kTG, kCert, kTSet, kProp, kPool}

func renamable(kind, name string) bool {
	if isDefaultObj(kind, name) {
		return false
	}
	return !(kind == kTG && isIPName(name))
}

// tagAll gives every object with a generated name the name a previous
// approve would have produced.
func (g *GenStore) tagAll() {
	for _, kind := range renamableKinds {
		for _, n := range g.names(kind) {
			if renamable(kind, n) {
				g.renameObj(kind, n, n+"-DRC-0")
			}
		}
	}
}

func (o *vobj) copy() *vobj {
	c := newObj()
	c.Top = append([]string(nil), o.Top...)
	for id, md := range o.Modes {
		c.Modes[id] = &vmode{Lines: append([]string(nil), md.Lines...)}
	}
	return c
}

type modeAt struct {
	kind, name, id string
}

// editableModes lists the (object, mode) pairs whose attribute lines the
// edit operators may change.
func (g *GenStore) editableModes() []modeAt {
	var res []modeAt
	for _, kind := range []string{kCMap, kDyn, kGP, kTG, kUser, kCert, kProp} {
		for _, n := range g.names(kind) {
			for _, id := range g.Objs[kind][n].seqs() {
				res = append(res, modeAt{kind, n, id})
			}
		}
	}
	return res
}

// vocabulary for adding / changing a line in a mode
func vocabFor(m modeAt, o *vobj) []string {
	switch m.kind {
	case kCMap, kDyn:
		for _, l := range o.Modes[m.id].Lines {
			if strings.HasPrefix(l, "ipsec-isakmp dynamic") {
				return nil
			}
		}
		return cat3(pfsVals, lifeVals, flagVals[1:])
	case kGP:
		if m.name == "DfltGrpPolicy" {
			return dfltExtra
		}
		return gpExtra
	case kTG:
		switch m.id {
		case "ipsec-attributes":
			if o.Top != nil && o.Top[0] == "type remote-access" {
				return raIpsec
			}
			return l2lIpsec
		case "webvpn-attributes":
			return raWebvpn
		}
		return nil
	case kUser:
		return userExtra
	case kCert:
		return ekuVals
	case kProp:
		return cat3(propEnc, propInt, nil)
	}
	return nil
}

func cat3(a, b, c []string) []string {
	l := append([]string(nil), a...)
	l = append(l, b...)
	return append(l, c...)
}

// putLine sets a line the way a device would hold it (one value per
// single-valued attribute).
func putLine(kind string, ms *modeSpec, md *vmode, line string) {
	a := ms.find(strings.Fields(firstLine(line)))
	if a == nil {
		return
	}
	for _, l := range md.Lines {
		if l == line {
			return
		}
	}
	if !a.multi {
		j := 0
		for _, l := range md.Lines {
			if x := ms.find(strings.Fields(firstLine(l))); x != nil && lineKey(kind, x, l) == lineKey(kind, a, line) {
				continue
			}
			md.Lines[j] = l
			j++
		}
		md.Lines = md.Lines[:j]
	}
	md.Lines = append(md.Lines, line)
}

// mutateVPN applies one drawn edit operator to the VPN part of the device.
func (s *State) mutateVPN(t *rapid.T, o GenOpts, label string) string {
	g := s.Gen
	cmaps := g.names(kCMap)
	op := rapid.IntRange(0, 26).Draw(t, label+"vop")
	switch op {
	case 21:
		op = 19
	case 22, 23, 24:
		op = 20
	case 25, 26:
		// the device's proposal has a line more than the target's
		for _, n := range g.names(kProp) {
			md := g.Objs[kProp][n].mode("")
			if len(md.Lines) == 1 {
				if strings.Contains(md.Lines[0], " encryption ") {
					md.Lines = append(md.Lines, pick(t, propInt, label+"propAddInt"))
				} else {
					md.Lines = append([]string{pick(t, propEnc, label+"propAddEnc")}, md.Lines...)
				}
				return "vpn:proposalLineAdded"
			}
		}
		return "vpn:noop"
	}
	switch op {
	case 0: // peer changed
		if len(cmaps) == 0 {
			return "vpn:noop"
		}
		cm := g.Objs[kCMap][cmaps[0]]
		seqs := cm.seqs()
		seq := pick(t, seqs, label+"seq")
		np := pick(t, vpnPeers, label+"np")
		for _, other := range seqs {
			for _, l := range cm.Modes[other].Lines {
				if l == "set peer "+np && !o.Ties {
					return "vpn:noop"
				}
			}
		}
		for i, l := range cm.Modes[seq].Lines {
			if strings.HasPrefix(l, "set peer ") {
				cm.Modes[seq].Lines[i] = "set peer " + np
				return "vpn:peerChanged"
			}
		}
		return "vpn:noop"
	case 1: // entry removed
		if len(cmaps) == 0 {
			return "vpn:noop"
		}
		cm := g.Objs[kCMap][cmaps[0]]
		if len(cm.Modes) < 2 {
			return "vpn:noop"
		}
		delete(cm.Modes, pick(t, cm.seqs(), label+"seq"))
		return "vpn:entryRemoved"
	case 2: // entry added on the device only
		name := "crypto-" + cryptoIntf(s)
		if len(cmaps) > 0 {
			name = cmaps[0]
		}
		cm := g.put(kCMap, name)
		peer := pick(t, vpnPeers, label+"peer")
		for _, seq := range cm.seqs() {
			for _, l := range cm.Modes[seq].Lines {
				if l == "set peer "+peer && !o.Ties {
					return "vpn:noop"
				}
			}
		}
		seq := fmt.Sprint(rapid.IntRange(1, 9).Draw(t, label+"newSeq"))
		if cm.Modes[seq] != nil {
			return "vpn:noop"
		}
		acl := pick(t, []string{"crypto-" + peer, "crypto-" + peer + "-DRC-0", "crypto-old"}, label+"acl")
		lines := s.genEntryBody(t, acl, label+"body")
		cm.mode(seq).Lines = append([]string{"set peer " + peer}, lines...)
		return "vpn:entryAdded"
	case 3: // sequence number changed
		if len(cmaps) == 0 {
			return "vpn:noop"
		}
		cm := g.Objs[kCMap][cmaps[0]]
		seq := pick(t, cm.seqs(), label+"seq")
		nseq := fmt.Sprint(rapid.IntRange(1, 12).Draw(t, label+"nseq"))
		dyn := false
		for _, l := range cm.Modes[seq].Lines {
			dyn = dyn || strings.HasPrefix(l, "ipsec-isakmp dynamic")
		}
		if dyn {
			nseq = fmt.Sprint(65535 - rapid.IntRange(0, 3).Draw(t, label+"dseq"))
		}
		if cm.Modes[nseq] != nil {
			return "vpn:noop"
		}
		cm.Modes[nseq] = cm.Modes[seq]
		delete(cm.Modes, seq)
		return "vpn:seqRenumbered"
	case 4, 5, 6: // attribute changed / added / removed
		ms := g.editableModes()
		if len(ms) == 0 {
			return "vpn:noop"
		}
		m := ms[rapid.IntRange(0, len(ms)-1).Draw(t, label+"mode")]
		obj := g.Objs[m.kind][m.name]
		md := obj.Modes[m.id]
		spec := kindByID[m.kind].mode(m.id)
		if op == 6 {
			// remove a line that is neither the peer nor a reference to the dynamic map
			var cand []int
			for i, l := range md.Lines {
				if strings.HasPrefix(l, "set peer") || strings.HasPrefix(l, "ipsec-isakmp") {
					continue
				}
				cand = append(cand, i)
			}
			if len(cand) == 0 {
				return "vpn:noop"
			}
			i := cand[rapid.IntRange(0, len(cand)-1).Draw(t, label+"line")]
			md.Lines = append(md.Lines[:i:i], md.Lines[i+1:]...)
			return "vpn:attrRemoved"
		}
		voc := vocabFor(m, obj)
		if len(voc) == 0 {
			return "vpn:noop"
		}
		putLine(m.kind, spec, md, pick(t, voc, label+"val"))
		return "vpn:attrChanged"
	case 7: // rename an object
		kind := pick(t, renamableKinds, label+"kind")
		var names []string
		for _, n := range g.names(kind) {
			if renamable(kind, n) {
				names = append(names, n)
			}
		}
		if len(names) == 0 {
			return "vpn:noop"
		}
		n := pick(t, names, label+"name")
		base, _, _ := strings.Cut(n, "-DRC-")
		nn := pick(t, []string{base + "-DRC-0", base + "-DRC-1", base, "manual-" + base}, label+"nn")
		if g.renameObj(kind, n, nn) {
			return "vpn:renamed"
		}
		return "vpn:noop"
	case 8: // group-policy shared: every referrer uses one policy
		gps := g.names(kGP)
		var real []string
		for _, n := range gps {
			if n != "DfltGrpPolicy" {
				real = append(real, n)
			}
		}
		if len(real) < 2 {
			return "vpn:noop"
		}
		keep := pick(t, real, label+"keep")
		drop := pick(t, real, label+"drop")
		if keep == drop {
			return "vpn:noop"
		}
		g.renameRef(kGP, drop, keep)
		if chance(t, 1, 2, label+"dropIt") {
			g.del(kGP, drop)
		}
		return "vpn:gpShared"
	case 9: // group-policy split: one referrer gets its own copy
		for _, kind := range []string{kTG, kUser} {
			for _, n := range g.names(kind) {
				obj := g.Objs[kind][n]
				for _, id := range obj.seqs() {
					for i, l := range obj.Modes[id].Lines {
						for _, key := range []string{"default-group-policy ", "vpn-group-policy "} {
							gp, ok := strings.CutPrefix(l, key)
							if !ok || g.get(kGP, gp) == nil || gp == "DfltGrpPolicy" {
								continue
							}
							base, _, _ := strings.Cut(gp, "-DRC-")
							nn := base + "-DRC-5"
							if g.get(kGP, nn) != nil {
								continue
							}
							if who := g.userOfKind(kGP, gp); who == "" {
								continue
							}
							g.Objs[kGP][nn] = g.Objs[kGP][gp].copy()
							obj.Modes[id].Lines[i] = key + nn
							return "vpn:gpSplit"
						}
					}
				}
			}
		}
		return "vpn:noop"
	case 10: // left-overs with generated names
		switch rapid.IntRange(0, 4).Draw(t, label+"lo") {
		case 0:
			n := pick(t, []string{"VPN-group-DRC-0", "VPN-group-DRC-1", "VPN-l2l-DRC-0"}, label+"loN")
			if g.get(kGP, n) == nil {
				s.genGroupPolicy(t, n, label+"loGP", false)
			}
		case 1:
			n := pick(t, []string{"pool-DRC-0", "pool-DRC-1"}, label+"loN")
			if g.get(kPool, n) == nil {
				g.put(kPool, n).Top = []string{pick(t, poolDefs, label+"loPool")}
			}
		case 2:
			n := pick(t, []string{"Trans1-DRC-0", "Trans2-DRC-0", "Trans1-DRC-1"}, label+"loN")
			s.ensureTransform(t, kTSet, n, label+"loTS")
		case 3:
			n := pick(t, []string{"Prop1-DRC-0", "Prop2-DRC-0"}, label+"loN")
			s.ensureTransform(t, kProp, n, label+"loPr")
		case 4:
			tn := pick(t, []string{"VPN-tunnel-DRC-0", "VPN-tunnel-DRC-1"}, label+"loN")
			if g.get(kTG, tn) == nil {
				tg := g.put(kTG, tn)
				tg.Top = []string{"type remote-access"}
				tg.mode("ipsec-attributes").Lines = subset(t, raIpsec, 1, 2, label+"loTG")
				cn := pick(t, []string{"ca-map-DRC-0", "ca-map-DRC-1"}, label+"loC")
				if g.get(kCert, cn) == nil {
					g.put(kCert, cn).mode("10").Lines = []string{pick(t, subjects, label+"loS")}
				}
			}
		}
		return "vpn:leftover"
	case 11: // binding of the crypto map
		if len(cmaps) == 0 {
			return "vpn:noop"
		}
		intf := s.Intfs[rapid.IntRange(0, len(s.Intfs)-1).Draw(t, label+"intf")].Nameif
		if intf == "" {
			return "vpn:noop"
		}
		if _, ok := g.CryptoIf[intf]; ok {
			delete(g.CryptoIf, intf)
			return "vpn:unbound"
		}
		g.CryptoIf[intf] = cmaps[0]
		return "vpn:bound"
	case 12: // lines a device shows but the tool ignores
		did := false
		for _, n := range g.names(kTG) {
			if md := g.Objs[kTG][n].Modes["ipsec-attributes"]; md != nil && chance(t, 1, 2, label+"ign"+n) {
				md.Lines = addUnique(md.Lines, pick(t, ignorableTG, label+"ignL"+n))
				did = true
			}
		}
		for _, n := range g.names(kGP) {
			if md := g.Objs[kGP][n].Modes["attributes"]; md != nil && chance(t, 1, 3, label+"ignGP"+n) {
				md.Lines = addUnique(md.Lines, "webvpn\n  anyconnect ask none default anyconnect")
				did = true
			}
		}
		if a := g.get(kAAA, aaaName); a != nil && chance(t, 1, 2, label+"ignAAA") {
			for _, id := range a.seqs() {
				a.Modes[id].Lines = append(subset(t, aaaDevExtras, 1, 3, label+"aaaX"), a.Modes[id].Lines...)
			}
			did = true
		}
		if did {
			return "vpn:ignorable"
		}
		return "vpn:noop"
	case 13: // map entries
		if len(g.TGMap)+len(g.CGMap) > 0 && chance(t, 1, 2, label+"mapDel") {
			if len(g.CGMap) > 0 && (len(g.TGMap) == 0 || chance(t, 1, 2, label+"which")) {
				g.CGMap = g.CGMap[:len(g.CGMap)-1]
			} else {
				g.TGMap = g.TGMap[:len(g.TGMap)-1]
			}
			return "vpn:mapEntryRemoved"
		}
		// a device-only mapping with its own map and tunnel-group
		cn, tn := "old-map", "old-tunnel"
		if g.get(kCert, cn) != nil || g.get(kTG, tn) != nil {
			return "vpn:noop"
		}
		g.put(kCert, cn).mode("10").Lines = []string{"subject-name attr ea co @old.example.com"}
		tg := g.put(kTG, tn)
		tg.Top = []string{"type remote-access"}
		tg.mode("general-attributes")
		if chance(t, 1, 2, label+"oldWeb") {
			g.Webvpn = true
			g.CGMap = append(g.CGMap, mapEntry{cn, "10", tn})
		} else {
			g.TGMap = append(g.TGMap, mapEntry{cn, "10", tn})
		}
		return "vpn:mapEntryAdded"
	case 14: // users
		us := g.names(kUser)
		if len(us) > 0 && chance(t, 1, 2, label+"uDel") {
			g.del(kUser, pick(t, us, label+"u"))
			return "vpn:userRemoved"
		}
		n := pick(t, append([]string{"old.user@example.com"}, userNames...), label+"uN")
		if g.get(kUser, n) != nil {
			return "vpn:noop"
		}
		u := g.put(kUser, n)
		u.Top = []string{"nopassword"}
		if chance(t, 2, 3, label+"uAttr") {
			u.mode("attributes").Lines = subset(t, userExtra, 0, 2, label+"uX")
		}
		return "vpn:userAdded"
	case 15: // sysopt, DfltGrpPolicy
		if chance(t, 1, 2, label+"sys") {
			g.NoSysopt = !g.NoSysopt
			return "vpn:sysopt"
		}
		if g.get(kGP, "DfltGrpPolicy") != nil {
			g.del(kGP, "DfltGrpPolicy")
			return "vpn:dfltRemoved"
		}
		g.put(kGP, "DfltGrpPolicy").mode("attributes").Lines = subset(t, dfltExtra, 0, 2, label+"dflt")
		return "vpn:dfltAdded"
	case 16: // IP-named tunnel-groups
		var ips []string
		for _, n := range g.names(kTG) {
			if isIPName(n) && g.userOfKind(kTG, n) == "" {
				ips = append(ips, n)
			}
		}
		if len(ips) > 0 && chance(t, 1, 2, label+"tgDel") {
			g.del(kTG, pick(t, ips, label+"tg"))
			return "vpn:tunnelGroupRemoved"
		}
		n := pick(t, vpnPeers, label+"tgN")
		if g.get(kTG, n) != nil {
			return "vpn:noop"
		}
		tg := g.put(kTG, n)
		tg.Top = []string{"type ipsec-l2l"}
		tg.mode("ipsec-attributes").Lines = subset(t, l2lIpsec, 0, 2, label+"tgL")
		return "vpn:tunnelGroupAdded"
	case 18: // the device's aaa-server is not (yet) attached to its attribute map
		a := g.get(kAAA, aaaName)
		if a == nil || !chance(t, 1, 3, label+"detach") {
			return "vpn:noop"
		}
		did := false
		for _, id := range a.seqs() {
			md := a.Modes[id]
			j := 0
			for _, l := range md.Lines {
				if strings.HasPrefix(l, "ldap-attribute-map ") {
					did = true
					continue
				}
				md.Lines[j] = l
				j++
			}
			md.Lines = md.Lines[:j]
		}
		if did {
			return "vpn:aaaMapDetached"
		}
		return "vpn:noop"
	case 19: // rule of a certificate map renumbered (entries follow)
		var rules [][2]string
		for _, n := range g.names(kCert) {
			for _, q := range g.Objs[kCert][n].seqs() {
				rules = append(rules, [2]string{n, q})
			}
		}
		if len(rules) == 0 {
			return "vpn:noop"
		}
		r := rules[rapid.IntRange(0, len(rules)-1).Draw(t, label+"rule")]
		nq := pick(t, []string{"5", "10", "15", "20", "30", "40"}, label+"nq")
		cm := g.Objs[kCert][r[0]]
		if cm.Modes[nq] != nil {
			return "vpn:noop"
		}
		cm.Modes[nq] = cm.Modes[r[1]]
		delete(cm.Modes, r[1])
		for i := range g.TGMap {
			if g.TGMap[i].Cert == r[0] && g.TGMap[i].Seq == r[1] {
				g.TGMap[i].Seq = nq
			}
		}
		for i := range g.CGMap {
			if g.CGMap[i].Cert == r[0] && g.CGMap[i].Seq == r[1] {
				g.CGMap[i].Seq = nq
			}
		}
		return "vpn:certSeqRenumbered"
	case 20: // mapped tunnel-group of another type: nothing in common, must be replaced
		var cand []string
		for _, e := range append(append([]mapEntry{}, g.TGMap...), g.CGMap...) {
			if e.Cert != "" && g.get(kTG, e.TG) != nil && kindByID[kTG].defaults[e.TG] == "" {
				cand = append(cand, e.TG)
			}
		}
		if len(cand) == 0 {
			return "vpn:noop"
		}
		tg := g.Objs[kTG][pick(t, cand, label+"tgRepl")]
		if len(tg.Top) > 0 && tg.Top[0] == "type ipsec-l2l" {
			tg.Top = []string{"type remote-access"}
		} else {
			tg.Top = []string{"type ipsec-l2l"}
		}
		tg.Modes = map[string]*vmode{}
		if chance(t, 1, 2, label+"tgReplAttr") {
			tg.mode("ipsec-attributes").Lines = []string{"peer-id-validate cert"}
		}
		// often together with another index of its certificate map rule
		if chance(t, 1, 2, label+"tgReplSeq") {
			for _, n := range g.names(kCert) {
				cm := g.Objs[kCert][n]
				for _, q := range cm.seqs() {
					nq := pick(t, []string{"5", "15", "25", "40"}, label+"tgReplNq")
					used := false
					for _, e := range append(append([]mapEntry{}, g.TGMap...), g.CGMap...) {
						used = used || (e.Cert == n && e.Seq == q && g.get(kTG, e.TG) == tg)
					}
					if !used || cm.Modes[nq] != nil {
						continue
					}
					cm.Modes[nq] = cm.Modes[q]
					delete(cm.Modes, q)
					for i := range g.TGMap {
						if g.TGMap[i].Cert == n && g.TGMap[i].Seq == q {
							g.TGMap[i].Seq = nq
						}
					}
					for i := range g.CGMap {
						if g.CGMap[i].Cert == n && g.CGMap[i].Seq == q {
							g.CGMap[i].Seq = nq
						}
					}
					return "vpn:tunnelGroupReplacedAndRenumbered"
				}
			}
		}
		return "vpn:tunnelGroupReplaced"
	case 17: // objects without generated name that nothing managed uses
		switch rapid.IntRange(0, 4).Draw(t, label+"um") {
		case 3, 4:
			// crypto map bound at an interface Netspoc does not know;
			// the binding is listed before ("backup") or after ("wan2")
			// those of the managed interfaces
			nif := pick(t, []string{"backup", "wan2"}, label+"umIf")
			if len(s.Intfs) == 0 || len(s.Intfs) >= len(hwNames) || s.hasNameif(nif) {
				return "vpn:noop"
			}
			s.Intfs = append(s.Intfs, &Intf{HW: hwNames[len(s.Intfs)], Nameif: nif})
			name := "crypto-" + nif
			o := g.put(kCMap, name)
			s.ensureTransform(t, kTSet, "MANUAL-TS", label+"umTS")
			acl := "crypto-" + nif + "-1"
			s.ACLs[acl] = vpnACL(t, label+"umACL", false)
			o.mode("1").Lines = []string{"match address " + acl, "set peer 10.99.9.1", "set ikev1 transform-set MANUAL-TS"}
			g.CryptoIf[nif] = name
			return "vpn:unmanagedCryptoMap"
		case 0:
			if g.get(kGP, "MANUAL") == nil {
				s.genGroupPolicy(t, "MANUAL", label+"umGP", false)
			}
		case 1:
			if g.get(kTG, "MANUAL-TG") == nil {
				tg := g.put(kTG, "MANUAL-TG")
				tg.Top = []string{"type remote-access"}
				tg.mode("general-attributes")
			}
		case 2:
			s.ensureTransform(t, kTSet, "MANUAL-TS", label+"umTS")
		}
		return "vpn:unmanaged"
	}
	return "vpn:noop"
}

// repairVPN removes what edit operators may have left dangling, so that
// the device text is one a device could print.
func (s *State) repairVPN() {
	g := s.Gen
	g.oneValuePerAttr()
	for intf, n := range g.CryptoIf {
		if !g.exists(s, kCMap, n) || !s.hasNameif(intf) {
			delete(g.CryptoIf, intf)
		}
	}
	for _, k := range schema {
		for _, n := range g.names(k.id) {
			obj := g.Objs[k.id][n]
			for _, id := range obj.seqs() {
				ms := k.mode(id)
				md := obj.Modes[id]
				j := 0
				for _, l := range md.Lines {
					ok := true
					if a := ms.find(strings.Fields(firstLine(l))); a != nil {
						for _, r := range lineRefs(k.id, a, l) {
							ok = ok && g.exists(s, a.ref, r)
						}
					}
					if ok {
						md.Lines[j] = l
						j++
					}
				}
				md.Lines = md.Lines[:j]
				if len(md.Lines) == 0 && k.shape == shapeLines {
					delete(obj.Modes, id)
				}
			}
			if k.shape == shapeLines && len(obj.Modes) == 0 {
				g.del(k.id, n)
			}
		}
	}
	for _, l := range []*[]mapEntry{&g.TGMap, &g.CGMap} {
		j := 0
		seen := map[string]bool{}
		for _, e := range *l {
			if (e.Cert != "" && !g.exists(s, kCert, e.Cert)) || !g.exists(s, kTG, e.TG) {
				continue
			}
			if seen[e.Cert+" "+e.Seq] {
				continue
			}
			seen[e.Cert+" "+e.Seq] = true
			(*l)[j] = e
			j++
		}
		*l = (*l)[:j]
	}
	// crypto entries need a peer or a dynamic map
	for _, n := range g.names(kCMap) {
		obj := g.Objs[kCMap][n]
		for _, seq := range obj.seqs() {
			ok := false
			for _, l := range obj.Modes[seq].Lines {
				ok = ok || strings.HasPrefix(l, "set peer ") || strings.HasPrefix(l, "ipsec-isakmp dynamic ")
			}
			if !ok {
				delete(obj.Modes, seq)
			}
		}
		if len(obj.Modes) == 0 {
			g.del(kCMap, n)
			for intf, m := range g.CryptoIf {
				if m == n {
					delete(g.CryptoIf, intf)
				}
			}
		}
	}
}

// provideManual gives the device the objects the tool never transfers
// (aaa-server, ldap attribute-map) if the target needs them.
func (s *State) provideManual(b *State) {
	for _, n := range b.Gen.names(kAAA) {
		if s.Gen.get(kAAA, n) == nil {
			s.Gen.Objs[kAAA] = mapWith(s.Gen.Objs[kAAA], n, b.Gen.Objs[kAAA][n].copy())
		}
	}
	for _, n := range b.Gen.names(kLDAP) {
		if s.Gen.get(kLDAP, n) == nil {
			o := newObj()
			for _, l := range b.Gen.Objs[kLDAP][n].mode("").Lines {
				if strings.HasPrefix(l, "map-name") {
					o.mode("").Lines = append(o.mode("").Lines, l)
				}
			}
			o.mode("")
			s.Gen.Objs[kLDAP] = mapWith(s.Gen.Objs[kLDAP], n, o)
		}
	}
}

func mapWith(m map[string]*vobj, k string, v *vobj) map[string]*vobj {
	if m == nil {
		m = map[string]*vobj{}
	}
	m[k] = v
	return m
}

// addVPNTies adds identical objects under several names, and a second
// device entry for a peer, so that several device objects match one
// target object equally well.
func (s *State) addVPNTies(t *rapid.T) {
	g := s.Gen
	for _, kind := range []string{kTSet, kProp, kPool, kGP} {
		for _, n := range g.names(kind) {
			if isDefaultObj(kind, n) || !chance(t, 1, 2, "vtie"+kind+n) {
				continue
			}
			base, _, _ := strings.Cut(n, "-DRC-")
			for _, nn := range []string{base + "-DRC-7", "A-" + base, base + "-DRC-8"} {
				if g.get(kind, nn) == nil && chance(t, 1, 2, "vtie"+kind+n+nn) {
					g.Objs[kind][nn] = g.Objs[kind][n].copy()
				}
			}
		}
	}
	for _, n := range g.names(kCMap) {
		cm := g.Objs[kCMap][n]
		for _, seq := range cm.seqs() {
			if chance(t, 1, 3, "vtieEntry"+seq) {
				nseq := fmt.Sprint(rapid.IntRange(1, 12).Draw(t, "vtieSeq"+seq))
				if cm.Modes[nseq] == nil {
					cm.Modes[nseq] = &vmode{Lines: append([]string(nil), cm.Modes[seq].Lines...)}
				}
			}
		}
	}
	for _, n := range g.names(kCert) {
		if chance(t, 1, 3, "vtieCert"+n) {
			nn := "B-" + n
			if g.get(kCert, nn) == nil {
				g.Objs[kCert][nn] = g.Objs[kCert][n].copy()
			}
		}
	}
}
