package asam

import "strings"

// GenStore holds the schema-driven (VPN) objects. Stage 1: nothing is
// modelled here; VPN lines stay opaque and commands that touch them are
// reported as unsupported (case not covered).
type GenStore struct{}

func newGenStore() *GenStore { return &GenStore{} }

func (g *GenStore) clone() *GenStore { return &GenStore{} }

func (g *GenStore) print(b *strings.Builder, sp Spelling) {}

var vpnPrefixes = []string{
	"crypto ", "tunnel-group", "group-policy ", "username ", "ip local pool ",
	"webvpn", "aaa-server ", "ldap attribute-map ", "no sysopt connection permit-vpn",
}

func isVPNLine(head string) bool {
	for _, p := range vpnPrefixes {
		if strings.HasPrefix(head, p) {
			return true
		}
	}
	return false
}

func (g *GenStore) load(head string, subs []string) (bool, error) {
	if isVPNLine(head) {
		return true, unsupported("VPN object %q", head)
	}
	return false, nil
}

func (g *GenStore) exitMode(m modeRef) modeRef { return modeRef{} }

func (g *GenStore) execSub(s *State, f []string, line string) (bool, error) {
	return false, nil
}

func (g *GenStore) execClear(s *State, f []string) (bool, error) {
	return true, unsupported("clear configure %s", strings.Join(f, " "))
}

func (g *GenStore) execTop(s *State, neg bool, f []string, line string) (bool, error) {
	return false, nil
}

func (g *GenStore) userOf(prefix, name string) string { return "" }

func (g *GenStore) boundIntfs() []string { return nil }

func (g *GenStore) canon(s *State, sc Scope) []string { return nil }

func (g *GenStore) managedACLs(s *State, sc Scope) []string { return nil }
