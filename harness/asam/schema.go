package asam

import (
	"fmt"
	"net/netip"
	"sort"
	"strconv"
	"strings"
)

// This file is the schema of the VPN part of the ASA model: a hand-written
// table (independent of the tool's cmd-info) that says, for every command
// kind, where name and sequence number stand, whether the command opens a
// sub-mode, which sub-commands the mode knows (single- or multi-valued),
// which other kind a value names, and how the object is removed. The
// generic store (GenStore), the loader and the printer are driven by it;
// the executor is in vpn_exec.go, equivalence in vpn_canon.go.

// Kind ids. "acl" is only a reference target; ACLs live in State.ACLs.
const (
	kACL  = "acl"
	kCMap = "cmap"
	kDyn  = "dyn"
	kTSet = "tset"
	kProp = "prop"
	kPool = "pool"
	kGP   = "gp"
	kTG   = "tg"
	kCert = "cert"
	kUser = "user"
	kAAA  = "aaa"
	kLDAP = "ldap"
)

// attrSpec describes one sub-command (attribute line) of a mode.
type attrSpec struct {
	key    string // leading words that identify the attribute
	multi  bool   // several lines with this key coexist; otherwise a new value replaces the old one
	ref    string // kind of the object(s) named by the value
	refAll bool   // every value word is a reference (lists), otherwise only the first
	ignore bool   // device-only line that is never compared (secrets, keepalive, group-policy webvpn block)
	nested bool   // the word opens the object's own nested sub-mode (webvpn inside attributes)
}

type modeSpec struct {
	id    string // words after the name that open the mode; "" = the head line itself; "#" = one mode per sequence number
	attrs []attrSpec
}

const (
	shapeLines   = iota // bag of "PREFIX NAME SEQ <attribute>" lines, no sub-mode
	shapeOneLine        // "PREFIX NAME REST"
	shapeModes          // creating line(s) plus sub-modes
)

type kindSpec struct {
	id       string
	words    []string // command prefix
	label    string   // prefix as text
	seq      bool     // a sequence number follows the name
	shape    int
	create   []string // first word after the name of the line that creates the object
	modes    []*modeSpec
	removal  string            // "no": negated line/head; "clear": clear configure PREFIX NAME; "never"
	defaults map[string]string // objects that exist implicitly: name -> creating line
}

func single(keys ...string) []attrSpec {
	var l []attrSpec
	for _, k := range keys {
		l = append(l, attrSpec{key: k})
	}
	return l
}

func multi(keys ...string) []attrSpec {
	var l []attrSpec
	for _, k := range keys {
		l = append(l, attrSpec{key: k, multi: true})
	}
	return l
}

func cat(ls ...[]attrSpec) []attrSpec {
	var l []attrSpec
	for _, x := range ls {
		l = append(l, x...)
	}
	return l
}

func cryptoEntryAttrs(static bool) []attrSpec {
	l := []attrSpec{
		{key: "match address", ref: kACL},
		{key: "set ikev1 transform-set", ref: kTSet, refAll: true},
		{key: "set ikev2 ipsec-proposal", ref: kProp, refAll: true},
	}
	l = append(l, single("set peer", "set pfs", "set nat-t-disable", "set reverse-route",
		"set security-association lifetime seconds", "set security-association lifetime kilobytes")...)
	if static {
		l = append(l, attrSpec{key: "ipsec-isakmp dynamic", ref: kDyn})
		l = append(l, single("set trustpoint")...)
	}
	return l
}

var schema = []*kindSpec{
	{id: kCMap, label: "crypto map", seq: true, shape: shapeLines, removal: "no",
		modes: []*modeSpec{{id: "#", attrs: cryptoEntryAttrs(true)}}},
	{id: kDyn, label: "crypto dynamic-map", seq: true, shape: shapeLines, removal: "no",
		modes: []*modeSpec{{id: "#", attrs: cryptoEntryAttrs(false)}}},
	{id: kTSet, label: "crypto ipsec ikev1 transform-set", shape: shapeOneLine, removal: "no"},
	{id: kProp, label: "crypto ipsec ikev2 ipsec-proposal", shape: shapeModes, removal: "no",
		modes: []*modeSpec{{id: "", attrs: single("protocol esp encryption", "protocol esp integrity")}}},
	{id: kPool, label: "ip local pool", shape: shapeOneLine, removal: "no"},
	{id: kGP, label: "group-policy", shape: shapeModes, create: []string{"internal"}, removal: "clear",
		defaults: map[string]string{"DfltGrpPolicy": "internal"},
		modes: []*modeSpec{{id: "attributes", attrs: cat(
			[]attrSpec{
				{key: "vpn-filter value", ref: kACL},
				{key: "split-tunnel-network-list value", ref: kACL},
				{key: "address-pools value", ref: kPool, refAll: true},
				{key: "webvpn", nested: true, ignore: true},
			},
			multi("banner", "anyconnect-custom"),
			single("dns-server", "wins-server", "default-domain", "split-dns", "split-tunnel-policy",
				"vpn-idle-timeout", "vpn-session-timeout", "vpn-simultaneous-logins", "vpn-tunnel-protocol",
				"vpn-access-hours", "pfs", "password-storage", "ip-comp", "re-xauth", "group-lock",
				"ipsec-udp", "ipsec-udp-port", "dhcp-network-scope", "vlan", "nac-settings",
				"vpn-filter", "split-tunnel-network-list", "address-pools", "ipv6-vpn-filter",
				"ipv6-address-pools", "backup-servers", "msie-proxy", "client-firewall", "nem",
				"smartcard-removal-disconnect", "intercept-dhcp", "secure-unit-authentication",
				"user-authentication", "user-authentication-idle-timeout", "ip-phone-bypass",
				"leap-bypass", "client-access-rule"),
		)}}},
	{id: kTG, label: "tunnel-group", shape: shapeModes, create: []string{"type"}, removal: "clear",
		defaults: map[string]string{"DefaultL2LGroup": "type ipsec-l2l", "DefaultRAGroup": "type remote-access",
			"DefaultWEBVPNGroup": "type webvpn"},
		modes: []*modeSpec{
			{id: "general-attributes", attrs: cat(
				[]attrSpec{
					{key: "default-group-policy", ref: kGP},
					{key: "authentication-server-group", ref: kAAA},
				},
				multi("dhcp-server", "annotation"),
				single("address-pool", "ipv6-address-pool", "accounting-server-group", "authorization-server-group",
					"secondary-authentication-server-group", "strip-realm", "strip-group", "password-management",
					"override-account-disable", "authorization-required", "username-from-certificate",
					"secondary-username-from-certificate", "nat-assigned-to-public-ip", "authentication-attr-from-server",
					"authenticated-session-username"),
			)},
			{id: "ipsec-attributes", attrs: cat(
				[]attrSpec{
					{key: "ikev1 pre-shared-key", ignore: true},
					{key: "ikev2 local-authentication pre-shared-key", ignore: true},
					{key: "ikev2 remote-authentication pre-shared-key", ignore: true},
					{key: "isakmp keepalive", ignore: true, multi: true},
				},
				single("peer-id-validate", "trust-point", "chain", "pre-shared-key", "ikev1 trust-point",
					"ikev1 user-authentication", "isakmp ikev1-user-authentication",
					"ikev2 local-authentication certificate", "ikev2 remote-authentication certificate",
					"ikev2 remote-authentication eap", "ikev2 rsa-sig-hash", "client-update", "radius-sdi-xauth",
					"ikev1 radius-sdi-xauth", "isakmp", "ikev1", "ikev2"),
			)},
			{id: "webvpn-attributes", attrs: cat(
				multi("group-alias", "group-url"),
				single("authentication", "customization", "dns-group", "nbns-server", "radius-reject-message",
					"proxy-auth", "pre-fill-username", "secondary-pre-fill-username", "without-csd",
					"override-svc-download", "hic-fail-group-policy"),
			)},
		}},
	{id: kCert, label: "crypto ca certificate map", seq: true, shape: shapeModes, removal: "clear",
		modes: []*modeSpec{{id: "#", attrs: multi("subject-name", "extended-key-usage", "issuer-name", "alt-subject-name")}}},
	{id: kUser, label: "username", shape: shapeModes, create: []string{"nopassword"}, removal: "clear",
		modes: []*modeSpec{{id: "attributes", attrs: cat(
			[]attrSpec{
				{key: "vpn-filter value", ref: kACL},
				{key: "vpn-group-policy", ref: kGP},
				{key: "webvpn", nested: true},
			},
			single("vpn-framed-ip-address", "vpn-framed-ipv6-address", "service-type", "vpn-simultaneous-logins",
				"password-storage", "vpn-idle-timeout", "vpn-session-timeout", "vpn-tunnel-protocol",
				"vpn-access-hours", "group-lock", "memberof", "vpn-filter"),
		)}}},
	{id: kAAA, label: "aaa-server", shape: shapeModes, create: []string{"protocol"}, removal: "never",
		modes: []*modeSpec{{id: "host", attrs: cat(
			[]attrSpec{{key: "ldap-attribute-map", ref: kLDAP}},
			single("ldap-base-dn", "ldap-scope", "ldap-naming-attribute", "ldap-login-password", "ldap-login-dn",
				"ldap-over-ssl", "server-type", "server-port", "key", "timeout", "retry-interval",
				"authentication-port", "accounting-port", "sasl-mechanism", "ldap-group-base-dn", "kerberos-realm"),
		)}}},
	{id: kLDAP, label: "ldap attribute-map", shape: shapeModes, removal: "never",
		modes: []*modeSpec{{id: "", attrs: []attrSpec{
			{key: "map-name"},
			{key: "map-value", ref: kGP},
		}}}},
}

var kindByID = map[string]*kindSpec{}

func init() {
	for _, k := range schema {
		k.words = strings.Fields(k.label)
		kindByID[k.id] = k
	}
}

// topWords are the first words of the top-level commands the model knows.
// A line that is not a sub-command of the current mode and starts with one
// of them is executed at top level (leaving the sub-mode, as the device
// does).
var topWords = map[string]bool{
	"access-list": true, "object-group": true, "access-group": true, "route": true, "ipv6": true,
	"crypto": true, "ip": true, "group-policy": true, "tunnel-group": true, "tunnel-group-map": true,
	"username": true, "aaa-server": true, "ldap": true, "sysopt": true, "clear": true, "interface": true,
	"webvpn": true,
}

func (k *kindSpec) mode(id string) *modeSpec {
	for _, m := range k.modes {
		if m.id == id || m.id == "#" {
			return m
		}
		if m.id == "host" && (id == "host" || strings.Contains(id, "host ")) {
			return m
		}
	}
	return nil
}

func hasPrefixWords(w, key []string) bool {
	if len(key) > len(w) {
		return false
	}
	for i, k := range key {
		if w[i] != k {
			return false
		}
	}
	return true
}

// find returns the attribute description whose key is the longest word
// prefix of the line.
func (m *modeSpec) find(w []string) *attrSpec {
	var best *attrSpec
	bestN := 0
	for i := range m.attrs {
		k := strings.Fields(m.attrs[i].key)
		if len(k) > bestN && hasPrefixWords(w, k) {
			best, bestN = &m.attrs[i], len(k)
		}
	}
	return best
}

// knownElsewhere: the word starts a sub-command of some other mode.
func knownElsewhere(word string) bool {
	if word == "certificate-group-map" {
		return true
	}
	for _, k := range schema {
		for _, m := range k.modes {
			for _, a := range m.attrs {
				if f, _, _ := strings.Cut(a.key, " "); f == word {
					return true
				}
			}
		}
	}
	return false
}

// ------------------------------------------------------------------ store

type vmode struct {
	Lines []string
}

// vobj is one schema-driven object.
type vobj struct {
	Top   []string          // creating / top-level lines after the name ("internal", "type ipsec-l2l", REST of a one-line object)
	Modes map[string]*vmode // mode id (or sequence number) -> lines
}

func newObj() *vobj { return &vobj{Modes: map[string]*vmode{}} }

func (o *vobj) mode(id string) *vmode {
	m := o.Modes[id]
	if m == nil {
		m = &vmode{}
		o.Modes[id] = m
	}
	return m
}

// seqs are the numeric mode ids in ascending order.
func (o *vobj) seqs() []string {
	l := make([]string, 0, len(o.Modes))
	for k := range o.Modes {
		l = append(l, k)
	}
	sort.Slice(l, func(i, j int) bool {
		a, e1 := strconv.Atoi(l[i])
		b, e2 := strconv.Atoi(l[j])
		if e1 == nil && e2 == nil {
			return a < b
		}
		return l[i] < l[j]
	})
	return l
}

// mapEntry is a tunnel-group-map / certificate-group-map entry;
// Cert == "" is "default-group".
type mapEntry struct {
	Cert string
	Seq  string
	TG   string
}

func (e mapEntry) words() string {
	if e.Cert == "" {
		return "default-group " + e.TG
	}
	return e.Cert + " " + e.Seq + " " + e.TG
}

// GenStore holds the schema-driven (VPN) objects.
type GenStore struct {
	Objs        map[string]map[string]*vobj // kind id -> name -> object
	CryptoIf    map[string]string           // interface -> crypto map bound there
	TGMap       []mapEntry
	Webvpn      bool
	CGMap       []mapEntry
	WebvpnOther []string // unmodelled sub-lines of the global webvpn block, verbatim
	NoSysopt    bool     // "no sysopt connection permit-vpn"
}

func newGenStore() *GenStore {
	return &GenStore{Objs: map[string]map[string]*vobj{}, CryptoIf: map[string]string{}}
}

func (g *GenStore) empty() bool {
	for _, m := range g.Objs {
		if len(m) > 0 {
			return false
		}
	}
	return len(g.CryptoIf) == 0 && len(g.TGMap) == 0 && !g.Webvpn && len(g.CGMap) == 0 && !g.NoSysopt
}

func (g *GenStore) clone() *GenStore {
	n := newGenStore()
	for kind, m := range g.Objs {
		nm := map[string]*vobj{}
		for name, o := range m {
			c := newObj()
			c.Top = append([]string(nil), o.Top...)
			for id, md := range o.Modes {
				c.Modes[id] = &vmode{Lines: append([]string(nil), md.Lines...)}
			}
			nm[name] = c
		}
		n.Objs[kind] = nm
	}
	for k, v := range g.CryptoIf {
		n.CryptoIf[k] = v
	}
	n.TGMap = append([]mapEntry(nil), g.TGMap...)
	n.CGMap = append([]mapEntry(nil), g.CGMap...)
	n.WebvpnOther = append([]string(nil), g.WebvpnOther...)
	n.Webvpn = g.Webvpn
	n.NoSysopt = g.NoSysopt
	return n
}

func (g *GenStore) get(kind, name string) *vobj { return g.Objs[kind][name] }

func (g *GenStore) put(kind, name string) *vobj {
	m := g.Objs[kind]
	if m == nil {
		m = map[string]*vobj{}
		g.Objs[kind] = m
	}
	o := m[name]
	if o == nil {
		o = newObj()
		m[name] = o
	}
	return o
}

func (g *GenStore) del(kind, name string) { delete(g.Objs[kind], name) }

func (g *GenStore) names(kind string) []string { return sortedKeys(g.Objs[kind]) }

func isDefaultObj(kind, name string) bool {
	_, ok := kindByID[kind].defaults[name]
	return ok
}

func isIPName(name string) bool {
	_, err := netip.ParseAddr(name)
	return err == nil
}

// ------------------------------------------------------ line normalisation

func firstLine(l string) string {
	f, _, _ := strings.Cut(l, "\n")
	return f
}

// splitQuoted splits off a leading value that is either one word or a
// double-quoted string (with \" escapes) from a word list.
func splitQuoted(w []string) (val string, rest []string, ok bool) {
	if len(w) == 0 {
		return "", nil, false
	}
	if !strings.HasPrefix(w[0], `"`) {
		return `"` + w[0] + `"`, w[1:], true
	}
	for i, x := range w {
		body := x
		if i == 0 {
			body = x[1:]
		}
		if strings.HasSuffix(body, `"`) && !strings.HasSuffix(body, `\"`) {
			return strings.Join(w[:i+1], " "), w[i+1:], true
		}
	}
	return "", nil, false
}

// normLine gives the spelling under which the device stores a line of the
// kind: whitespace, the default PFS group, quoting of LDAP map values.
func normLine(kind string, line string) (string, error) {
	first, nested, hasNested := strings.Cut(line, "\n")
	w := strings.Fields(first)
	switch kind {
	case kCMap, kDyn:
		if len(w) == 3 && w[0] == "set" && w[1] == "pfs" && w[2] == "group14" {
			w = w[:2]
		}
	case kLDAP:
		if len(w) >= 3 && w[0] == "map-value" {
			val, rest, ok := splitQuoted(w[2:])
			if !ok || len(rest) != 1 {
				return "", unsupported("ldap map-value form %q", first)
			}
			w = []string{w[0], w[1], val, rest[0]}
		}
	}
	res := strings.Join(w, " ")
	if hasNested {
		res += "\n" + nested
	}
	return res, nil
}

// lineKey is the identity under which a single-valued attribute is replaced.
func lineKey(kind string, a *attrSpec, line string) string {
	if kind == kLDAP {
		w := strings.Fields(firstLine(line))
		switch {
		case w[0] == "map-value" && len(w) >= 3:
			return strings.Join(w[:len(w)-1], " ")
		case w[0] == "map-name" && len(w) >= 2:
			return w[0] + " " + w[1]
		}
	}
	return a.key
}

// lineRefs lists the objects a line names: (kind, name) pairs.
func lineRefs(kind string, a *attrSpec, line string) []string {
	if a == nil || a.ref == "" {
		return nil
	}
	w := strings.Fields(firstLine(line))
	if kind == kLDAP {
		if len(w) < 4 {
			return nil
		}
		return []string{w[len(w)-1]}
	}
	vals := w[len(strings.Fields(a.key)):]
	if len(vals) == 0 {
		return nil
	}
	if a.refAll {
		return vals
	}
	return vals[:1]
}

// sameLine compares two stored lines the way the device does.
func sameLine(kind, a, b string) bool {
	a, b = firstLine(a), firstLine(b)
	if kind == kCert && strings.HasPrefix(a, "subject-name") {
		return strings.EqualFold(a, b)
	}
	return a == b
}

// ------------------------------------------------------------------ load

func isNum(s string) bool {
	_, err := strconv.ParseUint(s, 10, 31)
	return err == nil
}

func matchKind(f []string) (*kindSpec, []string) {
	var best *kindSpec
	for _, k := range schema {
		if hasPrefixWords(f, k.words) && (best == nil || len(k.words) > len(best.words)) {
			best = k
		}
	}
	if best == nil {
		return nil, nil
	}
	return best, f[len(best.words):]
}

func addUnique(l []string, x string) []string {
	for _, y := range l {
		if y == x {
			return l
		}
	}
	return append(l, x)
}

// aaaHost splits "[(intf)] host H [...]" and gives the canonical mode id
// "host H" plus the interface.
func aaaHost(rest []string) (id string, ok bool) {
	if len(rest) > 0 && strings.HasPrefix(rest[0], "(") {
		if len(rest) >= 3 && rest[1] == "host" {
			return rest[0] + " host " + rest[2], true
		}
		return "", false
	}
	if len(rest) >= 2 && rest[0] == "host" {
		return "host " + rest[1], true
	}
	return "", false
}

func (g *GenStore) loadSubs(k *kindSpec, o *vobj, modeID string, subs []string) error {
	m := o.mode(modeID)
	for _, l := range subs {
		n, err := normLine(k.id, l)
		if err != nil {
			return err
		}
		m.Lines = addUnique(m.Lines, n)
	}
	return nil
}

// load takes one top-level block of a configuration text. It reports
// whether the block belongs to the schema part.
func (g *GenStore) load(head string, subs []string) (bool, error) {
	f := strings.Fields(head)
	if head == "no sysopt connection permit-vpn" {
		g.NoSysopt = true
		return true, nil
	}
	switch f[0] {
	case "webvpn":
		if len(f) != 1 {
			return false, nil
		}
		g.Webvpn = true
		for _, l := range subs {
			w := strings.Fields(firstLine(l))
			if w[0] == "certificate-group-map" {
				if len(w) != 4 || !isNum(w[2]) {
					return true, unsupported("certificate-group-map form %q", l)
				}
				g.CGMap = append(g.CGMap, mapEntry{w[1], w[2], w[3]})
			} else {
				g.WebvpnOther = append(g.WebvpnOther, l)
			}
		}
		return true, nil
	case "tunnel-group-map":
		switch {
		case len(f) == 3 && f[1] == "default-group":
			g.TGMap = append(g.TGMap, mapEntry{"", "", f[2]})
			return true, nil
		case len(f) == 4 && isNum(f[2]):
			g.TGMap = append(g.TGMap, mapEntry{f[1], f[2], f[3]})
			return true, nil
		}
		return false, nil // "tunnel-group-map enable rules" etc.: not modelled
	}
	k, rest := matchKind(f)
	if k == nil {
		return false, nil
	}
	if len(rest) == 0 {
		return false, nil // incomplete command: the device would not print it
	}
	name := rest[0]
	rest = rest[1:]
	switch k.id {
	case kCMap, kDyn:
		if k.id == kCMap && len(rest) == 2 && rest[0] == "interface" {
			g.CryptoIf[rest[1]] = name
			return true, nil
		}
		if len(rest) < 2 || !isNum(rest[0]) {
			return true, unsupported("%s form %q", k.label, head)
		}
		line, _ := normLine(k.id, strings.Join(rest[1:], " "))
		if k.modes[0].find(strings.Fields(line)) == nil {
			return true, unsupported("%s attribute %q", k.label, line)
		}
		m := g.put(k.id, name).mode(rest[0])
		m.Lines = addUnique(m.Lines, line)
		return true, nil
	case kTSet, kPool:
		if len(rest) == 0 {
			return false, nil
		}
		g.put(k.id, name).Top = []string{strings.Join(rest, " ")}
		return true, nil
	case kProp, kLDAP:
		if len(rest) != 0 {
			return false, nil
		}
		return true, g.loadSubs(k, g.put(k.id, name), "", subs)
	case kCert:
		if len(rest) != 1 || !isNum(rest[0]) {
			return false, nil // the device prints name and number; anything else is noise
		}
		return true, g.loadSubs(k, g.put(k.id, name), rest[0], subs)
	case kGP, kUser:
		if len(rest) == 1 && rest[0] == "attributes" {
			return true, g.loadSubs(k, g.put(k.id, name), "attributes", subs)
		}
		if len(rest) >= 1 {
			if k.id == kGP && rest[0] != "internal" {
				return true, unsupported("group-policy form %q", head)
			}
			o := g.put(k.id, name)
			o.Top = addUnique(o.Top, strings.Join(rest, " "))
			return true, nil
		}
	case kTG:
		if len(rest) == 2 && rest[0] == "type" {
			g.put(k.id, name).Top = []string{"type " + rest[1]}
			return true, nil
		}
		if len(rest) == 1 && k.mode(rest[0]) != nil && strings.HasSuffix(rest[0], "-attributes") {
			return true, g.loadSubs(k, g.put(k.id, name), rest[0], subs)
		}
		return true, unsupported("tunnel-group form %q", head)
	case kAAA:
		if len(rest) == 2 && rest[0] == "protocol" {
			o := g.put(k.id, name)
			o.Top = []string{"protocol " + rest[1]}
			return true, nil
		}
		if id, ok := aaaHost(rest); ok {
			return true, g.loadSubs(k, g.put(k.id, name), id, subs)
		}
		return true, unsupported("aaa-server form %q", head)
	}
	return false, nil
}

// ----------------------------------------------------------------- print

func (g *GenStore) printLines(b *strings.Builder, kind string, lines []string, dev bool) {
	for _, l := range lines {
		first, nested, has := strings.Cut(l, "\n")
		if dev && kind == kCert && strings.HasPrefix(first, "subject-name") {
			first = strings.ToLower(first)
		}
		b.WriteString(" " + first + "\n")
		if has {
			b.WriteString(nested + "\n")
		}
	}
}

// print renders the VPN part. With a device spelling the variants a device
// shows are used: "set pfs group14" for the default group, lower-cased
// subject-name, "aaa-server NAME (inside) host ADDRESS".
func (g *GenStore) print(b *strings.Builder, sp Spelling) {
	dev := sp != plain
	if g.NoSysopt {
		b.WriteString("no sysopt connection permit-vpn\n")
	}
	for _, kind := range []string{kTSet, kProp, kDyn, kCMap, kPool, kGP, kAAA, kLDAP, kTG, kCert, kUser} {
		k := kindByID[kind]
		for _, name := range g.names(kind) {
			o := g.Objs[kind][name]
			head := k.label + " " + name
			switch kind {
			case kTSet, kPool:
				fmt.Fprintf(b, "%s %s\n", head, strings.Join(o.Top, " "))
			case kDyn, kCMap:
				for _, seq := range o.seqs() {
					for _, l := range o.Modes[seq].Lines {
						if dev && sp.Metric && l == "set pfs" {
							l = "set pfs group14"
						}
						fmt.Fprintf(b, "%s %s %s\n", head, seq, l)
					}
				}
			case kProp, kLDAP:
				b.WriteString(head + "\n")
				g.printLines(b, kind, o.mode("").Lines, dev)
			case kCert:
				for _, seq := range o.seqs() {
					fmt.Fprintf(b, "%s %s\n", head, seq)
					g.printLines(b, kind, o.Modes[seq].Lines, dev)
				}
			case kAAA:
				for _, t := range o.Top {
					fmt.Fprintf(b, "%s %s\n", head, t)
				}
				for _, id := range o.seqs() {
					h := id
					if dev && !strings.HasPrefix(id, "(") {
						addr := strings.TrimPrefix(id, "host ")
						if !isIPName(addr) {
							addr = "10.2.8.16"
						}
						h = "(inside) host " + addr
					}
					fmt.Fprintf(b, "%s %s\n", head, h)
					g.printLines(b, kind, o.Modes[id].Lines, dev)
				}
			default: // gp, tg, user
				for _, t := range o.Top {
					fmt.Fprintf(b, "%s %s\n", head, t)
				}
				for _, m := range k.modes {
					if md, ok := o.Modes[m.id]; ok {
						fmt.Fprintf(b, "%s %s\n", head, m.id)
						g.printLines(b, kind, md.Lines, dev)
					}
				}
			}
		}
		if kind == kCMap {
			for _, intf := range sortedKeys(g.CryptoIf) {
				fmt.Fprintf(b, "crypto map %s interface %s\n", g.CryptoIf[intf], intf)
			}
		}
	}
	for _, e := range g.TGMap {
		b.WriteString("tunnel-group-map " + e.words() + "\n")
	}
	if g.Webvpn {
		b.WriteString("webvpn\n")
		for _, l := range g.WebvpnOther {
			first, nested, has := strings.Cut(l, "\n")
			b.WriteString(" " + first + "\n")
			if has {
				b.WriteString(nested + "\n")
			}
		}
		for _, e := range g.CGMap {
			b.WriteString(" certificate-group-map " + e.words() + "\n")
		}
	}
}
