package asam

import (
	"fmt"
	"net/netip"
	"strings"

	"pgregory.net/rapid"
)

// GenOpts steers the pair generator.
type GenOpts struct {
	Decorate   bool // add unmanaged content to the device (C07)
	Ties       bool // force duplicate/identical objects on the device (C16)
	FixedGroup bool // groups identical on both sides, no membership edits (C14)
	MaxLines   int
	V6         bool // allow IPv6 entries/routes in the (v4) files
	VPN        bool // add the VPN part (crypto maps, tunnel-groups, group-policies, users, ...)
}

var (
	hosts4 = []string{"10.1.1.1", "10.1.1.2", "10.1.1.3", "10.1.2.4", "10.2.2.2", "192.168.7.7"}
	nets4  = []string{"10.1.1.0/24", "10.1.0.0/16", "10.2.2.0/24", "10.1.1.0/30", "172.16.0.0/12"}
	ports  = []int{22, 80, 443, 53, 123, 8080}
	nameifs = []string{"inside", "outside", "dmz"}
	hwNames = []string{"Ethernet0/0", "Ethernet0/1", "Ethernet0/2", "Ethernet0/3", "Management0/0"}
)

func pfx(s string) netip.Prefix { return netip.MustParsePrefix(s) }

func genAddrPfx(t *rapid.T, label string) netip.Prefix {
	switch rapid.IntRange(0, 9).Draw(t, label+"K") {
	case 0, 1:
		return pfx("0.0.0.0/0")
	case 2, 3, 4, 5:
		return pfx(rapid.SampledFrom(hosts4).Draw(t, label+"H") + "/32")
	default:
		return pfx(rapid.SampledFrom(nets4).Draw(t, label+"N"))
	}
}

func genObj(t *rapid.T, groups []string, label string) Obj {
	if len(groups) > 0 && rapid.IntRange(0, 3).Draw(t, label+"G") == 0 {
		return Obj{Group: rapid.SampledFrom(groups).Draw(t, label+"GN")}
	}
	return Obj{Pfx: genAddrPfx(t, label)}
}

func genPort(t *rapid.T, pgroups []string, label string, allowNone bool) Port {
	k := rapid.IntRange(0, 9).Draw(t, label+"K")
	if allowNone && k < 5 {
		return Port{}
	}
	if len(pgroups) > 0 && k == 5 {
		return Port{Group: rapid.SampledFrom(pgroups).Draw(t, label+"G")}
	}
	p := rapid.SampledFrom(ports).Draw(t, label+"P")
	switch k {
	case 6:
		hi := p + rapid.IntRange(1, 1000).Draw(t, label+"R")
		return Port{Op: "range", Lo: p, Hi: hi}
	case 7:
		return Port{Op: rapid.SampledFrom([]string{"gt", "lt", "neq"}).Draw(t, label+"O"), Lo: p}
	}
	return Port{Op: "eq", Lo: p}
}

func genLog(t *rapid.T, label string) Log {
	l := Log{Level: -1, Interval: -1}
	switch rapid.IntRange(0, 11).Draw(t, label) {
	case 0:
		l.On = true
	case 1:
		l.On = true
		l.Level = rapid.IntRange(0, 7).Draw(t, label+"L")
		if l.Level == 6 {
			l.Level = -1
		}
	case 2:
		l.On = true
		l.Level = rapid.IntRange(0, 5).Draw(t, label+"L")
		l.Interval = rapid.SampledFrom([]int{30, 300}).Draw(t, label+"I")
	case 3:
		l.On = true
		l.Special = rapid.SampledFrom([]string{"disable", "default"}).Draw(t, label+"S")
	}
	return l
}

func genACE(t *rapid.T, ngroups, pgroups []string, label string) *ACE {
	a := &ACE{Log: Log{Level: -1, Interval: -1}}
	a.Permit = rapid.IntRange(0, 3).Draw(t, label+"act") != 0
	a.Proto = rapid.SampledFrom([]string{"ip", "ip", "tcp", "tcp", "tcp", "udp", "icmp", "50"}).Draw(t, label+"proto")
	a.Src = genObj(t, ngroups, label+"src")
	a.Dst = genObj(t, ngroups, label+"dst")
	switch a.Proto {
	case "tcp", "udp":
		a.SPort = genPort(t, nil, label+"sp", true)
		if rapid.IntRange(0, 3).Draw(t, label+"spOff") != 0 {
			a.SPort = Port{}
		}
		a.DPort = genPort(t, pgroupsFor(a.Proto, pgroups), label+"dp", true)
	case "icmp":
		a.ICMP = rapid.SampledFrom([]string{"", "8", "0", "3", "3 3", "11", "40", "40 1"}).Draw(t, label+"icmp")
	}
	a.Log = genLog(t, label+"log")
	return a
}

// port groups are named p<proto>N; only groups of the right protocol fit.
func pgroupsFor(proto string, pgroups []string) []string {
	var res []string
	for _, g := range pgroups {
		if strings.HasPrefix(g, "p"+proto) {
			res = append(res, g)
		}
	}
	return res
}

func genACL(t *rapid.T, ngroups, pgroups []string, maxLines int, label string) []*ACE {
	n := rapid.IntRange(1, maxLines).Draw(t, label+"len")
	var acl []*ACE
	seen := map[string]bool{}
	for i := 0; i < n; i++ {
		a := genACE(t, ngroups, pgroups, fmt.Sprintf("%s%d", label, i))
		k := a.Key(false)
		if seen[k] {
			continue
		}
		seen[k] = true
		acl = append(acl, a)
	}
	// Netspoc ends most ACLs with a deny-all.
	if rapid.IntRange(0, 2).Draw(t, label+"tail") != 0 {
		d := &ACE{Proto: "ip", Src: Obj{Pfx: pfx("0.0.0.0/0")}, Dst: Obj{Pfx: pfx("0.0.0.0/0")}, Log: Log{Level: -1, Interval: -1}}
		if !seen[d.Key(false)] {
			acl = append(acl, d)
		}
	}
	return acl
}

func genMembers(t *rapid.T, label string, min, max int) []string {
	n := rapid.IntRange(min, max).Draw(t, label+"n")
	seen := map[string]bool{}
	var ms []string
	for i := 0; i < n; i++ {
		p := genAddrPfx(t, fmt.Sprintf("%sm%d", label, i))
		var m string
		switch {
		case p.Bits() == 0:
			continue
		case p.Bits() == 32:
			m = "network-object host " + p.Addr().String()
		default:
			m = "network-object " + p.Addr().String() + " " + maskOf(p.Bits())
		}
		if !seen[m] {
			seen[m] = true
			ms = append(ms, m)
		}
	}
	if len(ms) == 0 {
		ms = []string{"network-object host 10.9.9.9"}
	}
	return ms
}

// GenTarget generates a Netspoc target configuration (abstract).
func GenTarget(t *rapid.T, o GenOpts, label string) *State {
	s := NewState()
	if o.MaxLines == 0 {
		o.MaxLines = 7
	}
	nIntf := rapid.IntRange(1, 3).Draw(t, label+"nIntf")
	for i := 0; i < nIntf; i++ {
		s.Intfs = append(s.Intfs, &Intf{HW: hwNames[i], Nameif: nameifs[i]})
	}
	var ngroups, pgroups []string
	ng := rapid.IntRange(0, 3).Draw(t, label+"nGroups")
	for i := 0; i < ng; i++ {
		name := fmt.Sprintf("g%d", i)
		s.Groups[name] = &Group{Kind: "network", Members: genMembers(t, label+name, 1, 5)}
		ngroups = append(ngroups, name)
	}
	if rapid.IntRange(0, 3).Draw(t, label+"pg") == 0 {
		proto := rapid.SampledFrom([]string{"tcp", "udp"}).Draw(t, label+"pgProto")
		name := "p" + proto + "0"
		var ms []string
		seen := map[int]bool{}
		for i, n := 0, rapid.IntRange(1, 3).Draw(t, label+"pgN"); i < n; i++ {
			p := rapid.SampledFrom(ports).Draw(t, fmt.Sprintf("%spgP%d", label, i))
			if !seen[p] {
				seen[p] = true
				ms = append(ms, fmt.Sprintf("port-object eq %d", p))
			}
		}
		s.Groups[name] = &Group{Kind: "service " + proto, Members: ms}
		pgroups = append(pgroups, name)
	}
	for i := 0; i < nIntf; i++ {
		nif := nameifs[i]
		if rapid.IntRange(0, 7).Draw(t, label+nif+"bound") == 0 && i > 0 {
			continue
		}
		name := nif + "_in"
		s.ACLs[name] = genACL(t, ngroups, pgroups, o.MaxLines, label+name)
		s.Bind[Slot{nif, "in"}] = name
		if rapid.IntRange(0, 5).Draw(t, label+nif+"out") == 0 {
			name := nif + "_out"
			s.ACLs[name] = genACL(t, ngroups, pgroups, 3, label+name)
			s.Bind[Slot{nif, "out"}] = name
		}
	}
	if rapid.IntRange(0, 7).Draw(t, label+"global") == 0 {
		s.ACLs["global_acl"] = genACL(t, ngroups, pgroups, 3, label+"glob")
		s.Bind[Slot{"", "global"}] = "global_acl"
	}
	// Remove groups that no ACE uses: Netspoc never emits unused groups.
	for _, g := range sortedKeys(s.Groups) {
		if s.groupUser(g) == "" {
			delete(s.Groups, g)
		}
	}
	if len(s.Bind) == 0 {
		s.ACLs["inside_in"] = genACL(t, nil, nil, 3, label+"fallback")
		s.Bind[Slot{"inside", "in"}] = "inside_in"
	}
	nr := rapid.IntRange(0, 4).Draw(t, label+"nRoutes")
	if rapid.Bool().Draw(t, label+"noRoutes") {
		nr = 0
	}
	genRoutes(t, s, nr, label+"r")
	if o.VPN {
		genVPN(t, s, o, label+"vpn")
	}
	return s
}

var routeDsts = []string{"0.0.0.0/0", "10.0.0.0/8", "10.3.0.0/16", "10.3.3.0/24", "10.3.3.128/25", "192.168.0.0/16"}
var gateways = []string{"10.1.1.254", "10.2.2.254", "10.1.1.253"}

func genRoutes(t *rapid.T, s *State, n int, label string) {
	seen := map[string]bool{}
	for r := range s.Routes {
		f := strings.Fields(r)
		seen[f[2]+" "+f[3]] = true
	}
	for i := 0; i < n; i++ {
		d := pfx(rapid.SampledFrom(routeDsts).Draw(t, fmt.Sprintf("%sD%d", label, i)))
		dst := d.Addr().String() + " " + maskOf(d.Bits())
		if seen[dst] {
			continue
		}
		seen[dst] = true
		intf := s.Intfs[rapid.IntRange(0, len(s.Intfs)-1).Draw(t, fmt.Sprintf("%sI%d", label, i))].Nameif
		gw := rapid.SampledFrom(gateways).Draw(t, fmt.Sprintf("%sG%d", label, i))
		s.Routes["route "+intf+" "+dst+" "+gw] = true
	}
}

// renameGroup renames an object-group everywhere in the state.
func (s *State) renameGroup(old, new string) {
	if old == new || s.Groups[new] != nil {
		return
	}
	s.Groups[new] = s.Groups[old]
	delete(s.Groups, old)
	for _, acl := range s.ACLs {
		for _, a := range acl {
			for _, p := range []*string{&a.Src.Group, &a.Dst.Group, &a.ProtoGroup, &a.SPort.Group, &a.DPort.Group} {
				if *p == old {
					*p = new
				}
			}
		}
	}
}

func (s *State) renameACL(old, new string) {
	if old == new || s.ACLs[new] != nil {
		return
	}
	s.ACLs[new] = s.ACLs[old]
	delete(s.ACLs, old)
	for k, v := range s.Bind {
		if v == old {
			s.Bind[k] = new
		}
	}
	s.Gen.renameRef(kACL, old, new)
}

func hasDup(acl []*ACE, a *ACE) bool {
	k := a.Key(false)
	for _, x := range acl {
		if x.Key(false) == k {
			return true
		}
	}
	return false
}

// mutate applies one drawn edit operator to the device-side state.
func (s *State) mutate(t *rapid.T, o GenOpts, label string) string {
	aclNames := sortedKeys(s.ACLs)
	grpNames := sortedKeys(s.Groups)
	var ngroups, pgroups []string
	for _, g := range grpNames {
		if s.Groups[g].Kind == "network" {
			ngroups = append(ngroups, g)
		} else if strings.HasPrefix(s.Groups[g].Kind, "service ") {
			pgroups = append(pgroups, g)
		}
	}
	pickACL := func() string {
		if len(aclNames) == 0 {
			return ""
		}
		return rapid.SampledFrom(aclNames).Draw(t, label+"acl")
	}
	op := rapid.IntRange(0, 19).Draw(t, label+"op")
	if o.FixedGroup && op >= 8 && op <= 12 {
		op -= 8
	}
	switch op {
	case 0, 1: // add a line
		n := pickACL()
		if n == "" {
			return "noop"
		}
		acl := s.ACLs[n]
		if acl[0].Std {
			return "noop"
		}
		a := genACE(t, ngroups, pgroups, label+"new")
		if hasDup(acl, a) {
			return "noop"
		}
		i := rapid.IntRange(0, len(acl)).Draw(t, label+"pos")
		s.ACLs[n] = append(acl[:i:i], append([]*ACE{a}, acl[i:]...)...)
		return "addLine"
	case 2, 3: // delete a line
		n := pickACL()
		if n == "" || len(s.ACLs[n]) < 2 {
			return "noop"
		}
		acl := s.ACLs[n]
		i := rapid.IntRange(0, len(acl)-1).Draw(t, label+"pos")
		s.ACLs[n] = append(acl[:i:i], acl[i+1:]...)
		return "delLine"
	case 4, 5: // move a line
		n := pickACL()
		if n == "" || len(s.ACLs[n]) < 2 {
			return "noop"
		}
		acl := s.ACLs[n]
		i := rapid.IntRange(0, len(acl)-1).Draw(t, label+"from")
		a := acl[i]
		rest := append(acl[:i:i], acl[i+1:]...)
		j := rapid.IntRange(0, len(rest)).Draw(t, label+"to")
		s.ACLs[n] = append(rest[:j:j], append([]*ACE{a}, rest[j:]...)...)
		return "moveLine"
	case 6: // change action or log of a line
		n := pickACL()
		if n == "" {
			return "noop"
		}
		acl := s.ACLs[n]
		i := rapid.IntRange(0, len(acl)-1).Draw(t, label+"pos")
		c := *acl[i]
		if rapid.Bool().Draw(t, label+"what") {
			c.Log = genLog(t, label+"log")
		} else {
			c.Permit = !c.Permit
			// A device cannot hold two entries that differ only in 'log'.
			if hasDup(acl, &c) {
				return "noop"
			}
		}
		acl[i] = &c
		return "chgLine"
	case 7: // rename ACL
		n := pickACL()
		if n == "" {
			return "noop"
		}
		base, _, _ := strings.Cut(n, "-DRC-")
		nn := rapid.SampledFrom([]string{base + "-DRC-0", base + "-DRC-1", base, "manual_" + base}).Draw(t, label+"nn")
		s.renameACL(n, nn)
		return "renameACL"
	case 8, 9: // add/remove few members
		if len(ngroups) == 0 {
			return "noop"
		}
		g := s.Groups[rapid.SampledFrom(ngroups).Draw(t, label+"g")]
		if rapid.Bool().Draw(t, label+"add") || len(g.Members) < 2 {
			for _, m := range genMembers(t, label+"nm", 1, 2) {
				dup := false
				for _, x := range g.Members {
					dup = dup || x == m
				}
				if !dup {
					g.Members = append(g.Members, m)
				}
			}
			return "grpAdd"
		}
		i := rapid.IntRange(0, len(g.Members)-1).Draw(t, label+"mi")
		g.Members = append(g.Members[:i:i], g.Members[i+1:]...)
		return "grpDel"
	case 10: // replace most members
		if len(ngroups) == 0 {
			return "noop"
		}
		g := s.Groups[rapid.SampledFrom(ngroups).Draw(t, label+"g")]
		g.Members = genMembers(t, label+"rm", 1, 5)
		return "grpReplace"
	case 11: // rename group
		if len(grpNames) == 0 {
			return "noop"
		}
		n := rapid.SampledFrom(grpNames).Draw(t, label+"g")
		base, _, _ := strings.Cut(n, "-DRC-")
		nn := rapid.SampledFrom([]string{base + "-DRC-0", base + "-DRC-1", base, "old_" + base}).Draw(t, label+"nn")
		s.renameGroup(n, nn)
		return "renameGroup"
	case 12: // duplicate a group under another name (unused copy)
		if len(grpNames) == 0 {
			return "noop"
		}
		n := rapid.SampledFrom(grpNames).Draw(t, label+"g")
		base, _, _ := strings.Cut(n, "-DRC-")
		nn := rapid.SampledFrom([]string{base + "-DRC-7", "copy_" + base, base + "-DRC-8"}).Draw(t, label+"nn")
		if s.Groups[nn] == nil {
			c := *s.Groups[n]
			c.Members = append([]string(nil), c.Members...)
			s.Groups[nn] = &c
		}
		return "dupGroup"
	case 13: // split: one ACE gets its own copy of a shared group
		for _, an := range aclNames {
			for _, a := range s.ACLs[an] {
				if a.Src.Group != "" {
					nn := a.Src.Group + "-DRC-5"
					if s.Groups[nn] == nil && s.Groups[a.Src.Group] != nil {
						c := *s.Groups[a.Src.Group]
						c.Members = append([]string(nil), c.Members...)
						s.Groups[nn] = &c
						a.Src.Group = nn
						return "splitGroup"
					}
				}
			}
		}
		return "noop"
	case 14: // route change
		rs := sortedKeys(s.Routes)
		if len(rs) == 0 || rapid.Bool().Draw(t, label+"radd") {
			genRoutes(t, s, 1, label+"rt")
			return "routeAdd"
		}
		r := rapid.SampledFrom(rs).Draw(t, label+"r")
		delete(s.Routes, r)
		if rapid.Bool().Draw(t, label+"rchg") {
			f := strings.Fields(r)
			f[4] = rapid.SampledFrom(gateways).Draw(t, label+"gw")
			s.Routes[strings.Join(f, " ")] = true
			return "routeChg"
		}
		return "routeDel"
	case 15: // unbind / rebind
		slots := make([]Slot, 0)
		for _, nif := range nameifs {
			for _, d := range []string{"in", "out"} {
				if _, ok := s.Bind[Slot{nif, d}]; ok {
					slots = append(slots, Slot{nif, d})
				}
			}
		}
		if len(slots) == 0 {
			return "noop"
		}
		sl := slots[rapid.IntRange(0, len(slots)-1).Draw(t, label+"slot")]
		if rapid.Bool().Draw(t, label+"unbind") {
			delete(s.Bind, sl)
			return "unbind"
		}
		s.Bind[sl] = pickACL()
		return "rebind"
	case 16: // extra binding the target lacks
		if len(aclNames) == 0 {
			return "noop"
		}
		nif := s.Intfs[rapid.IntRange(0, len(s.Intfs)-1).Draw(t, label+"xi")].Nameif
		if nif == "" {
			return "noop"
		}
		sl := Slot{nif, "out"}
		if _, ok := s.Bind[sl]; !ok {
			s.Bind[sl] = pickACL()
			return "extraBind"
		}
		return "noop"
	case 17: // left-over generated objects
		nn := fmt.Sprintf("g%d-DRC-%d", rapid.IntRange(0, 3).Draw(t, label+"lg"), rapid.IntRange(0, 2).Draw(t, label+"li"))
		if s.Groups[nn] == nil {
			s.Groups[nn] = &Group{Kind: "network", Members: genMembers(t, label+"lm", 1, 3)}
		}
		if rapid.Bool().Draw(t, label+"lacl") {
			an := rapid.SampledFrom([]string{"inside_in-DRC-0", "inside_in-DRC-1", "outside_in-DRC-0"}).Draw(t, label+"lan")
			if s.ACLs[an] == nil {
				s.ACLs[an] = genACL(t, []string{nn}, nil, 2, label+"lacl")
			}
		}
		return "leftover"
	case 18: // swap adjacent lines
		n := pickACL()
		if n == "" || len(s.ACLs[n]) < 2 {
			return "noop"
		}
		acl := s.ACLs[n]
		i := rapid.IntRange(0, len(acl)-2).Draw(t, label+"pos")
		acl[i], acl[i+1] = acl[i+1], acl[i]
		return "swap"
	case 19: // change port / address of a line
		n := pickACL()
		if n == "" {
			return "noop"
		}
		acl := s.ACLs[n]
		i := rapid.IntRange(0, len(acl)-1).Draw(t, label+"pos")
		if acl[i].Std || acl[i].IsRemark {
			return "noop"
		}
		c := *acl[i]
		c.Dst = genObj(t, ngroups, label+"nd")
		if hasDup(acl, &c) {
			return "noop"
		}
		acl[i] = &c
		return "chgAddr"
	}
	return "noop"
}

// Pair is a generated (device, target) pair plus generator bookkeeping.
type Pair struct {
	A, B  *State
	Mode  string
	Ops   []string
	Sp    Spelling
}

func genSpelling(t *rapid.T) Spelling {
	bits := rapid.IntRange(0, 63).Draw(t, "spelling")
	if rapid.IntRange(0, 2).Draw(t, "plainSpelling") == 0 {
		bits = 0
	}
	return Spelling{
		NamedPorts: bits&1 != 0, HostMask: bits&2 != 0, ZeroAny: bits&4 != 0,
		LogNames: bits&8 != 0, Metric: bits&16 != 0, NamedProto: bits&32 != 0,
	}
}

// GenPair generates a (device A, target B) pair.
func GenPair(t *rapid.T, o GenOpts) *Pair {
	p := &Pair{}
	p.B = GenTarget(t, o, "B")
	if rapid.IntRange(0, 4).Draw(t, "independent") == 0 {
		p.Mode = "independent"
		p.A = GenTarget(t, o, "A")
		// Device must know all interfaces of the target.
		have := map[string]bool{}
		for _, i := range p.A.Intfs {
			have[i.Nameif] = true
		}
		for _, i := range p.B.Intfs {
			if !have[i.Nameif] {
				c := *i
				c.HW = hwNames[len(p.A.Intfs)]
				p.A.Intfs = append(p.A.Intfs, &c)
			}
		}
		if o.VPN {
			p.A.provideManual(p.B)
		}
	} else {
		p.Mode = "derived"
		p.A = p.B.Clone()
		// Usually the device carries the names a previous approve generated.
		if rapid.IntRange(0, 2).Draw(t, "drcNames") != 0 {
			for _, n := range sortedKeys(p.A.Groups) {
				p.A.renameGroup(n, n+"-DRC-0")
			}
			for _, n := range sortedKeys(p.A.ACLs) {
				p.A.renameACL(n, n+"-DRC-0")
			}
			if o.VPN {
				p.A.Gen.tagAll()
			}
		}
	}
	n := rapid.IntRange(0, 6).Draw(t, "nOps")
	for i := 0; i < n; i++ {
		var op string
		if o.VPN && rapid.Bool().Draw(t, fmt.Sprintf("vpnOp%d", i)) {
			op = p.A.mutateVPN(t, o, fmt.Sprintf("op%d", i))
		} else {
			op = p.A.mutate(t, o, fmt.Sprintf("op%d", i))
		}
		p.Ops = append(p.Ops, op)
	}
	if o.VPN {
		p.A.repairVPN()
	}
	// Remove empty ACL bindings that mutate may have produced.
	for k, v := range p.A.Bind {
		if _, ok := p.A.ACLs[v]; !ok {
			delete(p.A.Bind, k)
		}
	}
	if o.Ties {
		p.A.addTies(t)
		if o.VPN {
			p.A.addVPNTies(t)
		}
	}
	if o.Decorate {
		p.Ops = append(p.Ops, p.A.decorate(t, p.B)...)
	}
	if rapid.IntRange(0, 3).Draw(t, "extraIntf") == 0 && len(p.A.Intfs) < len(hwNames) {
		p.A.Intfs = append(p.A.Intfs, &Intf{HW: hwNames[len(p.A.Intfs)], Nameif: "mgmt",
			Shut: rapid.Bool().Draw(t, "extraShut")})
	}
	p.Sp = genSpelling(t)
	return p
}

// addTies adds identical unused copies of groups so that several device
// objects match one target object equally well.
func (s *State) addTies(t *rapid.T) {
	names := sortedKeys(s.Groups)
	if len(names) == 0 {
		return
	}
	n := rapid.IntRange(1, 3).Draw(t, "nTies")
	for i := 0; i < n; i++ {
		src := rapid.SampledFrom(names).Draw(t, fmt.Sprintf("tie%d", i))
		for j := 0; j < 3; j++ {
			nn := fmt.Sprintf("%s_tie%d", src, j)
			if s.Groups[nn] == nil && rapid.Bool().Draw(t, fmt.Sprintf("tie%d_%d", i, j)) {
				c := *s.Groups[src]
				c.Members = append([]string(nil), c.Members...)
				s.Groups[nn] = &c
			}
		}
	}
}

// NetspocText prints a target the way Netspoc writes it (no interface
// definitions, canonical spelling).
func (s *State) NetspocText() string {
	c := s.Clone()
	c.Intfs = nil
	return c.Print(Spelling{})
}

// decorate adds content outside Netspoc's scope to the device (C07).
func (s *State) decorate(t *rapid.T, b *State) []string {
	var did []string
	managedGroups := sortedKeys(s.Groups)
	var netGroups []string
	for _, g := range managedGroups {
		if s.Groups[g].Kind == "network" {
			netGroups = append(netGroups, g)
		}
	}
	// 1. unbound manual ACL referencing private and shared groups
	if rapid.IntRange(0, 3).Draw(t, "decACL") != 0 {
		name := rapid.SampledFrom([]string{"manual_acl", "inside_in_old", "VPN_split"}).Draw(t, "decACLname")
		if s.ACLs[name] == nil {
			var refs []string
			if rapid.Bool().Draw(t, "decPrivGrp") {
				s.Groups["manual_grp"] = &Group{Kind: "network", Members: genMembers(t, "decPG", 1, 3)}
				refs = append(refs, "manual_grp")
			}
			if len(netGroups) > 0 && rapid.Bool().Draw(t, "decShared") {
				refs = append(refs, rapid.SampledFrom(netGroups).Draw(t, "decSharedG"))
				did = append(did, "dec:sharedGroup")
			}
			acl := genACL(t, refs, nil, 3, "decACLbody")
			// make sure at least one reference is really used
			if len(refs) > 0 {
				a := &ACE{Permit: true, Proto: "ip", Src: Obj{Group: refs[len(refs)-1]}, Dst: Obj{Pfx: pfx("0.0.0.0/0")}, Log: Log{Level: -1, Interval: -1}}
				if !hasDup(acl, a) {
					acl = append([]*ACE{a}, acl...)
				}
			}
			s.ACLs[name] = acl
			did = append(did, "dec:unboundACL")
		}
	}
	// 2. unreferenced group without tag
	if rapid.IntRange(0, 2).Draw(t, "decGrp") == 0 {
		s.Groups["keep_grp"] = &Group{Kind: "network", Members: genMembers(t, "decKG", 1, 3)}
		did = append(did, "dec:unusedGroup")
	}
	// 3. interface unknown to Netspoc with a bound ACL
	if rapid.IntRange(0, 2).Draw(t, "decIntf") != 0 && len(s.Intfs) < len(hwNames) {
		nif := "ext9"
		if !s.hasNameif(nif) || len(s.Intfs) == 0 {
			s.Intfs = append(s.Intfs, &Intf{HW: hwNames[len(s.Intfs)], Nameif: nif, Shut: rapid.IntRange(0, 2).Draw(t, "decIntfShut") == 0})
		}
		name := rapid.SampledFrom([]string{"ext9_in", "ext9_in-DRC-0", "outside_in-DRC-3"}).Draw(t, "decIntfACL")
		if s.ACLs[name] == nil {
			var refs []string
			if len(netGroups) > 0 && rapid.Bool().Draw(t, "decIntfShared") {
				refs = append(refs, rapid.SampledFrom(netGroups).Draw(t, "decIntfSharedG"))
				did = append(did, "dec:sharedGroup")
			}
			acl := genACL(t, refs, nil, 3, "decIntfBody")
			if len(refs) > 0 {
				a := &ACE{Permit: true, Proto: "ip", Src: Obj{Pfx: pfx("0.0.0.0/0")}, Dst: Obj{Group: refs[0]}, Log: Log{Level: -1, Interval: -1}}
				if !hasDup(acl, a) {
					acl = append(acl, a)
				}
			}
			s.ACLs[name] = acl
			s.Bind[Slot{nif, "in"}] = name
			did = append(did, "dec:unmanagedIntf")
		}
	}
	// 4. routes in a family the target says nothing about
	if len(b.Routes) == 0 && rapid.Bool().Draw(t, "decRoutes") {
		genRoutes(t, s, 2, "decRt")
		did = append(did, "dec:routes")
	}
	// 5. opaque lines
	if rapid.Bool().Draw(t, "decOpaque") {
		lines := []string{"hostname asa1", "logging enable", "ntp server 10.1.1.8 source inside",
			"snmp-server host inside 10.1.1.9 community public", "ssh 10.1.1.0 255.255.255.0 inside",
			"nat (inside,outside) source static any any", "policy-map global_policy", "http server enable"}
		n := rapid.IntRange(1, 4).Draw(t, "decOpaqueN")
		for i := 0; i < n; i++ {
			l := rapid.SampledFrom(lines).Draw(t, fmt.Sprintf("decOpaque%d", i))
			dup := false
			for _, x := range s.Opaque {
				dup = dup || x == l
			}
			if !dup {
				s.Opaque = append(s.Opaque, l)
				if l == "policy-map global_policy" {
					s.Opaque = append(s.Opaque, " class inspection_default", "  inspect ftp")
				}
			}
		}
		did = append(did, "dec:opaque")
	}
	// 6. tagged left-over still referenced by an unmanaged ACL (3.022)
	if rapid.IntRange(0, 3).Draw(t, "decTagged") == 0 {
		gn := "g9-DRC-0"
		if s.Groups[gn] == nil {
			s.Groups[gn] = &Group{Kind: "network", Members: genMembers(t, "decTG", 1, 2)}
			an := "legacy_acl"
			if s.ACLs[an] == nil {
				s.ACLs[an] = []*ACE{{Permit: true, Proto: "ip", Src: Obj{Group: gn}, Dst: Obj{Pfx: pfx("0.0.0.0/0")}, Log: Log{Level: -1, Interval: -1}}}
				did = append(did, "dec:taggedStillReferenced")
			} else {
				delete(s.Groups, gn)
			}
		}
	}
	return did
}
