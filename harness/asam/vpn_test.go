package asam

import (
	"errors"
	"strings"
	"testing"
)

const vpnDev = `interface Ethernet0/1
 nameif outside
access-list vpn-filter extended permit ip host 10.1.2.2 host 10.1.0.2
access-list crypto-1 extended permit ip any4 10.0.1.0 255.255.255.0
crypto ipsec ikev1 transform-set Trans1 esp-3des esp-md5-hmac
crypto map cm 1 match address crypto-1
crypto map cm 1 set peer 10.0.0.1
crypto map cm 1 set ikev1 transform-set Trans1
crypto map cm 1 set pfs group14
crypto map cm interface outside
ip local pool pool 10.1.219.192-10.1.219.255 mask 0.0.0.63
group-policy G internal
group-policy G attributes
 address-pools value pool
 vpn-filter value vpn-filter
 vpn-idle-timeout 60
 webvpn
  anyconnect ask none
crypto ca certificate map ca-map 10
 subject-name attr ea co @sub.example.com
tunnel-group T type remote-access
tunnel-group T general-attributes
 default-group-policy G
tunnel-group 1.1.1.1 type ipsec-l2l
tunnel-group 1.1.1.1 ipsec-attributes
 ikev1 pre-shared-key *****
 peer-id-validate nocheck
tunnel-group-map ca-map 10 T
webvpn
 certificate-group-map ca-map 10 T
username u1 nopassword
username u1 attributes
 vpn-group-policy G
`

func run(t *testing.T, dev string, cmds ...string) (*State, error) {
	t.Helper()
	s, err := Parse(dev)
	if err != nil {
		t.Fatalf("parse: %v", err)
	}
	for _, c := range cmds {
		if err := s.Exec(c); err != nil {
			return s, err
		}
	}
	return s, nil
}

func wantRefusal(t *testing.T, rule string, cmds ...string) {
	t.Helper()
	_, err := run(t, vpnDev, cmds...)
	var r *Refusal
	if !errors.As(err, &r) || r.Rule != rule {
		t.Fatalf("%v: want refusal %q, got %v", cmds, rule, err)
	}
}

func wantOK(t *testing.T, cmds ...string) *State {
	t.Helper()
	s, err := run(t, vpnDev, cmds...)
	if err != nil {
		t.Fatalf("%v: %v", cmds, err)
	}
	return s
}

func TestVPNStrictness(t *testing.T) {
	// the trap: 'webvpn' inside group-policy attributes is the policy's own mode
	wantRefusal(t, "mode", "group-policy G attributes", "vpn-idle-timeout 5", "webvpn", "certificate-group-map ca-map 10 T")
	wantOK(t, "group-policy G attributes", "vpn-idle-timeout 5", "exit", "webvpn", "no certificate-group-map ca-map 10 T")
	wantOK(t, "group-policy G attributes", "vpn-idle-timeout 5", "tunnel-group-map default-group T", "webvpn", "no certificate-group-map ca-map 10 T")
	wantRefusal(t, "mode", "username u1 attributes", "webvpn", "certificate-group-map ca-map 10 T")
	wantRefusal(t, "mode", "certificate-group-map ca-map 10 T")
	wantRefusal(t, "mode", "group-policy G attributes", "peer-id-validate req")
	// left configuration mode
	wantRefusal(t, "mode", "exit", "webvpn")
	// dangling
	wantRefusal(t, "dangling", "crypto map cm 2 match address nix")
	wantRefusal(t, "dangling", "crypto map cm 2 set ikev1 transform-set Trans1 Trans9")
	wantRefusal(t, "dangling", "crypto map cm 2 ipsec-isakmp dynamic dyn")
	wantRefusal(t, "dangling", "crypto map other interface outside")
	wantRefusal(t, "dangling", "crypto map cm interface inside")
	wantRefusal(t, "dangling", "group-policy G attributes", "vpn-filter value nix")
	wantRefusal(t, "dangling", "group-policy G attributes", "address-pools value nix")
	wantRefusal(t, "dangling", "tunnel-group T general-attributes", "default-group-policy nix")
	wantRefusal(t, "dangling", "tunnel-group T general-attributes", "authentication-server-group nix")
	wantRefusal(t, "dangling", "tunnel-group-map ca-map 20 nix")
	wantRefusal(t, "dangling", "tunnel-group-map nix 20 T")
	wantRefusal(t, "dangling", "username u1 attributes", "vpn-group-policy nix")
	wantOK(t, "tunnel-group T general-attributes", "default-group-policy DfltGrpPolicy")
	wantOK(t, "tunnel-group-map default-group DefaultRAGroup")
	// in use
	wantRefusal(t, "in-use", "clear configure group-policy G")
	wantRefusal(t, "in-use", "clear configure tunnel-group T")
	wantRefusal(t, "in-use", "clear configure crypto ca certificate map ca-map")
	wantRefusal(t, "in-use", "clear configure access-list vpn-filter")
	wantRefusal(t, "in-use", "clear configure access-list crypto-1")
	wantRefusal(t, "in-use", "no access-list vpn-filter line 1 extended permit ip host 10.1.2.2 host 10.1.0.2")
	wantRefusal(t, "in-use", "no ip local pool pool 10.1.219.192-10.1.219.255 mask 0.0.0.63")
	wantRefusal(t, "in-use", "no crypto ipsec ikev1 transform-set Trans1 esp-3des esp-md5-hmac")
	wantRefusal(t, "in-use", "no crypto map cm 1 match address crypto-1", "no crypto map cm 1 set peer 10.0.0.1",
		"no crypto map cm 1 set ikev1 transform-set Trans1", "no crypto map cm 1 set pfs")
	wantOK(t, "no crypto map cm interface outside", "no crypto map cm 1 match address crypto-1", "no crypto map cm 1 set peer 10.0.0.1",
		"no crypto map cm 1 set ikev1 transform-set Trans1", "no crypto map cm 1 set pfs",
		"clear configure access-list crypto-1", "no crypto ipsec ikev1 transform-set Trans1 esp-3des esp-md5-hmac")
	// order
	wantRefusal(t, "order", "group-policy N attributes")
	wantRefusal(t, "order", "tunnel-group N general-attributes")
	wantRefusal(t, "order", "username N attributes")
	wantOK(t, "group-policy DfltGrpPolicy attributes", "vpn-idle-timeout 5")
	wantOK(t, "tunnel-group DefaultL2LGroup ipsec-attributes", "peer-id-validate nocheck")
	wantRefusal(t, "type", "tunnel-group T type ipsec-l2l")
	// missing
	wantRefusal(t, "missing", "no crypto map cm 1 set pfs group19")
	wantRefusal(t, "missing", "no crypto map cm 1 set reverse-route")
	wantRefusal(t, "missing", "group-policy G attributes", "no vpn-idle-timeout 61")
	wantRefusal(t, "missing", "no tunnel-group T ipsec-attributes")
	wantRefusal(t, "missing", "no tunnel-group-map ca-map 20 T")
	wantRefusal(t, "missing", "clear configure group-policy N")
	wantRefusal(t, "missing", "no crypto map cm interface inside")
	wantRefusal(t, "missing", "crypto ca certificate map ca-map 10", "no subject-name attr ea co @other")
	wantOK(t, "crypto ca certificate map ca-map 10", "no subject-name attr ea co @SUB.example.com")
	// single-valued replace
	s := wantOK(t, "group-policy G attributes", "vpn-idle-timeout 5", "exit")
	if got := strings.Join(s.Gen.get(kGP, "G").Modes["attributes"].Lines, "|"); strings.Contains(got, "60") || !strings.Contains(got, "vpn-idle-timeout 5") {
		t.Fatalf("single-valued attribute not replaced: %s", got)
	}
	// ignorable lines survive the round trip and do not count
	b, _ := Parse(strings.Replace(vpnDev, " ikev1 pre-shared-key *****\n", "", 1))
	a, _ := Parse(vpnDev)
	sc := ScopeOf(b)
	if a.Canon(sc) != b.Canon(sc) {
		t.Fatalf("pre-shared key is compared:\n%s\n---\n%s", a.Canon(sc), b.Canon(sc))
	}
	if !strings.Contains(a.Print(Spelling{Metric: true}), "pre-shared-key") || !strings.Contains(a.Print(plain), "anyconnect ask none") {
		t.Fatalf("ignorable lines lost:\n%s", a.Print(plain))
	}
	// round trip
	for _, sp := range []Spelling{{}, {Metric: true}, {HostMask: true}} {
		c, err := Parse(a.Print(sp))
		if err != nil {
			t.Fatal(err)
		}
		if c.Canon(sc) != a.Canon(sc) || c.Print(sp) != a.Print(sp) {
			t.Fatalf("print/parse round trip differs:\n%s\n---\n%s", a.Print(sp), c.Print(sp))
		}
	}
	// sensitivity of the equivalence
	for _, edit := range [][2]string{
		{"set peer 10.0.0.1", "set peer 10.0.0.2"},
		{"vpn-idle-timeout 60", "vpn-idle-timeout 61"},
		{"host 10.1.2.2 host 10.1.0.2", "host 10.1.2.2 host 10.1.0.3"},
		{"esp-3des esp-md5-hmac", "esp-aes esp-md5-hmac"},
		{"peer-id-validate nocheck", "peer-id-validate req"},
		{"@sub.example.com", "@sub2.example.com"},
		{"10.1.219.255 mask", "10.1.219.254 mask"},
		{"username u1 attributes\n vpn-group-policy G\n", ""},
		{"crypto map cm interface outside\n", ""},
		{"tunnel-group-map ca-map 10 T\n", ""},
		{" certificate-group-map ca-map 10 T\n", ""},
		{"tunnel-group 1.1.1.1", "tunnel-group 1.1.1.2"},
	} {
		c, err := Parse(strings.ReplaceAll(vpnDev, edit[0], edit[1]))
		if err != nil {
			t.Fatal(err)
		}
		if c.Canon(ScopeOf(a)) == a.Canon(ScopeOf(a)) {
			t.Fatalf("edit %q -> %q is invisible to Canon", edit[0], edit[1])
		}
	}
	// names and numbers are not compared
	ren := strings.NewReplacer("crypto-1", "crypto-1-DRC-0", "Trans1", "Trans1-DRC-3", "map cm 1 ", "map cm 7 ", " G", " G-DRC-0",
		"pool pool", "pool pool-DRC-1", "value pool", "value pool-DRC-1", " T", " T-DRC-0", "ca-map 10", "cmap-DRC-0 20",
		"vpn-filter", "vpnf", "set pfs group14", "set pfs")
	c, err := Parse(strings.Replace(ren.Replace(vpnDev), "vpnf value", "vpn-filter value", 1))
	if err != nil {
		t.Fatal(err)
	}
	if c.Canon(sc) != a.Canon(sc) {
		t.Fatalf("renaming is visible:\n%s\n---\n%s", a.Canon(sc), c.Canon(sc))
	}
}
