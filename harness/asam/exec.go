package asam

import (
	"strconv"
	"strings"
)

type modeRef struct {
	kind string // "", "object-group", or a schema sub-mode id
	name string
	sub  string
}

// Exec executes one configuration command line (already split: one line
// per call; the two halves of a joined line are two calls) as a strict
// device would. It returns *Refusal for commands a device would reject and
// *ErrUnsupported for vocabulary outside the model.
func (s *State) Exec(line string) error {
	line = strings.TrimRight(line, " \t\r")
	if s.left {
		return refuse("mode", "command %q sent after leaving configuration mode", line)
	}
	f := strings.Fields(line)
	if len(f) == 0 {
		return nil
	}
	if line == "exit" {
		if s.mode.kind == "" {
			s.left = true
			return nil
		}
		s.mode = s.Gen.exitMode(s.mode)
		return nil
	}
	// A command valid in the current sub-mode is consumed there.
	if s.mode.kind == "object-group" {
		if ok, err := s.execGroupSub(f); ok {
			return err
		}
	} else if s.mode.kind != "" {
		if ok, err := s.Gen.execSub(s, f, line); ok {
			return err
		}
	}
	// Otherwise it is tried at top level (which implicitly leaves the
	// sub-mode, as the device does).
	ok, err := s.execTop(f, line)
	if ok {
		return err
	}
	if s.mode.kind != "" {
		return refuse("mode", "%q is neither valid in mode %s %s nor at top level", line, s.mode.kind, s.mode.name)
	}
	return unsupported("command %q", line)
}

func (s *State) refsOfACE(f []string) []string {
	var res []string
	for i, w := range f {
		if w == "object-group" && i+1 < len(f) {
			res = append(res, f[i+1])
		}
	}
	return res
}

func (s *State) execTop(f []string, line string) (bool, error) {
	neg := false
	if f[0] == "no" {
		neg = true
		f = f[1:]
		if len(f) == 0 {
			return true, unsupported("bare no")
		}
	}
	switch f[0] {
	case "access-list":
		s.mode = modeRef{}
		return true, s.execACL(neg, f)
	case "clear":
		if len(f) >= 4 && f[1] == "configure" {
			s.mode = modeRef{}
			if f[2] == "access-list" && len(f) == 4 {
				return true, s.clearACL(f[3])
			}
			return s.Gen.execClear(s, f[2:])
		}
	case "object-group":
		if len(f) < 3 {
			return true, unsupported("object-group form")
		}
		kind := f[1]
		name := f[2]
		if len(f) == 4 {
			kind += " " + f[3]
		}
		if neg {
			s.mode = modeRef{}
			g := s.Groups[name]
			if g == nil {
				return true, refuse("missing", "object-group %s does not exist", name)
			}
			if g.Kind != kind {
				return true, refuse("missing", "object-group %s has type %q, not %q", name, g.Kind, kind)
			}
			if who := s.groupUser(name); who != "" {
				return true, refuse("in-use", "object-group %s is still used by %s", name, who)
			}
			delete(s.Groups, name)
			return true, nil
		}
		g := s.Groups[name]
		if g == nil {
			switch f[1] {
			case "network", "service", "protocol":
			default:
				return true, unsupported("object-group type %s", f[1])
			}
			s.Groups[name] = &Group{Kind: kind}
		} else if g.Kind != kind {
			return true, refuse("type", "object-group %s exists with type %q", name, g.Kind)
		}
		s.mode = modeRef{kind: "object-group", name: name}
		return true, nil
	case "access-group":
		s.mode = modeRef{}
		slot, acl, err := parseAccessGroup(f)
		if err != nil {
			return true, err
		}
		if neg {
			if s.Bind[slot] != acl {
				return true, refuse("missing", "access-group %s is not bound like that", acl)
			}
			delete(s.Bind, slot)
			return true, nil
		}
		if _, ok := s.ACLs[acl]; !ok {
			return true, refuse("dangling", "access-group references missing access-list %s", acl)
		}
		if slot.Dir != "global" && !s.hasNameif(slot.Intf) {
			return true, refuse("dangling", "access-group names unknown interface %s", slot.Intf)
		}
		s.Bind[slot] = acl
		return true, nil
	case "route", "ipv6":
		if f[0] == "ipv6" && (len(f) < 2 || f[1] != "route") {
			break
		}
		s.mode = modeRef{}
		if len(f) == 6 {
			// optional trailing metric
			if _, err := strconv.Atoi(f[5]); err != nil {
				return true, unsupported("route form %q", line)
			}
			f = f[:5]
		}
		if len(f) != 5 {
			return true, unsupported("route form %q", line)
		}
		key := strings.Join(f, " ")
		if neg {
			if !s.Routes[key] {
				return true, refuse("missing", "route %q does not exist", key)
			}
			delete(s.Routes, key)
			return true, nil
		}
		if s.Routes[key] {
			return true, refuse("duplicate", "route %q exists", key)
		}
		if !s.hasNameif(f[len(f)-4]) {
			return true, refuse("dangling", "route names unknown interface %s", f[len(f)-4])
		}
		s.Routes[key] = true
		return true, nil
	}
	return s.Gen.execTop(s, neg, f, line)
}

func (s *State) hasNameif(n string) bool {
	// A configuration without interface definitions is a Netspoc file
	// used as device (file/file compare): interfaces are implicit.
	if len(s.Intfs) == 0 {
		return true
	}
	for _, i := range s.Intfs {
		if i.Nameif == n {
			return true
		}
	}
	return false
}

// groupUser names something that references the object-group, or "".
func (s *State) groupUser(name string) string {
	for _, an := range sortedKeys(s.ACLs) {
		for _, a := range s.ACLs[an] {
			if a.Src.Group == name || a.Dst.Group == name || a.ProtoGroup == name ||
				a.SPort.Group == name || a.DPort.Group == name {
				return "access-list " + an
			}
		}
	}
	for _, gn := range sortedKeys(s.Groups) {
		for _, m := range s.Groups[gn].Members {
			if m == "group-object "+name {
				return "object-group " + gn
			}
		}
	}
	return ""
}

func (s *State) aclUser(name string) string {
	for slot, acl := range s.Bind {
		if acl == name {
			return "access-group " + slot.Dir + " " + slot.Intf
		}
	}
	return s.Gen.userOf("access-list", name)
}

func (s *State) clearACL(name string) error {
	if _, ok := s.ACLs[name]; !ok {
		return refuse("missing", "access-list %s does not exist", name)
	}
	if who := s.aclUser(name); who != "" {
		return refuse("in-use", "access-list %s is still used by %s", name, who)
	}
	delete(s.ACLs, name)
	return nil
}

func (s *State) execACL(neg bool, f []string) error {
	if len(f) < 3 {
		return unsupported("access-list form")
	}
	name := f[1]
	rest := f[2:]
	lineNo := 0
	if rest[0] == "line" {
		if len(rest) < 3 {
			return unsupported("access-list line form")
		}
		n, err := strconv.Atoi(rest[1])
		if err != nil || n < 1 {
			return unsupported("line number %q", rest[1])
		}
		lineNo = n
		rest = rest[2:]
	}
	for _, g := range s.refsOfACE(rest) {
		if rest[0] == "remark" {
			break
		}
		if _, ok := s.Groups[g]; !ok {
			if neg {
				return refuse("missing", "ACE to delete names missing object-group %s", g)
			}
			return refuse("dangling", "ACE references missing object-group %s", g)
		}
	}
	a, err := s.ParseACE(strings.Join(rest, " "))
	if err != nil {
		return err
	}
	acl := s.ACLs[name]
	if neg {
		if acl == nil {
			return refuse("missing", "access-list %s does not exist", name)
		}
		idx := -1
		if lineNo > 0 {
			if lineNo > len(acl) {
				return refuse("line", "access-list %s has no line %d", name, lineNo)
			}
			if acl[lineNo-1].Key(true) != a.Key(true) {
				return refuse("line", "access-list %s line %d is %q, not %q",
					name, lineNo, acl[lineNo-1].Body(plain), a.Body(plain))
			}
			idx = lineNo - 1
		} else {
			for i, x := range acl {
				if x.Key(true) == a.Key(true) {
					idx = i
					break
				}
			}
			if idx < 0 {
				return refuse("missing", "access-list %s has no entry %q", name, a.Body(plain))
			}
		}
		if len(acl) == 1 {
			if who := s.aclUser(name); who != "" {
				return refuse("in-use", "removing last entry deletes access-list %s still used by %s", name, who)
			}
			delete(s.ACLs, name)
			return nil
		}
		s.ACLs[name] = append(acl[:idx:idx], acl[idx+1:]...)
		return nil
	}
	if !a.IsRemark {
		k := a.Key(false)
		for i, x := range acl {
			if !x.IsRemark && x.Key(false) == k {
				return refuse("duplicate", "access-list %s already contains %q at line %d", name, x.Body(plain), i+1)
			}
		}
		if len(acl) > 0 {
			// An ACL is either standard or extended.
			for _, x := range acl {
				if !x.IsRemark && x.Std != a.Std {
					return refuse("type", "access-list %s mixes standard and extended", name)
				}
			}
		}
	}
	if lineNo == 0 || lineNo > len(acl) {
		s.ACLs[name] = append(acl, a)
		return nil
	}
	n := make([]*ACE, 0, len(acl)+1)
	n = append(n, acl[:lineNo-1]...)
	n = append(n, a)
	n = append(n, acl[lineNo-1:]...)
	s.ACLs[name] = n
	return nil
}

func (s *State) execGroupSub(f []string) (bool, error) {
	g := s.Groups[s.mode.name]
	if g == nil {
		return false, nil
	}
	neg := false
	if f[0] == "no" {
		neg = true
		f = f[1:]
	}
	if len(f) == 0 {
		return false, nil
	}
	switch f[0] {
	case "network-object", "port-object", "service-object", "protocol-object", "group-object":
	case "description":
		if neg {
			g.Descr = ""
		} else {
			g.Descr = strings.Join(f[1:], " ")
		}
		return true, nil
	default:
		return false, nil
	}
	m, err := canonMember(g.Kind, strings.Join(f, " "))
	if err != nil {
		if _, ok := err.(*ErrUnsupported); ok {
			return true, refuse("mode", "member %q not valid in object-group %s %s", strings.Join(f, " "), g.Kind, s.mode.name)
		}
		return true, err
	}
	idx := -1
	for i, x := range g.Members {
		if x == m {
			idx = i
		}
	}
	if neg {
		if idx < 0 {
			return true, refuse("missing", "object-group %s has no member %q", s.mode.name, m)
		}
		g.Members = append(g.Members[:idx:idx], g.Members[idx+1:]...)
		return true, nil
	}
	if idx >= 0 {
		return true, refuse("duplicate", "object-group %s already has member %q", s.mode.name, m)
	}
	if f[0] == "group-object" {
		if _, ok := s.Groups[f[1]]; !ok {
			return true, refuse("dangling", "group-object %s does not exist", f[1])
		}
	}
	g.Members = append(g.Members, m)
	return true, nil
}

// EndSession resets the mode tracking (a new session starts at top level).
func (s *State) EndSession() {
	s.mode = modeRef{}
	s.left = false
}
