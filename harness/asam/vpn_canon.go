package asam

import (
	"sort"
	"strings"
)

// Equivalence and scope of the VPN part (DESIGN Appendix C).
//
// Anchors, compared by content under their own key:
//   username NAME                      (the name is the key)
//   tunnel-group IP / Default*Group    (the name is the key)
//   group-policy DfltGrpPolicy
//   tunnel-group-map / certificate-group-map entries, keyed by the first
//     "subject-name attr" line of the certificate map, or "default-group"
//   no sysopt connection permit-vpn
//   crypto map bound at a managed interface: entries keyed by peer or by the
//     name of the dynamic map; sequence numbers and the map's name ignored
// Everything else is compared only through references from an anchor, with
// names ignored (exceptions: names the tool keeps fixed and that therefore
// are visible content: aaa-server, dynamic map, IP-named / default
// tunnel-groups, DfltGrpPolicy). Attribute lines are sets. Lines the
// schema marks "ignore" are never compared.

func (g *GenStore) boundIntfs() []string { return sortedKeys(g.CryptoIf) }

func braces(parts []string) string { return "{" + strings.Join(parts, "; ") + "}" }

// linesCanon is the set of lines of a mode with every reference replaced by
// the content of the referenced object.
func (g *GenStore) linesCanon(s *State, kind string, ms *modeSpec, lines []string) []string {
	var res []string
	for _, l := range lines {
		first := firstLine(l)
		w := strings.Fields(first)
		a := ms.find(w)
		if a != nil && a.ignore {
			continue
		}
		if kind == kCert && strings.HasPrefix(first, "subject-name") {
			first = strings.ToLower(first)
		}
		if a != nil && a.ref != "" {
			refs := lineRefs(kind, a, l)
			n := len(w) - len(refs)
			if kind != kLDAP && !a.refAll {
				n = len(strings.Fields(a.key))
			}
			parts := append([]string(nil), w[:n]...)
			for _, r := range refs {
				parts = append(parts, g.objCanon(s, a.ref, r))
			}
			if kind != kLDAP && !a.refAll {
				parts = append(parts, w[n+len(refs):]...)
			}
			first = strings.Join(parts, " ")
		}
		res = append(res, first)
	}
	sort.Strings(res)
	// A set: the device cannot hold one line twice.
	j := 0
	for i, x := range res {
		if i == 0 || x != res[i-1] {
			res[j] = x
			j++
		}
	}
	return res[:j]
}

// objCanon is the name-free content of a referenced object.
func (g *GenStore) objCanon(s *State, kind, name string) string {
	if kind == kACL {
		if _, ok := s.ACLs[name]; !ok {
			return "<missing access-list>"
		}
		return "acl" + braces(s.ACLCanon(name))
	}
	k := kindByID[kind]
	o := g.get(kind, name)
	if o == nil {
		if isDefaultObj(kind, name) {
			o = newObj()
		} else if kind == kAAA && name == "LOCAL" {
			return "aaa[LOCAL]"
		} else {
			return "<missing " + k.label + ">"
		}
	}
	switch kind {
	case kTSet, kPool:
		return kind + braces(o.Top)
	case kProp:
		return kind + braces(g.linesCanon(s, kind, k.modes[0], o.mode("").Lines))
	case kLDAP:
		return kind + braces(g.linesCanon(s, kind, k.modes[0], o.mode("").Lines))
	case kCert:
		var all []string
		for _, seq := range o.seqs() {
			all = append(all, o.Modes[seq].Lines...)
		}
		return kind + braces(g.linesCanon(s, kind, k.modes[0], all))
	case kDyn:
		var all []string
		for _, seq := range o.seqs() {
			all = append(all, o.Modes[seq].Lines...)
		}
		return "dyn[" + name + "]" + braces(g.linesCanon(s, kind, k.modes[0], all))
	case kAAA:
		parts := append([]string(nil), o.Top...)
		seen := map[string]bool{}
		for _, id := range o.seqs() {
			for _, l := range g.linesCanon(s, kind, k.mode(id), o.Modes[id].Lines) {
				if strings.HasPrefix(l, "ldap-attribute-map ") && !seen[l] {
					seen[l] = true
					parts = append(parts, l)
				}
			}
		}
		return "aaa[" + name + "]" + braces(parts)
	case kGP, kTG, kUser:
		tag := kind
		if isDefaultObj(kind, name) || kind == kUser || (kind == kTG && isIPName(name)) {
			tag += "[" + name + "]"
		}
		var parts []string
		if d, ok := k.defaults[name]; ok {
			parts = append(parts, d)
		} else {
			parts = append(parts, o.Top...)
		}
		for _, ms := range k.modes {
			md := o.Modes[ms.id]
			if md == nil {
				// The built-in tunnel-groups always have general attributes.
				if kind == kTG && isDefaultObj(kind, name) && ms.id == "general-attributes" {
					md = &vmode{}
				} else {
					continue
				}
			}
			parts = append(parts, ms.id+braces(g.linesCanon(s, kind, ms, md.Lines)))
		}
		return tag + braces(parts)
	}
	return "<?" + kind + ">"
}

// certKey is the key of a map entry: the first "subject-name attr" line of
// the certificate map.
func (g *GenStore) certKey(e mapEntry) string {
	if e.Cert == "" {
		return "default-group"
	}
	o := g.get(kCert, e.Cert)
	if o == nil {
		return "<missing map>"
	}
	for _, seq := range o.seqs() {
		for _, l := range o.Modes[seq].Lines {
			if strings.HasPrefix(strings.ToLower(l), "subject-name attr") {
				return strings.ToLower(l)
			}
		}
	}
	return ""
}

// trivialDefault: a built-in object in its built-in state.
func (g *GenStore) trivialDefault(kind, name string) bool {
	o := g.get(kind, name)
	if o == nil {
		return true
	}
	for id, md := range o.Modes {
		if kind == kTG && id == "general-attributes" && len(md.Lines) == 0 {
			continue
		}
		return false
	}
	return true
}

// cryptoCanon is the content of a crypto map: entries keyed by peer or
// dynamic map, numbers ignored.
func (g *GenStore) cryptoCanon(s *State, name string) []string {
	o := g.get(kCMap, name)
	if o == nil {
		return []string{"<missing crypto map>"}
	}
	ms := kindByID[kCMap].modes[0]
	var res []string
	for _, seq := range o.seqs() {
		key := "<no peer>"
		for _, l := range o.Modes[seq].Lines {
			if p, ok := strings.CutPrefix(l, "set peer "); ok {
				key = "peer " + p
				break
			}
			if d, ok := strings.CutPrefix(l, "ipsec-isakmp dynamic "); ok {
				key = "dynamic " + d
				break
			}
		}
		res = append(res, "entry["+key+"]"+braces(g.linesCanon(s, kCMap, ms, o.Modes[seq].Lines)))
	}
	sort.Strings(res)
	return res
}

func (g *GenStore) canon(s *State, sc Scope) []string {
	var out []string
	if g.NoSysopt {
		out = append(out, "no sysopt connection permit-vpn")
	}
	for _, intf := range sortedKeys(g.CryptoIf) {
		if sc.Intfs[intf] {
			out = append(out, "crypto map at "+intf+":\n    "+strings.Join(g.cryptoCanon(s, g.CryptoIf[intf]), "\n    "))
		}
	}
	for _, n := range g.names(kUser) {
		out = append(out, g.objCanon(s, kUser, n))
	}
	tgs := map[string]bool{}
	for _, n := range g.names(kTG) {
		if isIPName(n) {
			tgs[n] = true
		}
	}
	for n := range kindByID[kTG].defaults {
		if !g.trivialDefault(kTG, n) {
			tgs[n] = true
		}
	}
	for _, n := range sortedKeys(tgs) {
		out = append(out, g.objCanon(s, kTG, n))
	}
	if !g.trivialDefault(kGP, "DfltGrpPolicy") {
		out = append(out, g.objCanon(s, kGP, "DfltGrpPolicy"))
	}
	for _, e := range g.TGMap {
		c := ""
		if e.Cert != "" {
			c = g.objCanon(s, kCert, e.Cert) + " "
		}
		out = append(out, "tunnel-group-map ["+g.certKey(e)+"]: "+c+g.objCanon(s, kTG, e.TG))
	}
	for _, e := range g.CGMap {
		out = append(out, "certificate-group-map ["+g.certKey(e)+"]: "+g.objCanon(s, kCert, e.Cert)+" "+g.objCanon(s, kTG, e.TG))
	}
	return out
}

// reach is the set of objects ("kind:name") reachable from the managed
// anchors of this state.
func (g *GenStore) reach(s *State, sc Scope) map[string]bool {
	seen := map[string]bool{}
	var visit func(key string)
	visit = func(key string) {
		if seen[key] {
			return
		}
		seen[key] = true
		kind, name, _ := strings.Cut(key, ":")
		if kind == kACL {
			return
		}
		if o := g.get(kind, name); o != nil {
			for _, r := range g.refsOfObj(kind, o) {
				visit(r)
			}
		}
	}
	for _, intf := range sortedKeys(g.CryptoIf) {
		if sc.Intfs[intf] {
			visit(kCMap + ":" + g.CryptoIf[intf])
		}
	}
	for _, n := range g.names(kUser) {
		visit(kUser + ":" + n)
	}
	for _, n := range g.names(kTG) {
		if isIPName(n) || isDefaultObj(kTG, n) {
			visit(kTG + ":" + n)
		}
	}
	visit(kGP + ":DfltGrpPolicy")
	for _, l := range [][]mapEntry{g.TGMap, g.CGMap} {
		for _, e := range l {
			if e.Cert != "" {
				visit(kCert + ":" + e.Cert)
			}
			visit(kTG + ":" + e.TG)
		}
	}
	return seen
}

// managedACLs are the ACLs reachable from managed VPN anchors.
func (g *GenStore) managedACLs(s *State, sc Scope) []string {
	if g.empty() {
		return nil
	}
	var res []string
	for key := range g.reach(s, sc) {
		if n, ok := strings.CutPrefix(key, kACL+":"); ok {
			res = append(res, n)
		}
	}
	sort.Strings(res)
	return res
}

func (g *GenStore) objText(kind, name string, skipMapValue bool) string {
	var b strings.Builder
	tmp := newGenStore()
	o := g.get(kind, name)
	if o == nil {
		return ""
	}
	tmp.Objs[kind] = map[string]*vobj{name: o}
	tmp.print(&b, plain)
	if !skipMapValue {
		return b.String()
	}
	var keep []string
	for _, l := range strings.Split(b.String(), "\n") {
		if !strings.HasPrefix(l, " map-value ") {
			keep = append(keep, l)
		}
	}
	return strings.Join(keep, "\n")
}

// frame is the VPN content outside Netspoc's scope (C07): objects not
// reachable from a managed anchor whose names carry no generated-name tag,
// everything they reference, crypto maps of interfaces the target does not
// know, aaa-server and ldap attribute-map definitions (of a reachable
// attribute-map only the lines the tool does not manage: it documents
// "map-value" lines as compared), unmodelled lines of the webvpn block.
func (g *GenStore) frame(s *State, sc Scope) []string {
	return s.VPNFrameOf(sc).lines(s)
}

// VPNFrame fixes, on the initial device state, which VPN objects are
// outside Netspoc's scope; Text then renders exactly those objects of a
// later state (an object that only becomes unreferenced during the script
// does not join the set).
type VPNFrame struct {
	sc    Scope
	keys  []string
	reach map[string]bool
}

func (s *State) VPNFrameOf(sc Scope) *VPNFrame {
	f := &VPNFrame{sc: sc}
	g := s.Gen
	if g.empty() {
		return f
	}
	f.reach = g.reach(s, sc)
	prot := g.protectedSet(s, sc, f.reach)
	f.keys = sortedKeys(prot)
	return f
}

func (f *VPNFrame) lines(s *State) []string {
	g := s.Gen
	var out []string
	for _, intf := range sortedKeys(g.CryptoIf) {
		if !f.sc.Intfs[intf] {
			out = append(out, "crypto map "+g.CryptoIf[intf]+" interface "+intf)
		}
	}
	for _, key := range f.keys {
		kind, name, _ := strings.Cut(key, ":")
		if kind == kACL {
			continue // ACLs are protected through State.Protected
		}
		// "map-value" lines of an attribute map are documented as compared
		// (they name group-policies); the rest of the map is never changed.
		out = append(out, key+" = "+g.objText(kind, name, kind == kLDAP))
	}
	for _, l := range g.WebvpnOther {
		out = append(out, "webvpn: "+l)
	}
	return out
}

// Text renders the frame objects as they are in state s.
func (f *VPNFrame) Text(s *State) string { return strings.Join(f.lines(s), "\n") }

// SharedChanged reports whether every frame object whose text differs
// between states a and b is also reachable from a managed anchor of the
// initial state (shared between managed and unmanaged content), and names
// the changed objects.
func (f *VPNFrame) SharedChanged(a, b *State) (bool, []string) {
	var changed []string
	all := true
	for _, key := range f.keys {
		kind, name, _ := strings.Cut(key, ":")
		if kind == kACL {
			continue
		}
		if a.Gen.objText(kind, name, kind == kLDAP) != b.Gen.objText(kind, name, kind == kLDAP) {
			changed = append(changed, key)
			all = all && f.reach[key]
		}
	}
	return all && len(changed) > 0, changed
}

// Keys lists the objects of the frame as "kind:name".
func (f *VPNFrame) Keys() []string { return f.keys }

// HasObj reports whether the state defines the object "kind:name".
func HasObj(s *State, key string) bool {
	kind, name, _ := strings.Cut(key, ":")
	return s.Gen.get(kind, name) != nil
}

// Empty reports whether no VPN object is outside Netspoc's scope.
func (f *VPNFrame) Empty() bool { return len(f.keys) == 0 }

// protectedACLs are the ACLs that VPN objects outside Netspoc's scope use.
func (g *GenStore) protectedACLs(s *State, sc Scope) []string {
	if g.empty() {
		return nil
	}
	var res []string
	for key := range g.protectedSet(s, sc, g.reach(s, sc)) {
		if n, ok := strings.CutPrefix(key, kACL+":"); ok {
			res = append(res, n)
		}
	}
	sort.Strings(res)
	return res
}

// protectedSet: objects not reachable from a managed anchor and without
// generated-name tag, crypto maps of unmanaged interfaces, the objects the
// tool never transfers, and everything those reference.
func (g *GenStore) protectedSet(s *State, sc Scope, reach map[string]bool) map[string]bool {
	prot := map[string]bool{}
	var visit func(key string)
	visit = func(key string) {
		if prot[key] {
			return
		}
		prot[key] = true
		kind, name, _ := strings.Cut(key, ":")
		if kind == kACL {
			return
		}
		if kind == kLDAP {
			// The only references of an attribute map are its "map-value"
			// lines, which are managed content.
			return
		}
		if o := g.get(kind, name); o != nil {
			for _, r := range g.refsOfObj(kind, o) {
				visit(r)
			}
		}
	}
	for _, k := range schema {
		for _, n := range g.names(k.id) {
			key := k.id + ":" + n
			if k.removal == "never" || (!reach[key] && !strings.Contains(n, "-DRC-")) {
				visit(key)
			}
		}
	}
	for _, intf := range sortedKeys(g.CryptoIf) {
		if !sc.Intfs[intf] {
			visit(kCMap + ":" + g.CryptoIf[intf])
		}
	}
	return prot
}

// PeerSeqs maps the peer (or "dynamic NAME") of every crypto map entry to
// its sequence number (for classifying cases).
func PeerSeqs(s *State) map[string]string {
	res := map[string]string{}
	for _, n := range s.Gen.names(kCMap) {
		o := s.Gen.Objs[kCMap][n]
		for _, seq := range o.seqs() {
			for _, l := range o.Modes[seq].Lines {
				if strings.HasPrefix(l, "set peer ") || strings.HasPrefix(l, "ipsec-isakmp dynamic ") {
					res[l] = seq
				}
			}
		}
	}
	return res
}

// HasVPN reports whether the state has any schema-driven object.
func HasVPN(s *State) bool { return !s.Gen.empty() }

// ScopeConflict names a device object with a fixed name that an anchor
// outside Netspoc's scope uses and that the target also wants to define:
//   - a crypto map bound at an interface the target does not know which is
//     also bound at a managed interface or has the name of a target crypto map;
//   - a dynamic map which the target defines and which on the device is
//     referenced from a crypto map that is not bound at any managed
//     interface (bound elsewhere, or not bound at all and without
//     generated name: "objects that end up unreferenced are removed only if
//     ... unless an untouched object still references them").
//
// The frame condition (C07) forbids changing such an object, so convergence
// cannot be demanded; these pairs are outside the quantifier of C01/C10.
// Returns "" if there is no conflict.
func ScopeConflict(a, b *State) string {
	sc := ScopeOf(b)
	managed := map[string]bool{}
	for intf, m := range a.Gen.CryptoIf {
		if sc.Intfs[intf] {
			managed[m] = true
		}
	}
	for _, intf := range sortedKeys(a.Gen.CryptoIf) {
		if sc.Intfs[intf] {
			continue
		}
		m := a.Gen.CryptoIf[intf]
		if managed[m] {
			return "crypto map " + m + " bound at managed and unmanaged interface"
		}
		if b.Gen.get(kCMap, m) != nil {
			return "crypto map " + m + " of an unmanaged interface is defined by the target"
		}
	}
	for _, m := range a.Gen.names(kCMap) {
		if managed[m] {
			continue
		}
		for _, r := range a.Gen.refsOfObj(kCMap, a.Gen.Objs[kCMap][m]) {
			if n, ok := strings.CutPrefix(r, kDyn+":"); ok && b.Gen.get(kDyn, n) != nil {
				return "dynamic map " + n + " of unmanaged crypto map " + m + " is defined by the target"
			}
		}
	}
	return ""
}

// MapEntries lists the tunnel-group-map ("tgm") and certificate-group-map
// ("cgm") entries of a state by list and subject key: list -> key ->
// "MAP SEQ TUNNEL-GROUP" (for classifying and signing cases).
func MapEntries(s *State) map[string]map[string]string {
	res := map[string]map[string]string{"tgm": {}, "cgm": {}}
	for _, e := range s.Gen.TGMap {
		res["tgm"][s.Gen.certKey(e)] = e.words()
	}
	for _, e := range s.Gen.CGMap {
		res["cgm"][s.Gen.certKey(e)] = e.words()
	}
	return res
}

// AttrOf identifies the attribute a crypto map / dynamic-map line sets:
// "PREFIX NAME SEQ KEY" and its value ("" if the line is of another kind).
func AttrOf(cmd string) (attr, value string) {
	f := strings.Fields(cmd)
	if len(f) > 0 && f[0] == "no" {
		f = f[1:]
	}
	k, rest := matchKind(f)
	if k == nil || k.shape != shapeLines || len(rest) < 3 || !isNum(rest[1]) {
		return "", ""
	}
	line, _ := normLine(k.id, strings.Join(rest[2:], " "))
	w := strings.Fields(line)
	a := k.modes[0].find(w)
	if a == nil {
		return "", ""
	}
	return k.label + " " + rest[0] + " " + rest[1] + " " + a.key, strings.Join(w[len(strings.Fields(a.key)):], " ")
}

// HasWebvpn reports whether the state has a global webvpn block.
func HasWebvpn(s *State) bool { return s.Gen.Webvpn }

// DuplicatePeer names a peer that two entries of one crypto map have.
func DuplicatePeer(s *State) string {
	for _, n := range s.Gen.names(kCMap) {
		seen := map[string]bool{}
		o := s.Gen.Objs[kCMap][n]
		for _, seq := range o.seqs() {
			for _, l := range o.Modes[seq].Lines {
				if strings.HasPrefix(l, "set peer ") || strings.HasPrefix(l, "ipsec-isakmp dynamic ") {
					if seen[l] {
						return l
					}
					seen[l] = true
				}
			}
		}
	}
	return ""
}
