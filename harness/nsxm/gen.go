package nsxm

import (
	"fmt"
	"sort"
	"strings"

	"pgregory.net/rapid"
)

// -------------------------------------------------------------- generator

type GenOpts struct {
	Ties     bool // force several identical, unused groups onto the device
	MaxRules int  // per policy (default 4)
}

type Pair struct {
	A, B    *Store
	Mode    string
	Ops     []string
	Sp      Spelling
	V6Part  bool // print the IPV6 rules of B as a separate ipv6 part
	RawPart bool // print rules "raw*" and groups "Netspoc-x*" of B as a raw part
	Ties    int  // number of identical candidate groups forced onto the device
}

var (
	addrs4 = []string{"10.1.1.10", "10.1.1.20", "10.1.1.30", "10.1.2.30", "10.1.2.40", "10.1.3.0/24", "10.2.0.0/16"}
	addrs6 = []string{"::a01:10a", "::a01:114", "::a01:11e", "::a01:200/120", "::a02:0/112"}
	// external (not Netspoc-owned) objects; present on every manager
	extGroups   = []string{GroupPrefix + "ext-g1", GroupPrefix + "raw-g2"}
	extServices = []string{ServicePrefix + "HTTP"}
	policyIDs   = []string{"Netspoc-v1", "Netspoc-v2", "Netspoc-v3"}
	scopes      = map[string]string{
		"Netspoc-v1": "/infra/tier-0s/v1", "Netspoc-v2": "/infra/tier-1s/v2",
		"Netspoc-v3": "/infra/tier-0s/v3", "Netspoc-v9": "/infra/tier-1s/v9"}
	// ids the Netspoc side uses
	ruleIDsB  = []string{"r1", "r2", "r3", "r4", "r5", "r6", "r7", "r8", "raw", "raw-1"}
	groupIDsB = []string{"Netspoc-g0", "Netspoc-g1", "Netspoc-g2", "Netspoc-g3", "Netspoc-g4", "Netspoc-g5", "Netspoc-x", "Netspoc-x-1"}
	// ids a device may additionally carry after earlier approves
	ruleIDsA  = []string{"r1", "r2", "r3", "r4", "r5", "r6", "r7", "r8", "r9", "r1-1", "r2-1", "r1-2", "raw", "raw-1"}
	groupIDsA = []string{"Netspoc-g0", "Netspoc-g1", "Netspoc-g2", "Netspoc-g3", "Netspoc-g4", "Netspoc-g5", "Netspoc-g6", "Netspoc-g7",
		"Netspoc-g0-1", "Netspoc-g1-1", "Netspoc-g0-2", "Netspoc-x", "Netspoc-x-1"}
	serviceIDs = []string{"Netspoc-tcp_80", "Netspoc-tcp_90", "Netspoc-udp_123", "Netspoc-icmp_8", "Netspoc-proto_52"}
)

func ip(n int) *int { return &n }

// serviceDef gives the definition Netspoc writes for a service id (variant
// 0) and definitions an older or hand-changed manager may hold under the
// same id (variants 1..3).
func serviceDef(id string, variant int) *Service {
	var e *Entry
	switch id {
	case "Netspoc-tcp_80":
		e = &Entry{ID: "id", Type: "L4PortSetServiceEntry", L4Proto: "TCP", SrcPorts: []string{}, DstPorts: []string{"80"}}
	case "Netspoc-tcp_90":
		e = &Entry{ID: "id", Type: "L4PortSetServiceEntry", L4Proto: "TCP", SrcPorts: []string{}, DstPorts: []string{"90"}}
	case "Netspoc-udp_123":
		e = &Entry{ID: "id", Type: "L4PortSetServiceEntry", L4Proto: "UDP", SrcPorts: []string{"123"}, DstPorts: []string{"123"}}
	case "Netspoc-icmp_8":
		e = &Entry{ID: "id", Type: "ICMPTypeServiceEntry", ICMPProto: "ICMPv4", ICMPType: ip(8)}
	default:
		e = &Entry{ID: "id", Type: "IPProtocolServiceEntry", ProtoNum: 52}
	}
	switch variant {
	case 1: // other spelling of the same definition
		if e.Type == "L4PortSetServiceEntry" && len(e.SrcPorts) == 0 {
			e.SrcPorts = nil
		} else {
			e.ID = "e1"
		}
	case 2: // other definition
		switch e.Type {
		case "L4PortSetServiceEntry":
			e.DstPorts = []string{"8080"}
		case "ICMPTypeServiceEntry":
			e.ICMPCode = ip(0)
		default:
			e.ProtoNum = 54
		}
	case 3: // other entry id
		e.ID = "e1"
	}
	return &Service{ID: id, Entries: []*Entry{e}}
}

type gen struct {
	t *rapid.T
	n int
}

func (g *gen) label(s string) string {
	g.n++
	return fmt.Sprintf("%s#%d", s, g.n)
}
func (g *gen) intn(lo, hi int, l string) int { return rapid.IntRange(lo, hi).Draw(g.t, g.label(l)) }
func (g *gen) chance(n int, l string) bool   { return g.intn(0, n-1, l) == 0 }
func (g *gen) pick(l []string, lab string) string {
	return l[g.intn(0, len(l)-1, lab)]
}

func isV6Group(id string) bool { return strings.Contains(id, "v6") }

func (g *gen) subset(univ []string, min, max int, l string) []string {
	if max > len(univ) {
		max = len(univ)
	}
	n := g.intn(min, max, l+"N")
	perm := append([]string{}, univ...)
	var res []string
	for i := 0; i < n; i++ {
		j := g.intn(0, len(perm)-1, l)
		res = append(res, perm[j])
		perm = append(perm[:j], perm[j+1:]...)
	}
	return res
}

func freeID(cands []string, used func(string) bool, g *gen, l string) string {
	var free []string
	for _, c := range cands {
		if !used(c) {
			free = append(free, c)
		}
	}
	if len(free) == 0 {
		return ""
	}
	// mostly the first free id (as a numbering compiler would), sometimes any
	if len(free) == 1 || !g.chance(3, l+"any") {
		return free[0]
	}
	return g.pick(free, l)
}

func (s *Store) groupIDs(v6 bool) []string {
	var l []string
	for _, id := range sortedKeys(s.Groups) {
		if isV6Group(id) == v6 {
			l = append(l, id)
		}
	}
	return l
}

// newGroup adds a group with drawn content; "" if no id is free.
func (g *gen) newGroup(s *Store, cands []string, v6 bool, l string) string {
	if v6 {
		var c6 []string
		for _, c := range cands {
			c6 = append(c6, strings.Replace(c, "Netspoc-", "Netspoc-v6", 1))
		}
		cands = c6
	}
	id := freeID(cands, func(x string) bool { return s.Groups[x] != nil }, g, l+"id")
	if id == "" {
		return ""
	}
	univ := addrs4
	if v6 {
		univ = addrs6
	}
	max := 3
	if g.chance(4, l+"big") {
		max = 6
	}
	s.Groups[id] = &Group{ID: id, ExprID: "id", Addrs: g.subset(univ, 1, max, l+"addr")}
	return id
}

// element draws a source or destination.
func (g *gen) element(s *Store, groupCands []string, v6 bool, l string) string {
	univ := addrs4
	if v6 {
		univ = addrs6
	}
	switch k := g.intn(0, 19, l+"kind"); {
	case k < 8:
		ids := s.groupIDs(v6)
		if len(ids) > 0 && (len(ids) >= 4 || g.chance(2, l+"reuse")) {
			return GroupPrefix + g.pick(ids, l+"grp")
		}
		if id := g.newGroup(s, groupCands, v6, l+"new"); id != "" {
			return GroupPrefix + id
		}
		return "ANY"
	case k < 14:
		return g.pick(univ, l+"lit")
	case k < 19:
		return "ANY"
	}
	return g.pick(extGroups, l+"ext")
}

func (g *gen) service(s *Store, l string) string {
	switch k := g.intn(0, 19, l+"kind"); {
	case k < 6:
		return "ANY"
	case k < 19:
		id := g.pick(serviceIDs, l+"svc")
		if s.Services[id] == nil {
			s.Services[id] = serviceDef(id, 0)
		}
		return ServicePrefix + id
	}
	return g.pick(extServices, l+"ext")
}

func (g *gen) rule(s *Store, pol string, groupCands []string, v6 bool, l string) *Rule {
	r := &Rule{Scope: []string{scopes[pol]}}
	r.Action = []string{"ALLOW", "ALLOW", "ALLOW", "DROP", "DROP", "REJECT"}[g.intn(0, 5, l+"act")]
	r.Seq = []int{20, 20, 20, 10, 30}[g.intn(0, 4, l+"seq")]
	r.Direction = []string{"OUT", "OUT", "OUT", "IN", "IN", "IN_OUT"}[g.intn(0, 5, l+"dir")]
	r.Logged = g.chance(6, l+"log")
	if g.chance(6, l+"tag") {
		r.Tag = "t1"
	}
	r.Disabled = g.chance(12, l+"dis")
	r.SrcExcl = g.chance(16, l+"sx")
	r.DstExcl = g.chance(16, l+"dx")
	r.IPProto = "IPV4"
	if v6 {
		r.IPProto = "IPV6"
	} else if g.chance(12, l+"ipp") {
		r.IPProto = "IPV4_IPV6"
	}
	r.Src = g.element(s, groupCands, v6, l+"src")
	r.Dst = g.element(s, groupCands, v6, l+"dst")
	r.Service = g.service(s, l+"srv")
	return r
}

func (p *Policy) usedID(id string) bool { return p.Rule(id) != nil }

func (g *gen) target(o GenOpts, l string, ruleCands, groupCands []string, v6 bool) *Store {
	s := NewStore()
	if o.MaxRules == 0 {
		o.MaxRules = 4
	}
	np := []int{1, 1, 1, 2, 2, 3}[g.intn(0, 5, l+"nPol")]
	for i := 0; i < np; i++ {
		p := &Policy{ID: policyIDs[i]}
		s.Policies = append(s.Policies, p)
		n := g.intn(1, o.MaxRules, l+"nRules")
		for k := 0; k < n; k++ {
			r := g.rule(s, p.ID, groupCands, false, l+"rule")
			r.ID = freeID(ruleCands, p.usedID, g, l+"rid")
			if r.ID == "" {
				break
			}
			p.Rules = append(p.Rules, r)
		}
		if g.chance(4, l+"twin") {
			g.twin(s, p, ruleCands, groupCands, l+"twin")
		}
		if v6 {
			n6 := g.intn(0, 2, l+"nRules6")
			for k := 0; k < n6; k++ {
				r := g.rule(s, p.ID, groupCands, true, l+"rule6")
				r.ID = fmt.Sprintf("v6r%d", k+1)
				p.Rules = append(p.Rules, r)
			}
		}
	}
	if g.chance(10, l+"unusedSvc") {
		id := g.pick(serviceIDs, l+"us")
		if s.Services[id] == nil {
			s.Services[id] = serviceDef(id, 0)
		}
	}
	return s
}

// opTable weights the edit operators (rapid favours small indices, so the
// operators that reach the deeper paths of the diff come first).
var opTable = []string{
	"groupFew", "groupMany", "ruleAdd", "groupShare", "groupSplit", "ruleAttr", "groupRename",
	"ruleDel", "svcVariant", "groupDup", "ruleElement", "ruleRename", "groupFew", "groupMany",
	"ruleAdd", "ruleAttr", "ruleDel", "groupExtra", "svcExtra", "policyMissing", "policyExtra", "exprID", "ruleSuffixClash",
}

// twin adds a rule that differs from an existing rule of the policy only
// in one group, and that group shares its smallest address with the
// original's group (rules that an order by "first address" cannot tell apart).
func (g *gen) twin(s *Store, p *Policy, ruleCands, groupCands []string, l string) {
	var cands []slot
	for _, r := range p.Rules {
		for _, d := range []bool{false, true} {
			sl := slot{r, d}
			if id := GroupRef(sl.get()); id != "" && s.Groups[id] != nil && !isV6Group(id) {
				cands = append(cands, sl)
			}
		}
	}
	if len(cands) == 0 {
		return
	}
	sl := cands[g.intn(0, len(cands)-1, l+"slot")]
	old := s.Groups[GroupRef(sl.get())]
	sorted := append([]string{}, old.Addrs...)
	sort.Strings(sorted)
	var rest []string
	for _, a := range addrs4 {
		if a > sorted[0] {
			rest = append(rest, a)
		}
	}
	if len(rest) == 0 {
		return
	}
	addrs := append([]string{sorted[0]}, g.subset(rest, 1, 2, l+"addr")...)
	if sameSet(addrs, old.Addrs) {
		return
	}
	gid := freeID(groupCands, func(x string) bool { return s.Groups[x] != nil }, g, l+"gid")
	rid := freeID(ruleCands, p.usedID, g, l+"rid")
	if gid == "" || rid == "" {
		return
	}
	s.Groups[gid] = &Group{ID: gid, ExprID: "id", Addrs: addrs}
	r2 := sl.r.Clone()
	r2.ID = rid
	slot{r2, sl.dst}.set(GroupPrefix + gid)
	i := g.intn(0, len(p.Rules), l+"pos")
	p.Rules = append(p.Rules[:i:i], append([]*Rule{r2}, p.Rules[i:]...)...)
}

type slot struct {
	r   *Rule
	dst bool
}

func (sl slot) get() string {
	if sl.dst {
		return sl.r.Dst
	}
	return sl.r.Src
}
func (sl slot) set(v string) {
	if sl.dst {
		sl.r.Dst = v
	} else {
		sl.r.Src = v
	}
}

func (s *Store) allRules() []*Rule {
	var l []*Rule
	for _, p := range s.Policies {
		l = append(l, p.Rules...)
	}
	return l
}

// groupSlots lists rule positions that name a group defined in the store.
func (s *Store) groupSlots() []slot {
	var l []slot
	for _, r := range s.allRules() {
		for _, d := range []bool{false, true} {
			sl := slot{r, d}
			if id := GroupRef(sl.get()); id != "" && s.Groups[id] != nil {
				l = append(l, sl)
			}
		}
	}
	return l
}

func (s *Store) renameGroup(old, new string) {
	g := s.Groups[old]
	if g == nil || old == new || s.Groups[new] != nil {
		return
	}
	delete(s.Groups, old)
	g.ID = new
	s.Groups[new] = g
	for _, r := range s.allRules() {
		if r.Src == GroupPrefix+old {
			r.Src = GroupPrefix + new
		}
		if r.Dst == GroupPrefix+old {
			r.Dst = GroupPrefix + new
		}
	}
}

func (s *Store) swapGroupIDs(a, b string) {
	if a == b || s.Groups[a] == nil || s.Groups[b] == nil {
		return
	}
	tmp := "Netspoc-tmp-swap"
	s.renameGroup(a, tmp)
	s.renameGroup(b, a)
	s.renameGroup(tmp, b)
}

func addrUniverse(id string) []string {
	if isV6Group(id) {
		return addrs6
	}
	return addrs4
}

func groupCandsFor(id string, cands []string) []string {
	if !isV6Group(id) {
		return cands
	}
	var l []string
	for _, c := range cands {
		l = append(l, strings.Replace(c, "Netspoc-", "Netspoc-v6", 1))
	}
	return l
}

// mutate applies one drawn edit operator to the device side.
func (g *gen) mutate(a *Store, l string) string {
	rules := a.allRules()
	gids := sortedKeys(a.Groups)
	pickRule := func() *Rule {
		if len(rules) == 0 {
			return nil
		}
		return rules[g.intn(0, len(rules)-1, l+"rule")]
	}
	pickPolicy := func() *Policy {
		if len(a.Policies) == 0 {
			return nil
		}
		return a.Policies[g.intn(0, len(a.Policies)-1, l+"pol")]
	}
	freeGroup := func(like string) string {
		return freeID(groupCandsFor(like, groupIDsA), func(x string) bool { return a.Groups[x] != nil }, g, l+"gid")
	}
	switch op := opTable[g.intn(0, len(opTable)-1, l+"op")]; op {
	case "ruleDel": // delete a rule
		p := pickPolicy()
		if p == nil || len(p.Rules) == 0 {
			return "noop"
		}
		i := g.intn(0, len(p.Rules)-1, l+"i")
		p.Rules = append(p.Rules[:i:i], p.Rules[i+1:]...)
		return "ruleDel"
	case "ruleAdd": // add a rule
		p := pickPolicy()
		if p == nil {
			return "noop"
		}
		r := g.rule(a, p.ID, groupIDsA, false, l+"new")
		if g.chance(2, l+"like") && len(p.Rules) > 0 {
			// same sort key as an existing rule: shares its sequence number etc.
			like := p.Rules[g.intn(0, len(p.Rules)-1, l+"likeI")]
			r.Action, r.Seq, r.Direction, r.Logged, r.Tag, r.Disabled, r.SrcExcl, r.DstExcl, r.IPProto, r.Service =
				like.Action, like.Seq, like.Direction, like.Logged, like.Tag, like.Disabled, like.SrcExcl, like.DstExcl, like.IPProto, like.Service
		}
		r.ID = freeID(ruleIDsA, p.usedID, g, l+"rid")
		if r.ID == "" {
			return "noop"
		}
		i := g.intn(0, len(p.Rules), l+"pos")
		p.Rules = append(p.Rules[:i:i], append([]*Rule{r}, p.Rules[i:]...)...)
		return "ruleAdd"
	case "ruleAttr": // change a plain attribute
		r := pickRule()
		if r == nil {
			return "noop"
		}
		switch g.intn(0, 8, l+"attr") {
		case 0:
			r.Action = map[string]string{"ALLOW": "DROP", "DROP": "ALLOW", "REJECT": "DROP"}[r.Action]
			return "ruleAction"
		case 1:
			r.Direction = map[string]string{"OUT": "IN", "IN": "OUT", "IN_OUT": "OUT"}[r.Direction]
			return "ruleDirection"
		case 2:
			r.Seq = map[int]int{10: 20, 20: 30, 30: 20}[r.Seq]
			return "ruleSeq"
		case 3:
			r.Logged = !r.Logged
			return "ruleLogged"
		case 4:
			if r.Tag == "" {
				r.Tag = "t2"
			} else {
				r.Tag = ""
			}
			return "ruleTag"
		case 5:
			r.Disabled = !r.Disabled
			return "ruleDisabled"
		case 6:
			r.Service = g.service(a, l+"srv")
			return "ruleService"
		case 7:
			r.SrcExcl = !r.SrcExcl
			return "ruleExcluded"
		default:
			if r.IPProto == "IPV4" {
				r.IPProto = "IPV4_IPV6"
				return "ruleIPProto"
			}
			return "noop"
		}
	case "ruleElement": // change source or destination
		r := pickRule()
		if r == nil {
			return "noop"
		}
		sl := slot{r, g.chance(2, l+"dst")}
		sl.set(g.element(a, groupIDsA, r.IPProto == "IPV6", l+"el"))
		return "ruleElement"
	case "groupFew": // few address changes
		if len(gids) == 0 {
			return "noop"
		}
		gr := a.Groups[g.pick(gids, l+"grp")]
		univ := addrUniverse(gr.ID)
		n := g.intn(1, 2, l+"n")
		did := "groupFew"
		for i := 0; i < n; i++ {
			x := g.pick(univ, l+"addr")
			idx := -1
			for k, y := range gr.Addrs {
				if y == x {
					idx = k
				}
			}
			if idx >= 0 {
				if len(gr.Addrs) > 1 {
					gr.Addrs = append(gr.Addrs[:idx:idx], gr.Addrs[idx+1:]...)
				}
			} else {
				gr.Addrs = append(gr.Addrs, x)
			}
		}
		return did
	case "groupMany": // many address changes (other side of the "replace whole list" heuristic)
		if len(gids) == 0 {
			return "noop"
		}
		gr := a.Groups[g.pick(gids, l+"grp")]
		univ := addrUniverse(gr.ID)
		if g.chance(2, l+"how") {
			// device list = everything: most of it has to go
			gr.Addrs = append([]string{}, univ...)
			return "groupManySuperset"
		}
		// device list disjoint from (or barely overlapping with) the old one
		var rest []string
		for _, x := range univ {
			found := false
			for _, y := range gr.Addrs {
				found = found || x == y
			}
			if !found {
				rest = append(rest, x)
			}
		}
		if len(rest) == 0 {
			return "noop"
		}
		keep := gr.Addrs[:g.intn(0, 1, l+"keep")]
		gr.Addrs = append(append([]string{}, keep...), g.subset(rest, 1, len(rest), l+"sub")...)
		return "groupManyDisjoint"
	case "groupShare": // two positions that used different groups share one
		sl := a.groupSlots()
		if len(sl) < 2 {
			return "noop"
		}
		x, y := sl[g.intn(0, len(sl)-1, l+"x")], sl[g.intn(0, len(sl)-1, l+"y")]
		if x.get() == y.get() || isV6Group(x.get()) != isV6Group(y.get()) {
			return "noop"
		}
		y.set(x.get())
		return "groupShare"
	case "groupSplit": // a position gets a private copy of its group
		sl := a.groupSlots()
		if len(sl) == 0 {
			return "noop"
		}
		x := sl[g.intn(0, len(sl)-1, l+"x")]
		old := a.Groups[GroupRef(x.get())]
		id := freeGroup(old.ID)
		if id == "" {
			return "noop"
		}
		c := old.Clone()
		c.ID = id
		a.Groups[id] = c
		x.set(GroupPrefix + id)
		return "groupSplit"
	case "groupDup": // an unused copy of a group under another id
		if len(gids) == 0 {
			return "noop"
		}
		old := a.Groups[g.pick(gids, l+"grp")]
		id := freeGroup(old.ID)
		if id == "" {
			return "noop"
		}
		c := old.Clone()
		c.ID = id
		a.Groups[id] = c
		return "groupDup"
	case "groupRename": // rename a group / swap the ids of two groups
		if len(gids) == 0 {
			return "noop"
		}
		x := g.pick(gids, l+"x")
		if len(gids) >= 2 && g.chance(2, l+"swap") {
			y := g.pick(gids, l+"y")
			if x == y || isV6Group(x) != isV6Group(y) {
				return "noop"
			}
			a.swapGroupIDs(x, y)
			return "groupSwapIDs"
		}
		id := freeGroup(x)
		if id == "" {
			return "noop"
		}
		a.renameGroup(x, id)
		return "groupRename"
	case "ruleSuffixClash":
		// The device holds X and X-1; X differs from the target's X, so the
		// target's rule is inserted under a new id, whose obvious choice X-1
		// is taken on the device.
		p := pickPolicy()
		if p == nil || len(p.Rules) < 2 {
			return "noop"
		}
		x := p.Rules[g.intn(0, len(p.Rules)-1, l+"x")]
		y := p.Rules[g.intn(0, len(p.Rules)-1, l+"y")]
		nid := x.ID + "-1"
		if x == y || strings.Contains(x.ID, "-") || p.usedID(nid) {
			return "noop"
		}
		y.ID = nid
		switch g.intn(0, 2, l+"how") {
		case 0:
			x.Action = map[string]string{"ALLOW": "DROP", "DROP": "ALLOW", "REJECT": "DROP"}[x.Action]
		case 1:
			x.Service = g.service(a, l+"srv")
		default:
			x.Logged = !x.Logged
		}
		return "ruleSuffixClash"
	case "ruleRename": // rename a rule / swap the ids of two rules of a policy
		p := pickPolicy()
		if p == nil || len(p.Rules) == 0 {
			return "noop"
		}
		x := p.Rules[g.intn(0, len(p.Rules)-1, l+"x")]
		if len(p.Rules) >= 2 && g.chance(2, l+"swap") {
			y := p.Rules[g.intn(0, len(p.Rules)-1, l+"y")]
			x.ID, y.ID = y.ID, x.ID
			return "ruleSwapIDs"
		}
		if id := freeID(ruleIDsA, p.usedID, g, l+"rid"); id != "" {
			x.ID = id
			return "ruleRename"
		}
		return "noop"
	case "svcVariant": // the device holds another definition under a service id
		ids := sortedKeys(a.Services)
		if len(ids) == 0 {
			return "noop"
		}
		id := g.pick(ids, l+"svc")
		v := g.intn(1, 3, l+"variant")
		a.Services[id] = serviceDef(id, v)
		return fmt.Sprintf("svcVariant%d", v)
	case "svcExtra": // unused Netspoc service
		id := g.pick(append([]string{"Netspoc-tcp_1234"}, serviceIDs...), l+"svc")
		if a.Services[id] != nil {
			return "noop"
		}
		a.Services[id] = serviceDef(id, g.intn(0, 1, l+"variant"))
		return "svcExtra"
	case "groupExtra": // unused group
		if g.newGroup(a, groupIDsA, false, l+"extra") == "" {
			return "noop"
		}
		return "groupExtra"
	case "policyMissing": // policy missing on the device
		if len(a.Policies) == 0 {
			return "noop"
		}
		i := g.intn(0, len(a.Policies)-1, l+"i")
		a.Policies = append(a.Policies[:i:i], a.Policies[i+1:]...)
		return "policyMissing"
	case "policyExtra": // additional Netspoc policy on the device
		if a.Policy("Netspoc-v9") != nil {
			return "noop"
		}
		p := &Policy{ID: "Netspoc-v9"}
		n := g.intn(1, 2, l+"n")
		for i := 0; i < n; i++ {
			r := g.rule(a, p.ID, groupIDsA, false, l+"r")
			r.ID = fmt.Sprintf("r%d", i+1)
			p.Rules = append(p.Rules, r)
		}
		a.Policies = append(a.Policies, p)
		return "policyExtra"
	default: // other expression id
		if len(gids) == 0 {
			return "noop"
		}
		a.Groups[g.pick(gids, l+"grp")].ExprID = "e-17"
		return "exprID"
	}
}

// pruneUnusedGroups removes groups no rule names (the Netspoc side never
// defines them).
func (s *Store) pruneUnusedGroups() {
	for _, id := range sortedKeys(s.Groups) {
		if len(s.ruleUsers(GroupPrefix+id, false)) == 0 {
			delete(s.Groups, id)
		}
	}
}

func sameSet(a, b []string) bool {
	if len(a) != len(b) {
		return false
	}
	x, y := append([]string{}, a...), append([]string{}, b...)
	sort.Strings(x)
	sort.Strings(y)
	for i := range x {
		if x[i] != y[i] {
			return false
		}
	}
	return true
}

// forceTies makes the tool look a target group up among several identical,
// unused device groups: every device rule naming a group with the content
// of one target group is removed, and k copies of that content are left.
func (g *gen) forceTies(a, b *Store) int {
	sl := b.groupSlots()
	if len(sl) == 0 {
		return 0
	}
	gb := b.Groups[GroupRef(sl[g.intn(0, len(sl)-1, "tieSlot")].get())]
	for _, p := range a.Policies {
		var keep []*Rule
		for _, r := range p.Rules {
			drop := false
			for _, el := range []string{r.Src, r.Dst} {
				if ga := a.Groups[GroupRef(el)]; ga != nil && sameSet(ga.Addrs, gb.Addrs) {
					drop = true
				}
			}
			if !drop {
				keep = append(keep, r)
			}
		}
		p.Rules = keep
	}
	for _, id := range sortedKeys(a.Groups) {
		if sameSet(a.Groups[id].Addrs, gb.Addrs) {
			delete(a.Groups, id)
		}
	}
	k := g.intn(2, 3, "tieN")
	n := 0
	for i := 0; i < k; i++ {
		id := freeID(groupCandsFor(gb.ID, groupIDsA), func(x string) bool { return a.Groups[x] != nil }, g, "tieID")
		if id == "" {
			break
		}
		c := gb.Clone()
		c.ID = id
		a.Groups[id] = c
		n++
	}
	if n < 2 {
		return 0
	}
	return n
}

// GenPair draws a target B and a device A. A is either derived from B by
// edit operators or drawn independently from the same tiny universe.
func GenPair(t *rapid.T, o GenOpts) *Pair {
	g := &gen{t: t}
	p := &Pair{}
	p.V6Part = g.chance(5, "v6part")
	p.B = g.target(o, "B", ruleIDsB, groupIDsB, p.V6Part)
	p.B.pruneUnusedGroups()
	p.RawPart = g.chance(3, "rawpart")
	if g.chance(6, "independent") {
		p.Mode = "independent"
		p.A = g.target(o, "A", ruleIDsA, groupIDsA, p.V6Part && g.chance(2, "Av6"))
	} else {
		p.Mode = "derived"
		p.A = p.B.Clone()
		if g.chance(3, "shiftGroups") {
			// device ids shifted by one: every id is used on both sides for different content
			ids := p.A.groupIDs(false)
			for i := len(ids) - 1; i >= 0; i-- {
				p.A.renameGroup(ids[i], "Netspoc-tmp-"+ids[i])
			}
			for i, id := range ids {
				p.A.renameGroup("Netspoc-tmp-"+id, ids[(i+1)%len(ids)])
			}
			p.Ops = append(p.Ops, "groupShiftIDs")
		}
	}
	n := g.intn(0, 6, "nOps")
	for i := 0; i < n; i++ {
		p.Ops = append(p.Ops, g.mutate(p.A, fmt.Sprintf("op%d", i)))
	}
	if o.Ties {
		p.Ties = g.forceTies(p.A, p.B)
		if p.Ties > 0 {
			p.Ops = append(p.Ops, fmt.Sprintf("ties%d", p.Ties))
		}
	}
	// a manager never holds a rule that names a missing object
	for _, pol := range p.A.Policies {
		for _, r := range pol.Rules {
			if id := ServiceRef(r.Service); id != "" && isManaged(id) && p.A.Services[id] == nil {
				p.A.Services[id] = serviceDef(id, 0)
			}
		}
	}
	if d := p.A.Dangling(); len(d) > 0 {
		panic("generator produced a device with dangling references: " + strings.Join(d, "; "))
	}
	if !g.chance(3, "plainSpelling") {
		bits := g.intn(0, 15, "spelling")
		p.Sp = Spelling{Revision: bits&1 != 0, ReadOnly: bits&2 != 0, CapitalLists: bits&4 != 0, RulesByID: bits&8 != 0}
	}
	return p
}

// TargetFiles prints the Netspoc side: one part, or an IPv4 part plus an
// IPv6 part (rules with ip_protocol IPV6, the groups and services they
// name) and/or a raw part (rules and groups with hand-chosen ids).
func (p *Pair) TargetFiles() map[string]string {
	if !p.V6Part && !p.RawPart {
		return map[string]string{"code/router": p.B.Print(Spelling{})}
	}
	v4, v6, raw := NewStore(), NewStore(), NewStore()
	for _, pol := range p.B.Policies {
		for _, r := range pol.Rules {
			dst := v4
			if p.RawPart && strings.HasPrefix(r.ID, "raw") {
				dst = raw
			} else if p.V6Part && r.IPProto == "IPV6" {
				dst = v6
			}
			dp := dst.Policy(pol.ID)
			if dp == nil {
				dp = &Policy{ID: pol.ID}
				dst.Policies = append(dst.Policies, dp)
			}
			dp.Rules = append(dp.Rules, r.Clone())
			if id := ServiceRef(r.Service); id != "" && p.B.Services[id] != nil {
				if dst == v6 {
					v6.Services[id] = p.B.Services[id].Clone()
				} else {
					v4.Services[id] = p.B.Services[id].Clone()
				}
			}
		}
	}
	for id, gr := range p.B.Groups {
		switch {
		case p.RawPart && strings.HasPrefix(id, "Netspoc-x"):
			raw.Groups[id] = gr.Clone()
		case p.V6Part && isV6Group(id):
			v6.Groups[id] = gr.Clone()
		default:
			v4.Groups[id] = gr.Clone()
		}
	}
	for id, sv := range p.B.Services {
		if v4.Services[id] == nil && v6.Services[id] == nil {
			v4.Services[id] = sv.Clone()
		}
	}
	res := map[string]string{"code/router": v4.Print(Spelling{})}
	if p.V6Part {
		res["code/ipv6/router"] = v6.Print(Spelling{})
	}
	if p.RawPart {
		res["code/router.raw"] = raw.Print(Spelling{})
	}
	return res
}
