// Package nsxm is an independent, strict, executable model of the part of
// an NSX-T manager's policy store that Netspoc-Approve manages: gateway
// policies with rules, groups with one IP address expression, services
// with entries. It executes the REST calls the tool prints (PUT, PATCH,
// POST, DELETE), refuses what DESIGN Appendix B lists as refused, and
// prints the store back as the JSON the tool reads as "device".
package nsxm

import (
	"bytes"
	"encoding/json"
	"fmt"
	"sort"
	"strconv"
	"strings"
)

type ErrUnsupported struct{ What string }

func (e *ErrUnsupported) Error() string { return "unsupported by model: " + e.What }
func unsupported(format string, a ...any) error {
	return &ErrUnsupported{fmt.Sprintf(format, a...)}
}

type Refusal struct{ Rule, Msg string }

func (e *Refusal) Error() string { return "refused[" + e.Rule + "]: " + e.Msg }
func refuse(rule, format string, a ...any) error {
	return &Refusal{rule, fmt.Sprintf(format, a...)}
}

const (
	GroupPrefix   = "/infra/domains/default/groups/"
	ServicePrefix = "/infra/services/"
	apiPrefix     = "/policy/api/v1"
	Managed       = "Netspoc"
)

type Rule struct {
	ID        string
	Action    string
	Seq       int
	SrcExcl   bool
	DstExcl   bool
	Src       string
	Dst       string
	Service   string
	Scope     []string
	Disabled  bool
	Logged    bool
	Tag       string
	Direction string
	IPProto   string
	Profiles  []string
}

type Policy struct {
	ID    string
	Rules []*Rule // listing order of the manager
}

type Group struct {
	ID     string
	ExprID string
	Addrs  []string // a set; kept in arrival order
}

type Entry struct {
	ID        string
	Type      string // L4PortSetServiceEntry, ICMPTypeServiceEntry, IPProtocolServiceEntry
	L4Proto   string
	SrcPorts  []string // nil prints as null
	DstPorts  []string
	ICMPProto string
	ICMPType  *int
	ICMPCode  *int
	ProtoNum  int
}

type Service struct {
	ID      string
	Entries []*Entry
}

type Store struct {
	Policies []*Policy // listing order
	Groups   map[string]*Group
	Services map[string]*Service
}

func NewStore() *Store {
	return &Store{Groups: map[string]*Group{}, Services: map[string]*Service{}}
}

func cloneStrings(l []string) []string {
	if l == nil {
		return nil
	}
	return append([]string{}, l...)
}

func cloneInt(p *int) *int {
	if p == nil {
		return nil
	}
	v := *p
	return &v
}

func (r *Rule) Clone() *Rule {
	c := *r
	c.Scope = cloneStrings(r.Scope)
	c.Profiles = cloneStrings(r.Profiles)
	return &c
}

func (g *Group) Clone() *Group {
	return &Group{ID: g.ID, ExprID: g.ExprID, Addrs: cloneStrings(g.Addrs)}
}

func (e *Entry) Clone() *Entry {
	c := *e
	c.SrcPorts = cloneStrings(e.SrcPorts)
	c.DstPorts = cloneStrings(e.DstPorts)
	c.ICMPType = cloneInt(e.ICMPType)
	c.ICMPCode = cloneInt(e.ICMPCode)
	return &c
}

func (sv *Service) Clone() *Service {
	c := &Service{ID: sv.ID}
	for _, e := range sv.Entries {
		c.Entries = append(c.Entries, e.Clone())
	}
	return c
}

func (s *Store) Clone() *Store {
	c := NewStore()
	for _, p := range s.Policies {
		np := &Policy{ID: p.ID}
		for _, r := range p.Rules {
			np.Rules = append(np.Rules, r.Clone())
		}
		c.Policies = append(c.Policies, np)
	}
	for k, g := range s.Groups {
		c.Groups[k] = g.Clone()
	}
	for k, sv := range s.Services {
		c.Services[k] = sv.Clone()
	}
	return c
}

func sortedKeys[V any](m map[string]V) []string {
	l := make([]string, 0, len(m))
	for k := range m {
		l = append(l, k)
	}
	sort.Strings(l)
	return l
}

func (s *Store) Policy(id string) *Policy {
	for _, p := range s.Policies {
		if p.ID == id {
			return p
		}
	}
	return nil
}

func (p *Policy) Rule(id string) *Rule {
	for _, r := range p.Rules {
		if r.ID == id {
			return r
		}
	}
	return nil
}

// GroupRef returns the id of the group a source/destination element names,
// "" if the element is not a group path.
func GroupRef(el string) string {
	if id, ok := strings.CutPrefix(el, GroupPrefix); ok {
		return id
	}
	return ""
}

func ServiceRef(el string) string {
	if id, ok := strings.CutPrefix(el, ServicePrefix); ok {
		return id
	}
	return ""
}

func isManaged(id string) bool { return strings.HasPrefix(id, Managed) }

// ----------------------------------------------------------------- parse

// Attributes a manager adds to every object when it is read back; they
// carry no configuration and are ignored by the model.
var readOnlyAttr = map[string]bool{
	"resource_type": true, "display_name": true, "path": true, "relative_path": true,
	"parent_path": true, "unique_id": true, "marked_for_delete": true, "overridden": true,
	"_create_time": true, "_create_user": true, "_last_modified_time": true,
	"_last_modified_user": true, "_system_owned": true, "_protection": true,
	"_revision": true, "realization_id": true, "rule_id": true, "is_default": true,
}

type obj map[string]json.RawMessage

func decodeObj(raw json.RawMessage, what string) (obj, error) {
	var o obj
	dec := json.NewDecoder(bytes.NewReader(raw))
	if err := dec.Decode(&o); err != nil {
		return nil, unsupported("%s: %v", what, err)
	}
	if o == nil {
		return nil, unsupported("%s: not an object", what)
	}
	return o, nil
}

func (o obj) str(k string) (string, bool, error) {
	raw, ok := o[k]
	if !ok {
		return "", false, nil
	}
	var s string
	if err := json.Unmarshal(raw, &s); err != nil {
		return "", true, unsupported("attribute %s: %v", k, err)
	}
	return s, true, nil
}

func (o obj) boolean(k string) (bool, bool, error) {
	raw, ok := o[k]
	if !ok {
		return false, false, nil
	}
	var b bool
	if err := json.Unmarshal(raw, &b); err != nil {
		return false, true, unsupported("attribute %s: %v", k, err)
	}
	return b, true, nil
}

func (o obj) integer(k string) (int, bool, error) {
	raw, ok := o[k]
	if !ok {
		return 0, false, nil
	}
	var n int
	if err := json.Unmarshal(raw, &n); err != nil {
		return 0, true, unsupported("attribute %s: %v", k, err)
	}
	return n, true, nil
}

func (o obj) strings(k string) ([]string, bool, error) {
	raw, ok := o[k]
	if !ok {
		return nil, false, nil
	}
	var l []string
	if err := json.Unmarshal(raw, &l); err != nil {
		return nil, true, unsupported("attribute %s: %v", k, err)
	}
	return l, true, nil
}

func (o obj) list(k string) ([]json.RawMessage, bool, error) {
	raw, ok := o[k]
	if !ok {
		return nil, false, nil
	}
	var l []json.RawMessage
	if err := json.Unmarshal(raw, &l); err != nil {
		return nil, true, unsupported("attribute %s: %v", k, err)
	}
	return l, true, nil
}

func one(l []string, what string) (string, error) {
	if len(l) != 1 {
		return "", unsupported("%s with %d elements", what, len(l))
	}
	return l[0], nil
}

// mergeRule sets the attributes present in o on r (PATCH semantics; on a
// fresh Rule this is also the reading of a complete rule).
func mergeRule(r *Rule, o obj) error {
	for _, k := range sortedKeys(o) {
		var err error
		switch k {
		case "id":
			var id string
			if id, _, err = o.str(k); err == nil && id != "" {
				r.ID = id
			}
		case "action":
			r.Action, _, err = o.str(k)
		case "sequence_number":
			r.Seq, _, err = o.integer(k)
		case "sources_excluded":
			r.SrcExcl, _, err = o.boolean(k)
		case "destinations_excluded":
			r.DstExcl, _, err = o.boolean(k)
		case "source_groups":
			var l []string
			if l, _, err = o.strings(k); err == nil {
				r.Src, err = one(l, k)
			}
		case "destination_groups":
			var l []string
			if l, _, err = o.strings(k); err == nil {
				r.Dst, err = one(l, k)
			}
		case "services":
			var l []string
			if l, _, err = o.strings(k); err == nil {
				r.Service, err = one(l, k)
			}
		case "service_entries":
			var l []json.RawMessage
			if l, _, err = o.list(k); err == nil && len(l) != 0 {
				err = unsupported("rule with inline service_entries")
			}
		case "profiles":
			r.Profiles, _, err = o.strings(k)
		case "scope":
			r.Scope, _, err = o.strings(k)
		case "disabled":
			r.Disabled, _, err = o.boolean(k)
		case "logged":
			r.Logged, _, err = o.boolean(k)
		case "tag":
			r.Tag, _, err = o.str(k)
		case "direction":
			r.Direction, _, err = o.str(k)
		case "ip_protocol":
			r.IPProto, _, err = o.str(k)
		default:
			if !readOnlyAttr[k] {
				err = unsupported("rule attribute %q", k)
			}
		}
		if err != nil {
			return err
		}
	}
	return nil
}

func parseRule(raw json.RawMessage) (*Rule, error) {
	o, err := decodeObj(raw, "rule")
	if err != nil {
		return nil, err
	}
	r := &Rule{}
	if err := mergeRule(r, o); err != nil {
		return nil, err
	}
	for _, k := range []string{"source_groups", "destination_groups", "services"} {
		if _, ok := o[k]; !ok {
			return nil, unsupported("rule %s without %s", r.ID, k)
		}
	}
	return r, nil
}

func parsePolicyBody(o obj) (*Policy, error) {
	p := &Policy{}
	for _, k := range sortedKeys(o) {
		switch k {
		case "id":
			p.ID, _, _ = o.str(k)
		case "rules":
			l, _, err := o.list(k)
			if err != nil {
				return nil, err
			}
			seen := map[string]bool{}
			for _, raw := range l {
				r, err := parseRule(raw)
				if err != nil {
					return nil, err
				}
				if seen[r.ID] {
					return nil, unsupported("policy %s lists rule id %q twice", p.ID, r.ID)
				}
				seen[r.ID] = true
				p.Rules = append(p.Rules, r)
			}
		default:
			if !readOnlyAttr[k] {
				return nil, unsupported("policy attribute %q", k)
			}
		}
	}
	return p, nil
}

func parseGroupBody(o obj) (*Group, error) {
	g := &Group{}
	hasExpr := false
	for _, k := range sortedKeys(o) {
		switch k {
		case "id":
			g.ID, _, _ = o.str(k)
		case "expression":
			l, _, err := o.list(k)
			if err != nil {
				return nil, err
			}
			if len(l) != 1 {
				return nil, unsupported("group with %d expressions", len(l))
			}
			e, err := decodeObj(l[0], "expression")
			if err != nil {
				return nil, err
			}
			hasExpr = true
			for _, ek := range sortedKeys(e) {
				switch ek {
				case "id":
					g.ExprID, _, _ = e.str(ek)
				case "resource_type":
					rt, _, _ := e.str(ek)
					if rt != "IPAddressExpression" {
						return nil, unsupported("expression of type %q", rt)
					}
				case "ip_addresses":
					if g.Addrs, _, err = e.strings(ek); err != nil {
						return nil, err
					}
				default:
					if !readOnlyAttr[ek] {
						return nil, unsupported("expression attribute %q", ek)
					}
				}
			}
		default:
			if !readOnlyAttr[k] {
				return nil, unsupported("group attribute %q", k)
			}
		}
	}
	if !hasExpr {
		return nil, unsupported("group %s without expression", g.ID)
	}
	if dup := firstDup(g.Addrs); dup != "" {
		return nil, unsupported("group %s lists address %s twice", g.ID, dup)
	}
	return g, nil
}

func firstDup(l []string) string {
	seen := map[string]bool{}
	for _, x := range l {
		if seen[x] {
			return x
		}
		seen[x] = true
	}
	return ""
}

func parseEntry(raw json.RawMessage) (*Entry, error) {
	o, err := decodeObj(raw, "service entry")
	if err != nil {
		return nil, err
	}
	e := &Entry{}
	e.Type, _, _ = o.str("resource_type")
	allowed := map[string]bool{"id": true, "resource_type": true}
	switch e.Type {
	case "L4PortSetServiceEntry":
		allowed["l4_protocol"], allowed["source_ports"], allowed["destination_ports"] = true, true, true
	case "ICMPTypeServiceEntry":
		allowed["protocol"], allowed["icmp_type"], allowed["icmp_code"] = true, true, true
	case "IPProtocolServiceEntry":
		allowed["protocol_number"] = true
	default:
		return nil, unsupported("service entry of type %q", e.Type)
	}
	for _, k := range sortedKeys(o) {
		if !allowed[k] {
			if readOnlyAttr[k] {
				continue
			}
			return nil, unsupported("%s attribute %q", e.Type, k)
		}
		var err error
		switch k {
		case "id":
			e.ID, _, err = o.str(k)
		case "l4_protocol":
			e.L4Proto, _, err = o.str(k)
		case "source_ports":
			e.SrcPorts, _, err = o.strings(k)
		case "destination_ports":
			e.DstPorts, _, err = o.strings(k)
		case "protocol":
			e.ICMPProto, _, err = o.str(k)
		case "icmp_type", "icmp_code":
			if string(o[k]) == "null" {
				continue
			}
			var n int
			if n, _, err = o.integer(k); err == nil {
				if k == "icmp_type" {
					e.ICMPType = &n
				} else {
					e.ICMPCode = &n
				}
			}
		case "protocol_number":
			e.ProtoNum, _, err = o.integer(k)
		}
		if err != nil {
			return nil, err
		}
	}
	return e, nil
}

func parseServiceBody(o obj) (*Service, error) {
	sv := &Service{}
	for _, k := range sortedKeys(o) {
		switch k {
		case "id":
			sv.ID, _, _ = o.str(k)
		case "service_entries":
			l, _, err := o.list(k)
			if err != nil {
				return nil, err
			}
			for _, raw := range l {
				e, err := parseEntry(raw)
				if err != nil {
					return nil, err
				}
				sv.Entries = append(sv.Entries, e)
			}
		default:
			if !readOnlyAttr[k] {
				return nil, unsupported("service attribute %q", k)
			}
		}
	}
	return sv, nil
}

func stripHeader(text string) string {
	for strings.HasPrefix(text, "#") {
		i := strings.IndexByte(text, '\n')
		if i < 0 {
			return ""
		}
		text = text[i+1:]
	}
	return text
}

// Parse reads the JSON file format that `drc FILE1 FILE2` uses for both
// the device and the Netspoc side: an object with the lists "groups",
// "services", "policies"; leading '#' comment lines are skipped; an empty
// file is an empty configuration.
func Parse(text string) (*Store, error) {
	s := NewStore()
	if len(text) == 0 {
		return s, nil
	}
	text = stripHeader(text)
	top, err := decodeObj(json.RawMessage(text), "file")
	if err != nil {
		return nil, err
	}
	for _, k := range sortedKeys(top) {
		l, _, err := top.list(k)
		if err != nil {
			return nil, err
		}
		switch strings.ToLower(k) {
		case "groups":
			for _, raw := range l {
				o, err := decodeObj(raw, "group")
				if err != nil {
					return nil, err
				}
				g, err := parseGroupBody(o)
				if err != nil {
					return nil, err
				}
				if s.Groups[g.ID] != nil {
					return nil, unsupported("group id %q defined twice", g.ID)
				}
				s.Groups[g.ID] = g
			}
		case "services":
			for _, raw := range l {
				o, err := decodeObj(raw, "service")
				if err != nil {
					return nil, err
				}
				sv, err := parseServiceBody(o)
				if err != nil {
					return nil, err
				}
				if s.Services[sv.ID] != nil {
					return nil, unsupported("service id %q defined twice", sv.ID)
				}
				s.Services[sv.ID] = sv
			}
		case "policies":
			for _, raw := range l {
				o, err := decodeObj(raw, "policy")
				if err != nil {
					return nil, err
				}
				p, err := parsePolicyBody(o)
				if err != nil {
					return nil, err
				}
				if s.Policy(p.ID) != nil {
					return nil, unsupported("policy id %q defined twice", p.ID)
				}
				s.Policies = append(s.Policies, p)
			}
		default:
			return nil, unsupported("top-level key %q", k)
		}
	}
	return s, nil
}

// Merge is the reference reading of how the Netspoc side is composed of
// its IPv4, IPv6 and raw parts: groups and services are collected, a
// service defined in several parts counts once, policies with the same id
// contribute their rules to one policy, in the order of the parts.
func Merge(parts ...*Store) (*Store, error) {
	res := NewStore()
	for _, p := range parts {
		if p == nil {
			continue
		}
		for _, id := range sortedKeys(p.Groups) {
			if res.Groups[id] != nil {
				return nil, unsupported("group %q defined in two parts", id)
			}
			res.Groups[id] = p.Groups[id].Clone()
		}
		for _, id := range sortedKeys(p.Services) {
			if old := res.Services[id]; old != nil {
				if canonService(old) != canonService(p.Services[id]) {
					return nil, unsupported("service %q defined differently in two parts", id)
				}
				continue
			}
			res.Services[id] = p.Services[id].Clone()
		}
		for _, pol := range p.Policies {
			dst := res.Policy(pol.ID)
			if dst == nil {
				dst = &Policy{ID: pol.ID}
				res.Policies = append(res.Policies, dst)
			}
			for _, r := range pol.Rules {
				if dst.Rule(r.ID) != nil {
					return nil, unsupported("rule id %q of policy %s used in two parts", r.ID, pol.ID)
				}
				dst.Rules = append(dst.Rules, r.Clone())
			}
		}
	}
	return res, nil
}

// ----------------------------------------------------------------- print

// Spelling selects attributes that a manager adds when it is read back.
type Spelling struct {
	Revision     bool // "_revision" on rules
	ReadOnly     bool // display_name, path, marked_for_delete, resource_type on policies
	CapitalLists bool // "Groups", "Services", "Policies" as the tool's own dump writes them
	RulesByID    bool // the manager lists the rules of a policy sorted by id instead of by creation
}

type jw struct{ b strings.Builder }

func (w *jw) raw(s string) { w.b.WriteString(s) }
func (w *jw) str(s string) {
	d, _ := json.Marshal(s)
	w.b.Write(d)
}
func (w *jw) strs(l []string) {
	if l == nil {
		w.raw("null")
		return
	}
	w.raw("[")
	for i, s := range l {
		if i > 0 {
			w.raw(",")
		}
		w.str(s)
	}
	w.raw("]")
}

func (r *Rule) write(w *jw, withID bool, sp Spelling, policy string) {
	w.raw("{")
	if sp.ReadOnly {
		w.raw(`"resource_type":"Rule",`)
		w.raw(`"display_name":`)
		w.str(r.ID)
		w.raw(`,"path":`)
		w.str("/infra/domains/default/gateway-policies/" + policy + "/rules/" + r.ID)
		w.raw(`,"marked_for_delete":false,`)
	}
	if withID {
		w.raw(`"id":`)
		w.str(r.ID)
		w.raw(",")
	}
	w.raw(`"action":`)
	w.str(r.Action)
	w.raw(`,"sequence_number":` + strconv.Itoa(r.Seq))
	if r.SrcExcl {
		w.raw(`,"sources_excluded":true`)
	}
	if r.DstExcl {
		w.raw(`,"destinations_excluded":true`)
	}
	w.raw(`,"source_groups":`)
	w.strs([]string{r.Src})
	w.raw(`,"destination_groups":`)
	w.strs([]string{r.Dst})
	w.raw(`,"services":`)
	w.strs([]string{r.Service})
	if r.Profiles != nil {
		w.raw(`,"profiles":`)
		w.strs(r.Profiles)
	}
	w.raw(`,"scope":`)
	w.strs(r.Scope)
	if r.Disabled {
		w.raw(`,"disabled":true`)
	}
	if r.Logged {
		w.raw(`,"logged":true`)
	}
	if r.Tag != "" {
		w.raw(`,"tag":`)
		w.str(r.Tag)
	}
	w.raw(`,"direction":`)
	w.str(r.Direction)
	if r.IPProto != "" {
		w.raw(`,"ip_protocol":`)
		w.str(r.IPProto)
	}
	if sp.Revision {
		w.raw(`,"_revision":1`)
	}
	w.raw("}")
}

func (e *Entry) write(w *jw) {
	w.raw(`{"id":`)
	w.str(e.ID)
	w.raw(`,"resource_type":`)
	w.str(e.Type)
	switch e.Type {
	case "L4PortSetServiceEntry":
		w.raw(`,"l4_protocol":`)
		w.str(e.L4Proto)
		w.raw(`,"source_ports":`)
		w.strs(e.SrcPorts)
		w.raw(`,"destination_ports":`)
		w.strs(e.DstPorts)
	case "ICMPTypeServiceEntry":
		w.raw(`,"protocol":`)
		w.str(e.ICMPProto)
		if e.ICMPType != nil {
			w.raw(`,"icmp_type":` + strconv.Itoa(*e.ICMPType))
		}
		if e.ICMPCode != nil {
			w.raw(`,"icmp_code":` + strconv.Itoa(*e.ICMPCode))
		}
	case "IPProtocolServiceEntry":
		w.raw(`,"protocol_number":` + strconv.Itoa(e.ProtoNum))
	}
	w.raw("}")
}

// Print writes the store in the file format Parse (and the tool) reads.
// Groups and services are listed sorted by id, policies and rules in the
// manager's listing order.
func (s *Store) Print(sp Spelling) string {
	w := &jw{}
	key := func(k string) {
		if sp.CapitalLists {
			k = strings.ToUpper(k[:1]) + k[1:]
		}
		w.str(k)
		w.raw(":")
	}
	w.raw("{\n ")
	key("groups")
	w.raw("[")
	for i, id := range sortedKeys(s.Groups) {
		g := s.Groups[id]
		if i > 0 {
			w.raw(",")
		}
		w.raw("\n  {\"id\":")
		w.str(g.ID)
		if sp.ReadOnly {
			w.raw(`,"resource_type":"Group","display_name":`)
			w.str(g.ID)
			w.raw(`,"path":`)
			w.str(GroupPrefix + g.ID)
		}
		w.raw(`,"expression":[{"id":`)
		w.str(g.ExprID)
		w.raw(`,"resource_type":"IPAddressExpression","ip_addresses":`)
		l := g.Addrs
		if l == nil {
			l = []string{}
		}
		w.strs(l)
		w.raw("}]}")
	}
	w.raw("\n ],\n ")
	key("services")
	w.raw("[")
	for i, id := range sortedKeys(s.Services) {
		sv := s.Services[id]
		if i > 0 {
			w.raw(",")
		}
		w.raw("\n  {\"id\":")
		w.str(sv.ID)
		if sp.ReadOnly {
			w.raw(`,"resource_type":"Service","display_name":`)
			w.str(sv.ID)
		}
		w.raw(`,"service_entries":[`)
		for j, e := range sv.Entries {
			if j > 0 {
				w.raw(",")
			}
			e.write(w)
		}
		w.raw("]}")
	}
	w.raw("\n ],\n ")
	key("policies")
	w.raw("[")
	for i, p := range s.Policies {
		if i > 0 {
			w.raw(",")
		}
		w.raw("\n  {\"id\":")
		w.str(p.ID)
		if sp.ReadOnly {
			w.raw(`,"resource_type":"GatewayPolicy","display_name":`)
			w.str(p.ID)
		}
		w.raw(`,"rules":[`)
		rules := p.Rules
		if sp.RulesByID {
			rules = append([]*Rule{}, p.Rules...)
			sort.SliceStable(rules, func(i, j int) bool { return rules[i].ID < rules[j].ID })
		}
		for j, r := range rules {
			if j > 0 {
				w.raw(",")
			}
			w.raw("\n   ")
			r.write(w, true, sp, p.ID)
		}
		w.raw("]}")
	}
	w.raw("\n ]\n}\n")
	return w.b.String()
}

// ------------------------------------------------------------------ exec

// Cmd is one REST call of the change script.
type Cmd struct {
	Method string
	URL    string
	Body   string
}

func (c Cmd) String() string { return c.Method + " " + c.URL + "\n" + c.Body }

func isCmdStart(line string) bool {
	for _, m := range []string{"PUT ", "PATCH ", "POST ", "DELETE ", "GET "} {
		if strings.HasPrefix(line, m+"/") {
			return true
		}
	}
	return false
}

// ParseScript reads the tool's printed change list: a line "METHOD URL"
// followed by the JSON body (empty for DELETE). A body may be spread over
// several lines (as in the repository's expected outputs); the pieces are
// joined without their indentation.
func ParseScript(stdout string) ([]Cmd, error) {
	var res []Cmd
	for _, line := range strings.Split(stdout, "\n") {
		if isCmdStart(line) {
			m, u, _ := strings.Cut(strings.TrimSpace(line), " ")
			res = append(res, Cmd{Method: m, URL: strings.TrimSpace(u)})
			continue
		}
		t := strings.TrimSpace(line)
		if t == "" {
			continue
		}
		if len(res) == 0 {
			return nil, fmt.Errorf("script text before the first command: %q", line)
		}
		res[len(res)-1].Body += t
	}
	return res, nil
}

func ScriptText(l []Cmd) string {
	var b strings.Builder
	for _, c := range l {
		b.WriteString(c.String() + "\n")
	}
	return b.String()
}

// ruleUsers lists "policy/rule" of every rule that names the element.
func (s *Store) ruleUsers(el string, service bool) []string {
	var l []string
	for _, p := range s.Policies {
		for _, r := range p.Rules {
			if service && r.Service == el || !service && (r.Src == el || r.Dst == el) {
				l = append(l, p.ID+"/"+r.ID)
			}
		}
	}
	return l
}

// checkRefs refuses a rule that names a Netspoc group or service the
// store does not hold. Objects without the Netspoc prefix are outside the
// part of the manager that is visible to the tool and are taken to exist.
func (s *Store) checkRefs(r *Rule, where string) error {
	for _, el := range []string{r.Src, r.Dst} {
		if id := GroupRef(el); id != "" && isManaged(id) && s.Groups[id] == nil {
			return refuse("dangling-group", "%s names group %s which does not exist", where, id)
		}
	}
	if id := ServiceRef(r.Service); id != "" && isManaged(id) && s.Services[id] == nil {
		return refuse("dangling-service", "%s names service %s which does not exist", where, id)
	}
	return nil
}

func bodyObj(body, what string, need bool) (obj, error) {
	if strings.TrimSpace(body) == "" {
		if need {
			return nil, unsupported("%s without body", what)
		}
		return nil, nil
	}
	return decodeObj(json.RawMessage(body), what+" body")
}

// Exec executes one REST call. It returns *Refusal where the manager
// would refuse the call (DESIGN Appendix B) and *ErrUnsupported for a call
// outside the model's vocabulary.
func (s *Store) Exec(method, url, body string) error {
	path, ok := strings.CutPrefix(url, apiPrefix)
	if !ok {
		return unsupported("URL %s", url)
	}
	path, query, _ := strings.Cut(path, "?")
	seg := strings.Split(strings.TrimPrefix(path, "/"), "/")
	isDomain := len(seg) >= 5 && seg[0] == "infra" && seg[1] == "domains" && seg[2] == "default"
	switch {
	case len(seg) == 3 && seg[0] == "infra" && seg[1] == "services" && query == "":
		return s.execService(method, seg[2], body)
	case isDomain && seg[3] == "groups" && len(seg) == 5 && query == "":
		return s.execGroup(method, seg[4], body)
	case isDomain && seg[3] == "groups" && len(seg) == 7 && seg[5] == "ip-address-expressions":
		return s.execExpr(method, seg[4], seg[6], query, body)
	case isDomain && seg[3] == "gateway-policies" && len(seg) == 5 && query == "":
		return s.execPolicy(method, seg[4], body)
	case isDomain && seg[3] == "gateway-policies" && len(seg) == 7 && seg[5] == "rules" && query == "":
		return s.execRule(method, seg[4], seg[6], body)
	}
	return unsupported("%s %s", method, url)
}

func (s *Store) execService(method, id, body string) error {
	switch method {
	case "PUT", "PATCH":
		o, err := bodyObj(body, "service", true)
		if err != nil {
			return err
		}
		sv, err := parseServiceBody(o)
		if err != nil {
			return err
		}
		if _, ok := o["service_entries"]; !ok {
			return unsupported("service %s without service_entries", id)
		}
		if sv.ID != "" && sv.ID != id {
			return unsupported("service body id %q differs from URL id %q", sv.ID, id)
		}
		sv.ID = id
		s.Services[id] = sv
		return nil
	case "DELETE":
		if s.Services[id] == nil {
			return refuse("delete-missing", "service %s does not exist", id)
		}
		if u := s.ruleUsers(ServicePrefix+id, true); len(u) > 0 {
			return refuse("delete-referenced-service", "service %s is still used by rule %s", id, strings.Join(u, ", "))
		}
		delete(s.Services, id)
		return nil
	}
	return unsupported("%s on a service", method)
}

func (s *Store) execGroup(method, id, body string) error {
	switch method {
	case "PUT", "PATCH":
		o, err := bodyObj(body, "group", true)
		if err != nil {
			return err
		}
		g, err := parseGroupBody(o)
		if err != nil {
			return err
		}
		if g.ID != "" && g.ID != id {
			return unsupported("group body id %q differs from URL id %q", g.ID, id)
		}
		g.ID = id
		s.Groups[id] = g
		return nil
	case "DELETE":
		if s.Groups[id] == nil {
			return refuse("delete-missing", "group %s does not exist", id)
		}
		if u := s.ruleUsers(GroupPrefix+id, false); len(u) > 0 {
			return refuse("delete-referenced-group", "group %s is still used by rule %s", id, strings.Join(u, ", "))
		}
		delete(s.Groups, id)
		return nil
	}
	return unsupported("%s on a group", method)
}

func (s *Store) execExpr(method, gid, eid, query, body string) error {
	g := s.Groups[gid]
	if g == nil {
		return refuse("missing-group", "group %s does not exist", gid)
	}
	if g.ExprID != eid {
		return refuse("missing-expression", "group %s has no expression %q (it has %q)", gid, eid, g.ExprID)
	}
	o, err := bodyObj(body, "expression", true)
	if err != nil {
		return err
	}
	var addrs []string
	for _, k := range sortedKeys(o) {
		switch k {
		case "ip_addresses":
			if addrs, _, err = o.strings(k); err != nil {
				return err
			}
		case "resource_type":
			if rt, _, _ := o.str(k); rt != "IPAddressExpression" {
				return unsupported("expression of type %q", rt)
			}
		case "id":
			if id, _, _ := o.str(k); id != "" && id != eid {
				return unsupported("expression body id %q differs from URL id %q", id, eid)
			}
		default:
			if !readOnlyAttr[k] {
				return unsupported("expression attribute %q", k)
			}
		}
	}
	if _, ok := o["ip_addresses"]; !ok {
		return unsupported("expression call without ip_addresses")
	}
	has := func(a string) int {
		for i, x := range g.Addrs {
			if x == a {
				return i
			}
		}
		return -1
	}
	switch {
	case method == "POST" && query == "action=add":
		for _, a := range addrs {
			if has(a) < 0 { // adding a present address is accepted
				g.Addrs = append(g.Addrs, a)
			}
		}
		return nil
	case method == "POST" && query == "action=remove":
		for _, a := range addrs {
			i := has(a)
			if i < 0 {
				return refuse("remove-absent-ip", "group %s does not contain %s", gid, a)
			}
			g.Addrs = append(g.Addrs[:i:i], g.Addrs[i+1:]...)
		}
		return nil
	case method == "PATCH" && query == "":
		if dup := firstDup(addrs); dup != "" {
			return unsupported("expression lists address %s twice", dup)
		}
		g.Addrs = cloneStrings(addrs)
		return nil
	}
	return unsupported("%s ?%s on an expression", method, query)
}

func (s *Store) execPolicy(method, id, body string) error {
	switch method {
	case "PUT":
		o, err := bodyObj(body, "policy", true)
		if err != nil {
			return err
		}
		p, err := parsePolicyBody(o)
		if err != nil {
			return err
		}
		if p.ID != "" && p.ID != id {
			return unsupported("policy body id %q differs from URL id %q", p.ID, id)
		}
		p.ID = id
		for _, r := range p.Rules {
			if r.ID == "" {
				return unsupported("policy %s with a rule without id", id)
			}
			if err := s.checkRefs(r, "rule "+id+"/"+r.ID); err != nil {
				return err
			}
		}
		if old := s.Policy(id); old != nil {
			old.Rules = p.Rules
		} else {
			s.Policies = append(s.Policies, p)
		}
		return nil
	case "DELETE":
		for i, p := range s.Policies {
			if p.ID == id {
				s.Policies = append(s.Policies[:i:i], s.Policies[i+1:]...)
				return nil
			}
		}
		return refuse("delete-missing", "policy %s does not exist", id)
	}
	return unsupported("%s on a policy", method)
}

func (s *Store) execRule(method, pid, rid, body string) error {
	p := s.Policy(pid)
	if p == nil {
		return refuse("missing-policy", "policy %s does not exist", pid)
	}
	where := "rule " + pid + "/" + rid
	switch method {
	case "PUT":
		r, err := parseRule(json.RawMessage(body))
		if err != nil {
			return err
		}
		if r.ID != "" && r.ID != rid {
			return unsupported("rule body id %q differs from URL id %q", r.ID, rid)
		}
		r.ID = rid
		if err := s.checkRefs(r, where); err != nil {
			return err
		}
		for i, old := range p.Rules {
			if old.ID == rid {
				p.Rules[i] = r
				return nil
			}
		}
		p.Rules = append(p.Rules, r)
		return nil
	case "PATCH":
		old := p.Rule(rid)
		if old == nil {
			return refuse("patch-missing-rule", "%s does not exist", where)
		}
		o, err := bodyObj(body, "rule", true)
		if err != nil {
			return err
		}
		r := old.Clone()
		if err := mergeRule(r, o); err != nil {
			return err
		}
		if r.ID != rid {
			return unsupported("rule body id %q differs from URL id %q", r.ID, rid)
		}
		if err := s.checkRefs(r, where); err != nil {
			return err
		}
		*old = *r
		return nil
	case "DELETE":
		for i, r := range p.Rules {
			if r.ID == rid {
				p.Rules = append(p.Rules[:i:i], p.Rules[i+1:]...)
				return nil
			}
		}
		return refuse("delete-missing", "%s does not exist", where)
	}
	return unsupported("%s on a rule", method)
}

// ----------------------------------------------------------------- canon

func canonEntry(e *Entry) string {
	ports := func(l []string) string {
		c := cloneStrings(l)
		sort.Strings(c)
		return strings.Join(c, ",")
	}
	num := func(p *int) string {
		if p == nil {
			return "-"
		}
		return strconv.Itoa(*p)
	}
	switch e.Type {
	case "L4PortSetServiceEntry":
		return fmt.Sprintf("l4 %s src[%s] dst[%s]", e.L4Proto, ports(e.SrcPorts), ports(e.DstPorts))
	case "ICMPTypeServiceEntry":
		return fmt.Sprintf("icmp %s type %s code %s", e.ICMPProto, num(e.ICMPType), num(e.ICMPCode))
	case "IPProtocolServiceEntry":
		return fmt.Sprintf("proto %d", e.ProtoNum)
	}
	return "?" + e.Type
}

func canonService(sv *Service) string {
	var l []string
	for _, e := range sv.Entries {
		l = append(l, canonEntry(e))
	}
	sort.Strings(l)
	return "svc{" + strings.Join(l, "; ") + "}"
}

func (s *Store) canonElement(el string) string {
	if id := GroupRef(el); id != "" {
		if g := s.Groups[id]; g != nil {
			set := map[string]bool{}
			for _, a := range g.Addrs {
				set[a] = true
			}
			return "group{" + strings.Join(sortedKeys(set), ",") + "}"
		}
	}
	return el
}

func (s *Store) canonServiceRef(el string) string {
	if id := ServiceRef(el); id != "" {
		if sv := s.Services[id]; sv != nil {
			return canonService(sv)
		}
	}
	return el
}

// CanonRule is the rule without its id, with groups replaced by their
// address sets and services by their entry definitions.
func (s *Store) CanonRule(r *Rule) string {
	flag := func(b bool, name string) string {
		if b {
			return " " + name
		}
		return ""
	}
	return fmt.Sprintf("%s seq=%d %s %s src=%s%s dst=%s%s svc=%s scope=%s profiles=%s tag=%q%s%s",
		r.Direction, r.Seq, r.Action, r.IPProto,
		s.canonElement(r.Src), flag(r.SrcExcl, "(excluded)"),
		s.canonElement(r.Dst), flag(r.DstExcl, "(excluded)"),
		s.canonServiceRef(r.Service),
		strings.Join(r.Scope, ","), strings.Join(r.Profiles, ","), r.Tag,
		flag(r.Logged, "logged"), flag(r.Disabled, "disabled"))
}

// Canon is the equivalence of C04: per Netspoc policy the multiset of
// canonical rules. Ids of rules, groups, expressions and service entries
// and the listing order do not take part.
func (s *Store) Canon() string {
	byID := map[string]*Policy{}
	for _, p := range s.Policies {
		byID[p.ID] = p
	}
	var b strings.Builder
	for _, id := range sortedKeys(byID) {
		p := byID[id]
		fmt.Fprintf(&b, "policy %s\n", id)
		var l []string
		for _, r := range p.Rules {
			l = append(l, s.CanonRule(r))
		}
		sort.Strings(l)
		for _, x := range l {
			b.WriteString("  " + x + "\n")
		}
	}
	return b.String()
}

// LeftOver lists, for a final store and the target, every Netspoc service
// the target does not define and every Netspoc group no rule uses.
func (s *Store) LeftOver(target *Store) []string {
	var l []string
	for _, id := range sortedKeys(s.Services) {
		if isManaged(id) && target.Services[id] == nil {
			l = append(l, "service "+id)
		}
	}
	for _, id := range sortedKeys(s.Groups) {
		if isManaged(id) && len(s.ruleUsers(GroupPrefix+id, false)) == 0 {
			l = append(l, "group "+id)
		}
	}
	return l
}

// Dangling lists references of rules to Netspoc objects the store lacks
// (a state no manager can be in; used to keep generated devices sound).
func (s *Store) Dangling() []string {
	var l []string
	for _, p := range s.Policies {
		for _, r := range p.Rules {
			if err := s.checkRefs(r, "rule "+p.ID+"/"+r.ID); err != nil {
				l = append(l, err.Error())
			}
		}
	}
	return l
}
