// Package props holds one generated check per listed property. Every
// oracle works on a self-contained Case (concrete input files), so that a
// failing case can be replayed without the generator.
package props

import (
	"encoding/json"
	"fmt"
	"os"
	"path/filepath"
	"strconv"
	"strings"

	"verif/harness/evid"
	"verif/harness/tool"
)

// Case is the self-contained, replayable input of one oracle evaluation.
type Case struct {
	Property string            `json:"property"`
	Family   string            `json:"family"`
	Files    tool.Files        `json:"files"`
	Params   map[string]string `json:"params,omitempty"`
	// Filled in when the case is saved as a failure:
	Msg string `json:"msg,omitempty"`
	Sig string `json:"sig,omitempty"`
	Gen string `json:"generator_note,omitempty"`
}

func (c *Case) Param(k string) string { return c.Params[k] }

func (c *Case) Key() string {
	names := make([]string, 0, len(c.Files))
	for n := range c.Files {
		names = append(names, n)
	}
	sortStrings(names)
	var b strings.Builder
	b.WriteString(c.Family)
	for _, n := range names {
		b.WriteString("\x00" + n + "\x00" + c.Files[n])
	}
	for _, k := range sortedParamKeys(c.Params) {
		b.WriteString("\x01" + k + "=" + c.Params[k])
	}
	return b.String()
}

type Status int

const (
	Pass Status = iota
	Fail
	Discard   // outside the property's quantifier (e.g. pair rejected by the tool)
	Uncovered // vocabulary outside the model
)

// Verdict is what an oracle says about one case.
type Verdict struct {
	Status  Status
	Msg     string
	Sig     string   // stable signature of the failure (root-cause class)
	NT      bool     // non-trivial by the property's rule
	Classes []string // generator/behaviour classes observed
	Reason  string   // for Discard/Uncovered
}

func pass(nt bool, classes ...string) Verdict { return Verdict{Status: Pass, NT: nt, Classes: classes} }
func fail(sig, format string, a ...any) Verdict {
	return Verdict{Status: Fail, Sig: sig, Msg: fmt.Sprintf(format, a...)}
}
func discard(reason string) Verdict   { return Verdict{Status: Discard, Reason: reason} }
func uncovered(reason string) Verdict { return Verdict{Status: Uncovered, Reason: reason} }

type Oracle func(c *Case) Verdict

// oracles is the registry used by the replay entry point: "C01/asa" -> oracle.
var oracles = map[string]Oracle{}

func register(property, family string, o Oracle) { oracles[property+"/"+family] = o }

// ------------------------------------------------------------ environment

func tier() string {
	if v := os.Getenv("VERIF_TIER"); v != "" {
		return v
	}
	return "quick"
}

func thorough() bool { return tier() == "thorough" }

func envInt(name string, def int) int {
	if v, err := strconv.Atoi(os.Getenv(name)); err == nil {
		return v
	}
	return def
}

func verifDir() string {
	if v := os.Getenv("VERIF_DIR"); v != "" {
		return v
	}
	return "/verif"
}

// --------------------------------------------------------- known findings

type knownFinding struct {
	ID         string `json:"id"`
	Property   string `json:"property"`
	Signature  string `json:"signature"`
	What       string `json:"what"`
	Reproducer string `json:"reproducer"`
}

type knownFile struct {
	Known []knownFinding    `json:"known"`
	Fixed []json.RawMessage `json:"fixed"`
}

var knownSigs map[string]bool

func isKnown(property, sig string) bool {
	if knownSigs == nil {
		knownSigs = map[string]bool{}
		data, err := os.ReadFile(filepath.Join(verifDir(), "known_findings.json"))
		if err == nil {
			var kf knownFile
			if json.Unmarshal(data, &kf) == nil {
				for _, k := range kf.Known {
					knownSigs[k.Property+"|"+k.Signature] = true
				}
			}
		}
	}
	return knownSigs[property+"|"+sig]
}

// withRefusal completes a convergence oracle (C01-C04): it sets a script
// aside which the device model refuses, because which rule of the device
// was broken is C08's subject. A refused script does not converge either
// (the run stops at the refused command), so such a case is a violation of
// the convergence property as well, unless the refusal is one of the
// findings listed under C08. The signature is the one C08 gives.
func withRefusal(base, c08 Oracle) Oracle {
	return func(c *Case) Verdict {
		v := base(c)
		if v.Status != Discard || v.Reason != "refused-by-model" {
			return v
		}
		w := c08(c)
		if w.Status != Fail {
			return v
		}
		if isKnown("C08", w.Sig) {
			v.Reason = "refused-known-under-C08"
			return v
		}
		w.Msg = "the emitted script cannot be executed to its end, so the device does not reach the target:\n" + w.Msg
		w.Classes = v.Classes
		return w
	}
}

// ------------------------------------------------------- failure records

func failDir() string {
	if v := os.Getenv("VERIF_FAIL_DIR"); v != "" {
		return v
	}
	return filepath.Join(verifDir(), "replays")
}

// saveFailure writes the case to a per-shard file (overwritten by every
// later failing execution, so that the file left behind is the shrunk one).
func saveFailure(c *Case, v Verdict) string {
	c.Msg, c.Sig = v.Msg, v.Sig
	shard := os.Getenv("VERIF_SHARD")
	if shard == "" {
		shard = "0"
	}
	seed := os.Getenv("VERIF_SEED")
	if seed == "" {
		seed = "0"
	}
	name := fmt.Sprintf("%s-%s-seed%s-shard%s.json", c.Property, c.Family, seed, shard)
	p := filepath.Join(failDir(), name)
	os.MkdirAll(failDir(), 0755)
	data, _ := json.MarshalIndent(c, "", " ")
	os.WriteFile(p, data, 0644)
	return p
}

// judge runs the oracle on the case, records evidence, and fails the test
// for a violation that is not a listed known finding.
func judge(t interface {
	Fatalf(string, ...any)
	Logf(string, ...any)
}, ev *evid.Collector, o Oracle, c *Case, sample func() any) Verdict {
	v := o(c)
	ev.Eval()
	for _, cl := range v.Classes {
		ev.Class(cl)
	}
	switch v.Status {
	case Pass:
		ev.Class("verdict:pass")
		if v.NT {
			ev.NonTrivial(c.Key(), sample)
		}
	case Discard:
		ev.Class("verdict:discard:" + v.Reason)
	case Uncovered:
		ev.Class("verdict:uncovered")
		ev.Class("uncovered:" + clip(v.Reason, 60))
	case Fail:
		if isKnown(c.Property, v.Sig) {
			ev.Excluded(v.Sig)
			return v
		}
		p := saveFailure(c, v)
		t.Fatalf("VERIF-FAIL property=%s family=%s sig=%s file=%s\n%s", c.Property, c.Family, v.Sig, p, v.Msg)
	}
	return v
}

func clip(s string, n int) string {
	if len(s) > n {
		return s[:n]
	}
	return s
}

func sortStrings(l []string) {
	for i := 1; i < len(l); i++ {
		for j := i; j > 0 && l[j] < l[j-1]; j-- {
			l[j], l[j-1] = l[j-1], l[j]
		}
	}
}

func sortedParamKeys(m map[string]string) []string {
	l := make([]string, 0, len(m))
	for k := range m {
		l = append(l, k)
	}
	sortStrings(l)
	return l
}
