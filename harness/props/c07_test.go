package props

import (
	"strings"
	"testing"

	"pgregory.net/rapid"
	"verif/harness/asam"
	"verif/harness/evid"
	"verif/harness/iosm"
)

const ruleC07 = "generated pairs whose device side is decorated with content outside Netspoc's scope (unbound untagged ACLs/groups, also referencing groups shared with managed ACLs; interfaces unknown to the target with bound ACLs; routes of a family the target lacks; unmodelled lines; tagged objects still referenced by unmanaged ones); " +
	"the protected set is computed from the property's definition and must be textually identical after every step; non-trivial = protected set non-empty and script non-empty; distinct = hash of input files"

func TestC07(t *testing.T) {
	ev := evid.New("C07", ruleC07)
	finish(t, ev)
	t.Run("asa", func(t *testing.T) {
		rapid.Check(t, func(rt *rapid.T) {
			p := asam.GenPair(rt, asam.GenOpts{Decorate: true})
			c := asaCase("C07", p)
			for _, op := range p.Ops {
				if strings.HasPrefix(op, "dec:") {
					ev.Class(op)
				}
			}
			judge(rt, ev, oracleC07asa, c, func() any { return c })
		})
	})
	t.Run("ios", func(t *testing.T) {
		rapid.Check(t, func(rt *rapid.T) {
			p := iosm.GenPair(rt, iosm.GenOpts{Decorate: true})
			c := iosCase("C07", p)
			for _, op := range p.Ops {
				if strings.HasPrefix(op, "dec:") {
					ev.Class("ios:" + op)
				}
			}
			judge(rt, ev, oracleC07ios, c, func() any { return c })
		})
	})
}
