package props

import (
	"testing"

	"pgregory.net/rapid"
	"verif/harness/evid"
	"verif/harness/iosm"
)

const ruleC02 = "pairs (device A, target B) of IOS configs from the abstract-config generator (named extended ACLs with arbitrary permit/deny run structure, remarks, log variants, IOS-XE sequence numbers, shared ACLs, VRFs, crypto maps with filter ACLs, routes per VRF); " +
	"non-trivial = accepted and the script contains a numbered insert, 'no N' or a joined move; distinct = hash of the concrete input files"

func TestC02(t *testing.T) {
	ev := evid.New("C02", ruleC02)
	finish(t, ev)
	t.Run("ios", func(t *testing.T) {
		rapid.Check(t, func(rt *rapid.T) {
			p := iosm.GenPair(rt, iosm.GenOpts{})
			c := iosCase("C02", p)
			judge(rt, ev, oracleC02ios, c, func() any { return c })
		})
	})
}
