package props

import (
	"fmt"
	"strings"
	"testing"

	"pgregory.net/rapid"
	"verif/harness/evid"
	"verif/harness/nsxm"
	"verif/harness/tool"
)

func TestC18(t *testing.T) { runArms(t, "C18", ruleC18) }

// c18Lines draws the actions of the lines of one part: a prefix of mixed
// permit/deny lines followed by a trailing deny block.
type c18Line struct {
	permit bool
	n      int
}

func drawPart(rt *rapid.T, label string, max int, allowEmpty bool) []c18Line {
	min := 1
	if allowEmpty {
		min = 0
	}
	n := rapid.IntRange(min, max).Draw(rt, label+"n")
	// now and then a long part (more entries than small-slice code paths,
	// e.g. insertion sort below 13 elements, ever see)
	if rapid.IntRange(0, 7).Draw(rt, label+"long") == 0 {
		n = rapid.IntRange(13, 24).Draw(rt, label+"nLong")
	}
	var l []c18Line
	noPermit := rapid.IntRange(0, 4).Draw(rt, label+"noPermit") == 0
	for i := 0; i < n; i++ {
		p := rapid.IntRange(0, 2).Draw(rt, fmt.Sprintf("%sp%d", label, i)) != 0
		if noPermit {
			p = false
		}
		l = append(l, c18Line{p, i + 1})
	}
	k := rapid.IntRange(0, 3).Draw(rt, label+"trail")
	for i := 0; i < k; i++ {
		l = append(l, c18Line{false, n + i + 1})
	}
	return l
}

func b2i(b bool) int {
	if b {
		return 1
	}
	return 0
}

func act(b bool) string {
	if b {
		return "permit"
	}
	return "deny"
}

type c18Draw struct {
	v4, v6, rawPre, rawApp []c18Line
	hasV6, hasRaw          bool
}

func drawC18(rt *rapid.T, v6ok bool) c18Draw {
	d := c18Draw{}
	d.v4 = drawPart(rt, "v4", 4, true)
	if v6ok && rapid.IntRange(0, 2).Draw(rt, "hasV6") == 0 {
		d.hasV6 = true
		d.v6 = drawPart(rt, "v6", 3, false)
	}
	if rapid.IntRange(0, 4).Draw(rt, "hasRaw") != 0 {
		d.hasRaw = true
		d.rawPre = drawPart(rt, "rawPre", 3, true)
		d.rawApp = drawPart(rt, "rawApp", 3, true)
	}
	return d
}

func init() {
	addArm("C18", "asa", func(rt *rapid.T, ev *evid.Collector) {
		d := drawC18(rt, true)
		var v4, v6, raw strings.Builder
		for _, l := range d.v4 {
			fmt.Fprintf(&v4, "access-list inside_in extended %s ip host 10.4.%d.%d any4\n", act(l.permit), b2i(l.permit), l.n)
		}
		if len(d.v4) > 0 {
			v4.WriteString("access-group inside_in in interface inside\n")
		}
		if d.hasV6 {
			for _, l := range d.v6 {
				fmt.Fprintf(&v6, "access-list inside_in extended %s ip host 10::6:%d:%d any6\n", act(l.permit), b2i(l.permit), l.n)
			}
			if rapid.Bool().Draw(rt, "v6tail") {
				v6.WriteString("access-list inside_in extended deny ip any6 any6\n")
			}
			v6.WriteString("access-group inside_in in interface inside\n")
		}
		if d.hasRaw && len(d.rawPre)+len(d.rawApp) > 0 && (len(d.v4) > 0 || d.hasV6) {
			name := rapid.SampledFrom([]string{"inside_in", "raw_acl"}).Draw(rt, "rawName")
			for _, l := range d.rawPre {
				fmt.Fprintf(&raw, "access-list %s extended %s ip host 10.7.%d.%d any4\n", name, act(l.permit), b2i(l.permit), l.n)
			}
			if len(d.rawApp) > 0 {
				raw.WriteString("[APPEND]\n")
				for _, l := range d.rawApp {
					fmt.Fprintf(&raw, "access-list %s extended %s ip host 10.8.%d.%d any4\n", name, act(l.permit), b2i(l.permit), l.n)
				}
			}
			raw.WriteString("access-group " + name + " in interface inside\n")
		}
		c := &Case{Property: "C18", Family: "asa", Params: map[string]string{}, Files: tool.Files{
			"device": "interface Ethernet0/0\n nameif inside\n", "code/router": v4.String(), "code/router.info": tool.Info("ASA")}}
		if v6.Len() > 0 {
			c.Files["code/ipv6/router"] = v6.String()
		}
		if raw.Len() > 0 {
			c.Files["code/router.raw"] = raw.String()
		}
		judge(rt, ev, oracleC18, c, func() any { return c })
	})
	addArm("C18", "ios", func(rt *rapid.T, ev *evid.Collector) {
		d := drawC18(rt, false)
		var v4, raw strings.Builder
		if len(d.v4) == 0 {
			d.v4 = []c18Line{{false, 1}}
		}
		v4.WriteString("ip access-list extended e0_in\n")
		for _, l := range d.v4 {
			fmt.Fprintf(&v4, " %s ip host 10.4.%d.%d any\n", act(l.permit), b2i(l.permit), l.n)
		}
		v4.WriteString("interface Ethernet0\n ip address 10.1.1.1 255.255.255.0\n ip access-group e0_in in\n")
		if d.hasRaw && len(d.rawPre)+len(d.rawApp) > 0 {
			name := rapid.SampledFrom([]string{"e0_in", "e0_raw"}).Draw(rt, "rawName")
			raw.WriteString("ip access-list extended " + name + "\n")
			for _, l := range d.rawPre {
				fmt.Fprintf(&raw, " %s ip host 10.7.%d.%d any\n", act(l.permit), b2i(l.permit), l.n)
			}
			if len(d.rawApp) > 0 {
				raw.WriteString("[APPEND]\n")
				for _, l := range d.rawApp {
					fmt.Fprintf(&raw, " %s ip host 10.8.%d.%d any\n", act(l.permit), b2i(l.permit), l.n)
				}
			}
			raw.WriteString("interface Ethernet0\n ip access-group " + name + " in\n")
		}
		c := &Case{Property: "C18", Family: "ios", Params: map[string]string{}, Files: tool.Files{
			"device": "interface Ethernet0\n ip address 10.1.1.1 255.255.255.0\n", "code/router": v4.String(), "code/router.info": tool.Info("IOS")}}
		if raw.Len() > 0 {
			c.Files["code/router.raw"] = raw.String()
		}
		judge(rt, ev, oracleC18, c, func() any { return c })
	})
	addArm("C18", "linux", func(rt *rapid.T, ev *evid.Collector) {
		d := drawC18(rt, false)
		var v4, raw strings.Builder
		j := func(p bool) string {
			if p {
				return "ACCEPT"
			}
			return "DROP"
		}
		// Netspoc dispatches into chains of its own: a permitting line may
		// also be a jump to a user-defined chain that accepts.
		v4.WriteString("*filter\n:INPUT DROP\n:c1 -\n:c2 -\n-A c1 -j ACCEPT\n-A c2 -p tcp -j ACCEPT\n")
		jumps := false
		for i, l := range d.v4 {
			target := j(l.permit)
			if l.permit && rapid.IntRange(0, 2).Draw(rt, fmt.Sprintf("jump%d", i)) == 0 {
				target = rapid.SampledFrom([]string{"c1", "c2"}).Draw(rt, fmt.Sprintf("chain%d", i))
				jumps = true
			}
			fmt.Fprintf(&v4, "-A INPUT -s 10.4.%d.%d -j %s\n", b2i(l.permit), l.n, target)
		}
		if jumps {
			ev.Class("c18:linux-permit-by-jump")
		}
		v4text := v4.String()
		if d.hasRaw && len(d.rawPre)+len(d.rawApp) > 0 {
			// A further table in front of *filter, in both files; its rules
			// carry no tag (the oracle looks at chain INPUT only). The raw
			// file may mark its rule of that table with [APPEND]; a table
			// may or may not be closed by COMMIT.
			commit := ""
			if layout := rapid.IntRange(0, 5).Draw(rt, "natLayout"); layout >= 3 {
				if layout == 5 {
					commit = "COMMIT\n"
				}
				v4text = "*nat\n:POSTROUTING ACCEPT\n-A POSTROUTING -o eth0 -j MASQUERADE\n" + commit + v4text
				raw.WriteString("*nat\n:POSTROUTING ACCEPT\n")
				if rapid.IntRange(0, 2).Draw(rt, "natAppend") != 0 {
					raw.WriteString("[APPEND]\n")
					ev.Class("c18:linux-append-in-earlier-table")
				}
				raw.WriteString("-A POSTROUTING -o eth1 -j MASQUERADE\n" + commit)
			}
			raw.WriteString("*filter\n:INPUT DROP\n")
			for _, l := range d.rawPre {
				fmt.Fprintf(&raw, "-A INPUT -s 10.7.%d.%d -j %s\n", b2i(l.permit), l.n, j(l.permit))
			}
			if len(d.rawApp) > 0 {
				raw.WriteString("[APPEND]\n")
				for _, l := range d.rawApp {
					fmt.Fprintf(&raw, "-A INPUT -s 10.8.%d.%d -j %s\n", b2i(l.permit), l.n, j(l.permit))
				}
			}
			raw.WriteString(commit)
		}
		c := &Case{Property: "C18", Family: "linux", Params: map[string]string{}, Files: tool.Files{
			"device": "", "code/router": v4text, "code/router.info": tool.Info("Linux")}}
		if raw.Len() > 0 {
			c.Files["code/router.raw"] = raw.String()
		}
		judge(rt, ev, oracleC18, c, func() any { return c })
	})
	panRule := func(name string, permit bool, appendMark bool) string {
		a := "deny"
		if permit {
			a = "allow"
		}
		ap := ""
		if appendMark {
			ap = "<APPEND/>"
		}
		return `<entry name="` + name + `"><action>` + a + `</action><from><member>z1</member></from><to><member>z2</member></to>` +
			`<source><member>any</member></source><destination><member>any</member></destination><service><member>any</member></service>` +
			`<application><member>any</member></application><rule-type>interzone</rule-type>` + ap + `</entry>`
	}
	panFile := func(rules string) string {
		return `<config><devices><entry name="localhost.localdomain"><vsys><entry name="vsys1"><rulebase><security><rules>` +
			rules + `</rules></security></rulebase></entry></vsys></entry></devices></config>` + "\n"
	}
	addArm("C18", "panos", func(rt *rapid.T, ev *evid.Collector) {
		d := drawC18(rt, true)
		// The documented PAN-OS behaviour is "appended at the end"; keep the
		// Netspoc rulebase free of trailing deny rules so that it coincides
		// with the property's clause.
		strip := func(l []c18Line) []c18Line {
			for len(l) > 0 && !l[len(l)-1].permit {
				l = l[:len(l)-1]
			}
			return l
		}
		d.v4, d.v6 = strip(d.v4), strip(d.v6)
		var v4, v6, raw strings.Builder
		for _, l := range d.v4 {
			v4.WriteString(panRule(fmt.Sprintf("t4x%dx%d", b2i(l.permit), l.n), l.permit, false))
		}
		for _, l := range d.v6 {
			v6.WriteString(panRule(fmt.Sprintf("t6x%dx%d", b2i(l.permit), l.n), l.permit, false))
		}
		if d.hasRaw {
			// The <APPEND/> mark is per rule: marked and unmarked rules may
			// alternate in the file; each kind keeps its own order.
			pre, app := d.rawPre, d.rawApp
			mix := rapid.Bool().Draw(rt, "interleave")
			for len(pre)+len(app) > 0 {
				takeApp := len(pre) == 0
				if mix && len(pre) > 0 && len(app) > 0 {
					takeApp = rapid.Bool().Draw(rt, "nextIsAppend")
				}
				if takeApp {
					l := app[0]
					app = app[1:]
					raw.WriteString(panRule(fmt.Sprintf("t8x%dx%d", b2i(l.permit), l.n), l.permit, true))
				} else {
					l := pre[0]
					pre = pre[1:]
					raw.WriteString(panRule(fmt.Sprintf("t7x%dx%d", b2i(l.permit), l.n), l.permit, false))
				}
			}
			if mix {
				ev.Class("c18:panos-append-interleaved")
			}
		}
		dev := `<config><devices><entry name="localhost.localdomain"><deviceconfig><system><hostname>router</hostname></system></deviceconfig>` +
			`<vsys><entry name="vsys1"><display-name>netspoc</display-name></entry></vsys></entry></devices></config>` + "\n"
		c := &Case{Property: "C18", Family: "panos", Params: map[string]string{}, Files: tool.Files{
			"device": dev, "code/router": panFile(v4.String()), "code/router.info": tool.Info("PAN-OS")}}
		if d.hasV6 && v6.Len() > 0 {
			c.Files["code/ipv6/router"] = panFile(v6.String())
		}
		if raw.Len() > 0 {
			c.Files["code/router.raw"] = panFile(raw.String())
		}
		judge(rt, ev, oracleC18, c, func() any { return c })
	})
	// Negative cases: raw entries that cannot be merged.
	addArm("C18", "negative", func(rt *rapid.T, ev *evid.Collector) {
		kind := rapid.SampledFrom([]string{"asa-unknown-command", "asa-unbound-acl", "asa-doubly-bound", "asa-tunnel-group-map", "ios-unknown-command",
			"linux-unknown-command", "linux-redefine-chain", "panos-r-name"}).Draw(rt, "kind")
		c := &Case{Property: "C18", Params: map[string]string{"negative": kind}}
		switch {
		case strings.HasPrefix(kind, "asa"):
			c.Family = "asa"
			c.Files = tool.Files{"device": "interface Ethernet0/0\n nameif inside\ninterface Ethernet0/1\n nameif outside\n",
				"code/router":      "access-list inside_in extended permit ip host 10.4.1.1 any4\naccess-group inside_in in interface inside\n",
				"code/router.info": tool.Info("ASA")}
			switch kind {
			case "asa-unknown-command":
				c.Files["code/router.raw"] = "access-list inside_in extended permit ip host 10.7.1.1 any4\nfoo bar 10.7.1.2\naccess-group inside_in in interface inside\n"
			case "asa-unbound-acl":
				c.Files["code/router.raw"] = "access-list lonely extended permit ip host 10.7.1.1 any4\n"
			case "asa-doubly-bound":
				c.Files["code/router.raw"] = "access-list both extended permit ip host 10.7.1.1 any4\naccess-group both in interface inside\naccess-group both in interface outside\n"
				c.Files["code/router"] += "access-list outside_in extended permit ip host 10.4.1.2 any4\naccess-group outside_in in interface outside\n"
			case "asa-tunnel-group-map":
				c.Files["code/router.raw"] = "tunnel-group-map default-group DefaultL2LGroup\n"
			}
		case strings.HasPrefix(kind, "ios"):
			c.Family = "ios"
			c.Files = tool.Files{"device": "interface Ethernet0\n ip address 10.1.1.1 255.255.255.0\n",
				"code/router":      "ip access-list extended e0_in\n permit ip host 10.4.1.1 any\ninterface Ethernet0\n ip address 10.1.1.1 255.255.255.0\n ip access-group e0_in in\n",
				"code/router.raw":  "ip access-list extended e0_in\n permit ip host 10.7.1.1 any\nrouter ospf 10.7.1.2\ninterface Ethernet0\n ip access-group e0_in in\n",
				"code/router.info": tool.Info("IOS")}
		case strings.HasPrefix(kind, "linux"):
			c.Family = "linux"
			c.Files = tool.Files{"device": "", "code/router": "*filter\n:INPUT DROP\n:c1 -\n-A c1 -s 10.4.1.2 -j ACCEPT\n-A INPUT -s 10.4.1.1 -j c1\n", "code/router.info": tool.Info("Linux")}
			if kind == "linux-unknown-command" {
				c.Files["code/router.raw"] = "*filter\n:INPUT DROP\n-A INPUT -s 10.7.1.1 -j ACCEPT\nsomething else 10.7.1.2\n"
			} else {
				c.Files["code/router.raw"] = "*filter\n:c1 -\n-A c1 -s 10.7.1.1 -j ACCEPT\n"
			}
		default:
			c.Family = "panos"
			c.Files = tool.Files{
				"device":           `<config><devices><entry name="localhost.localdomain"><vsys><entry name="vsys1"><display-name>netspoc</display-name></entry></vsys></entry></devices></config>` + "\n",
				"code/router":      panFile(panRule("t4x1x1", true, false)),
				"code/router.raw":  panFile(panRule("r7", true, false)),
				"code/router.info": tool.Info("PAN-OS")}
		}
		judge(rt, ev, oracleC18, c, func() any { return c })
	})
}

// NSX: position is defined by sequence_number, so only completeness is
// checked: the effective target (script of 'drc EMPTY NETSPOC' executed on
// an empty store) holds exactly the rules of all parts.
func init() {
	addArm("C18", "nsx", func(rt *rapid.T, ev *evid.Collector) {
		p := nsxm.GenPair(rt, nsxm.GenOpts{})
		p.A = nsxm.NewStore()
		c := nsxCase("C18", p)
		c.Files["device"] = p.A.Print(nsxm.Spelling{})
		judge(rt, ev, oracleC18nsx, c, func() any { return c })
	})
}
