package props

import (
	"regexp"
	"strings"

	"verif/harness/asam"
	"verif/harness/tool"
)

// ASA arms with the VPN part of the configuration (crypto maps, dynamic
// maps, transform-sets / proposals, tunnel-groups, group-policies, users,
// pools, certificate maps, tunnel-group-map / webvpn entries, sysopt). The
// oracles are the ASA oracles; the wrappers add the VPN behaviour classes
// and give analysed defects their own stable signatures.

const familyASAVPN = "asa-vpn"

func asaVPNCase(property string, p *asam.Pair) *Case {
	c := asaCase(property, p)
	c.Family = familyASAVPN
	return c
}

// vpnScriptClasses classifies what the emitted script does to VPN objects.
func vpnScriptClasses(c *Case, steps [][]string) []string {
	seen := map[string]bool{}
	var cl []string
	add := func(s string) {
		if !seen[s] {
			seen[s] = true
			cl = append(cl, s)
		}
	}
	inSub := false
	for _, st := range steps {
		cmd := st[0]
		f := strings.Fields(cmd)
		if len(f) == 0 {
			continue
		}
		tagged := strings.Contains(cmd, "-DRC-")
		switch {
		case cmd == "exit":
			add("asa:subModeExit")
			inSub = false
		case cmd == "webvpn":
			add("asa:webvpnGlobal")
			inSub = true
		case strings.HasPrefix(cmd, "clear configure "):
			add("asa:clearConfigure:" + f[2])
			inSub = false
		case strings.HasPrefix(cmd, "crypto map ") && len(f) == 5 && f[3] == "interface":
			add("asa:cryptoBound")
		case strings.HasPrefix(cmd, "no crypto map ") && len(f) == 6 && f[4] == "interface":
			add("asa:cryptoUnbound")
		case strings.HasPrefix(cmd, "crypto map ") && strings.Contains(cmd, " set peer "):
			add("asa:cryptoEntryAdded")
		case strings.HasPrefix(cmd, "no crypto map ") && strings.Contains(cmd, " set peer "):
			add("asa:cryptoEntryRemoved")
		case strings.HasPrefix(cmd, "crypto map "), strings.HasPrefix(cmd, "no crypto map "):
			add("asa:cryptoEntryEdited")
		case strings.HasPrefix(cmd, "crypto dynamic-map "), strings.HasPrefix(cmd, "no crypto dynamic-map "):
			add("asa:dynamicMapEdited")
		case strings.HasPrefix(cmd, "crypto ipsec "), strings.HasPrefix(cmd, "ip local pool "):
			add("asa:simpleObjectTransferred")
			inSub = strings.Contains(cmd, "ipsec-proposal")
		case strings.HasPrefix(cmd, "no crypto ipsec "), strings.HasPrefix(cmd, "no ip local pool "):
			add("asa:simpleObjectRemoved")
		case f[0] == "group-policy" || f[0] == "tunnel-group" || f[0] == "username" ||
			strings.HasPrefix(cmd, "crypto ca certificate map ") || strings.HasPrefix(cmd, "ldap attribute-map "):
			if tagged && (len(f) > 2 && (f[2] == "internal" || f[2] == "type") || f[0] == "crypto") {
				add("asa:vpnObjectTransferred")
			}
			if f[len(f)-1] == "attributes" || strings.HasSuffix(f[len(f)-1], "-attributes") || f[0] == "crypto" || f[0] == "ldap" {
				inSub = true
				add("asa:subModeEntered")
			}
			if f[0] == "ldap" {
				add("asa:ldapMapEdited")
			}
		case strings.HasPrefix(cmd, "no tunnel-group ") || strings.HasPrefix(cmd, "no group-policy ") || strings.HasPrefix(cmd, "no username "):
			add("asa:attributesReset")
		case strings.HasPrefix(cmd, "tunnel-group-map "), strings.HasPrefix(cmd, "no tunnel-group-map "):
			add("asa:tunnelGroupMapEdited")
			inSub = false
		case strings.Contains(cmd, "certificate-group-map "):
			add("asa:certificateGroupMapEdited")
		case strings.HasPrefix(cmd, "sysopt ") || strings.HasPrefix(cmd, "no sysopt "):
			add("asa:sysopt")
		case inSub && f[0] == "no":
			add("asa:vpnAttrRemoved")
		case inSub && !topLevelWord(f[0]):
			add("asa:vpnAttrSet")
		default:
			if topLevelWord(f[0]) {
				inSub = false
			}
		}
	}
	// Did the match-by-peer logic see an entry under another number?
	if a, err := asam.Parse(c.Files["device"]); err == nil {
		if b, err := asam.Parse(c.Files["code/router"]); err == nil {
			pa, pb := asam.PeerSeqs(a), asam.PeerSeqs(b)
			for peer, seq := range pb {
				if s2, ok := pa[peer]; ok && s2 != seq {
					add("asa:cryptoSeqDiffers")
				}
			}
			if asam.HasVPN(a) {
				add("asa:deviceHasVPN")
			}
			if asam.HasVPN(b) {
				add("asa:targetHasVPN")
			}
		}
	}
	return cl
}

func topLevelWord(w string) bool {
	switch w {
	case "access-list", "object-group", "access-group", "route", "ipv6", "crypto", "ip", "group-policy",
		"tunnel-group", "tunnel-group-map", "username", "clear", "webvpn", "ldap", "aaa-server", "sysopt", "no":
		return true
	}
	return false
}

func vpnSteps(c *Case) [][]string {
	res := tool.CompareStd(c.Files)
	if res.Crashed() || res.Exit != 0 {
		return nil
	}
	return tool.CiscoScript(res.Stdout)
}

// withVPNClasses adds the VPN classes to a verdict; a passing case in which
// VPN logic ran counts as non-trivial.
func withVPNClasses(c *Case, v Verdict) Verdict {
	if v.Status == Uncovered || (v.Status == Discard && v.Reason != "refused-by-model") {
		return v
	}
	steps := vpnSteps(c)
	cl := vpnScriptClasses(c, steps)
	v.Classes = append(v.Classes, cl...)
	if v.Status == Pass && !v.NT && len(steps) > 0 {
		for _, x := range cl {
			if x != "asa:deviceHasVPN" && x != "asa:targetHasVPN" {
				v.NT = c.Files["device"] != ""
			}
		}
	}
	return v
}

// outsideQuantifier sets aside pairs in which the target wants to define an
// object with a fixed name that an unmanaged anchor of the device uses
// (DESIGN App. C: such objects are protected, convergence is not demanded).
func outsideQuantifier(c *Case) *Verdict {
	a, err := asam.Parse(c.Files["device"])
	if err != nil {
		return nil
	}
	b, err := asam.Parse(c.Files["code/router"])
	if err != nil {
		return nil
	}
	if why := asam.ScopeConflict(a, b); why != "" {
		v := discard("scope-conflict")
		return &v
	}
	return nil
}

func oracleC01asaVPN(c *Case) Verdict {
	if v := outsideQuantifier(c); v != nil {
		return *v
	}
	return withVPNClasses(c, vpnSign(c, oracleC01asa(c)))
}

func oracleC07asaVPN(c *Case) Verdict {
	if v := outsideQuantifier(c); v != nil {
		return *v
	}
	// Objects with a fixed name (crypto map, dynamic map, ...) are identified
	// by that name: a device object that no managed anchor uses, but whose
	// name the target defines, is not outside Netspoc's scope in any useful
	// sense; such pairs are set aside.
	if a, err := asam.Parse(c.Files["device"]); err == nil {
		if b, err := asam.Parse(c.Files["code/router"]); err == nil {
			for _, key := range a.VPNFrameOf(asam.ScopeOf(b)).Keys() {
				if !strings.HasPrefix(key, "acl:") && asam.HasObj(b, key) && !strings.HasPrefix(key, "aaa:") && !strings.HasPrefix(key, "ldap:") {
					return discard("scope-conflict")
				}
			}
		}
	}
	v := withVPNClasses(c, vpnSign(c, oracleC07asa(c)))
	if v.Status == Pass {
		if a, err := asam.Parse(c.Files["device"]); err == nil {
			if b, err := asam.Parse(c.Files["code/router"]); err == nil && !a.VPNFrameOf(asam.ScopeOf(b)).Empty() {
				v.Classes = append(v.Classes, "c07:vpn-frame-nonempty")
			}
		}
	}
	return v
}

func oracleC08asaVPN(c *Case) Verdict {
	if v := outsideQuantifier(c); v != nil {
		return *v
	}
	v := withVPNClasses(c, vpnSign(c, oracleC08asa(c)))
	if v.Status == Pass && !v.NT {
		// dependency between commands: an object created earlier is used, a
		// formerly referenced object is deleted, or the mode changes
		n := 0
		for _, x := range v.Classes {
			switch x {
			case "asa:subModeExit", "asa:subModeEntered", "asa:vpnObjectTransferred", "asa:simpleObjectTransferred",
				"asa:simpleObjectRemoved", "asa:webvpnGlobal":
				n++
			}
			if strings.HasPrefix(x, "asa:clearConfigure:") {
				n++
			}
		}
		v.NT = n > 0 && len(vpnSteps(c)) >= 3
	}
	return v
}

func oracleC10asaVPN(c *Case) Verdict {
	if v := outsideQuantifier(c); v != nil {
		return *v
	}
	v := oracleC10asa(c)
	// Not decided: a cut right after the last line of a dynamic map was
	// removed (to be replaced by the next command) while a crypto map entry
	// still names the map. The model then prints the referencing entry
	// without any line of the dynamic map, and the tool rejects that text
	// ("references unknown 'crypto dynamic-map"). Whether a device really
	// shows this state is not known to the model, so no verdict is given.
	if v.Status == Fail && v.Sig == "asa:resume-rejected" && strings.Contains(v.Msg, "references unknown 'crypto dynamic-map") {
		return discard("undecided-empty-dynamic-map")
	}
	return withVPNClasses(c, vpnSign(c, v))
}

// vpnSign replaces the generic signature of a failure by the signature of
// an analysed defect if the case shows its root cause.
func vpnSign(c *Case, v Verdict) Verdict {
	if v.Status != Fail {
		return v
	}
	for _, f := range vpnFindings {
		if f.match(c, v) {
			v.Sig = f.sig
			break
		}
	}
	return v
}

// oracleC16asaVPN: determinism on inputs with VPN ties.
func oracleC16asaVPN(c *Case) Verdict {
	v := oracleC16(c)
	if b, err := asam.Parse(c.Files["code/router"]); err == nil && asam.DuplicatePeer(b) != "" {
		if v.Status == Fail {
			// The target's entries are put into a Go map keyed by peer while
			// ranging over a map of sequence numbers; which of two entries
			// with one peer survives depends on the iteration order.
			v.Sig = "asa:FV4-target-entries-with-same-peer-matched-in-map-iteration-order"
		} else {
			v.Classes = append(v.Classes, "asa-vpn:target-same-peer-twice")
		}
	}
	if v.Status == Pass {
		if a, err := asam.Parse(c.Files["device"]); err == nil && asam.DuplicatePeer(a) != "" {
			v.Classes = append(v.Classes, "asa-vpn:device-same-peer-twice")
		}
	}
	return v
}

type vpnFinding struct {
	sig   string
	match func(c *Case, v Verdict) bool
}

var vpnFindings = []vpnFinding{
	{"asa:FV1-map-entry-kept-when-certificate-map-replaced", isFV1},
	{"asa:FV2-fixed-name-entry-replaced-in-place-old-value-removed-after-new-value-set", isFV2},
	{"asa:FV3-webvpn-block-added-without-exit-from-attributes-mode", isFV3},
	{"asa:F19-resume-rejected-crypto-entry-without-peer", isF19asa},
	{"asa:FV5-aaa-server-placeholder-host-x-sent-to-device", isFV5},
}

var placeholderHostRE = regexp.MustCompile(`^aaa-server \S+ host x$`)

// isFV5: to attach the attribute map to a device aaa-server that lacks the
// "ldap-attribute-map" line, the tool prints the parent command in its own
// normalised form "aaa-server NAME host x" (interface stripped, address
// replaced by the placeholder x) instead of the device's command.
func isFV5(c *Case, v Verdict) bool {
	m := refusedCmdRE.FindStringSubmatch(v.Msg)
	return m != nil && placeholderHostRE.MatchString(m[1])
}

// isF19asa (same root cause as the IOS finding F19): crypto map entries are
// created and deleted line by line; a cut between the lines leaves an
// entry without "set peer", and the next compare aborts with "Missing peer
// or dynamic in crypto map" instead of completing or removing the entry.
func isF19asa(c *Case, v Verdict) bool {
	return v.Sig == "asa:resume-rejected" && strings.Contains(v.Msg, "ERROR>>> Missing peer or dynamic in crypto map")
}

// isFV3: the device has no global "webvpn" block, the target has one; the
// block is transferred as a top-level command with sub-commands, and no
// "exit" is sent although the previous command was a sub-command of
// "username ... attributes" or "group-policy ... attributes". There the
// word "webvpn" opens the user's / policy's own webvpn mode, in which
// "certificate-group-map" does not exist.
func isFV3(c *Case, v Verdict) bool {
	m := refusedCmdRE.FindStringSubmatch(v.Msg)
	if m == nil || !strings.Contains(m[1], "certificate-group-map ") {
		return false
	}
	if !strings.Contains(v.Msg, "attributes/webvpn") {
		return false
	}
	a, err := asam.Parse(c.Files["device"])
	return err == nil && !asam.HasWebvpn(a)
}

var refusedCmdRE = regexp.MustCompile(`(?:command|step \d+) "([^"]*)" (?:would be )?refused`)

// isFV2: a dynamic map (fixed name) whose device lines have nothing in
// common with the target's lines is replaced as a whole, but under the same
// name and number: the new lines are set first, the old ones are removed
// at the end of the script. For a single-valued attribute present on both
// sides with different values (set pfs, lifetime, match address, ...) the
// late "no ... OLD" hits the entry that by then holds the NEW value.
func isFV2(c *Case, v Verdict) bool {
	m := refusedCmdRE.FindStringSubmatch(v.Msg)
	if m == nil || !strings.HasPrefix(m[1], "no ") {
		return false
	}
	attr, val := asam.AttrOf(m[1])
	if attr == "" {
		return false
	}
	for _, st := range vpnSteps(c) {
		for _, cmd := range st {
			if cmd == m[1] {
				return false
			}
			if a2, v2 := asam.AttrOf(cmd); !strings.HasPrefix(cmd, "no ") && a2 == attr && v2 != val {
				return true
			}
		}
	}
	return false
}

// isFV1: the device holds a tunnel-group-map / certificate-group-map entry
// for a certificate subject for which the target has an entry too; the
// script re-issues the entry with ANOTHER certificate map name (the
// target's map was already transferred under a generated name) and never
// removes the device's entry. The device identifies an entry by (map name,
// number), so the old entry stays, its map and tunnel-group stay, and every
// later compare reports a change again.
func isFV1(c *Case, v Verdict) bool {
	switch v.Sig {
	case "asa:not-converged", "asa:second-compare-changes", "asa:unchanged-but-different",
		"asa:resume-not-converged", "asa:resume-third-compare":
	case "asa:refused:in-use", "asa:resume-refused":
		// the stale entry keeps a generated-name map / tunnel-group in use
		// that the clean-up then tries to clear
		if !strings.Contains(v.Msg, "still used by certificate-group-map") && !strings.Contains(v.Msg, "still used by tunnel-group-map") {
			return false
		}
	default:
		return false
	}
	a, err := asam.Parse(c.Files["device"])
	if err != nil {
		return false
	}
	b, err := asam.Parse(c.Files["code/router"])
	if err != nil {
		return false
	}
	ea, eb := asam.MapEntries(a), asam.MapEntries(b)
	script := map[string]bool{}
	var adds [][]string
	for _, st := range vpnSteps(c) {
		for _, cmd := range st {
			script[cmd] = true
			f := strings.Fields(cmd)
			if len(f) == 4 && (f[0] == "tunnel-group-map" || f[0] == "certificate-group-map") {
				adds = append(adds, f)
			}
		}
	}
	for list, word := range map[string]string{"tgm": "tunnel-group-map", "cgm": "certificate-group-map"} {
		for key, have := range ea[list] {
			if _, ok := eb[list][key]; !ok || key == "default-group" {
				continue
			}
			if script["no "+word+" "+have] {
				continue
			}
			// The entry re-issued for the SAME subject names another map.
			oldMap := strings.Fields(have)[0]
			wantMap := strings.Fields(eb[list][key])[0]
			for _, f := range adds {
				base, _, _ := strings.Cut(f[1], "-DRC-")
				if f[0] == word && base == wantMap && f[1] != oldMap {
					return true
				}
			}
		}
	}
	return false
}

func init() {
	register("C07", familyASAVPN, oracleC07asaVPN)
	register("C01", familyASAVPN, withRefusal(oracleC01asaVPN, oracleC08asaVPN))
	register("C08", familyASAVPN, oracleC08asaVPN)
	register("C10", familyASAVPN, oracleC10asaVPN)
	register("C16", familyASAVPN, oracleC16asaVPN)
}
