package props

import (
	"strconv"
	"strings"

	"pgregory.net/rapid"
	"verif/harness/asam"
	"verif/harness/evid"
)

func drawCuts(rt *rapid.T) string {
	if thorough() {
		return "all"
	}
	n := rapid.IntRange(1, 6).Draw(rt, "nCuts")
	var l []string
	for i := 0; i < n; i++ {
		l = append(l, strconv.Itoa(rapid.IntRange(1, 40).Draw(rt, "cut")))
	}
	return strings.Join(l, ",")
}

func init() {
	addArm("C01", "asa", func(rt *rapid.T, ev *evid.Collector) {
		c := asaCase("C01", asam.GenPair(rt, asam.GenOpts{}))
		judge(rt, ev, oracles["C01/asa"], c, func() any { return c })
	})
	addArm("C08", "asa", func(rt *rapid.T, ev *evid.Collector) {
		c := asaCase("C08", asam.GenPair(rt, asam.GenOpts{}))
		judge(rt, ev, oracleC08asa, c, func() any { return c })
	})
	addArm("C10", "asa", func(rt *rapid.T, ev *evid.Collector) {
		c := asaCase("C10", asam.GenPair(rt, asam.GenOpts{}))
		c.Params["cuts"] = drawCuts(rt)
		judge(rt, ev, oracleC10asa, c, func() any { return c })
	})
	addArm("C14", "asa", func(rt *rapid.T, ev *evid.Collector) {
		c := asaCase("C14", asam.GenPair(rt, asam.GenOpts{FixedGroup: true}))
		judge(rt, ev, oracleC14asa, c, func() any { return c })
	})
	// Second ASA arm: groups may differ between device and target, so that
	// lines are replaced because their group cannot be equalized in place;
	// cases with an in-place membership edit of an existing group are
	// discarded by the oracle (outside the property).
	addArm("C14", "asa-groups", func(rt *rapid.T, ev *evid.Collector) {
		c := asaCase("C14", asam.GenPair(rt, asam.GenOpts{}))
		v := judge(rt, ev, oracleC14asa, c, func() any { return c })
		if v.Status == Pass && v.NT {
			ev.Class("c14:groups-arm-nontrivial")
		}
	})
	addArm("C16", "asa", func(rt *rapid.T, ev *evid.Collector) {
		c := asaCase("C16", asam.GenPair(rt, asam.GenOpts{Ties: true}))
		c.Params["ties"] = "1"
		judge(rt, ev, oracleC16, c, func() any { return c })
	})
	addArm("C07", "asa", func(rt *rapid.T, ev *evid.Collector) {
		p := asam.GenPair(rt, asam.GenOpts{Decorate: true})
		c := asaCase("C07", p)
		for _, op := range p.Ops {
			if strings.HasPrefix(op, "dec:") {
				ev.Class(op)
			}
		}
		judge(rt, ev, oracleC07asa, c, func() any { return c })
	})
}
