package props

import (
	"flag"
	"os"
	"testing"

	"verif/harness/evid"
	"verif/harness/tool"
)

var replayFile = flag.String("replayfile", "", "re-evaluate the oracle on a saved case (no generator)")

func TestMain(m *testing.M) {
	flag.Parse()
	code := m.Run()
	tool.Cleanup()
	os.Exit(code)
}

// TestReplay re-runs the oracle of a saved failing case without rapid.
func TestReplay(t *testing.T) { ReplayMain(t, *replayFile) }

// finish writes the evidence of a test at its end.
func finish(t *testing.T, ev *evid.Collector) { Finish(t, ev) }
