package props

import (
	"encoding/json"
	"flag"
	"os"
	"testing"

	"verif/harness/evid"
	"verif/harness/tool"
)

var replayFile = flag.String("replayfile", "", "re-evaluate the oracle on a saved case (no generator)")

func TestMain(m *testing.M) {
	flag.Parse()
	code := m.Run()
	tool.Cleanup()
	os.Exit(code)
}

// TestReplay re-runs the oracle of a saved failing case without rapid.
// Exit status: test fails iff the case still violates the property.
func TestReplay(t *testing.T) {
	if *replayFile == "" {
		t.Skip("no -replayfile")
	}
	data, err := os.ReadFile(*replayFile)
	if err != nil {
		t.Fatalf("INCONCLUSIVE cannot read %s: %v", *replayFile, err)
	}
	var c Case
	if err := json.Unmarshal(data, &c); err != nil {
		t.Fatalf("INCONCLUSIVE cannot parse %s: %v", *replayFile, err)
	}
	o := oracles[c.Property+"/"+c.Family]
	if o == nil {
		t.Fatalf("INCONCLUSIVE no oracle for %s/%s", c.Property, c.Family)
	}
	v := o(&c)
	switch v.Status {
	case Fail:
		t.Fatalf("REPLAY-FAIL property=%s sig=%s\n%s", c.Property, v.Sig, v.Msg)
	case Pass:
		t.Logf("REPLAY-PASS")
	default:
		t.Logf("REPLAY-NA %s", v.Reason)
	}
}

// finish writes the evidence of a test at its end.
func finish(t *testing.T, ev *evid.Collector) {
	t.Cleanup(func() { ev.Write() })
}
