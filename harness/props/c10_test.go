package props

import (
	"strconv"
	"strings"
	"testing"

	"pgregory.net/rapid"
	"verif/harness/asam"
	"verif/harness/evid"
	"verif/harness/iosm"
)

const ruleC10 = "generated pairs; the emitted script is cut after k single commands (halves of joined lines and sub-mode lines count separately; quick: up to 6 drawn k, thorough: all k); " +
	"the tool is re-run against the printed prefix state; non-trivial = at least one cut 0<k<n evaluated; distinct = hash of input files + cuts"

func drawCuts(rt *rapid.T) string {
	if thorough() {
		return "all"
	}
	n := rapid.IntRange(1, 6).Draw(rt, "nCuts")
	var l []string
	for i := 0; i < n; i++ {
		l = append(l, strconv.Itoa(rapid.IntRange(1, 40).Draw(rt, "cut")))
	}
	return strings.Join(l, ",")
}

func TestC10(t *testing.T) {
	ev := evid.New("C10", ruleC10)
	finish(t, ev)
	t.Run("asa", func(t *testing.T) {
		rapid.Check(t, func(rt *rapid.T) {
			p := asam.GenPair(rt, asam.GenOpts{})
			c := asaCase("C10", p)
			c.Params["cuts"] = drawCuts(rt)
			judge(rt, ev, oracleC10asa, c, func() any { return c })
		})
	})
	t.Run("ios", func(t *testing.T) {
		rapid.Check(t, func(rt *rapid.T) {
			p := iosm.GenPair(rt, iosm.GenOpts{})
			c := iosCase("C10", p)
			c.Params["cuts"] = drawCuts(rt)
			judge(rt, ev, oracleC10ios, c, func() any { return c })
		})
	})
}
