package props

import (
	"strings"

	"pgregory.net/rapid"
	"verif/harness/evid"
	"verif/harness/iosm"
)

func init() {
	addArm("C02", "ios", func(rt *rapid.T, ev *evid.Collector) {
		c := iosCase("C02", iosm.GenPair(rt, iosm.GenOpts{}))
		judge(rt, ev, oracles["C02/ios"], c, func() any { return c })
	})
	addArm("C08", "ios", func(rt *rapid.T, ev *evid.Collector) {
		c := iosCase("C08", iosm.GenPair(rt, iosm.GenOpts{}))
		judge(rt, ev, oracleC08ios, c, func() any { return c })
	})
	addArm("C10", "ios", func(rt *rapid.T, ev *evid.Collector) {
		c := iosCase("C10", iosm.GenPair(rt, iosm.GenOpts{}))
		c.Params["cuts"] = drawCuts(rt)
		judge(rt, ev, oracleC10ios, c, func() any { return c })
	})
	addArm("C14", "ios", func(rt *rapid.T, ev *evid.Collector) {
		c := iosCase("C14", iosm.GenPair(rt, iosm.GenOpts{}))
		judge(rt, ev, oracleC14ios, c, func() any { return c })
	})
	addArm("C16", "ios", func(rt *rapid.T, ev *evid.Collector) {
		c := iosCase("C16", iosm.GenPair(rt, iosm.GenOpts{Ties: true}))
		c.Params["ties"] = "1"
		judge(rt, ev, oracleC16, c, func() any { return c })
	})
	addArm("C07", "ios", func(rt *rapid.T, ev *evid.Collector) {
		p := iosm.GenPair(rt, iosm.GenOpts{Decorate: true})
		c := iosCase("C07", p)
		for _, op := range p.Ops {
			if strings.HasPrefix(op, "dec:") {
				ev.Class("ios:" + op)
			}
		}
		judge(rt, ev, oracleC07ios, c, func() any { return c })
	})
}
