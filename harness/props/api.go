package props

import (
	"encoding/json"
	"os"
	"testing"

	"pgregory.net/rapid"

	"verif/harness/asam"
	"verif/harness/evid"
	"verif/harness/iosm"
	"verif/harness/linuxm"
	"verif/harness/nsxm"
	"verif/harness/panm"
)

// Exported surface for checks that live in their own package (one test
// binary per package; the driver builds the package named in its table).

func Register(property, family string, o Oracle) { register(property, family, o) }

func Judge(t interface {
	Fatalf(string, ...any)
	Logf(string, ...any)
}, ev *evid.Collector, o Oracle, c *Case, sample func() any) Verdict {
	return judge(t, ev, o, c, sample)
}

func PassV(nt bool, classes ...string) Verdict   { return pass(nt, classes...) }
func FailV(sig, format string, a ...any) Verdict { return fail(sig, format, a...) }
func DiscardV(reason string) Verdict             { return discard(reason) }
func UncoveredV(reason string) Verdict           { return uncovered(reason) }
func Tier() string                               { return tier() }
func Thorough() bool                             { return thorough() }
func EnvInt(name string, def int) int            { return envInt(name, def) }
func Finish(t *testing.T, ev *evid.Collector)    { t.Cleanup(func() { ev.Write() }) }
func RepoDir() string                            { return repoDir() }
func VerifDir() string                           { return verifDir() }

// ReplayMain re-runs the oracle of a saved failing case without the
// generator. The test fails iff the case still violates the property.
func ReplayMain(t *testing.T, file string) {
	if file == "" {
		t.Skip("no -replayfile")
	}
	data, err := os.ReadFile(file)
	if err != nil {
		t.Fatalf("INCONCLUSIVE cannot read %s: %v", file, err)
	}
	var c Case
	if err := json.Unmarshal(data, &c); err != nil {
		t.Fatalf("INCONCLUSIVE cannot parse %s: %v", file, err)
	}
	o := oracles[c.Property+"/"+c.Family]
	if o == nil {
		t.Fatalf("INCONCLUSIVE no oracle for %s/%s", c.Property, c.Family)
	}
	v := o(&c)
	switch v.Status {
	case Fail:
		t.Fatalf("REPLAY-FAIL property=%s sig=%s\n%s", c.Property, v.Sig, v.Msg)
	case Pass:
		t.Logf("REPLAY-PASS")
	default:
		t.Logf("REPLAY-NA %s", v.Reason)
	}
}

// GenCase draws a device/target pair of the family from its model's
// generator and returns it as a case of the given property (used by C20's
// structural mutants).
func GenCase(rt *rapid.T, family, property string) *Case {
	switch family {
	case "asa":
		return asaCase(property, asam.GenPair(rt, asam.GenOpts{Decorate: true}))
	case familyASAVPN:
		c := asaVPNCase(property, asam.GenPair(rt, asam.GenOpts{VPN: true, Decorate: true}))
		return c
	case "ios":
		return iosCase(property, iosm.GenPair(rt, iosm.GenOpts{Decorate: true}))
	case "panos":
		return panCase(property, panm.GenPair(rt, panm.GenOpts{}))
	case "nsx":
		return nsxCase(property, nsxm.GenPair(rt, nsxm.GenOpts{}))
	case "linux":
		return linuxCase(property, linuxm.GenPair(rt, linuxm.GenOpts{Routes: true}))
	}
	return nil
}
