package props

import (
	"errors"
	"fmt"
	"strconv"
	"strings"

	"verif/harness/panm"
	"verif/harness/tool"
)

func panSpelling(bits int) panm.Spelling {
	return panm.Spelling{Pretty: bits&1 != 0, Envelope: bits&2 != 0}
}

func panSpellingBits(sp panm.Spelling) int {
	b := 0
	if sp.Pretty {
		b |= 1
	}
	if sp.Envelope {
		b |= 2
	}
	return b
}

func panCase(property string, p *panm.Pair) *Case {
	return &Case{
		Property: property,
		Family:   "panos",
		Files: tool.Files{
			"device":           p.A.State(true).Print(p.Sp),
			"code/router":      p.B.State(false).Print(panm.Spelling{}),
			"code/router.info": tool.Info("PAN-OS"),
		},
		Params: map[string]string{"spelling": strconv.Itoa(panSpellingBits(p.Sp))},
		Gen:    p.Mode + " " + strings.Join(p.Ops, ","),
	}
}

type panRun struct {
	res      tool.Result
	a, b     *panm.State
	cmds     []panm.Cmd
	states   []*panm.State
	final    *panm.State
	refusal  *panm.Refusal
	refStep  int
	targeted []string
}

func panTarget(c *Case) (*panm.State, error) {
	if c.Files["code/ipv6/router"] != "" || c.Files["code/router.raw"] != "" {
		return nil, &panm.ErrUnsupported{What: "v6/raw merge handled by C18 only"}
	}
	return panm.Parse(c.Files["code/router"])
}

func panCmdText(c panm.Cmd) string {
	s := "action=" + c.Action + " xpath=" + c.XPath
	if c.Element != "" {
		s += " element=" + c.Element
	}
	if c.Where != "" {
		s += " where=" + c.Where + " dst=" + c.Dst
	}
	return s
}

func panScriptText(l []panm.Cmd) string {
	var b strings.Builder
	for i, c := range l {
		fmt.Fprintf(&b, "%3d: %s\n", i+1, panCmdText(c))
	}
	return b.String()
}

func runPAN(c *Case, keepStates bool) (r *panRun, early *Verdict) {
	r = &panRun{}
	ret := func(v Verdict) (*panRun, *Verdict) { return r, &v }
	var err error
	if r.a, err = panm.Parse(c.Files["device"]); err != nil {
		return ret(uncovered("device: " + err.Error()))
	}
	if r.b, err = panTarget(c); err != nil {
		return ret(uncovered("target: " + err.Error()))
	}
	if err := r.a.CheckRefs(); err != nil {
		return ret(uncovered("device references objects outside its vsys: " + err.Error()))
	}
	r.targeted = r.b.VsysNames()
	r.res = tool.CompareStd(c.Files)
	if r.res.Crashed() {
		return ret(discard("crash"))
	}
	if r.res.Exit != 0 {
		return ret(discard("rejected"))
	}
	if r.cmds, err = panm.ParseScript(r.res.Stdout); err != nil {
		return ret(uncovered("script: " + err.Error()))
	}
	st := r.a.Clone()
	for i, cmd := range r.cmds {
		err := st.Exec(cmd)
		if err != nil {
			var ref *panm.Refusal
			if errors.As(err, &ref) {
				if r.refusal == nil {
					r.refusal, r.refStep = ref, i
				}
			} else {
				return ret(uncovered("exec: " + err.Error()))
			}
		}
		if keepStates {
			r.states = append(r.states, st.Clone())
		}
	}
	r.final = st
	return r, nil
}

// panIsF21 recognises the known root cause F21: the members of a
// service-group that exists on the device under the same name are sent with
// action=set, which adds to the member list instead of replacing it.
func panIsF21(r *panRun) bool {
	if panm.ReplaceServiceGroupMembers {
		return false
	}
	for _, c := range r.cmds {
		if c.Action == "set" && strings.HasSuffix(c.XPath, "/members") && strings.Contains(c.XPath, "/service-group/entry[@name='") {
			i := strings.Index(c.XPath, "/service-group/entry[@name='") + len("/service-group/entry[@name='")
			name := c.XPath[i : len(c.XPath)-len("']/members")]
			for _, vn := range r.a.VsysNames() {
				if strings.Contains(c.XPath, "/vsys/entry[@name='"+vn+"']") {
					if g := r.a.Vsys(vn).Path("service-group"); g != nil && g.Entry(name) != nil {
						return true
					}
				}
			}
		}
	}
	return false
}

const sigF21 = "pan:F21-service-group-members-set-merges-instead-of-replacing"

// panF21 keeps the signature of known finding F21 only for failures that
// F21 fully explains: the case is judged once more on a device model in
// which "set .../service-group/.../members" replaces the list (what the
// right action would do). If the case still fails there, the failure is
// independent of F21 and is reported under its own signature.
func panF21(oracle func(*Case) Verdict) func(*Case) Verdict {
	return func(c *Case) Verdict {
		v := oracle(c)
		if v.Status != Fail || v.Sig != sigF21 {
			return v
		}
		panm.ReplaceServiceGroupMembers = true
		v2 := oracle(c)
		panm.ReplaceServiceGroupMembers = false
		if v2.Status == Fail {
			v2.Msg = "(fails also when service-group members are replaced, i.e. independent of known finding F21)\n" + v2.Msg
			return v2
		}
		return v
	}
}

func panClasses(r *panRun) []string {
	seen := map[string]bool{}
	var cl []string
	add := func(s string) {
		if !seen[s] {
			seen[s] = true
			cl = append(cl, s)
		}
	}
	for _, c := range r.cmds {
		switch {
		case c.Action == "move":
			add("pan:move")
		case c.Action == "edit" && strings.Contains(c.XPath, "/rules/"):
			add("pan:editRuleMembers")
		case c.Action == "edit":
			add("pan:editObject")
		case c.Action == "delete" && strings.Contains(c.XPath, "/member["):
			add("pan:incrementalDelete")
		case c.Action == "set" && (strings.HasSuffix(c.XPath, "/static") || strings.HasSuffix(c.XPath, "/source") || strings.HasSuffix(c.XPath, "/destination")):
			add("pan:incrementalSet")
		case c.Action == "delete" && strings.Contains(c.XPath, "/address-group/"):
			add("pan:groupDelete")
		case c.Action == "delete" && strings.Contains(c.XPath, "/rules/"):
			add("pan:ruleDelete")
		case c.Action == "set" && strings.Contains(c.XPath, "/rules/"):
			add("pan:ruleSet")
		}
	}
	return cl
}

func panCtx(c *Case, r *panRun) string {
	return fmt.Sprintf("--- device\n%s--- target\n%s--- script\n%s--- stderr\n%s",
		c.Files["device"], c.Files["code/router"], panScriptText(r.cmds), r.res.Stderr)
}

// ------------------------------------------------------------------ C03

func oracleC03pan(c *Case) Verdict {
	r, early := runPAN(c, false)
	if early != nil {
		return *early
	}
	classes := panClasses(r)
	if r.refusal != nil {
		return Verdict{Status: Discard, Reason: "refused-by-model", Classes: classes}
	}
	want := r.b.Canon(r.targeted)
	got := r.final.Canon(r.targeted)
	if got != want {
		sig := "pan:not-converged"
		if panIsF21(r) {
			sig = "pan:F21-service-group-members-set-merges-instead-of-replacing"
		}
		return fail(sig, "executing the script does not yield the target rulebase\n--- got\n%s\n--- want\n%s\n%s", got, want, panCtx(c, r))
	}
	if len(r.cmds) == 0 {
		if !r.res.Unchanged() {
			return fail("pan:marker", "empty script without 'device unchanged'\n%s", panCtx(c, r))
		}
		if r.a.Canon(r.targeted) != want {
			return fail("pan:unchanged-but-different", "'device unchanged' for a vsys that is not equivalent\n--- device\n%s\n--- want\n%s\n%s",
				r.a.Canon(r.targeted), want, panCtx(c, r))
		}
	} else if !r.res.Changed() {
		return fail("pan:marker", "non-empty script without 'device changed'\n%s", panCtx(c, r))
	}
	bits, _ := strconv.Atoi(c.Param("spelling"))
	f2 := tool.Files{}
	for k, v := range c.Files {
		f2[k] = v
	}
	f2["device"] = r.final.Print(panSpelling(bits))
	res2 := tool.CompareStd(f2)
	if res2.Crashed() || res2.Exit != 0 {
		return fail("pan:second-compare-rejected", "second compare fails: exit %d\n%s\n%s\n--- device after\n%s\n%s",
			res2.Exit, res2.Stderr, res2.Panic, f2["device"], panCtx(c, r))
	}
	if res2.Stdout != "" || !res2.Unchanged() {
		sig := "pan:second-compare-changes"
		if panIsF21(r) {
			sig = "pan:F21-service-group-members-set-merges-instead-of-replacing"
		}
		return fail(sig, "second compare still reports changes:\n%s\n--- device after\n%s\n%s",
			res2.Stdout, f2["device"], panCtx(c, r))
	}
	nt := false
	for _, cl := range classes {
		if cl == "pan:move" || cl == "pan:incrementalDelete" || cl == "pan:incrementalSet" || cl == "pan:editRuleMembers" {
			nt = true
		}
	}
	return pass(nt, classes...)
}

// ------------------------------------------------------------------ C08

func oracleC08pan(c *Case) Verdict {
	r, early := runPAN(c, false)
	if early != nil {
		return *early
	}
	if r.refusal != nil {
		sig := "pan:refused:" + r.refusal.Rule
		if panIsF21(r) {
			sig = "pan:F21-service-group-members-set-merges-instead-of-replacing"
		}
		return fail(sig, "command %d (%s) would be refused by the device: %s\n%s",
			r.refStep+1, panCmdText(r.cmds[r.refStep]), r.refusal.Msg, panCtx(c, r))
	}
	dep := false
	for _, cmd := range r.cmds {
		if cmd.Action == "delete" && !strings.Contains(cmd.XPath, "/rules/") || cmd.Action == "move" ||
			cmd.Action == "set" && !strings.Contains(cmd.XPath, "/rules/") {
			dep = true
		}
	}
	return pass(len(r.cmds) >= 3 && dep, panClasses(r)...)
}

// ------------------------------------------------------------------ C10

func oracleC10pan(c *Case) Verdict {
	r, early := runPAN(c, false)
	if early != nil {
		return *early
	}
	if r.refusal != nil {
		return discard("first-run-refused")
	}
	if len(r.cmds) < 2 {
		return pass(false)
	}
	want := r.b.Canon(r.targeted)
	bits, _ := strconv.Atoi(c.Param("spelling"))
	sp := panSpelling(bits)
	var classes []string
	nt := false
	for _, k := range parseCuts(c.Param("cuts"), len(r.cmds)) {
		st := r.a.Clone()
		for _, cmd := range r.cmds[:k] {
			if err := st.Exec(cmd); err != nil {
				return uncovered("prefix exec: " + err.Error())
			}
		}
		f2 := tool.Files{}
		for n, v := range c.Files {
			f2[n] = v
		}
		f2["device"] = st.Print(sp)
		ctx := func() string {
			return fmt.Sprintf("cut after command %d of %d\n--- original device\n%s--- target\n%s--- first script\n%s--- device at cut\n%s",
				k, len(r.cmds), c.Files["device"], c.Files["code/router"], panScriptText(r.cmds), f2["device"])
		}
		res := tool.CompareStd(f2)
		if res.Crashed() {
			return fail("pan:resume-crash", "resumed compare crashed: %s\n%s", res.Panic, ctx())
		}
		if res.Exit != 0 {
			return fail("pan:resume-rejected", "resumed compare rejected the half-changed device:\n%s\n%s", res.Stderr, ctx())
		}
		cmds2, err := panm.ParseScript(res.Stdout)
		if err != nil {
			return uncovered("script2: " + err.Error())
		}
		for i, cmd := range cmds2 {
			if err := st.Exec(cmd); err != nil {
				var u *panm.ErrUnsupported
				if errors.As(err, &u) {
					return uncovered("resume exec: " + err.Error())
				}
				if panIsF21(&panRun{a: r.a, cmds: cmds2}) || panIsF21(r) {
					return fail("pan:F21-service-group-members-set-merges-instead-of-replacing", "resumed script command %d (%s) refused: %v", i+1, panCmdText(cmd), err)
				}
				return fail("pan:resume-refused", "resumed script command %d (%s) refused: %v\n--- second script\n%s%s",
					i+1, panCmdText(cmd), err, panScriptText(cmds2), ctx())
			}
		}
		if got := st.Canon(r.targeted); got != want {
			sig := "pan:resume-not-converged"
			if panIsF21(&panRun{a: r.a, cmds: cmds2}) || panIsF21(r) {
				sig = "pan:F21-service-group-members-set-merges-instead-of-replacing"
			}
			return fail(sig, "resumed approve does not reach the target\n--- got\n%s\n--- want\n%s\n--- second script\n%s%s",
				got, want, panScriptText(cmds2), ctx())
		}
		f3 := tool.Files{}
		for n, v := range c.Files {
			f3[n] = v
		}
		f3["device"] = st.Print(sp)
		res3 := tool.CompareStd(f3)
		if res3.Crashed() || res3.Exit != 0 || res3.Stdout != "" {
			sig := "pan:resume-third-compare"
			if panIsF21(&panRun{a: r.a, cmds: cmds2}) || panIsF21(r) {
				sig = "pan:F21-service-group-members-set-merges-instead-of-replacing"
			}
			return fail(sig, "compare after resumed approve not empty (exit %d):\n%s%s\n--- second script\n%s--- device after resume\n%s%s",
				res3.Exit, res3.Stdout, res3.Stderr, panScriptText(cmds2), f3["device"], ctx())
		}
		if k < len(r.cmds) && r.cmds[k].Action == "move" {
			classes = append(classes, "cut:between-set-and-move")
		}
		classes = append(classes, "cut:evaluated")
		nt = true
	}
	return pass(nt, classes...)
}

// ------------------------------------------------------------------ C07

func oracleC07pan(c *Case) Verdict {
	r, early := runPAN(c, true)
	if early != nil {
		return *early
	}
	frame := r.a.FrameText(r.targeted)
	if r.refusal != nil {
		// A command that the device model refuses is C08's business,
		// unless it addresses something outside the targeted vsys: the
		// attempt itself is then what C07 forbids.
		cmd := r.cmds[r.refStep]
		inside := false
		for _, vn := range r.targeted {
			inside = inside || strings.Contains(cmd.XPath, "/vsys/entry[@name='"+vn+"']")
		}
		if !inside {
			return fail("pan:outside-vsys-attempted", "command %d (%s) addresses configuration outside the targeted vsys (the device model refuses: %s)\n%s",
				r.refStep+1, panCmdText(cmd), r.refusal.Msg, panCtx(c, r))
		}
	}
	for i, st := range r.states {
		if r.refusal != nil && i >= r.refStep {
			return discard("refused-by-model")
		}
		if f := st.FrameText(r.targeted); f != frame {
			return fail("pan:frame-changed", "command %d (%s) changes configuration outside the targeted vsys\n--- before\n%s\n--- after\n%s\n%s",
				i+1, panCmdText(r.cmds[i]), frame, f, panCtx(c, r))
		}
	}
	if r.refusal != nil {
		return discard("refused-by-model")
	}
	nt := len(r.cmds) > 0 && len(r.a.VsysNames()) > len(r.targeted)
	return pass(nt, panClasses(r)...)
}

func init() {
	register("C03", "panos", withRefusal(panF21(oracleC03pan), panF21(oracleC08pan)))
	register("C08", "panos", panF21(oracleC08pan))
	register("C10", "panos", panF21(oracleC10pan))
	register("C07", "panos", oracleC07pan)
	register("C16", "panos", oracleC16)
}
