package props

import (
	"errors"
	"fmt"
	"sort"
	"strings"
	"testing"

	"verif/harness/asam"
	"verif/harness/iosm"
	"verif/harness/tool"
)

// TestCorpusASA calibrates the ASA model on the repository's own expected
// outputs: executing the maintainers' expected script on model(DEVICE) must
// be accepted by the strict model and must end equivalent to NETSPOC.
func TestCorpusASA(t *testing.T) {
	triples, err := LoadCorpus()
	if err != nil {
		t.Fatal(err)
	}
	covered, total := 0, 0
	reasons := map[string]int{}
	var bad []string
	for _, tr := range triples {
		if tr.Family != "asa" || tr.Scenario || !tr.HasOutput || tr.Error != "" {
			continue
		}
		total++
		c := &Case{Family: "asa", Files: tr.Files}
		a, err := asam.Parse(tr.Files["device"])
		if err != nil {
			reasons["device: "+clip(err.Error(), 50)]++
			continue
		}
		b, err := asaTarget(c)
		if err != nil {
			reasons["target: "+clip(err.Error(), 50)]++
			continue
		}
		st := a.Clone()
		ok := true
		unsup := false
		for i, step := range tool.CiscoScript(tr.Output) {
			for _, cmd := range step {
				if err := st.Exec(cmd); err != nil {
					var u *asam.ErrUnsupported
					if errors.As(err, &u) {
						reasons["exec: "+clip(err.Error(), 50)]++
						unsup = true
					} else {
						bad = append(bad, fmt.Sprintf("%s/%s: step %d %q: %v", tr.File, tr.Title, i+1, cmd, err))
						ok = false
					}
					break
				}
			}
			if !ok || unsup {
				break
			}
		}
		if unsup || !ok {
			continue
		}
		st.EndSession()
		sc := asam.ScopeOf(b)
		if got, want := st.Canon(sc), b.Canon(sc); got != want {
			bad = append(bad, fmt.Sprintf("%s/%s: not equivalent after expected output\n--- got\n%s\n--- want\n%s", tr.File, tr.Title, got, want))
			continue
		}
		covered++
	}
	keys := make([]string, 0, len(reasons))
	for k := range reasons {
		keys = append(keys, k)
	}
	sort.Strings(keys)
	for _, k := range keys {
		t.Logf("uncovered %3d  %s", reasons[k], k)
	}
	t.Logf("ASA corpus: %d covered of %d", covered, total)
	if len(bad) > 0 {
		t.Fatalf("model disagrees with the maintainers' expected outputs (model error or defect):\n%s", strings.Join(bad, "\n\n"))
	}
}

// TestCorpusIOS calibrates the IOS model on the repository's expected outputs.
func TestCorpusIOS(t *testing.T) {
	triples, err := LoadCorpus()
	if err != nil {
		t.Fatal(err)
	}
	covered, total := 0, 0
	reasons := map[string]int{}
	var bad []string
	for _, tr := range triples {
		if tr.Family != "ios" || tr.Scenario || !tr.HasOutput || tr.Error != "" {
			continue
		}
		total++
		c := &Case{Family: "ios", Files: tr.Files}
		a, err := iosm.Parse(tr.Files["device"])
		if err != nil {
			reasons["device: "+clip(err.Error(), 50)]++
			continue
		}
		b, err := iosTarget(c)
		if err != nil {
			reasons["target: "+clip(err.Error(), 50)]++
			continue
		}
		st := a.Clone()
		ok, unsup := true, false
	STEPS:
		for i, step := range tool.CiscoScript(tr.Output) {
			for _, cmd := range step {
				if err := st.Exec(cmd); err != nil {
					var u *iosm.ErrUnsupported
					if errors.As(err, &u) {
						reasons["exec: "+clip(err.Error(), 50)]++
						unsup = true
					} else {
						bad = append(bad, fmt.Sprintf("%s/%s: step %d %q: %v", tr.File, tr.Title, i+1, cmd, err))
						ok = false
					}
					break STEPS
				}
			}
		}
		if unsup || !ok {
			continue
		}
		st.EndSession()
		sc := iosm.ScopeOf(b)
		if got, want := st.Canon(sc), b.Canon(sc); got != want {
			bad = append(bad, fmt.Sprintf("%s/%s: not equivalent after expected output\n--- got\n%s\n--- want\n%s", tr.File, tr.Title, got, want))
			continue
		}
		covered++
	}
	keys := make([]string, 0, len(reasons))
	for k := range reasons {
		keys = append(keys, k)
	}
	sort.Strings(keys)
	for _, k := range keys {
		t.Logf("uncovered %3d  %s", reasons[k], k)
	}
	t.Logf("IOS corpus: %d covered of %d", covered, total)
	if len(bad) > 0 {
		t.Fatalf("model disagrees with the maintainers' expected outputs (model error or defect):\n%s", strings.Join(bad, "\n\n"))
	}
}
