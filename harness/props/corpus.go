package props

import (
	"os"
	"path"
	"path/filepath"
	"regexp"
	"strings"

	"github.com/hknutzen/testtxt"
	"verif/harness/tool"
)

// Triple is one (DEVICE, NETSPOC, expected OUTPUT) example of the
// repository's own suite; used to calibrate the models.
type Triple struct {
	File, Title, Family string
	Files               tool.Files
	Output              string // expected stdout, continuation lines joined
	HasOutput           bool
	Error, Warning      string
	Scenario            bool
}

type corpusDescr struct {
	Title     string
	Device    string
	Scenario  string
	Netspoc   string
	Options   string
	Params    string
	Setup     string
	Output    string
	Warning   string
	Error     string
	DoApprove bool
	Todo      bool
}

func repoDir() string {
	if v := os.Getenv("VERIF_REPO"); v != "" {
		return v
	}
	return "/repo"
}

var markerRE = regexp.MustCompile(`(?ms)^-+[ ]*\S+[ ]*\n`)

// splitFiles mirrors testtxt.PrepareInDir without touching the disk.
func splitFiles(dir, single, input string) tool.Files {
	res := tool.Files{}
	if input == "NONE" {
		input = ""
	}
	il := markerRE.FindAllStringIndex(input, -1)
	if il == nil {
		res[path.Join(dir, single)] = input
		return res
	}
	for i, p := range il {
		marker := input[p[0] : p[1]-1]
		name := strings.Trim(marker, "- ")
		end := len(input)
		if i+1 < len(il) {
			end = il[i+1][0]
		}
		res[path.Join(dir, name)] = input[p[1]:end]
	}
	return res
}

var contRE = regexp.MustCompile(`\n +`)

func familyOfFile(base string) (family, model string) {
	prefix, _, _ := strings.Cut(strings.TrimSuffix(base, ".t"), "_")
	switch prefix {
	case "asa":
		return "asa", "ASA"
	case "ios":
		return "ios", "IOS"
	case "linux":
		return "linux", "Linux"
	case "nsx":
		return "nsx", "NSX"
	case "pan-os":
		return "panos", "PAN-OS"
	}
	return "", ""
}

// LoadCorpus reads all file-compare examples of go/testdata/*.t.
func LoadCorpus() ([]Triple, error) {
	files, _ := filepath.Glob(filepath.Join(repoDir(), "go/testdata/*.t"))
	var res []Triple
	for _, file := range files {
		base := path.Base(file)
		fam, model := familyOfFile(base)
		if fam == "" {
			continue
		}
		var l []corpusDescr
		if err := testtxt.ParseFile(file, &l); err != nil {
			return nil, err
		}
		for _, d := range l {
			if d.Todo {
				continue
			}
			t := Triple{File: base, Title: d.Title, Family: fam, Error: d.Error, Warning: d.Warning,
				Scenario: d.Scenario != ""}
			t.Files = splitFiles("code", "router", d.Netspoc)
			_, has4 := t.Files["code/router.info"]
			_, has6 := t.Files["code/ipv6/router.info"]
			if !has4 && !has6 {
				t.Files["code/router.info"] = tool.Info(model)
			}
			t.Files["device"] = d.Device
			if d.Output != "" {
				t.HasOutput = true
				out := d.Output
				if out == "NONE" {
					out = ""
				}
				t.Output = contRE.ReplaceAllString(out, "")
			}
			res = append(res, t)
		}
	}
	return res, nil
}
