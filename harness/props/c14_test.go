package props

import (
	"testing"

	"pgregory.net/rapid"
	"verif/harness/asam"
	"verif/harness/evid"
	"verif/harness/iosm"
)

const ruleC14 = "pairs (old ACL, new ACL) over a tiny address/port universe with heavy overlap, groups identical on both sides; after every step of the script every packet of the universe on which old and new agree must get that verdict from the currently bound ACL; " +
	"non-trivial = script has >= 2 steps and some packets agree; distinct = hash of input files"

func TestC14(t *testing.T) {
	ev := evid.New("C14", ruleC14)
	finish(t, ev)
	t.Run("asa", func(t *testing.T) {
		rapid.Check(t, func(rt *rapid.T) {
			p := asam.GenPair(rt, asam.GenOpts{FixedGroup: true})
			c := asaCase("C14", p)
			judge(rt, ev, oracleC14asa, c, func() any { return c })
		})
	})
	// Second ASA arm: groups may differ between device and target, so that
	// lines are replaced because their group cannot be equalized in place;
	// cases with an in-place membership edit of an existing group are
	// discarded by the oracle (outside the property).
	t.Run("asa-groups", func(t *testing.T) {
		rapid.Check(t, func(rt *rapid.T) {
			p := asam.GenPair(rt, asam.GenOpts{})
			c := asaCase("C14", p)
			v := judge(rt, ev, oracleC14asa, c, func() any { return c })
			if v.Status == Pass && v.NT {
				ev.Class("c14:groups-arm-nontrivial")
			}
		})
	})
	t.Run("ios", func(t *testing.T) {
		rapid.Check(t, func(rt *rapid.T) {
			p := iosm.GenPair(rt, iosm.GenOpts{})
			c := iosCase("C14", p)
			judge(rt, ev, oracleC14ios, c, func() any { return c })
		})
	})
}
