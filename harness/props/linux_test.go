package props

import (
	"errors"
	"fmt"
	"sort"
	"strings"
	"testing"

	"pgregory.net/rapid"
	"verif/harness/evid"
	"verif/harness/linuxm"
)

func TestC05(t *testing.T) { runArms(t, "C05", ruleC05) }

func linuxGenClasses(ev *evid.Collector, p *linuxm.Pair) {
	seen := map[string]bool{}
	for _, op := range p.Ops {
		if !seen[op] {
			seen[op] = true
			ev.Class("gen:" + op)
		}
	}
}

func init() {
	addArm("C05", "linux-routes", func(rt *rapid.T, ev *evid.Collector) {
		p := linuxm.GenPair(rt, linuxm.GenOpts{Routes: true})
		linuxGenClasses(ev, p)
		c := linuxCase("C05", p)
		judge(rt, ev, oracleC05linux, c, func() any { return c })
	})
	addArm("C05", "linux-iptables", func(rt *rapid.T, ev *evid.Collector) {
		p := linuxm.GenPair(rt, linuxm.GenOpts{IPT: true, Routes: rapid.IntRange(0, 3).Draw(rt, "alsoRoutes") == 0})
		linuxGenClasses(ev, p)
		c := linuxCase("C05", p)
		judge(rt, ev, oracleC05linux, c, func() any { return c })
	})
	addArm("C10", "linux", func(rt *rapid.T, ev *evid.Collector) {
		p := linuxm.GenPair(rt, linuxm.GenOpts{Routes: true, IPT: rapid.Bool().Draw(rt, "withIptables")})
		c := linuxCase("C10", p)
		c.Params["cuts"] = drawCuts(rt)
		judge(rt, ev, oracleC10linux, c, func() any { return c })
	})
	addArm("C14", "linux-routes", func(rt *rapid.T, ev *evid.Collector) {
		p := linuxm.GenPair(rt, linuxm.GenOpts{Routes: true})
		linuxGenClasses(ev, p)
		c := linuxCase("C14", p)
		judge(rt, ev, oracleC14linux, c, func() any { return c })
	})
	addArm("C16", "linux", func(rt *rapid.T, ev *evid.Collector) {
		p := linuxm.GenPair(rt, linuxm.GenOpts{Routes: true, IPT: true, Ties: true})
		c := linuxCase("C16", p)
		if p.Ties > 0 {
			c.Params["ties"] = "1"
		}
		judge(rt, ev, oracleC16linux, c, func() any { return c })
	})
}

// TestCorpusLinux calibrates the Linux model on the repository's expected
// outputs: executing the maintainers' expected output on model(DEVICE) must
// not be refused and must end equal to NETSPOC.
func TestCorpusLinux(t *testing.T) {
	triples, err := LoadCorpus()
	if err != nil {
		t.Fatal(err)
	}
	covered, total := 0, 0
	reasons := map[string]int{}
	var bad []string
	for _, tr := range triples {
		if tr.Family != "linux" || tr.Scenario || !tr.HasOutput || tr.Error != "" {
			continue
		}
		total++
		c := &Case{Family: "linux", Files: tr.Files}
		a, b, early := linuxParse(c)
		if early != nil {
			reasons[clip(early.Reason, 70)]++
			continue
		}
		sc, err := linuxm.ParseScript(tr.Output)
		if err != nil {
			reasons["script: "+clip(err.Error(), 60)]++
			continue
		}
		st := a.Clone()
		_, ref, refStep, refCmd, err := linuxExec(st, sc, nil)
		if err != nil {
			var u *linuxm.ErrUnsupported
			if errors.As(err, &u) {
				reasons["exec: "+clip(err.Error(), 60)]++
				continue
			}
			bad = append(bad, fmt.Sprintf("%s/%s: %v", tr.File, tr.Title, err))
			continue
		}
		if ref != nil {
			bad = append(bad, fmt.Sprintf("%s/%s: step %d %q: %v", tr.File, tr.Title, refStep+1, refCmd, ref))
			continue
		}
		if got, want := st.Routes.StaticCanon(), b.Routes.StaticCanon(); got != want {
			bad = append(bad, fmt.Sprintf("%s/%s: routes not equal after expected output\n--- got\n%s\n--- want\n%s", tr.File, tr.Title, got, want))
			continue
		}
		if got, want := st.Rules.Canon(), b.Rules.Canon(); got != want {
			bad = append(bad, fmt.Sprintf("%s/%s: ruleset not equal after expected output\n--- got\n%s--- want\n%s", tr.File, tr.Title, got, want))
			continue
		}
		// an expected output of NONE claims that the device is equivalent
		if sc.Empty() && (a.Routes.StaticCanon() != b.Routes.StaticCanon() || a.Rules.Canon() != b.Rules.Canon()) {
			bad = append(bad, fmt.Sprintf("%s/%s: expected output is empty but the model sees a difference", tr.File, tr.Title))
			continue
		}
		covered++
	}
	keys := make([]string, 0, len(reasons))
	for k := range reasons {
		keys = append(keys, k)
	}
	sort.Strings(keys)
	for _, k := range keys {
		t.Logf("uncovered %3d  %s", reasons[k], k)
	}
	t.Logf("Linux corpus: %d covered of %d", covered, total)
	if len(bad) > 0 {
		t.Fatalf("model disagrees with the maintainers' expected outputs (model error or defect):\n%s", strings.Join(bad, "\n\n"))
	}
}
