package props

import (
	"fmt"
	"regexp"
	"sort"
	"strconv"
	"strings"

	"verif/harness/tool"
)

// C18: every line/rule of every part appears exactly once in the effective
// target, the order inside each part is preserved, raw lines precede all
// Netspoc lines unless marked APPEND, APPEND lines follow the last Netspoc
// permitting line and precede the trailing deny/drop lines.
//
// Every generated line carries a tag that encodes its part and action, so
// the oracle needs nothing but the text of the inputs and of the emitted
// script: 10.<P>.<A>.<n> with P = 4 (IPv4 part), 7 (raw), 8 (raw APPEND),
// A = 1 permit / 0 deny; IPv6 part: 10::6:<A>:<n>; PAN-OS / NSX rules carry
// the tag in their name: t<P>x<A>x<n>.

type c18Tag struct {
	Part   string // "4", "6", "r" (raw prepend), "a" (raw append)
	Permit bool
	N      int
}

func (t c18Tag) String() string {
	a := "deny"
	if t.Permit {
		a = "permit"
	}
	return fmt.Sprintf("%s/%s/%d", t.Part, a, t.N)
}

var c18re = regexp.MustCompile(`10\.([478])\.([01])\.(\d+)|10::6:([01]):(\d+)|t([4678])x([01])x(\d+)`)

func c18Tags(text string) []c18Tag {
	var l []c18Tag
	for _, m := range c18re.FindAllStringSubmatch(text, -1) {
		var part, act, n string
		switch {
		case m[1] != "":
			part, act, n = m[1], m[2], m[3]
		case m[4] != "":
			part, act, n = "6", m[4], m[5]
		default:
			part, act, n = m[6], m[7], m[8]
		}
		switch part {
		case "7":
			part = "r"
		case "8":
			part = "a"
		}
		num, _ := strconv.Atoi(n)
		l = append(l, c18Tag{Part: part, Permit: act == "1", N: num})
	}
	return l
}

func uniqTags(l []c18Tag) []c18Tag {
	seen := map[c18Tag]bool{}
	var out []c18Tag
	for _, t := range l {
		if !seen[t] {
			seen[t] = true
			out = append(out, t)
		}
	}
	return out
}

// c18Order checks the ordering clauses on the observed sequence.
// strictAppend: APPEND lines must precede the trailing deny lines (true for
// ACLs and chains; PAN-OS documents plain appending, the generator keeps
// its Netspoc rulebase free of trailing deny rules).
func c18Order(got []c18Tag, in map[string][]c18Tag, strictAppend bool) string {
	pos := map[c18Tag]int{}
	for i, t := range got {
		if _, dup := pos[t]; dup {
			return fmt.Sprintf("line %s appears twice", t)
		}
		pos[t] = i
	}
	for part, l := range in {
		for _, t := range l {
			if _, ok := pos[t]; !ok {
				return fmt.Sprintf("line %s of part %s is missing in the effective target", t, part)
			}
		}
		for i := 1; i < len(l); i++ {
			if pos[l[i-1]] > pos[l[i]] {
				return fmt.Sprintf("order inside part %s not preserved: %s comes after %s", part, l[i-1], l[i])
			}
		}
	}
	for _, t := range got {
		found := false
		for _, l := range in {
			for _, x := range l {
				found = found || x == t
			}
		}
		if !found {
			return fmt.Sprintf("line %s was invented", t)
		}
	}
	netspoc := append(append([]c18Tag{}, in["4"]...), in["6"]...)
	for _, r := range in["r"] {
		for _, n := range netspoc {
			if pos[r] > pos[n] {
				return fmt.Sprintf("raw line %s does not precede Netspoc line %s", r, n)
			}
		}
	}
	lastPermit := -1
	for _, n := range netspoc {
		if n.Permit && pos[n] > lastPermit {
			lastPermit = pos[n]
		}
	}
	for _, a := range in["a"] {
		if pos[a] < lastPermit {
			return fmt.Sprintf("APPEND line %s precedes the last Netspoc permitting line", a)
		}
		if strictAppend {
			for _, n := range netspoc {
				if !n.Permit && pos[n] > lastPermit && pos[a] > pos[n] {
					return fmt.Sprintf("APPEND line %s follows the trailing deny line %s", a, n)
				}
			}
		}
		for _, r := range in["r"] {
			if pos[a] < pos[r] {
				return fmt.Sprintf("APPEND line %s precedes raw line %s", a, r)
			}
		}
	}
	return ""
}

func c18Parts(c *Case) map[string][]c18Tag {
	in := map[string][]c18Tag{}
	in["4"] = uniqTags(c18Tags(c.Files["code/router"]))
	in["6"] = uniqTags(c18Tags(c.Files["code/ipv6/router"]))
	raw := c.Files["code/router.raw"]
	pre, app := raw, ""
	for _, mark := range []string{"[APPEND]", "<APPEND/>"} {
		if i := strings.Index(raw, mark); i >= 0 && mark == "[APPEND]" {
			pre, app = raw[:i], raw[i:]
		}
	}
	for _, t := range uniqTags(c18Tags(pre + app)) {
		in[t.Part] = append(in[t.Part], t)
	}
	for k, l := range in {
		if len(l) == 0 {
			delete(in, k)
		}
	}
	return in
}

func oracleC18(c *Case) Verdict {
	res := tool.CompareStd(c.Files)
	if res.Crashed() {
		return fail(c.Family+":merge-crash", "merge crashed: %s\n%s", clip(res.Panic, 1500), c18Ctx(c, res))
	}
	in := c18Parts(c)
	nParts := len(in)
	neg := c.Param("negative")
	if neg != "" {
		// A raw entry that cannot be merged must produce an error or a
		// warning; otherwise it must be merged completely.
		if res.Exit != 0 {
			if !strings.Contains(res.Stderr, "ERROR>>>") {
				return fail(c.Family+":reject-without-diagnostic", "non-zero exit without ERROR>>> line\n%s", c18Ctx(c, res))
			}
			return pass(true, "c18:neg:"+neg+":error")
		}
		if strings.Contains(res.Stderr, "WARNING>>>") {
			return pass(true, "c18:neg:"+neg+":warning")
		}
		got := uniqTags(c18Tags(res.Stdout))
		if msg := c18Order(got, in, false); strings.Contains(msg, "missing") {
			return fail(c.Family+":raw-entry-dropped-silently", "%s (negative case %q, no error, no warning)\n%s", msg, neg, c18Ctx(c, res))
		}
		return pass(true, "c18:neg:"+neg+":merged")
	}
	if res.Exit != 0 {
		return discard("rejected")
	}
	got := c18Tags(res.Stdout)
	strict := c.Family != "panos" && c.Family != "nsx"
	if c.Family == "nsx" {
		// position is defined by sequence_number: completeness only
		g := uniqTags(got)
		if len(g) != len(got) {
			return fail("nsx:merge-duplicate", "a rule appears twice in the effective target\n%s", c18Ctx(c, res))
		}
		for part, l := range in {
			for _, t := range l {
				found := false
				for _, x := range g {
					found = found || x == t
				}
				if !found {
					return fail("nsx:merge-incomplete", "rule %s of part %s is missing\n%s", t, part, c18Ctx(c, res))
				}
			}
		}
		return pass(nParts >= 2, "c18:nsx")
	}
	if msg := c18Order(got, in, strict); msg != "" {
		sig := c.Family + ":merge-order"
		if strings.Contains(msg, "missing") || strings.Contains(msg, "twice") || strings.Contains(msg, "invented") {
			sig = c.Family + ":merge-incomplete"
		}
		if c.Family == "linux" && strings.Contains(msg, "order inside part r") {
			sig = "linux:F40-raw-prepend-rules-reversed"
		}
		return fail(sig, "%s\n--- observed order\n%v\n%s", msg, got, c18Ctx(c, res))
	}
	classes := []string{"c18:" + c.Family}
	keys := make([]string, 0, len(in))
	for k := range in {
		keys = append(keys, k)
	}
	sort.Strings(keys)
	classes = append(classes, "c18:parts:"+strings.Join(keys, ""))
	hasPermit := false
	for _, t := range append(append([]c18Tag{}, in["4"]...), in["6"]...) {
		hasPermit = hasPermit || t.Permit
	}
	if !hasPermit && len(in["a"]) > 0 {
		classes = append(classes, "c18:append-without-permit-line")
	}
	return pass(nParts >= 2, classes...)
}

func c18Ctx(c *Case, res tool.Result) string {
	var b strings.Builder
	for _, n := range []string{"device", "code/router", "code/ipv6/router", "code/router.raw"} {
		if c.Files[n] != "" {
			fmt.Fprintf(&b, "--- %s\n%s", n, c.Files[n])
		}
	}
	fmt.Fprintf(&b, "--- exit %d\n--- stdout\n%s--- stderr\n%s", res.Exit, res.Stdout, res.Stderr)
	return b.String()
}

func init() {
	for _, f := range []string{"asa", "ios", "linux", "panos"} {
		register("C18", f, oracleC18)
	}
}

func oracleC18nsx(c *Case) Verdict {
	r, early := runNSX(c)
	if early != nil {
		return *early
	}
	if r.refusal != nil {
		return discard("refused-by-model")
	}
	nParts := 0
	for _, n := range []string{"code/router", "code/ipv6/router", "code/router.raw"} {
		if _, ok := c.Files[n]; ok {
			nParts++
		}
	}
	if got, want := r.final.Canon(), r.b.Canon(); got != want {
		return fail("nsx:merge-incomplete", "effective target differs from the union of all parts\n--- got\n%s\n--- want\n%s\n%s", got, want, nsxCtx(c, r))
	}
	return pass(nParts >= 2, "c18:nsx", fmt.Sprintf("c18:nsx-parts-%d", nParts))
}

func init() { register("C18", "nsx", oracleC18nsx) }
