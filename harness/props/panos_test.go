package props

import (
	"errors"
	"fmt"
	"sort"
	"strings"
	"testing"

	"pgregory.net/rapid"
	"verif/harness/evid"
	"verif/harness/panm"
)

func TestC03(t *testing.T) { runArms(t, "C03", ruleC03) }

func init() {
	addArm("C03", "panos", func(rt *rapid.T, ev *evid.Collector) {
		c := panCase("C03", panm.GenPair(rt, panm.GenOpts{}))
		judge(rt, ev, oracles["C03/panos"], c, func() any { return c })
	})
	addArm("C08", "panos", func(rt *rapid.T, ev *evid.Collector) {
		c := panCase("C08", panm.GenPair(rt, panm.GenOpts{}))
		judge(rt, ev, panF21(oracleC08pan), c, func() any { return c })
	})
	addArm("C10", "panos", func(rt *rapid.T, ev *evid.Collector) {
		c := panCase("C10", panm.GenPair(rt, panm.GenOpts{}))
		c.Params["cuts"] = drawCuts(rt)
		judge(rt, ev, panF21(oracleC10pan), c, func() any { return c })
	})
	addArm("C07", "panos", func(rt *rapid.T, ev *evid.Collector) {
		p := panm.GenPair(rt, panm.GenOpts{Decorate: true})
		c := panCase("C07", p)
		for _, op := range p.Ops {
			if strings.HasPrefix(op, "dec:") {
				ev.Class("pan:" + op)
			}
		}
		judge(rt, ev, oracleC07pan, c, func() any { return c })
	})
	addArm("C16", "panos", func(rt *rapid.T, ev *evid.Collector) {
		c := panCase("C16", panm.GenPair(rt, panm.GenOpts{Ties: true}))
		c.Params["ties"] = "1"
		judge(rt, ev, oracleC16, c, func() any { return c })
	})
}

// TestCorpusPANOS calibrates the PAN-OS model on the repository's expected outputs.
func TestCorpusPANOS(t *testing.T) {
	triples, err := LoadCorpus()
	if err != nil {
		t.Fatal(err)
	}
	covered, total := 0, 0
	reasons := map[string]int{}
	var bad []string
	for _, tr := range triples {
		if tr.Family != "panos" || tr.Scenario || !tr.HasOutput || tr.Error != "" {
			continue
		}
		total++
		if tr.Title == "Change members of service-group" {
			// Known finding F21: the maintainers' expected output sends the
			// new member list with action=set, which merges; the model
			// (rightly) refuses the following delete of a still referenced
			// service. Listed in known_findings.json.
			reasons["known finding F21"]++
			continue
		}
		c := &Case{Family: "panos", Files: tr.Files}
		a, err := panm.Parse(tr.Files["device"])
		if err != nil {
			reasons["device: "+clip(err.Error(), 50)]++
			continue
		}
		if err := a.CheckRefs(); err != nil {
			reasons["device references objects outside its vsys"]++
			continue
		}
		b, err := panTarget(c)
		if err != nil {
			reasons["target: "+clip(err.Error(), 50)]++
			continue
		}
		cmds, err := panm.ParseScript(tr.Output)
		if err != nil {
			reasons["script: "+clip(err.Error(), 50)]++
			continue
		}
		st := a.Clone()
		ok, unsup := true, false
		for i, cmd := range cmds {
			if err := st.Exec(cmd); err != nil {
				var u *panm.ErrUnsupported
				if errors.As(err, &u) {
					reasons["exec: "+clip(err.Error(), 50)]++
					unsup = true
				} else {
					bad = append(bad, fmt.Sprintf("%s/%s: command %d %s: %v", tr.File, tr.Title, i+1, panCmdText(cmd), err))
					ok = false
				}
				break
			}
		}
		if unsup || !ok {
			continue
		}
		targeted := b.VsysNames()
		if got, want := st.Canon(targeted), b.Canon(targeted); got != want {
			bad = append(bad, fmt.Sprintf("%s/%s: not equivalent after expected output\n--- got\n%s\n--- want\n%s", tr.File, tr.Title, got, want))
			continue
		}
		covered++
	}
	keys := make([]string, 0, len(reasons))
	for k := range reasons {
		keys = append(keys, k)
	}
	sort.Strings(keys)
	for _, k := range keys {
		t.Logf("uncovered %3d  %s", reasons[k], k)
	}
	t.Logf("PAN-OS corpus: %d covered of %d", covered, total)
	if len(bad) > 0 {
		t.Fatalf("model disagrees with the maintainers' expected outputs (model error or defect):\n%s", strings.Join(bad, "\n\n"))
	}
}
