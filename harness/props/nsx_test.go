package props

import (
	"errors"
	"fmt"
	"sort"
	"strings"
	"testing"

	"pgregory.net/rapid"
	"verif/harness/evid"
	"verif/harness/nsxm"
)

func TestC04(t *testing.T) { runArms(t, "C04", ruleC04) }

func init() {
	addArm("C04", "nsx", func(rt *rapid.T, ev *evid.Collector) {
		p := nsxm.GenPair(rt, nsxm.GenOpts{})
		c := nsxCase("C04", p)
		for _, op := range p.Ops {
			ev.Class("op:" + op)
		}
		ev.Class("mode:" + p.Mode)
		judge(rt, ev, oracles["C04/nsx"], c, func() any { return c })
	})
	addArm("C08", "nsx", func(rt *rapid.T, ev *evid.Collector) {
		c := nsxCase("C08", nsxm.GenPair(rt, nsxm.GenOpts{}))
		judge(rt, ev, oracleC08nsx, c, func() any { return c })
	})
	addArm("C10", "nsx", func(rt *rapid.T, ev *evid.Collector) {
		c := nsxCase("C10", nsxm.GenPair(rt, nsxm.GenOpts{}))
		c.Params["cuts"] = drawCuts(rt)
		judge(rt, ev, oracleC10nsx, c, func() any { return c })
	})
	addArm("C16", "nsx", func(rt *rapid.T, ev *evid.Collector) {
		p := nsxm.GenPair(rt, nsxm.GenOpts{Ties: true})
		c := nsxCase("C16", p)
		if p.Ties > 0 {
			c.Params["ties"] = fmt.Sprint(p.Ties)
		}
		judge(rt, ev, oracleC16, c, func() any { return c })
	})
	// Second arm without forced group ties: looks for order dependence
	// elsewhere (the tie arm is dominated by finding F2).
	addArm("C16", "nsx-plain", func(rt *rapid.T, ev *evid.Collector) {
		c := nsxCase("C16", nsxm.GenPair(rt, nsxm.GenOpts{}))
		judge(rt, ev, oracleC16, c, func() any { return c })
	})
}

// TestCorpusNSX calibrates the NSX model on the repository's own expected
// outputs: executing the maintainers' expected REST calls on model(DEVICE)
// must not be refused and must end equivalent to NETSPOC without left-overs.
func TestCorpusNSX(t *testing.T) {
	triples, err := LoadCorpus()
	if err != nil {
		t.Fatal(err)
	}
	covered, total := 0, 0
	reasons := map[string]int{}
	var bad []string
	for _, tr := range triples {
		if tr.Family != "nsx" || tr.Scenario || !tr.HasOutput || tr.Error != "" {
			continue
		}
		total++
		c := &Case{Family: "nsx", Files: tr.Files}
		a, err := nsxm.Parse(tr.Files["device"])
		if err != nil {
			reasons["device: "+clip(err.Error(), 60)]++
			continue
		}
		b, err := nsxTarget(c)
		if err != nil {
			reasons["target: "+clip(err.Error(), 60)]++
			continue
		}
		cmds, err := nsxm.ParseScript(tr.Output)
		if err != nil {
			reasons["script: "+clip(err.Error(), 60)]++
			continue
		}
		st := a.Clone()
		ok, unsup := true, false
		for i, cmd := range cmds {
			if err := st.Exec(cmd.Method, cmd.URL, cmd.Body); err != nil {
				var u *nsxm.ErrUnsupported
				if errors.As(err, &u) {
					reasons["exec: "+clip(err.Error(), 60)]++
					unsup = true
				} else {
					bad = append(bad, fmt.Sprintf("%s/%s: call %d %s %s: %v", tr.File, tr.Title, i+1, cmd.Method, cmd.URL, err))
					ok = false
				}
				break
			}
		}
		if unsup || !ok {
			continue
		}
		if got, want := st.Canon(), b.Canon(); got != want {
			bad = append(bad, fmt.Sprintf("%s/%s: not equivalent after expected output\n--- got\n%s--- want\n%s", tr.File, tr.Title, got, want))
			continue
		}
		if lo := st.LeftOver(b); len(lo) > 0 {
			bad = append(bad, fmt.Sprintf("%s/%s: left over after expected output: %s", tr.File, tr.Title, strings.Join(lo, ", ")))
			continue
		}
		if len(cmds) == 0 && (a.Canon() != b.Canon() || len(a.LeftOver(b)) > 0) {
			bad = append(bad, fmt.Sprintf("%s/%s: expected output NONE but device is not equivalent", tr.File, tr.Title))
			continue
		}
		covered++
	}
	keys := make([]string, 0, len(reasons))
	for k := range reasons {
		keys = append(keys, k)
	}
	sort.Strings(keys)
	for _, k := range keys {
		t.Logf("uncovered %3d  %s", reasons[k], k)
	}
	t.Logf("NSX corpus: %d covered of %d", covered, total)
	if len(bad) > 0 {
		t.Fatalf("model disagrees with the maintainers' expected outputs (model error or defect):\n%s", strings.Join(bad, "\n\n"))
	}
}
