package props

import (
	"strings"

	"pgregory.net/rapid"
	"verif/harness/asam"
	"verif/harness/evid"
)

func vpnOps(ev *evid.Collector, p *asam.Pair) {
	for _, op := range p.Ops {
		if strings.HasPrefix(op, "vpn:") && op != "vpn:noop" {
			ev.Class("gen:" + op)
		}
	}
	ev.Class("gen:mode:" + p.Mode)
}

func init() {
	addArm("C01", "asa-vpn", func(rt *rapid.T, ev *evid.Collector) {
		p := asam.GenPair(rt, asam.GenOpts{VPN: true})
		c := asaVPNCase("C01", p)
		vpnOps(ev, p)
		judge(rt, ev, oracles["C01/"+familyASAVPN], c, func() any { return c })
	})
	addArm("C07", "asa-vpn", func(rt *rapid.T, ev *evid.Collector) {
		p := asam.GenPair(rt, asam.GenOpts{VPN: true, Decorate: true})
		c := asaVPNCase("C07", p)
		vpnOps(ev, p)
		judge(rt, ev, oracleC07asaVPN, c, func() any { return c })
	})
	addArm("C08", "asa-vpn", func(rt *rapid.T, ev *evid.Collector) {
		p := asam.GenPair(rt, asam.GenOpts{VPN: true})
		c := asaVPNCase("C08", p)
		vpnOps(ev, p)
		judge(rt, ev, oracleC08asaVPN, c, func() any { return c })
	})
	addArm("C10", "asa-vpn", func(rt *rapid.T, ev *evid.Collector) {
		p := asam.GenPair(rt, asam.GenOpts{VPN: true})
		c := asaVPNCase("C10", p)
		c.Params["cuts"] = drawCuts(rt)
		vpnOps(ev, p)
		judge(rt, ev, oracleC10asaVPN, c, func() any { return c })
	})
	addArm("C16", "asa-vpn", func(rt *rapid.T, ev *evid.Collector) {
		p := asam.GenPair(rt, asam.GenOpts{VPN: true, Ties: true})
		c := asaVPNCase("C16", p)
		c.Params["ties"] = "1"
		vpnOps(ev, p)
		judge(rt, ev, oracleC16asaVPN, c, func() any { return c })
	})
}
