package props

import (
	"errors"
	"fmt"
	"strconv"
	"strings"

	"verif/harness/iosm"
	"verif/harness/tool"
)

func iosSpelling(bits int) iosm.Spelling {
	return iosm.Spelling{NamedPorts: bits&1 != 0, SeqNumbers: bits&2 != 0, NamedProto: bits&4 != 0}
}

func iosSpellingBits(sp iosm.Spelling) int {
	b := 0
	for i, f := range []bool{sp.NamedPorts, sp.SeqNumbers, sp.NamedProto} {
		if f {
			b |= 1 << i
		}
	}
	return b
}

func iosCase(property string, p *iosm.Pair) *Case {
	return &Case{
		Property: property,
		Family:   "ios",
		Files: tool.Files{
			"device":           p.A.Print(p.Sp),
			"code/router":      p.B.NetspocText(),
			"code/router.info": tool.Info("IOS"),
		},
		Params: map[string]string{"spelling": strconv.Itoa(iosSpellingBits(p.Sp))},
		Gen:    p.Mode + " " + strings.Join(p.Ops, ","),
	}
}

type iosRun struct {
	res     tool.Result
	a, b    *iosm.State
	steps   [][]string
	states  []*iosm.State
	final   *iosm.State
	refusal *iosm.Refusal
	refStep int
	refCmd  string
}

func iosTarget(c *Case) (*iosm.State, error) {
	if c.Files["code/ipv6/router"] != "" || c.Files["code/router.raw"] != "" {
		return nil, &iosm.ErrUnsupported{What: "v6/raw merge handled by C18 only"}
	}
	return iosm.Parse(c.Files["code/router"])
}

func runIOS(c *Case, keepStates bool) (r *iosRun, early *Verdict) {
	r = &iosRun{}
	ret := func(v Verdict) (*iosRun, *Verdict) { return r, &v }
	var err error
	if r.a, err = iosm.Parse(c.Files["device"]); err != nil {
		return ret(uncovered("device: " + err.Error()))
	}
	if r.b, err = iosTarget(c); err != nil {
		return ret(uncovered("target: " + err.Error()))
	}
	r.res = tool.CompareStd(c.Files)
	if r.res.Crashed() {
		return ret(discard("crash"))
	}
	if r.res.Exit != 0 {
		return ret(discard("rejected"))
	}
	r.steps = tool.CiscoScript(r.res.Stdout)
	st := r.a.Clone()
	for i, step := range r.steps {
		for _, cmd := range step {
			err := st.Exec(cmd)
			if err == nil {
				continue
			}
			var ref *iosm.Refusal
			if errors.As(err, &ref) {
				if r.refusal == nil {
					r.refusal, r.refStep, r.refCmd = ref, i, cmd
				}
				continue
			}
			return ret(uncovered("exec: " + err.Error()))
		}
		if keepStates {
			r.states = append(r.states, st.Clone())
		}
	}
	st.EndSession()
	r.final = st
	return r, nil
}

func iosClasses(r *iosRun) []string {
	var cl []string
	seen := map[string]bool{}
	add := func(s string) {
		if !seen[s] {
			seen[s] = true
			cl = append(cl, s)
		}
	}
	for _, st := range r.steps {
		c := st[0]
		f := strings.Fields(c)
		switch {
		case len(st) == 2:
			add("ios:joinedMove")
		case len(f) >= 2 && isNum(f[0]) && (f[1] == "permit" || f[1] == "deny"):
			add("ios:numberedInsert")
		case len(f) == 2 && f[0] == "no" && isNum(f[1]):
			add("ios:noN")
		case strings.HasPrefix(c, "ip access-list resequence"):
			add("ios:resequence")
		case strings.HasPrefix(c, "no ip access-list extended"):
			add("ios:aclRemoved")
		case strings.HasPrefix(c, "ip access-group"):
			add("ios:rebind")
		case strings.HasPrefix(c, "crypto map"), strings.HasPrefix(c, "no crypto map"):
			add("ios:crypto")
		case strings.HasPrefix(c, "ip route"), strings.HasPrefix(c, "no ip route"):
			add("ios:route")
		case c == "exit":
			add("ios:exit")
		}
	}
	return cl
}

func isNum(s string) bool { _, err := strconv.Atoi(s); return err == nil }

func iosCtx(c *Case, r *iosRun) string {
	return fmt.Sprintf("--- device\n%s--- target\n%s--- script\n%s--- stderr\n%s",
		c.Files["device"], c.Files["code/router"], scriptText(r.steps), r.res.Stderr)
}

// ------------------------------------------------------------------ C02

func oracleC02ios(c *Case) Verdict {
	r, early := runIOS(c, false)
	if early != nil {
		return *early
	}
	classes := iosClasses(r)
	if r.refusal != nil {
		return Verdict{Status: Discard, Reason: "refused-by-model", Classes: classes}
	}
	sc := iosm.ScopeOf(r.b)
	want := r.b.Canon(sc)
	got := r.final.Canon(sc)
	if got != want {
		sig := "ios:not-converged"
		if iosSameLines(r.final, r.b) {
			sig = "ios:F18-all-lines-present-but-wrong-run-order"
		}
		return fail(sig, "executing the script does not yield the target\n--- got\n%s\n--- want\n%s\n%s", got, want, iosCtx(c, r))
	}
	if len(r.steps) == 0 {
		if !r.res.Unchanged() {
			return fail("ios:marker", "empty script without 'device unchanged'\n%s", iosCtx(c, r))
		}
		if r.a.Canon(sc) != want {
			return fail("ios:unchanged-but-different", "'device unchanged' for a device that is not equivalent\n--- device canon\n%s\n--- want\n%s\n%s",
				r.a.Canon(sc), want, iosCtx(c, r))
		}
	} else if !r.res.Changed() {
		return fail("ios:marker", "non-empty script without 'device changed'\n%s", iosCtx(c, r))
	}
	bits, _ := strconv.Atoi(c.Param("spelling"))
	f2 := tool.Files{}
	for k, v := range c.Files {
		f2[k] = v
	}
	f2["device"] = r.final.Print(iosSpelling(bits))
	res2 := tool.CompareStd(f2)
	if res2.Crashed() || res2.Exit != 0 {
		return fail("ios:second-compare-rejected", "second compare fails: exit %d\n%s\n%s\n--- device after\n%s\n%s",
			res2.Exit, res2.Stderr, res2.Panic, f2["device"], iosCtx(c, r))
	}
	if res2.Stdout != "" || !res2.Unchanged() {
		sig := "ios:second-compare-changes"
		if iosOnlyRemarkMoves(res2.Stdout) {
			sig = "ios:F20-remark-position-left-for-next-run"
		}
		return fail(sig, "second compare still reports changes:\n%s\n--- device after\n%s\n%s",
			res2.Stdout, f2["device"], iosCtx(c, r))
	}
	nt := false
	for _, cl := range classes {
		if cl == "ios:numberedInsert" || cl == "ios:noN" || cl == "ios:joinedMove" {
			nt = true
		}
	}
	return pass(nt && len(r.a.ACLs) > 0, classes...)
}

// ------------------------------------------------------------------ C08

func oracleC08ios(c *Case) Verdict {
	r, early := runIOS(c, false)
	if early != nil {
		return *early
	}
	if r.refusal != nil {
		return fail("ios:refused:"+r.refusal.Rule, "step %d command %q would be refused by the device: %s\n%s",
			r.refStep+1, r.refCmd, r.refusal.Msg, iosCtx(c, r))
	}
	n := 0
	dep := false
	for _, st := range r.steps {
		n += len(st)
		if st[0] == "exit" || strings.HasPrefix(st[0], "interface ") || strings.HasPrefix(st[0], "no ip access-list") {
			dep = true
		}
	}
	return pass(n >= 3 && dep, iosClasses(r)...)
}

// ------------------------------------------------------------------ C10

func oracleC10ios(c *Case) Verdict {
	r, early := runIOS(c, false)
	if early != nil {
		return *early
	}
	if r.refusal != nil {
		return discard("first-run-refused")
	}
	cmds := flatten(r.steps)
	if len(cmds) < 2 {
		return pass(false)
	}
	sc := iosm.ScopeOf(r.b)
	want := r.b.Canon(sc)
	bits, _ := strconv.Atoi(c.Param("spelling"))
	sp := iosSpelling(bits)
	halfAt := map[int]bool{}
	pos := 0
	for _, st := range r.steps {
		if len(st) == 2 {
			halfAt[pos+1] = true
		}
		pos += len(st)
	}
	var classes []string
	nt := false
	for _, k := range parseCuts(c.Param("cuts"), len(cmds)) {
		st := r.a.Clone()
		for _, cmd := range cmds[:k] {
			if err := st.Exec(cmd); err != nil {
				return uncovered("prefix exec: " + err.Error())
			}
		}
		st.EndSession()
		f2 := tool.Files{}
		for n, v := range c.Files {
			f2[n] = v
		}
		f2["device"] = st.Print(sp)
		ctx := func() string {
			return fmt.Sprintf("cut after command %d of %d\n--- original device\n%s--- target\n%s--- first script\n%s--- device at cut\n%s",
				k, len(cmds), c.Files["device"], c.Files["code/router"], scriptText(r.steps), f2["device"])
		}
		res := tool.CompareStd(f2)
		if res.Crashed() {
			return fail("ios:resume-crash", "resumed compare crashed: %s\n%s", res.Panic, ctx())
		}
		if res.Exit != 0 {
			sig := "ios:resume-rejected"
			if strings.Contains(res.Stderr, "Missing peer or dynamic in crypto map") {
				sig = "ios:F19-resume-rejected-crypto-entry-without-peer"
			}
			return fail(sig, "resumed compare rejected the half-changed device:\n%s\n%s", res.Stderr, ctx())
		}
		steps2 := tool.CiscoScript(res.Stdout)
		for i, step := range steps2 {
			for _, cmd := range step {
				if err := st.Exec(cmd); err != nil {
					var u *iosm.ErrUnsupported
					if errors.As(err, &u) {
						return uncovered("resume exec: " + err.Error())
					}
					return fail("ios:resume-refused", "resumed script step %d %q refused: %v\n--- second script\n%s%s",
						i+1, cmd, err, scriptText(steps2), ctx())
				}
			}
		}
		st.EndSession()
		if got := st.Canon(sc); got != want {
			sig := "ios:resume-not-converged"
			if iosSameLines(st, r.b) {
				sig = "ios:F18-all-lines-present-but-wrong-run-order"
			}
			return fail(sig, "resumed approve does not reach the target\n--- got\n%s\n--- want\n%s\n--- second script\n%s%s",
				got, want, scriptText(steps2), ctx())
		}
		f3 := tool.Files{}
		for n, v := range c.Files {
			f3[n] = v
		}
		f3["device"] = st.Print(sp)
		res3 := tool.CompareStd(f3)
		if res3.Crashed() || res3.Exit != 0 || res3.Stdout != "" {
			sig := "ios:resume-third-compare"
			if res3.Exit == 0 && !res3.Crashed() && iosOnlyRemarkMoves(res3.Stdout) {
				sig = "ios:F20-remark-position-left-for-next-run"
			}
			return fail(sig, "compare after resumed approve not empty (exit %d):\n%s%s\n--- second script\n%s--- device after resume\n%s%s",
				res3.Exit, res3.Stdout, res3.Stderr, scriptText(steps2), f3["device"], ctx())
		}
		if halfAt[k] {
			classes = append(classes, "cut:between-halves")
		}
		if k < len(cmds) && (isNum(strings.Fields(cmds[k])[0]) || strings.HasPrefix(cmds[k], "no ") && len(strings.Fields(cmds[k])) == 2) {
			classes = append(classes, "cut:inside-submode")
		}
		classes = append(classes, "cut:evaluated")
		nt = true
	}
	return pass(nt, classes...)
}

// ------------------------------------------------------------------ C14

func oracleC14ios(c *Case) Verdict {
	r, early := runIOS(c, true)
	if early != nil {
		return *early
	}
	if r.refusal != nil {
		return discard("refused-by-model")
	}
	sc := iosm.ScopeOf(r.b)
	univ := iosm.Universe(r.a, r.b)
	nt := false
	type slotT struct{ intf, dir string }
	for _, bi := range r.b.Intfs {
		var ai *iosm.Intf
		for _, x := range r.a.Intfs {
			if x.Name == bi.Name {
				ai = x
			}
		}
		if ai == nil || !sc.Intfs[bi.Name] {
			continue
		}
		for _, dir := range []string{"in", "out"} {
			oldACL, newACL := ai.In, bi.In
			if dir == "out" {
				oldACL, newACL = ai.Out, bi.Out
			}
			if oldACL == "" || newACL == "" {
				continue
			}
			type pv struct {
				p    iosm.Packet
				want bool
			}
			var agree []pv
			for _, p := range univ {
				o, _ := r.a.Verdict(oldACL, p)
				n, _ := r.b.Verdict(newACL, p)
				if o == n {
					agree = append(agree, pv{p, o})
				}
			}
			prevKey := ""
			for i, st := range r.states {
				var si *iosm.Intf
				for _, x := range st.Intfs {
					if x.Name == bi.Name {
						si = x
					}
				}
				cur := si.In
				if dir == "out" {
					cur = si.Out
				}
				if cur == "" {
					return fail("ios:transient-unbound", "after step %d nothing is bound %s at %s\n%s", i+1, dir, bi.Name, iosCtx(c, r))
				}
				txt, _ := st.ObjText("acl:" + cur)
				key := cur + "\x00" + txt
				if key == prevKey {
					continue
				}
				prevKey = key
				for _, x := range agree {
					got, line := st.Verdict(cur, x.p)
					if got != x.want {
						word := map[bool]string{true: "permitted", false: "denied"}
						sig := "ios:transient-flip"
						if r.final.Canon(sc) != r.b.Canon(sc) && iosSameLines(r.final, r.b) {
							sig = "ios:F18-all-lines-present-but-wrong-run-order"
						} else if (strings.HasPrefix(r.steps[i][0], "no permit ") || strings.HasPrefix(r.steps[i][0], "no deny ") || iosRebuilt(r, i)) &&
							!iosShareRemark(r.a.ACLs[oldACL], r.b.ACLs[newACL]) {
							sig = "ios:F17-acl-without-common-line-rebuilt-in-place"
						} else if iosIsF8(r, i, cur, line) {
							sig = "ios:F8-moved-line-exposes-line-deleted-later"
						} else if iosSharedACL(r, bi.Name, dir, oldACL) {
							sig = "ios:F13-acl-shared-by-two-slots-edited-in-place"
						}
						return fail(sig, "after step %d (%s) packet %s is %s by entry %d of %s, but it is %s before and after the change\n%s",
							i+1, strings.Join(r.steps[i], " \\N "), x.p, word[got], line, cur, word[x.want], iosCtx(c, r))
					}
				}
			}
			if len(r.steps) >= 2 && len(agree) > 0 {
				nt = true
			}
		}
	}
	return pass(nt, iosClasses(r)...)
}

// iosSameLines: every managed slot holds exactly the target's entries as a
// multiset (only their order, i.e. the run structure, differs). This is the
// footprint of root cause F18: a move is suppressed as "inside the same
// block" although an entry of the opposite action is inserted between the
// line's actual and its intended position.
func iosSameLines(st, b *iosm.State) bool {
	multiset := func(s *iosm.State, acl string) string {
		var l []string
		for _, e := range s.ACLs[acl] {
			if !e.IsRemark {
				l = append(l, e.Key(true))
			}
		}
		sortStrings(l)
		return strings.Join(l, "\n")
	}
	for _, bi := range b.Intfs {
		var si *iosm.Intf
		for _, x := range st.Intfs {
			if x.Name == bi.Name {
				si = x
			}
		}
		if si == nil {
			return false
		}
		if (bi.In == "") != (si.In == "") || (bi.Out == "") != (si.Out == "") {
			return false
		}
		if bi.In != "" && multiset(b, bi.In) != multiset(st, si.In) {
			return false
		}
		if bi.Out != "" && multiset(b, bi.Out) != multiset(st, si.Out) {
			return false
		}
	}
	return true
}

// iosIsF8: the deciding entry is removed by a later "no N" and a joined
// move up to this step moved an entry to a higher number (root cause F8).
func iosIsF8(r *iosRun, step int, acl string, line int) bool {
	if line == 0 {
		return false
	}
	l := r.states[step].ACLs[acl]
	if line > len(l) {
		return false
	}
	seq := strconv.Itoa(l[line-1].Seq)
	later := false
	for _, s := range r.steps[step+1:] {
		if s[0] == "no "+seq {
			later = true
		}
	}
	if !later {
		return false
	}
	for _, s := range r.steps[:step+1] {
		if len(s) == 2 {
			f0, f1 := strings.Fields(s[0]), strings.Fields(s[1])
			if len(f0) == 2 && len(f1) > 1 {
				from, _ := strconv.Atoi(f0[1])
				to, _ := strconv.Atoi(f1[0])
				if to > from {
					return true
				}
			}
		}
	}
	return false
}

// iosOnlyRemarkMoves: the script does nothing but move remark lines.
func iosOnlyRemarkMoves(stdout string) bool {
	steps := tool.CiscoScript(stdout)
	if len(steps) == 0 {
		return false
	}
	for _, s := range steps {
		switch {
		case strings.HasPrefix(s[0], "ip access-list resequence "), strings.HasPrefix(s[0], "ip access-list extended "):
		case len(s) == 2 && strings.HasPrefix(s[0], "no ") && isNum(strings.TrimPrefix(s[0], "no ")) &&
			len(strings.Fields(s[1])) > 2 && isNum(strings.Fields(s[1])[0]):
			// A joined move of one line. It is only reached after the
			// device was found equivalent to the target (same filter, rules
			// of one permit/deny run in any order), so the line - a remark,
			// or a rule that changes its place relative to remarks or to
			// rules of its own run - was left where it was by the first
			// script and is moved now, because remarks count to the
			// preceding run and the runs look different after the first
			// script.
		default:
			return false
		}
	}
	return true
}

// iosRebuilt: an earlier step of the script deleted an entry by content
// ("no permit ..."), the form used only when an ACL without any common line
// is emptied and refilled in place (root cause F17).
func iosRebuilt(r *iosRun, step int) bool {
	for _, s := range r.steps[:step+1] {
		if strings.HasPrefix(s[0], "no permit ") || strings.HasPrefix(s[0], "no deny ") {
			return true
		}
	}
	return false
}

// iosShareRemark: the two ACLs have a remark line in common. Then they are
// not "without any common line", and the tool edits incrementally; F17 is
// about ACLs that share nothing.
func iosShareRemark(la, lb []*iosm.Entry) bool {
	for _, x := range la {
		if !x.IsRemark {
			continue
		}
		for _, y := range lb {
			if y.IsRemark && y.Remark == x.Remark {
				return true
			}
		}
	}
	return false
}

// iosSharedACL: the device binds oldACL at another managed slot for which
// the target has a different ACL (root cause F13, as on ASA).
func iosSharedACL(r *iosRun, intf, dir, oldACL string) bool {
	for _, ai := range r.a.Intfs {
		for _, d := range []string{"in", "out"} {
			if ai.Name == intf && d == dir {
				continue
			}
			acl := ai.In
			if d == "out" {
				acl = ai.Out
			}
			if acl == oldACL {
				return true
			}
		}
	}
	for _, l := range r.a.Crypto {
		for _, e := range l {
			if e.FilterIn == oldACL || e.FilterOut == oldACL {
				return true
			}
		}
	}
	return false
}

// ------------------------------------------------------------------ C07

func oracleC07ios(c *Case) Verdict {
	r, early := runIOS(c, true)
	if early != nil {
		return *early
	}
	sc := iosm.ScopeOf(r.b)
	prot := r.a.Protected(sc)
	frame := r.a.FrameText(sc)
	keys := make([]string, 0, len(prot))
	for k := range prot {
		keys = append(keys, k)
	}
	sortStrings(keys)
	before := map[string]string{}
	for _, k := range keys {
		before[k], _ = r.a.ObjText(k)
	}
	ctx := func() string { return iosCtx(c, r) + "--- protected set\n" + strings.Join(keys, " ") + "\n" }
	for i, st := range r.states {
		if r.refusal != nil && i >= r.refStep {
			break // states from the refused step on did not come about
		}
		for _, k := range keys {
			txt, ok := st.ObjText(k)
			if !ok {
				return fail("ios:protected-deleted", "step %d (%s) deletes %s which is outside Netspoc's scope\n%s",
					i+1, strings.Join(r.steps[i], " \\N "), k, ctx())
			}
			if txt != before[k] {
				return fail("ios:protected-changed", "step %d (%s) changes %s which is outside Netspoc's scope\n--- before\n%s--- after\n%s%s",
					i+1, strings.Join(r.steps[i], " \\N "), k, before[k], txt, ctx())
			}
		}
		if f := st.FrameText(sc); f != frame {
			return fail("ios:frame-changed", "step %d (%s) changes unmanaged interfaces/routes/lines\n--- before\n%s\n--- after\n%s\n%s",
				i+1, strings.Join(r.steps[i], " \\N "), frame, f, ctx())
		}
	}
	if r.refusal != nil {
		// A removal that the device model refuses is C08's business,
		// unless it aims at an object outside Netspoc's scope: the attempt
		// itself is then what C07 forbids (IOS proper would carry it out:
		// it deletes an ACL that an interface still names).
		if strings.HasPrefix(r.refCmd, "no ") {
			names := map[string]bool{}
			for _, k := range keys {
				_, n, _ := strings.Cut(k, ":")
				names[n] = true
			}
			for _, w := range strings.Fields(r.refCmd) {
				if names[w] {
					return fail("ios:protected-delete-attempted", "step %d (%s) tries to remove %s, which is outside Netspoc's scope (the device model refuses: %s)\n%s",
						r.refStep+1, r.refCmd, w, r.refusal.Msg, ctx())
				}
			}
		}
		return discard("refused-by-model")
	}
	nt := len(r.steps) > 0 && len(keys) > 0
	return pass(nt, iosClasses(r)...)
}

func init() {
	register("C02", "ios", withRefusal(oracleC02ios, oracleC08ios))
	register("C08", "ios", oracleC08ios)
	register("C10", "ios", oracleC10ios)
	register("C14", "ios", oracleC14ios)
	register("C07", "ios", oracleC07ios)
	register("C16", "ios", oracleC16)
}
