package props

import "testing"

const ruleC01 = "pairs (device A, target B) from the abstract-config generator (derived by edit operators or independent); " +
	"non-trivial = accepted, script non-empty, device non-empty and at least one of move/joined line/group reuse or edit/ACL transfer/rebind/cleanup ran; " +
	"distinct = hash of the concrete input files"

const ruleC02 = "pairs (device A, target B) of IOS configs from the abstract-config generator (named extended ACLs with arbitrary permit/deny run structure, remarks, log variants, IOS-XE sequence numbers, shared ACLs, VRFs, crypto maps with filter ACLs, routes per VRF); " +
	"non-trivial = accepted and the script contains a numbered insert, 'no N' or a joined move; distinct = hash of the concrete input files"

const ruleC03 = "pairs of PAN-OS vsys configurations from the abstract-config generator (rules under insert/delete/reorder edits, address objects, groups renamed/shared/split/duplicated, services, equal names with different values, unknown XML elements, several vsys); " +
	"non-trivial = accepted and the script contains a move, an incremental member edit or a group reuse; distinct = hash of the input files"

const ruleC04 = "pairs of NSX configurations from the abstract-config generator (policies, rules sharing sequence numbers, groups renamed/shared/duplicated, small and large address-list changes, in-place service changes, id clashes); " +
	"non-trivial = accepted, script non-empty and a rule kept whose groups differ, or a renamed id, or an in-place PATCH; distinct = hash of the input files"

const ruleC05 = "Linux route sets in Netspoc and 'ip route show' spelling and iptables rulesets in Netspoc and iptables-save spelling from the abstract generators; " +
	"non-trivial = route replacement or >= 2 deletes, or two spellings that differ in >= 2 normalised options; distinct = hash of the input files"

const ruleC07 = "generated pairs whose device side is decorated with content outside Netspoc's scope (unbound untagged ACLs/groups, also referencing groups shared with managed ACLs; interfaces/VRFs unknown to the target with bound ACLs; routes of a family/VRF the target lacks; unmodelled lines; tagged objects still referenced by unmanaged ones; other vsys / shared; non-Netspoc ids); " +
	"the protected set is computed from the property's definition and must be textually identical after every step; non-trivial = protected set non-empty and script non-empty; distinct = hash of input files"

const ruleC08 = "same generated pairs as C01-C04; every emitted command is executed on the strict model; " +
	"non-trivial = script has >= 3 commands and one command depends on another (uses an object created earlier, or deletes a formerly referenced object, or changes the configuration mode); distinct = hash of input files"

const ruleC10 = "generated pairs; the emitted script is cut after k single commands (halves of joined lines and sub-mode lines count separately; quick: up to 6 drawn k, thorough: all k); " +
	"the tool is re-run against the printed prefix state; non-trivial = at least one cut 0<k<n evaluated; distinct = hash of input files + cuts"

const ruleC14 = "pairs (old ACL, new ACL) over a tiny address/port universe with heavy overlap; after every step of the script every packet of the universe on which old and new agree must get that verdict from the currently bound ACL; route sets: every destination covered before and after is covered after every step; " +
	"non-trivial = script has >= 2 steps and some packets agree; distinct = hash of input files"

const ruleC16 = "generated inputs with ties forced on (several identical groups on the device, equally good matches); each case is run 8 times in-process on byte-identical files (Go randomises map iteration per range); " +
	"non-trivial = the generator added at least one tie; distinct = hash of input files"

const ruleC18 = "triples (v4, v6, raw) of small parts with overlapping ACL/chain/rulebase names, with and without APPEND sections, parts without permit lines, empty parts; the effective target is observed as the script of 'drc MINIMAL_DEVICE NETSPOC' executed on an empty model and compared with an independent reference merge; " +
	"non-trivial = at least two parts contribute to the same ACL/chain/rulebase; distinct = hash of input files"

func TestC01(t *testing.T) { runArms(t, "C01", ruleC01) }
func TestC02(t *testing.T) { runArms(t, "C02", ruleC02) }
func TestC07(t *testing.T) { runArms(t, "C07", ruleC07) }
func TestC08(t *testing.T) { runArms(t, "C08", ruleC08) }
func TestC10(t *testing.T) { runArms(t, "C10", ruleC10) }
func TestC14(t *testing.T) { runArms(t, "C14", ruleC14) }
func TestC16(t *testing.T) { runArms(t, "C16", ruleC16) }
