package props

import (
	"encoding/json"
	"errors"
	"fmt"
	"strconv"
	"strings"

	"verif/harness/nsxm"
	"verif/harness/tool"
)

func nsxSpelling(bits int) nsxm.Spelling {
	return nsxm.Spelling{Revision: bits&1 != 0, ReadOnly: bits&2 != 0, CapitalLists: bits&4 != 0, RulesByID: bits&8 != 0}
}

func nsxSpellingBits(sp nsxm.Spelling) int {
	b := 0
	for i, f := range []bool{sp.Revision, sp.ReadOnly, sp.CapitalLists, sp.RulesByID} {
		if f {
			b |= 1 << i
		}
	}
	return b
}

func nsxCase(property string, p *nsxm.Pair) *Case {
	c := &Case{
		Property: property,
		Family:   "nsx",
		Files: tool.Files{
			"device":           p.A.Print(p.Sp),
			"code/router.info": tool.Info("NSX"),
		},
		Params: map[string]string{"spelling": strconv.Itoa(nsxSpellingBits(p.Sp))},
		Gen:    p.Mode + " " + strings.Join(p.Ops, ","),
	}
	for n, txt := range p.TargetFiles() {
		c.Files[n] = txt
	}
	return c
}

type nsxRun struct {
	res     tool.Result
	a, b    *nsxm.Store
	cmds    []nsxm.Cmd
	final   *nsxm.Store
	refusal *nsxm.Refusal
	refStep int
}

// nsxTarget reads the Netspoc side of a case: IPv4 part, IPv6 part and raw
// part, composed by the model's own reference merge.
func nsxTarget(c *Case) (*nsxm.Store, error) {
	var parts []*nsxm.Store
	for _, n := range []string{"code/router", "code/ipv6/router", "code/router.raw"} {
		txt, ok := c.Files[n]
		if !ok {
			continue
		}
		s, err := nsxm.Parse(txt)
		if err != nil {
			return nil, err
		}
		parts = append(parts, s)
	}
	b, err := nsxm.Merge(parts...)
	if err != nil {
		return nil, err
	}
	// Vocabulary the generators do not emit and the model has no reading for.
	for id, g := range b.Groups {
		if len(g.Addrs) == 0 {
			return nil, &nsxm.ErrUnsupported{What: "target group " + id + " without addresses"}
		}
	}
	// A target whose rule names a Netspoc object that the target does not
	// define cannot be installed on any manager (nsx.t "Change service of
	// rule" is such an input); the generators never emit it.
	if d := b.Dangling(); len(d) > 0 {
		return nil, &nsxm.ErrUnsupported{What: "target is not self-contained: " + d[0]}
	}
	return b, nil
}

func nsxExecAll(st *nsxm.Store, cmds []nsxm.Cmd) (ref *nsxm.Refusal, step int, err error) {
	for i, cmd := range cmds {
		e := st.Exec(cmd.Method, cmd.URL, cmd.Body)
		if e == nil {
			continue
		}
		var r *nsxm.Refusal
		if errors.As(e, &r) {
			if ref == nil {
				ref, step = r, i
			}
			continue
		}
		return ref, step, e
	}
	return ref, step, nil
}

func runNSX(c *Case) (r *nsxRun, early *Verdict) {
	r = &nsxRun{}
	ret := func(v Verdict) (*nsxRun, *Verdict) { return r, &v }
	var err error
	if r.a, err = nsxm.Parse(c.Files["device"]); err != nil {
		return ret(uncovered("device: " + err.Error()))
	}
	if d := r.a.Dangling(); len(d) > 0 {
		return ret(uncovered("device: " + d[0]))
	}
	if r.b, err = nsxTarget(c); err != nil {
		return ret(uncovered("target: " + err.Error()))
	}
	r.res = tool.CompareStd(c.Files)
	if r.res.Crashed() {
		return ret(discard("crash"))
	}
	if r.res.Exit != 0 {
		return ret(discard("rejected"))
	}
	if r.cmds, err = nsxm.ParseScript(r.res.Stdout); err != nil {
		return ret(uncovered("script: " + err.Error()))
	}
	st := r.a.Clone()
	r.refusal, r.refStep, err = nsxExecAll(st, r.cmds)
	if err != nil {
		return ret(uncovered("exec: " + err.Error()))
	}
	r.final = st
	return r, nil
}

func urlTail(url, marker string) (string, bool) {
	i := strings.Index(url, marker)
	if i < 0 {
		return "", false
	}
	return url[i+len(marker):], true
}

// nsxClasses names what the script does; derived from the script and the
// two parsed sides only.
func nsxClasses(r *nsxRun) []string {
	var cl []string
	seen := map[string]bool{}
	add := func(s string) {
		if !seen[s] {
			seen[s] = true
			cl = append(cl, s)
		}
	}
	created := map[string]bool{}
	st := r.a.Clone()
	for _, c := range r.cmds {
		u := c.URL
		switch {
		case strings.Contains(u, "/ip-address-expressions/"):
			if c.Method == "POST" {
				add("nsx:patchGroupIncremental")
			} else {
				add("nsx:patchGroupFull")
			}
			add("nsx:ruleKeptGroupsDiffer")
			if gid, ok := urlTail(u, "/groups/"); ok {
				gid, _, _ = strings.Cut(gid, "/")
				if g := st.Groups[gid]; g != nil && strings.HasSuffix(u, "action=remove") {
					var body struct {
						L []string `json:"ip_addresses"`
					}
					if json.Unmarshal([]byte(c.Body), &body) == nil && len(body.L) == len(g.Addrs) {
						add("nsx:groupEmptiedBetweenRemoveAndAdd")
					}
				}
			}
		case strings.Contains(u, "/groups/"):
			id, _ := urlTail(u, "/groups/")
			switch c.Method {
			case "DELETE":
				add("nsx:deleteGroup")
			default:
				add("nsx:putGroup")
				created[nsxm.GroupPrefix+id] = true
				if st.Groups[id] != nil {
					add("nsx:putOverExistingGroup")
				}
				if r.b.Groups[id] == nil {
					add("nsx:renamedId")
					add("nsx:renamedGroupId")
				}
			}
		case strings.Contains(u, "/infra/services/"):
			id, _ := urlTail(u, "/infra/services/")
			switch c.Method {
			case "DELETE":
				add("nsx:deleteService")
			case "PATCH":
				add("nsx:patchService")
			default:
				add("nsx:putService")
				created[nsxm.ServicePrefix+id] = true
			}
		case strings.Contains(u, "/rules/"):
			pid, _ := urlTail(u, "/gateway-policies/")
			pid, rid, _ := strings.Cut(pid, "/rules/")
			switch c.Method {
			case "DELETE":
				add("nsx:deleteRule")
			case "PATCH":
				add("nsx:patchRule")
				add("nsx:ruleKeptGroupsDiffer")
			default:
				add("nsx:putRule")
				if p := st.Policy(pid); p != nil && p.Rule(rid) != nil {
					add("nsx:putOverExistingRule")
				}
				if p := r.b.Policy(pid); p == nil || p.Rule(rid) == nil {
					add("nsx:renamedId")
					add("nsx:renamedRuleId")
				}
			}
			if c.Method != "DELETE" {
				for g := range created {
					if strings.Contains(c.Body, `"`+g+`"`) {
						add("nsx:usesObjectCreatedEarlier")
					}
				}
				for id := range r.a.Groups {
					if !created[nsxm.GroupPrefix+id] && r.b.Groups[id] == nil &&
						strings.Contains(c.Body, `"`+nsxm.GroupPrefix+id+`"`) && c.Method == "PUT" {
						add("nsx:groupFoundOnDevice")
					}
				}
			}
		case strings.Contains(u, "/gateway-policies/"):
			if c.Method == "DELETE" {
				add("nsx:deletePolicy")
			} else {
				add("nsx:putPolicy")
				for g := range created {
					if strings.Contains(c.Body, `"`+g+`"`) {
						add("nsx:usesObjectCreatedEarlier")
					}
				}
			}
		}
		st.Exec(c.Method, c.URL, c.Body)
	}
	if len(r.b.Policies) > 1 {
		add("nsx:severalPolicies")
	}
	return cl
}

func hasClass(cl []string, name string) bool {
	for _, c := range cl {
		if c == name {
			return true
		}
	}
	return false
}

func nsxTargetText(c *Case) string {
	var b strings.Builder
	for _, n := range []string{"code/router", "code/ipv6/router", "code/router.raw"} {
		if txt, ok := c.Files[n]; ok {
			fmt.Fprintf(&b, "--- %s\n%s", n, txt)
		}
	}
	return b.String()
}

func nsxCtx(c *Case, r *nsxRun) string {
	return fmt.Sprintf("--- device\n%s%s--- script\n%s--- stderr\n%s",
		c.Files["device"], nsxTargetText(c), nsxm.ScriptText(r.cmds), r.res.Stderr)
}

func nsxWithDevice(c *Case, dev string) tool.Files {
	f := tool.Files{}
	for k, v := range c.Files {
		f[k] = v
	}
	f["device"] = dev
	return f
}

// ------------------------------------------------------------------ C04

// Root cause F30: an id of the target that is taken on the manager is
// renamed to the first "<id>-<n>" that is free on the manager, without
// looking at the other ids of the target (nor at ids renamed before). Two
// target rules (or groups) then get the same id and the second PUT
// overwrites the first. Footprint: the script PUTs the same URL twice.
const sigF30 = "nsx:F30-clash-rename-collides-with-other-target-id"

// Root cause F31: an incremental address change is sent as "remove" and
// then "add", also when the remove takes away every address the group has
// (always the case for a one-address group whose address changes). Between
// the two calls the group is empty; a compare against that state panics
// in sortRules (IPAddresses[0]), so the approve cannot be resumed.
const sigF31 = "nsx:F31-group-emptied-by-remove-before-add-crashes-next-compare"

func nsxHasEmptyGroup(s *nsxm.Store) bool {
	for _, g := range s.Groups {
		if len(g.Addrs) == 0 {
			return true
		}
	}
	return false
}

// Root cause F32: before pairing device rules with target rules the tool
// orders both lists by a key that looks only at the smallest address of a
// group. Rules that differ only in groups with the same smallest address
// keep the order in which they were listed, so they are paired by listing
// position; when the manager lists them in another order than the target
// file, equal rules are paired crosswise and their groups are rewritten,
// although the manager is already equivalent.
const sigF32 = "nsx:F32-rules-tied-on-first-address-paired-by-listing-order"

// nsxTiedRules: some policy of the target holds two rules that agree in
// everything but their groups, and whose groups agree in the smallest address.
func nsxTiedRules(b *nsxm.Store) bool {
	first := func(el string) string {
		if g := b.Groups[nsxm.GroupRef(el)]; g != nil && len(g.Addrs) > 0 {
			m := g.Addrs[0]
			for _, a := range g.Addrs {
				if a < m {
					m = a
				}
			}
			return "group:" + m
		}
		return el
	}
	for _, p := range b.Policies {
		seen := map[string]string{}
		for _, r := range p.Rules {
			c := r.Clone()
			c.ID = ""
			full := c.Src + " " + c.Dst
			c.Src, c.Dst = first(c.Src), first(c.Dst)
			k := fmt.Sprintf("%+v", *c)
			if old, ok := seen[k]; ok && old != full {
				return true
			}
			seen[k] = full
		}
	}
	return false
}

// nsxOnlyRegroup: the script keeps every rule and only rewrites group
// contents or points kept rules to other groups (the footprint of rules
// that were paired crosswise).
func nsxOnlyRegroup(stdout string) bool {
	cmds, err := nsxm.ParseScript(stdout)
	if err != nil || len(cmds) == 0 {
		return false
	}
	for _, c := range cmds {
		switch {
		case strings.Contains(c.URL, "/ip-address-expressions/"):
		case strings.Contains(c.URL, "/groups/") && (c.Method == "PUT" || c.Method == "DELETE"):
		case strings.Contains(c.URL, "/rules/") && c.Method == "PATCH":
		default:
			return false
		}
	}
	return true
}

func nsxDupPut(cmds []nsxm.Cmd) string {
	seen := map[string]bool{}
	for _, c := range cmds {
		if c.Method != "PUT" {
			continue
		}
		if seen[c.URL] {
			return c.URL
		}
		seen[c.URL] = true
	}
	return ""
}

func oracleC04nsx(c *Case) Verdict {
	r, early := runNSX(c)
	if early != nil {
		return *early
	}
	classes := nsxClasses(r)
	if r.refusal != nil {
		return Verdict{Status: Discard, Reason: "refused-by-model", Classes: classes}
	}
	want := r.b.Canon()
	if got := r.final.Canon(); got != want {
		sig := "nsx:not-converged"
		if u := nsxDupPut(r.cmds); u != "" {
			sig = sigF30
		}
		return fail(sig, "executing the script does not yield the target's rules\n--- got\n%s--- want\n%s%s", got, want, nsxCtx(c, r))
	}
	if lo := r.final.LeftOver(r.b); len(lo) > 0 {
		return fail("nsx:leftover", "left over after the script: %s\n%s", strings.Join(lo, ", "), nsxCtx(c, r))
	}
	if len(r.cmds) == 0 {
		if !r.res.Unchanged() {
			return fail("nsx:marker", "empty script without 'device unchanged'\n%s", nsxCtx(c, r))
		}
		// covered by the two checks above (final == device); kept explicit
		if r.a.Canon() != want || len(r.a.LeftOver(r.b)) > 0 {
			return fail("nsx:unchanged-but-different", "'device unchanged' for a manager that is not equivalent\n%s", nsxCtx(c, r))
		}
	} else if !r.res.Changed() {
		return fail("nsx:marker", "non-empty script without 'device changed'\n%s", nsxCtx(c, r))
	}
	bits, _ := strconv.Atoi(c.Param("spelling"))
	dev2 := r.final.Print(nsxSpelling(bits))
	res2 := tool.CompareStd(nsxWithDevice(c, dev2))
	if res2.Crashed() || res2.Exit != 0 {
		return fail("nsx:second-compare-rejected", "second compare fails: exit %d\n%s\n%s\n--- manager after\n%s%s",
			res2.Exit, res2.Stderr, res2.Panic, dev2, nsxCtx(c, r))
	}
	if res2.Stdout != "" || !res2.Unchanged() {
		sig := "nsx:second-compare-changes"
		if nsxTiedRules(r.b) && nsxOnlyRegroup(res2.Stdout) {
			sig = sigF32
		}
		return fail(sig, "second compare still reports changes:\n%s\n--- manager after\n%s%s",
			res2.Stdout, dev2, nsxCtx(c, r))
	}
	nt := len(r.cmds) > 0 && (hasClass(classes, "nsx:ruleKeptGroupsDiffer") ||
		hasClass(classes, "nsx:renamedId") || hasClass(classes, "nsx:patchService"))
	return pass(nt, classes...)
}

// ------------------------------------------------------------------ C08

func oracleC08nsx(c *Case) Verdict {
	r, early := runNSX(c)
	if early != nil {
		return *early
	}
	if r.refusal != nil {
		cmd := r.cmds[r.refStep]
		return fail("nsx:refused:"+r.refusal.Rule, "call %d %s %s would be refused by the manager: %s\n%s",
			r.refStep+1, cmd.Method, cmd.URL, r.refusal.Msg, nsxCtx(c, r))
	}
	classes := nsxClasses(r)
	dep := hasClass(classes, "nsx:usesObjectCreatedEarlier")
	// deletion of an object that a device rule named
	for _, cmd := range r.cmds {
		if cmd.Method != "DELETE" {
			continue
		}
		if id, ok := urlTail(cmd.URL, "/groups/"); ok {
			for _, ru := range rulesOf(r.a) {
				if ru.Src == nsxm.GroupPrefix+id || ru.Dst == nsxm.GroupPrefix+id {
					dep = true
					classes = append(classes, "nsx:deletesFormerlyUsedGroup")
				}
			}
		}
		if id, ok := urlTail(cmd.URL, "/infra/services/"); ok {
			for _, ru := range rulesOf(r.a) {
				if ru.Service == nsxm.ServicePrefix+id {
					dep = true
					classes = append(classes, "nsx:deletesFormerlyUsedService")
				}
			}
		}
	}
	return pass(len(r.cmds) >= 3 && dep, dedup(classes)...)
}

func rulesOf(s *nsxm.Store) []*nsxm.Rule {
	var l []*nsxm.Rule
	for _, p := range s.Policies {
		l = append(l, p.Rules...)
	}
	return l
}

func dedup(l []string) []string {
	seen := map[string]bool{}
	var res []string
	for _, x := range l {
		if !seen[x] {
			seen[x] = true
			res = append(res, x)
		}
	}
	return res
}

// ------------------------------------------------------------------ C10

func oracleC10nsx(c *Case) Verdict {
	r, early := runNSX(c)
	if early != nil {
		return *early
	}
	if r.refusal != nil {
		return discard("first-run-refused")
	}
	if len(r.cmds) < 2 {
		return pass(false)
	}
	want := r.b.Canon()
	bits, _ := strconv.Atoi(c.Param("spelling"))
	sp := nsxSpelling(bits)
	devA, devEnd := r.a.Print(sp), r.final.Print(sp)
	var classes []string
	nt := false
	for _, k := range parseCuts(c.Param("cuts"), len(r.cmds)) {
		st := r.a.Clone()
		if ref, _, err := nsxExecAll(st, r.cmds[:k]); err != nil || ref != nil {
			return uncovered("prefix exec failed")
		}
		devK := st.Print(sp)
		ctx := func() string {
			return fmt.Sprintf("cut after call %d of %d\n--- original device\n%s%s--- first script\n%s--- manager at cut\n%s",
				k, len(r.cmds), c.Files["device"], nsxTargetText(c), nsxm.ScriptText(r.cmds), devK)
		}
		res := tool.CompareStd(nsxWithDevice(c, devK))
		if res.Crashed() {
			sig := "nsx:resume-crash"
			if strings.Contains(res.Panic, "nsx.sortRules") && nsxHasEmptyGroup(st) {
				sig = sigF31
			}
			return fail(sig, "resumed compare crashed: %s\n%s", res.Panic, ctx())
		}
		if res.Exit != 0 {
			return fail("nsx:resume-rejected", "resumed compare rejected the half-changed manager:\n%s\n%s", res.Stderr, ctx())
		}
		cmds2, err := nsxm.ParseScript(res.Stdout)
		if err != nil {
			return uncovered("resume script: " + err.Error())
		}
		ref, step, err := nsxExecAll(st, cmds2)
		if err != nil {
			return uncovered("resume exec: " + err.Error())
		}
		if ref != nil {
			return fail("nsx:resume-refused", "resumed script call %d %s %s refused: %s\n--- second script\n%s%s",
				step+1, cmds2[step].Method, cmds2[step].URL, ref.Msg, nsxm.ScriptText(cmds2), ctx())
		}
		if got := st.Canon(); got != want {
			sig := "nsx:resume-not-converged"
			if nsxDupPut(cmds2) != "" {
				sig = sigF30
			}
			return fail(sig, "resumed approve does not reach the target\n--- got\n%s--- want\n%s--- second script\n%s%s",
				got, want, nsxm.ScriptText(cmds2), ctx())
		}
		if lo := st.LeftOver(r.b); len(lo) > 0 {
			return fail("nsx:resume-leftover", "left over after the resumed approve: %s\n--- second script\n%s%s",
				strings.Join(lo, ", "), nsxm.ScriptText(cmds2), ctx())
		}
		dev3 := st.Print(sp)
		res3 := tool.CompareStd(nsxWithDevice(c, dev3))
		if res3.Crashed() || res3.Exit != 0 || res3.Stdout != "" {
			sig := "nsx:resume-third-compare"
			if res3.Exit == 0 && !res3.Crashed() && nsxTiedRules(r.b) && nsxOnlyRegroup(res3.Stdout) {
				sig = sigF32
			}
			return fail(sig, "compare after resumed approve not empty (exit %d):\n%s%s\n--- second script\n%s--- manager after resume\n%s%s",
				res3.Exit, res3.Stdout, res3.Stderr, nsxm.ScriptText(cmds2), dev3, ctx())
		}
		classes = append(classes, "cut:evaluated")
		if devK != devA && devK != devEnd {
			nt = true
			classes = append(classes, "cut:state-differs-from-both-ends")
		}
		next := r.cmds[k]
		prev := r.cmds[k-1]
		if prev.Method == "PUT" && (strings.Contains(prev.URL, "/groups/") || strings.Contains(prev.URL, "/infra/services/")) &&
			next.Method != "DELETE" && strings.Contains(next.Body, `/`+prev.URL[strings.LastIndex(prev.URL, "/")+1:]+`"`) {
			classes = append(classes, "cut:after-creation-before-use")
		}
		if strings.HasSuffix(prev.URL, "action=remove") && strings.HasSuffix(next.URL, "action=add") {
			classes = append(classes, "cut:between-remove-and-add")
		}
		if prev.Method == "DELETE" && next.Method == "PUT" && strings.Contains(prev.URL, "/rules/") && strings.Contains(next.URL, "/rules/") {
			classes = append(classes, "cut:between-rule-delete-and-put")
		}
	}
	return pass(nt, dedup(classes)...)
}

func init() {
	register("C04", "nsx", withRefusal(oracleC04nsx, oracleC08nsx))
	register("C08", "nsx", oracleC08nsx)
	register("C10", "nsx", oracleC10nsx)
	register("C16", "nsx", oracleC16)
}
