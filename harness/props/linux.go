package props

import (
	"errors"
	"fmt"
	"strconv"
	"strings"

	"verif/harness/linuxm"
	"verif/harness/tool"
)

// linuxCase writes a generated pair to files: the device file is what
// `ip route show` (each line prefixed with "ip route add ", the form
// `drc FILE1 FILE2` expects) and iptables-save print, the code file is the
// Netspoc spelling of the target.
func linuxCase(property string, p *linuxm.Pair) *Case {
	return &Case{
		Property: property,
		Family:   "linux",
		Files: tool.Files{
			"device":           p.A.PrintDevice(p.Sp),
			"code/router":      p.B.PrintTarget(p.Sp),
			"code/router.info": tool.Info("Linux"),
		},
		Params: map[string]string{"spelling": strconv.FormatUint(uint64(p.Sp), 10)},
		Gen:    p.Mode + strings.Join(p.Ops, ","),
	}
}

func linuxSpelling(c *Case) linuxm.Spelling {
	n, _ := strconv.ParseUint(c.Param("spelling"), 10, 32)
	return linuxm.Spelling(n)
}

type linuxRun struct {
	res       tool.Result
	a, b      *linuxm.State
	sc        *linuxm.Script
	states    []*linuxm.RouteTable // route table after every step
	final     *linuxm.State
	refusal   *linuxm.Refusal
	refStep   int
	refCmd    string
	file      *linuxm.Ruleset // the emitted restore file, parsed
	multipath bool
}

// linuxTarget parses the Netspoc side. Routes of a raw file are appended
// (the tool documents plain concatenation); an iptables part in a raw file
// and IPv6 files are outside this model (C18 covers the merge).
func linuxTarget(c *Case) (*linuxm.State, error) {
	if strings.TrimSpace(c.Files["code/ipv6/router"]) != "" {
		return nil, &linuxm.ErrUnsupported{What: "ipv6 file"}
	}
	b, err := linuxm.ParseFile(c.Files["code/router"])
	if err != nil {
		return nil, err
	}
	if raw := c.Files["code/router.raw"]; strings.TrimSpace(raw) != "" {
		rb, err := linuxm.ParseFile(raw)
		if err != nil {
			return nil, err
		}
		if len(rb.Rules.Tables) > 0 {
			return nil, &linuxm.ErrUnsupported{What: "iptables part in raw file (merge handled by C18 only)"}
		}
		b.Routes.Lines = append(b.Routes.Lines, rb.Routes.Lines...)
	}
	return b, nil
}

// bareProtoMatch returns the first rule line with "-m tcp|udp|icmp" that
// uses no option of that match.
func bareProtoMatch(text string) string {
	for _, line := range strings.Split(text, "\n") {
		f := strings.Fields(line)
		for i := 0; i+1 < len(f); i++ {
			if f[i] != "-m" || (f[i+1] != "tcp" && f[i+1] != "udp" && f[i+1] != "icmp") {
				continue
			}
			used := false
			for _, w := range f {
				switch w {
				case "--sport", "--dport", "--source-port", "--destination-port", "--syn", "--tcp-flags", "--tcp-option", "--icmp-type":
					used = true
				}
			}
			if !used {
				return line
			}
		}
	}
	return ""
}

func linuxParse(c *Case) (a, b *linuxm.State, early *Verdict) {
	ret := func(v Verdict) (*linuxm.State, *linuxm.State, *Verdict) { return nil, nil, &v }
	a, err := linuxm.ParseFile(c.Files["device"])
	if err != nil {
		return ret(uncovered("device: " + err.Error()))
	}
	if b, err = linuxTarget(c); err != nil {
		return ret(uncovered("target: " + err.Error()))
	}
	if l := bareProtoMatch(c.Files["code/router"]); l != "" {
		// Whether a device prints a protocol match that was loaded without
		// any of its options is outside what the model knows.
		return ret(uncovered("target: protocol match without option: " + l))
	}
	if !linuxm.BuiltinsConsistent(a.Rules, b.Rules) {
		return ret(uncovered("built-in chains of device and target differ: no kernel state / no realisable target"))
	}
	// Arm of the route-table model (DESIGN App. B).
	a.Routes.Multipath = a.Routes.HasMultiDst() || b.Routes.HasMultiDst()
	return a, b, nil
}

// linuxExec executes a parsed script on st; the first refusal is returned
// together with its position (execution continues behind it).
func linuxExec(st *linuxm.State, sc *linuxm.Script, after func(step int)) (file *linuxm.Ruleset, ref *linuxm.Refusal, refStep int, refCmd string, err error) {
	note := func(e error, step int, cmd string) error {
		var r *linuxm.Refusal
		if errors.As(e, &r) {
			if ref == nil {
				ref, refStep, refCmd = r, step, cmd
			}
			return nil
		}
		return e
	}
	for i, step := range sc.RouteSteps {
		for _, cmd := range step {
			if e := st.Routes.Exec(cmd); e != nil {
				if e = note(e, i, cmd); e != nil {
					return nil, nil, 0, "", e
				}
			}
		}
		if after != nil {
			after(i)
		}
	}
	if sc.DiffLine != "" {
		f, e := st.ApplyRestore(sc.Restore)
		if e != nil {
			if e = note(e, len(sc.RouteSteps), "iptables-restore < file"); e != nil {
				return nil, nil, 0, "", e
			}
		}
		file = f
	}
	return file, ref, refStep, refCmd, nil
}

func runLinux(c *Case, keepStates bool) (r *linuxRun, early *Verdict) {
	r = &linuxRun{}
	ret := func(v Verdict) (*linuxRun, *Verdict) { return r, &v }
	if r.a, r.b, early = linuxParse(c); early != nil {
		return r, early
	}
	r.multipath = r.a.Routes.Multipath
	r.res = tool.CompareStd(c.Files)
	if r.res.Crashed() {
		return ret(discard("crash"))
	}
	if r.res.Exit != 0 {
		return ret(discard("rejected"))
	}
	var err error
	if r.sc, err = linuxm.ParseScript(r.res.Stdout); err != nil {
		return ret(uncovered("script: " + err.Error()))
	}
	st := r.a.Clone()
	var after func(int)
	if keepStates {
		after = func(int) { r.states = append(r.states, st.Routes.Clone()) }
	}
	r.file, r.refusal, r.refStep, r.refCmd, err = linuxExec(st, r.sc, after)
	if err != nil {
		return ret(uncovered("exec: " + err.Error()))
	}
	r.final = st
	return r, nil
}

func linuxClasses(r *linuxRun) []string {
	var cl []string
	seen := map[string]bool{}
	add := func(s string) {
		if !seen[s] {
			seen[s] = true
			cl = append(cl, s)
		}
	}
	dels := 0
	for _, st := range r.sc.RouteSteps {
		switch {
		case len(st) == 2:
			add("linux:joined-replace")
			if strings.Contains(st[0], " default ") || strings.Contains(st[0], " 0.0.0.0/0 ") {
				add("linux:default-replaced")
			}
		case strings.HasPrefix(st[0], "ip route add "):
			add("linux:route-add")
		default:
			dels++
			add("linux:route-del")
		}
	}
	if dels >= 2 {
		add("linux:deletes>=2")
	}
	if len(r.a.Routes.Statics())+len(r.b.Routes.Statics()) > 0 {
		if r.multipath {
			add("linux:multipath-arm")
		} else {
			add("linux:kernel-arm")
		}
	}
	for _, l := range r.a.Routes.Lines {
		if !l.Static {
			add("linux:foreign-route-lines")
		}
	}
	if len(r.a.Rules.Tables)+len(r.b.Rules.Tables) > 0 {
		if r.sc.DiffLine != "" {
			add("linux:iptables-replaced")
		} else {
			add("linux:iptables-kept")
		}
		if len(r.a.Rules.TablesMissingIn(r.b.Rules)) > 0 {
			add("linux:table-only-on-device")
		}
		if len(r.b.Rules.TablesMissingIn(r.a.Rules)) > 0 {
			add("linux:table-only-in-target")
		}
	}
	return cl
}

func linuxCtx(c *Case, r *linuxRun) string {
	return fmt.Sprintf("--- device\n%s--- target\n%s--- tool output\n%s--- stderr\n%s",
		c.Files["device"], c.Files["code/router"], r.res.Stdout, r.res.Stderr)
}

func linuxRouteNT(r *linuxRun) bool {
	dels := 0
	for _, st := range r.sc.RouteSteps {
		if len(st) == 2 {
			return true
		}
		if strings.HasPrefix(st[0], "ip route del ") {
			dels++
		}
	}
	return dels >= 2
}

// linuxSpuriousSig names the root cause of a difference that the tool
// reports between two spellings of one ruleset, if it is one of the
// analysed ones; every other spurious difference keeps the generic
// signature.
func linuxSpuriousSig(diffLine string) string {
	generic := "linux:iptables-spurious-diff"
	i := strings.LastIndex(diffLine, "[")
	if i < 0 || !strings.HasSuffix(diffLine, "]") {
		return generic
	}
	head, body := diffLine[:i], diffLine[i+1:len(diffLine)-1]
	l, r, ok := strings.Cut(body, "<->")
	if !ok {
		return generic
	}
	isNum := func(s string) bool { _, err := strconv.Atoi(s); return err == nil }
	switch {
	case strings.HasPrefix(body, "options: "):
		// option names present on one side only; an analysed cause is
		// accepted only if it explains all of them
		set := func(s string) map[string]bool {
			m := map[string]bool{}
			for _, k := range strings.Split(s, ",") {
				if k != "" {
					m[k] = true
				}
			}
			return m
		}
		dev, tgt := set(strings.TrimPrefix(l, "options: ")), set(r)
		// F31: device prints "--tcp-flags FIN,SYN,RST,ACK SYN" for a positive --syn
		f31 := dev["--tcp-flags"] && tgt["--syn"]
		if f31 {
			delete(dev, "--tcp-flags")
			delete(tgt, "--syn")
		}
		// F36: device prints "-m state ... -m tcp --dport N" for a target
		// written "-m state ... --dport N"; the tool keeps one "-m" per rule
		f36 := tgt["-m"]
		delete(tgt, "-m")
		if len(dev)+len(tgt) == 0 {
			switch {
			case f31:
				return "linux:F31-positive-syn-printed-as-tcp-flags-not-recognised"
			case f36:
				return "linux:F36-match-before-implicit-protocol-match-hides-m-option"
			}
		}
	case strings.HasSuffix(head, ":-p:") && !isNum(strings.TrimPrefix(l, "!")) && isNum(strings.TrimPrefix(r, "!")):
		if n := strings.TrimPrefix(l, "!"); (n == "vrrp" || n == "ipv6-icmp") && strings.HasPrefix(l, "!") {
			// the two names the tool does map are not mapped behind a '!'
			return "linux:F34-negated-value-not-normalised"
		}
		// device prints the name of a protocol the target gives by number
		return "linux:F32-protocol-number-printed-as-name-by-device"
	case strings.HasSuffix(head, ":--set-mark:") && strings.HasPrefix(l, "0x") && isNum(r):
		if n, err := strconv.ParseUint(r, 10, 32); err == nil && n >= 1<<31 {
			return "linux:F33-mark-above-2^31-not-normalised"
		}
	case (strings.HasSuffix(head, ":--dport:") || strings.HasSuffix(head, ":--sport:")) && strings.HasPrefix(l, "!0:") && strings.HasPrefix(r, "!:"):
		return "linux:F34-negated-value-not-normalised"
	}
	return generic
}

// ------------------------------------------------------------------ C05

func oracleC05linux(c *Case) Verdict {
	r, early := runLinux(c, false)
	if early != nil {
		return *early
	}
	classes := linuxClasses(r)
	ctx := func() string { return linuxCtx(c, r) }
	if r.refusal != nil {
		return fail("linux:refused:"+r.refusal.Rule, "step %d command %q would be refused by the host: %s\n%s",
			r.refStep+1, r.refCmd, r.refusal.Msg, ctx())
	}
	// routes
	if got, want := r.final.Routes.StaticCanon(), r.b.Routes.StaticCanon(); got != want {
		return fail("linux:routes-not-converged", "executing the route commands does not yield the target's static routes\n--- got\n%s\n--- want\n%s\n%s", got, want, ctx())
	}
	if len(r.sc.RouteSteps) == 0 && r.a.Routes.StaticCanon() != r.b.Routes.StaticCanon() {
		return fail("linux:unchanged-but-different", "no route command although the static routes differ\n%s", ctx())
	}
	// iptables: metamorphic pair
	ca, cb := r.a.Rules.Canon(), r.b.Rules.Canon()
	if ca == cb && r.sc.DiffLine != "" {
		return fail(linuxSpuriousSig(r.sc.DiffLine),
			"device and target hold the same ruleset (tables, chains, policies, ordered rules) in two spellings, but a difference is reported: %s\n--- abstract ruleset\n%s%s",
			r.sc.DiffLine, ca, ctx())
	}
	if ca != cb && r.sc.DiffLine == "" {
		return fail("linux:iptables-missed-diff", "device and target rulesets differ, but no iptables change is reported\n--- device ruleset\n%s--- target ruleset\n%s%s", ca, cb, ctx())
	}
	if r.sc.DiffLine != "" {
		if got := r.file.Canon(); got != cb {
			return fail("linux:restore-file-wrong", "the emitted iptables-restore file does not hold the target's ruleset\n--- file parses to\n%s--- target ruleset\n%s%s", got, cb, ctx())
		}
		if got := r.final.Rules.Canon(); got != cb {
			sig := "linux:iptables-not-converged"
			if l := r.a.Rules.TablesMissingIn(r.b.Rules); len(l) > 0 {
				sig = "linux:F30-table-only-on-device-is-never-flushed"
			}
			return fail(sig, "loading the emitted iptables-restore file does not yield the target's ruleset (iptables-restore only touches the tables named in the file)\n--- got\n%s--- want\n%s%s", got, cb, ctx())
		}
	}
	// markers
	if r.sc.Empty() {
		if !r.res.Unchanged() {
			return fail("linux:marker", "empty output without 'device unchanged'\n%s", ctx())
		}
	} else if !r.res.Changed() {
		return fail("linux:marker", "changes without 'device changed'\n%s", ctx())
	}
	// what such a device prints afterwards
	sp := linuxSpelling(c)
	f2 := tool.Files{}
	for k, v := range c.Files {
		f2[k] = v
	}
	f2["device"] = r.final.PrintDevice(sp)
	res2 := tool.CompareStd(f2)
	if res2.Crashed() || res2.Exit != 0 {
		return fail("linux:second-compare-rejected", "second compare fails: exit %d\n%s\n%s\n--- device after\n%s%s",
			res2.Exit, res2.Stderr, res2.Panic, f2["device"], ctx())
	}
	if res2.Stdout != "" || !res2.Unchanged() {
		sig := "linux:second-compare-changes"
		if sc2, err := linuxm.ParseScript(res2.Stdout); err == nil && len(sc2.RouteSteps) == 0 && sc2.DiffLine != "" {
			if s := linuxSpuriousSig(sc2.DiffLine); s != "linux:iptables-spurious-diff" {
				sig = s
			}
		}
		return fail(sig, "comparing the target with what the device prints after the change still reports changes:\n%s\n--- device after\n%s%s",
			res2.Stdout, f2["device"], ctx())
	}
	// non-triviality
	nt := linuxRouteNT(r)
	if d2, err := linuxm.ParseFile(f2["device"]); err == nil {
		if n := linuxm.SpellingDistance(d2.Rules, r.b.Rules); n >= 2 {
			nt = true
			classes = append(classes, "linux:spellings-differ>=2")
		}
	}
	return pass(nt, classes...)
}

// ------------------------------------------------------------------ C10

func oracleC10linux(c *Case) Verdict {
	r, early := runLinux(c, false)
	if early != nil {
		return *early
	}
	if r.refusal != nil {
		return discard("first-run-refused")
	}
	// C10 presupposes that the uninterrupted approve works: a case that
	// already fails C05 is reported there.
	if v := oracleC05linux(c); v.Status == Fail {
		return discard("first-run-fails-C05")
	}
	wantRt, wantIpt := r.b.Routes.StaticCanon(), r.b.Rules.Canon()
	cmds := r.sc.RouteCmds()
	n := len(cmds)
	hasIpt := r.sc.DiffLine != ""
	if hasIpt {
		n++
	}
	if n < 2 {
		return pass(false)
	}
	halfAt := map[int]bool{}
	pos := 0
	for _, st := range r.sc.RouteSteps {
		if len(st) == 2 {
			halfAt[pos+1] = true
		}
		pos += len(st)
	}
	sp := linuxSpelling(c)
	cuts := parseCuts(c.Param("cuts"), n)
	if hasIpt {
		cuts = append(cuts, n) // after the ruleset replacement, before the files are moved into place
	}
	var classes []string
	nt := false
	for _, k := range cuts {
		st := r.a.Clone()
		for i, cmd := range cmds {
			if i >= k {
				break
			}
			if err := st.Routes.Exec(cmd); err != nil {
				return uncovered("prefix exec: " + err.Error())
			}
		}
		if k == n && hasIpt {
			if _, err := st.ApplyRestore(r.sc.Restore); err != nil {
				return uncovered("prefix restore: " + err.Error())
			}
		}
		f2 := tool.Files{}
		for name, v := range c.Files {
			f2[name] = v
		}
		f2["device"] = st.PrintDevice(sp)
		ctx := func() string {
			return fmt.Sprintf("cut after command %d of %d\n--- original device\n%s--- target\n%s--- first output\n%s--- device at cut\n%s",
				k, n, c.Files["device"], c.Files["code/router"], r.res.Stdout, f2["device"])
		}
		res := tool.CompareStd(f2)
		if res.Crashed() {
			return fail("linux:resume-crash", "resumed compare crashed: %s\n%s", res.Panic, ctx())
		}
		if res.Exit != 0 {
			return fail("linux:resume-rejected", "resumed compare rejected the half-changed device:\n%s\n%s", res.Stderr, ctx())
		}
		sc2, err := linuxm.ParseScript(res.Stdout)
		if err != nil {
			return uncovered("resume script: " + err.Error())
		}
		_, ref, refStep, refCmd, err := linuxExec(st, sc2, nil)
		if err != nil {
			return uncovered("resume exec: " + err.Error())
		}
		if ref != nil {
			return fail("linux:resume-refused:"+ref.Rule, "resumed run: step %d %q refused: %s\n--- second output\n%s%s",
				refStep+1, refCmd, ref.Msg, res.Stdout, ctx())
		}
		if got := st.Routes.StaticCanon(); got != wantRt {
			return fail("linux:resume-not-converged", "resumed approve does not reach the target's routes\n--- got\n%s\n--- want\n%s\n--- second output\n%s%s",
				got, wantRt, res.Stdout, ctx())
		}
		if got := st.Rules.Canon(); got != wantIpt {
			return fail("linux:resume-not-converged", "resumed approve does not reach the target's ruleset\n--- got\n%s--- want\n%s--- second output\n%s%s",
				got, wantIpt, res.Stdout, ctx())
		}
		f3 := tool.Files{}
		for name, v := range c.Files {
			f3[name] = v
		}
		f3["device"] = st.PrintDevice(sp)
		res3 := tool.CompareStd(f3)
		if res3.Crashed() || res3.Exit != 0 || res3.Stdout != "" {
			sig := "linux:resume-third-compare"
			if sc3, err := linuxm.ParseScript(res3.Stdout); err == nil && len(sc3.RouteSteps) == 0 && sc3.DiffLine != "" {
				if s := linuxSpuriousSig(sc3.DiffLine); s != "linux:iptables-spurious-diff" {
					sig = s
				}
			}
			return fail(sig, "compare after resumed approve not empty (exit %d):\n%s%s\n--- second output\n%s--- device after resume\n%s%s",
				res3.Exit, res3.Stdout, res3.Stderr, res.Stdout, f3["device"], ctx())
		}
		switch {
		case halfAt[k]:
			classes = append(classes, "cut:between-halves")
		case k == len(cmds) && hasIpt:
			classes = append(classes, "cut:routes-done-iptables-pending")
		case k == n && hasIpt:
			classes = append(classes, "cut:after-restore")
		}
		if k < n {
			classes = append(classes, "cut:evaluated")
			if st0 := r.a.Routes.StaticCanon(); k < len(cmds) || st0 != wantRt {
				nt = true
			}
		}
	}
	return pass(nt, classes...)
}

// ------------------------------------------------------------------ C14

func oracleC14linux(c *Case) Verdict {
	r, early := runLinux(c, true)
	if early != nil {
		return *early
	}
	if r.refusal != nil {
		return discard("refused-by-model")
	}
	univ := linuxm.RouteUniverse(r.a.Routes, r.b.Routes)
	var both []int
	for i, addr := range univ {
		if r.a.Routes.Covered(addr) && r.b.Routes.Covered(addr) {
			both = append(both, i)
		}
	}
	for i, st := range r.states {
		for _, j := range both {
			if !st.Covered(univ[j]) {
				return fail("linux:route-gap", "after step %d (%s) destination %s has no route, but it has one before and after the change\n--- routes after the step\n%s\n%s",
					i+1, strings.Join(r.sc.RouteSteps[i], " \\N "), univ[j], st.StaticCanon(), linuxCtx(c, r))
			}
		}
	}
	classes := linuxClasses(r)
	nt := len(r.sc.RouteSteps) >= 2 && len(both) > 0
	if nt {
		// a step that removes a route while the destination stays covered
		for _, st := range r.sc.RouteSteps {
			if len(st) == 2 || strings.HasPrefix(st[0], "ip route del ") {
				classes = append(classes, "linux:c14-delete-under-cover")
				break
			}
		}
	}
	return pass(nt, classes...)
}

// ------------------------------------------------------------------ C16

// oracleC16linux is the shared determinism oracle; a failure whose runs
// differ only in the line that tells where the rulesets differ gets the
// signature of its analysed root cause.
func oracleC16linux(c *Case) Verdict {
	v, a, b := oracleC16pair(c)
	if v.Status != Fail || a == nil || b == nil {
		return v
	}
	la, lb := strings.Split(a.Stdout, "\n"), strings.Split(b.Stdout, "\n")
	if len(la) != len(lb) || a.Stderr != b.Stderr || a.Exit != b.Exit {
		return v
	}
	for j := range la {
		if la[j] != lb[j] && !(strings.HasPrefix(la[j], "iptables differs at ") && strings.HasPrefix(lb[j], "iptables differs at ")) {
			return v
		}
	}
	v.Sig = "linux:F35-diff-message-names-random-option"
	return v
}

func init() {
	register("C05", "linux", oracleC05linux)
	register("C10", "linux", oracleC10linux)
	register("C14", "linux", oracleC14linux)
	register("C16", "linux", oracleC16linux)
}
