package props

import (
	"testing"

	"pgregory.net/rapid"
	"verif/harness/asam"
	"verif/harness/evid"
	"verif/harness/iosm"
)

const ruleC08 = "same generated pairs as C01-C04; every emitted command is executed on the strict model; " +
	"non-trivial = script has >= 3 commands and one command depends on another (uses an object created earlier, or deletes a formerly referenced object); distinct = hash of input files"

func TestC08(t *testing.T) {
	ev := evid.New("C08", ruleC08)
	finish(t, ev)
	t.Run("asa", func(t *testing.T) {
		rapid.Check(t, func(rt *rapid.T) {
			p := asam.GenPair(rt, asam.GenOpts{})
			c := asaCase("C08", p)
			judge(rt, ev, oracleC08asa, c, func() any { return c })
		})
	})
	t.Run("ios", func(t *testing.T) {
		rapid.Check(t, func(rt *rapid.T) {
			p := iosm.GenPair(rt, iosm.GenOpts{})
			c := iosCase("C08", p)
			judge(rt, ev, oracleC08ios, c, func() any { return c })
		})
	})
}
