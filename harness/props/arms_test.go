package props

import (
	"sort"
	"testing"

	"pgregory.net/rapid"
	"verif/harness/evid"
)

// An arm is one family's generated check of a property. Family files
// (asa_test.go, ios_test.go, ...) register their arms in init(); the
// property tests (TestC01 ...) run every arm registered for them, so a new
// family only adds files.
type arm struct {
	name string
	run  func(rt *rapid.T, ev *evid.Collector)
}

var arms = map[string][]arm{}

func addArm(property, name string, run func(rt *rapid.T, ev *evid.Collector)) {
	arms[property] = append(arms[property], arm{name, run})
}

func runArms(t *testing.T, property, rule string) {
	ev := evid.New(property, rule)
	finish(t, ev)
	l := arms[property]
	sort.SliceStable(l, func(i, j int) bool { return l[i].name < l[j].name })
	if len(l) == 0 {
		t.Fatalf("no arms registered for %s", property)
	}
	for _, a := range l {
		a := a
		t.Run(a.name, func(t *testing.T) {
			rapid.Check(t, func(rt *rapid.T) { a.run(rt, ev) })
		})
	}
}
