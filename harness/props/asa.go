package props

import (
	"errors"
	"fmt"
	"strconv"
	"strings"

	"verif/harness/asam"
	"verif/harness/tool"
)

func spellingFromBits(bits int) asam.Spelling {
	return asam.Spelling{
		NamedPorts: bits&1 != 0, HostMask: bits&2 != 0, ZeroAny: bits&4 != 0,
		LogNames: bits&8 != 0, Metric: bits&16 != 0, NamedProto: bits&32 != 0,
	}
}

func spellingBits(sp asam.Spelling) int {
	b := 0
	for i, f := range []bool{sp.NamedPorts, sp.HostMask, sp.ZeroAny, sp.LogNames, sp.Metric, sp.NamedProto} {
		if f {
			b |= 1 << i
		}
	}
	return b
}

// asaCase builds the replayable case of a generated pair.
func asaCase(property string, p *asam.Pair) *Case {
	return &Case{
		Property: property,
		Family:   "asa",
		Files: tool.Files{
			"device":           p.A.Print(p.Sp),
			"code/router":      p.B.NetspocText(),
			"code/router.info": tool.Info("ASA"),
		},
		Params: map[string]string{"spelling": strconv.Itoa(spellingBits(p.Sp))},
		Gen:    p.Mode + " " + strings.Join(p.Ops, ","),
	}
}

// asaRun is one execution of the plan route for ASA: the tool's script,
// executed step by step on the strict model.
type asaRun struct {
	res     tool.Result
	a, b    *asam.State
	steps   [][]string
	states  []*asam.State // state after each step (only if keepStates)
	final   *asam.State
	refusal *asam.Refusal
	refStep int
	refCmd  string
}

// asaTarget computes the effective target of the case with the harness's
// own reference merge (v4 only for now; v6/raw handled by refmerge).
func asaTarget(c *Case) (*asam.State, error) {
	if c.Files["code/ipv6/router"] != "" || c.Files["code/router.raw"] != "" {
		return asaRefMerge(c.Files["code/router"], c.Files["code/ipv6/router"], c.Files["code/router.raw"])
	}
	return asam.Parse(c.Files["code/router"])
}

func isUnsupported(err error) bool {
	var u *asam.ErrUnsupported
	return errors.As(err, &u)
}

// runASA runs the tool on the case and executes the script on model(A).
// early is non-nil if the case ends before the oracle (discard/uncovered).
func runASA(c *Case, keepStates bool) (r *asaRun, early *Verdict) {
	r = &asaRun{}
	ret := func(v Verdict) (*asaRun, *Verdict) { return r, &v }
	var err error
	r.a, err = asam.Parse(c.Files["device"])
	if err != nil {
		return ret(uncovered("device: " + err.Error()))
	}
	r.b, err = asaTarget(c)
	if err != nil {
		return ret(uncovered("target: " + err.Error()))
	}
	r.res = tool.CompareStd(c.Files)
	if r.res.Crashed() {
		return ret(Verdict{Status: Discard, Reason: "crash"})
	}
	if r.res.Exit != 0 {
		return ret(discard("rejected"))
	}
	r.steps = tool.CiscoScript(r.res.Stdout)
	st := r.a.Clone()
	for i, step := range r.steps {
		for _, cmd := range step {
			err := st.Exec(cmd)
			if err == nil {
				continue
			}
			var ref *asam.Refusal
			if errors.As(err, &ref) {
				if r.refusal == nil {
					r.refusal, r.refStep, r.refCmd = ref, i, cmd
				}
				continue // go on leniently, only to classify
			}
			return ret(uncovered("exec: " + err.Error()))
		}
		if keepStates {
			snap := st.Clone() // snapshot does not carry the mode
			r.states = append(r.states, snap)
		}
	}
	st.EndSession()
	r.final = st
	return r, nil
}

func scriptText(steps [][]string) string {
	var b strings.Builder
	for i, s := range steps {
		fmt.Fprintf(&b, "%3d: %s\n", i+1, strings.Join(s, " \\N "))
	}
	return b.String()
}

func asaClasses(r *asaRun) []string {
	var cl []string
	seen := map[string]bool{}
	add := func(s string) {
		if !seen[s] {
			seen[s] = true
			cl = append(cl, s)
		}
	}
	for _, st := range r.steps {
		if len(st) == 2 {
			add("asa:joined")
			if strings.HasPrefix(st[0], "no access-list") {
				add("asa:move")
			}
			if strings.HasPrefix(st[0], "no route") {
				add("asa:routeReplace")
			}
		}
		c := st[0]
		switch {
		case strings.HasPrefix(c, "object-group"):
			add("asa:groupEditOrCreate")
		case strings.HasPrefix(c, "no object-group"):
			add("asa:groupDelete")
		case strings.HasPrefix(c, "clear configure access-list"):
			add("asa:aclCleared")
		case strings.HasPrefix(c, "access-group"):
			add("asa:rebind")
		case strings.HasPrefix(c, "no network-object"), strings.HasPrefix(c, "network-object"):
			add("asa:groupInPlace")
		case strings.Contains(c, "-DRC-") && strings.HasPrefix(c, "access-list") && !strings.Contains(c, " line "):
			add("asa:aclTransferred")
		}
	}
	return cl
}

// ------------------------------------------------------------------ C01

func oracleC01asa(c *Case) Verdict {
	r, early := runASA(c, false)
	if early != nil {
		return *early
	}
	sc := asam.ScopeOf(r.b)
	wantCanon := r.b.Canon(sc)
	classes := asaClasses(r)
	if r.refusal != nil {
		// C08's business; C01 undecided for this case.
		return Verdict{Status: Discard, Reason: "refused-by-model", Classes: classes}
	}
	got := r.final.Canon(sc)
	ctx := func() string {
		return fmt.Sprintf("--- device\n%s--- target\n%s--- script\n%s--- stderr\n%s",
			c.Files["device"], c.Files["code/router"], scriptText(r.steps), r.res.Stderr)
	}
	if got != wantCanon {
		return fail("asa:not-converged",
			"executing the script does not yield the target\n--- got\n%s\n--- want\n%s\n%s", got, wantCanon, ctx())
	}
	if len(r.steps) == 0 {
		if !r.res.Unchanged() {
			return fail("asa:marker", "empty script without 'device unchanged'\n%s", ctx())
		}
		if r.a.Canon(sc) != wantCanon {
			return fail("asa:unchanged-but-different",
				"'device unchanged' reported for a device that is not equivalent\n--- device canon\n%s\n--- want\n%s\n%s",
				r.a.Canon(sc), wantCanon, ctx())
		}
	} else if !r.res.Changed() {
		return fail("asa:marker", "non-empty script without 'device changed'\n%s", ctx())
	}
	// Second compare: what the device prints afterwards against the same target.
	bits, _ := strconv.Atoi(c.Param("spelling"))
	f2 := tool.Files{}
	for k, v := range c.Files {
		f2[k] = v
	}
	f2["device"] = r.final.Print(spellingFromBits(bits))
	res2 := tool.CompareStd(f2)
	if res2.Crashed() || res2.Exit != 0 {
		return fail("asa:second-compare-rejected", "second compare fails: exit %d\n%s\n%s\n--- device after\n%s\n%s",
			res2.Exit, res2.Stderr, res2.Panic, f2["device"], ctx())
	}
	if res2.Stdout != "" || !res2.Unchanged() {
		return fail("asa:second-compare-changes", "second compare still reports changes:\n%s\n--- device after\n%s\n%s",
			res2.Stdout, f2["device"], ctx())
	}
	// Non-trivial: script non-empty, device non-empty, and some reuse /
	// rename / position logic ran.
	nt := len(r.steps) > 0 && len(r.a.ACLs) > 0 && len(classes) > 0
	return pass(nt, classes...)
}

func init() {
	register("C01", "asa", withRefusal(oracleC01asa, oracleC08asa))
}

func asaRefMerge(v4, v6, raw string) (*asam.State, error) {
	return nil, &asam.ErrUnsupported{What: "v6/raw merge not yet modelled"}
}

// ------------------------------------------------------------------ C08

func oracleC08asa(c *Case) Verdict {
	r, early := runASA(c, false)
	if early != nil {
		return *early
	}
	classes := asaClasses(r)
	if r.refusal != nil {
		return fail("asa:refused:"+r.refusal.Rule,
			"step %d command %q would be refused by the device: %s\n--- device\n%s--- target\n%s--- script\n%s",
			r.refStep+1, r.refCmd, r.refusal.Msg, c.Files["device"], c.Files["code/router"], scriptText(r.steps))
	}
	// Non-trivial: >= 3 commands and a dependency between commands.
	n := 0
	created := map[string]bool{}
	dep := false
	for _, st := range r.steps {
		for _, cmd := range st {
			n++
			f := strings.Fields(cmd)
			switch {
			case f[0] == "object-group" && len(f) >= 3:
				created[f[2]] = true
			case f[0] == "access-list" && len(f) >= 2:
				for i, w := range f {
					if w == "object-group" && i+1 < len(f) && created[f[i+1]] {
						dep = true
					}
				}
				created["acl:"+f[1]] = true
			case f[0] == "access-group" && created["acl:"+f[1]]:
				dep = true
			case f[0] == "no" && len(f) > 1 && f[1] == "object-group", f[0] == "clear":
				dep = true
			}
		}
	}
	return pass(n >= 3 && dep, classes...)
}

// ------------------------------------------------------------------ C10

// flatten the script into single commands; joined lines give two.
func flatten(steps [][]string) []string {
	var l []string
	for _, s := range steps {
		l = append(l, s...)
	}
	return l
}

func parseCuts(s string, n int) []int {
	var res []int
	if s == "all" || s == "" {
		for k := 1; k < n; k++ {
			res = append(res, k)
		}
		return res
	}
	for _, w := range strings.Split(s, ",") {
		if k, err := strconv.Atoi(w); err == nil && k > 0 && k < n {
			res = append(res, k)
		}
	}
	return res
}

func oracleC10asa(c *Case) Verdict {
	r, early := runASA(c, false)
	if early != nil {
		return *early
	}
	if r.refusal != nil {
		return discard("first-run-refused")
	}
	cmds := flatten(r.steps)
	if len(cmds) < 2 {
		return pass(false)
	}
	sc := asam.ScopeOf(r.b)
	want := r.b.Canon(sc)
	bits, _ := strconv.Atoi(c.Param("spelling"))
	sp := spellingFromBits(bits)
	// mark positions that are "inside" something
	halfAt := map[int]bool{}
	pos := 0
	for _, st := range r.steps {
		if len(st) == 2 {
			halfAt[pos+1] = true
		}
		pos += len(st)
	}
	var classes []string
	nt := false
	aCanon := r.a.Canon(sc)
	for _, k := range parseCuts(c.Param("cuts"), len(cmds)) {
		st := r.a.Clone()
		for _, cmd := range cmds[:k] {
			if err := st.Exec(cmd); err != nil {
				return uncovered("prefix exec: " + err.Error())
			}
		}
		inSub := false
		if k < len(cmds) {
			next := cmds[k]
			if strings.HasPrefix(next, "network-object") || strings.HasPrefix(next, "no network-object") ||
				strings.HasPrefix(next, "port-object") || strings.HasPrefix(next, "no port-object") {
				inSub = true
			}
		}
		st.EndSession()
		f2 := tool.Files{}
		for n, v := range c.Files {
			f2[n] = v
		}
		f2["device"] = st.Print(sp)
		ctx := func() string {
			return fmt.Sprintf("cut after command %d of %d\n--- original device\n%s--- target\n%s--- first script\n%s--- device at cut\n%s",
				k, len(cmds), c.Files["device"], c.Files["code/router"], scriptText(r.steps), f2["device"])
		}
		res := tool.CompareStd(f2)
		if res.Crashed() {
			return fail("asa:resume-crash", "resumed compare crashed: %s\n%s", res.Panic, ctx())
		}
		if res.Exit != 0 {
			return fail("asa:resume-rejected", "resumed compare rejected the half-changed device:\n%s\n%s", res.Stderr, ctx())
		}
		steps2 := tool.CiscoScript(res.Stdout)
		for i, step := range steps2 {
			for _, cmd := range step {
				if err := st.Exec(cmd); err != nil {
					if isUnsupported(err) {
						return uncovered("resume exec: " + err.Error())
					}
					return fail("asa:resume-refused", "resumed script step %d %q refused: %v\n--- second script\n%s%s",
						i+1, cmd, err, scriptText(steps2), ctx())
				}
			}
		}
		st.EndSession()
		if got := st.Canon(sc); got != want {
			return fail("asa:resume-not-converged", "resumed approve does not reach the target\n--- got\n%s\n--- want\n%s\n--- second script\n%s%s",
				got, want, scriptText(steps2), ctx())
		}
		f3 := tool.Files{}
		for n, v := range c.Files {
			f3[n] = v
		}
		f3["device"] = st.Print(sp)
		res3 := tool.CompareStd(f3)
		if res3.Crashed() || res3.Exit != 0 || res3.Stdout != "" {
			return fail("asa:resume-third-compare", "compare after resumed approve not empty (exit %d):\n%s%s\n--- second script\n%s--- device after resume\n%s%s",
				res3.Exit, res3.Stdout, res3.Stderr, scriptText(steps2), f3["device"], ctx())
		}
		if halfAt[k] {
			classes = append(classes, "cut:between-halves")
		}
		if inSub {
			classes = append(classes, "cut:inside-submode")
		}
		classes = append(classes, "cut:evaluated")
		nt = true
		_ = aCanon
	}
	return pass(nt, classes...)
}

// ------------------------------------------------------------------ C14

func oracleC14asa(c *Case) Verdict {
	r, early := runASA(c, true)
	if early != nil {
		return *early
	}
	if r.refusal != nil {
		return discard("refused-by-model")
	}
	// The property excludes edits to the membership of existing groups.
	for _, st := range r.steps {
		for _, cmd := range st {
			f := strings.Fields(cmd)
			if f[0] == "object-group" && len(f) >= 3 {
				if _, ok := r.a.Groups[f[2]]; ok {
					return discard("group-membership-edit")
				}
			}
		}
	}
	sc := asam.ScopeOf(r.b)
	univ := asam.Universe(r.a, r.b)
	var classes []string
	nt := false
	for slot, newACL := range r.b.Bind {
		if slot.Dir != "global" && !sc.Intfs[slot.Intf] {
			continue
		}
		oldACL, ok := r.a.Bind[slot]
		if !ok {
			continue
		}
		type pv struct {
			p    asam.Packet
			want bool
		}
		var agree []pv
		for _, p := range univ {
			o, _ := r.a.Verdict(oldACL, p)
			n, _ := r.b.Verdict(newACL, p)
			if o == n {
				agree = append(agree, pv{p, o})
			}
		}
		prevKey := "\x00" + oldACL + "\x00" + strings.Join(r.a.ACLCanon(oldACL), "\n")
		for i, st := range r.states {
			cur, bound := st.Bind[slot]
			if bound {
				// Skip steps that did not touch what this slot evaluates.
				key := "\x00" + cur + "\x00" + strings.Join(st.ACLCanon(cur), "\n")
				if key == prevKey {
					continue
				}
				prevKey = key
			}
			if !bound {
				return fail("asa:transient-unbound", "after step %d nothing is bound at %s %s\n--- device\n%s--- target\n%s--- script\n%s",
					i+1, slot.Dir, slot.Intf, c.Files["device"], c.Files["code/router"], scriptText(r.steps))
			}
			for _, x := range agree {
				got, line := st.Verdict(cur, x.p)
				if got != x.want {
					sig := "asa:transient-flip"
					if asaIsF13(r, slot, oldACL) {
						sig = "asa:F13-acl-shared-by-two-slots-edited-in-place"
					} else if asaIsF8(r, i, cur, line, newACL) {
						sig = "asa:F8-moved-line-exposes-line-deleted-later"
					}
					word := map[bool]string{true: "permitted", false: "denied"}
					return fail(sig, "after step %d (%s) packet %s is %s by line %d of %s, but it is %s before and after the change\n--- device\n%s--- target\n%s--- script\n%s",
						i+1, strings.Join(r.steps[i], " \\N "), x.p, word[got], line, cur, word[x.want],
						c.Files["device"], c.Files["code/router"], scriptText(r.steps))
				}
			}
		}
		if len(r.steps) >= 2 && len(agree) > 0 {
			nt = true
		}
	}
	for _, st := range r.steps {
		if len(st) == 2 && strings.HasPrefix(st[0], "no access-list") {
			classes = append(classes, "c14:move")
			break
		}
	}
	return pass(nt, classes...)
}

// asaIsF8 recognises the known root cause F8: the deciding line of the
// transient verdict is a device line that a later step removes from its
// place (deletes, or moves), and it became visible because an earlier step
// moved a line from above it to a position below it.
func asaIsF8(r *asaRun, step int, acl string, line int, newACL string) bool {
	if line == 0 {
		return false
	}
	st := r.states[step]
	l := st.ACLs[acl]
	if line > len(l) {
		return false
	}
	deciding := l[line-1].Key(true)
	// The deciding line is removed from its place (deleted, or moved as
	// part of a joined line) by a later step.
	later := false
	for _, s := range r.steps[step+1:] {
		f := strings.Fields(s[0])
		if len(f) > 5 && f[0] == "no" && f[1] == "access-list" && f[2] == acl && f[3] == "line" {
			if a, err := st.ParseACE(strings.Join(f[5:], " ")); err == nil && a.Key(true) == deciding {
				later = true
			}
		}
	}
	if !later {
		return false
	}
	// some downward move (joined delete+add with higher target line) happened up to this step
	for _, s := range r.steps[:step+1] {
		if len(s) == 2 && strings.HasPrefix(s[0], "no access-list") && strings.HasPrefix(s[1], "access-list") {
			from := lineNo(s[0])
			to := lineNo(s[1])
			if from > 0 && to >= from {
				return true
			}
		}
	}
	return false
}

// asaIsF13 recognises the known root cause F13: on the device one ACL is
// bound at two slots for which the target has two different ACLs; the tool
// edits the shared ACL in place for the first slot while the second slot
// still uses it.
func asaIsF13(r *asaRun, slot asam.Slot, oldACL string) bool {
	for other, acl := range r.a.Bind {
		if other != slot && acl == oldACL {
			if nb, ok := r.b.Bind[other]; ok && nb != r.b.Bind[slot] {
				return true
			}
		}
	}
	return false
}

func lineNo(cmd string) int {
	f := strings.Fields(cmd)
	for i, w := range f {
		if w == "line" && i+1 < len(f) {
			n, _ := strconv.Atoi(f[i+1])
			return n
		}
	}
	return 0
}

// ------------------------------------------------------------------ C16

func oracleC16(c *Case) Verdict {
	v, _, _ := oracleC16pair(c)
	return v
}

// oracleC16pair also returns the two runs that differ (nil if none).
func oracleC16pair(c *Case) (Verdict, *tool.Result, *tool.Result) {
	runs := 8
	if n, err := strconv.Atoi(c.Param("runs")); err == nil && n > 1 {
		runs = n
	}
	first := tool.CompareStd(c.Files)
	if first.Crashed() {
		return discard("crash"), nil, nil
	}
	for i := 1; i < runs; i++ {
		r := tool.CompareStd(c.Files)
		if r.Stdout != first.Stdout || r.Stderr != first.Stderr || r.Exit != first.Exit {
			return fail(c.Family+":nondeterministic",
				"run 1 and run %d on byte-identical inputs differ\n--- run 1 (exit %d)\n%s%s\n--- run %d (exit %d)\n%s%s\n--- device\n%s--- target\n%s",
				i+1, first.Exit, first.Stdout, first.Stderr, i+1, r.Exit, r.Stdout, r.Stderr, c.Files["device"], c.Files["code/router"]), &first, &r
		}
	}
	nt := c.Param("ties") != "" && c.Param("ties") != "0"
	cl := []string{c.Family + ":exit" + strconv.Itoa(first.Exit)}
	if first.Stdout != "" {
		cl = append(cl, c.Family+":nonempty-script")
	}
	return pass(nt, cl...), nil, nil
}

func init() {
	register("C08", "asa", oracleC08asa)
	register("C10", "asa", oracleC10asa)
	register("C14", "asa", oracleC14asa)
	register("C16", "asa", oracleC16)
}

// ------------------------------------------------------------------ C07

func oracleC07asa(c *Case) Verdict {
	r, early := runASA(c, true)
	if early != nil {
		return *early
	}
	sc := asam.ScopeOf(r.b)
	prot := r.a.Protected(sc)
	if r.refusal != nil {
		// A removal that the device refuses is C08's business, unless it
		// aims at an object outside Netspoc's scope: the attempt itself is
		// then what C07 forbids.
		if strings.HasPrefix(r.refCmd, "no ") || strings.HasPrefix(r.refCmd, "clear configure ") {
			words := strings.Fields(r.refCmd)
			names := map[string]bool{}
			for k := range prot {
				_, n, _ := strings.Cut(k, ":")
				names[n] = true
			}
			for _, k := range r.a.VPNFrameOf(sc).Keys() {
				_, n, _ := strings.Cut(k, ":")
				names[n] = true
			}
			for _, w := range words {
				if names[w] {
					return fail("asa:protected-delete-attempted", "step %d (%s) tries to remove %s, which is outside Netspoc's scope (the device refuses: %s)\n--- device\n%s--- target\n%s--- script\n%s",
						r.refStep+1, r.refCmd, w, r.refusal.Msg, c.Files["device"], c.Files["code/router"], scriptText(r.steps))
				}
			}
		}
		return discard("refused-by-model")
	}
	frame := r.a.FrameText(sc)
	vpnFrame := r.a.VPNFrameOf(sc)
	vpnBefore := vpnFrame.Text(r.a)
	keys := make([]string, 0, len(prot))
	for k := range prot {
		keys = append(keys, k)
	}
	sortStrings(keys)
	before := map[string]string{}
	for _, k := range keys {
		before[k], _ = r.a.ObjText(k)
	}
	ctx := func() string {
		return fmt.Sprintf("--- device\n%s--- target\n%s--- script\n%s--- protected set\n%s\n",
			c.Files["device"], c.Files["code/router"], scriptText(r.steps), strings.Join(keys, " "))
	}
	for i, st := range r.states {
		for _, k := range keys {
			txt, ok := st.ObjText(k)
			if !ok {
				return fail("asa:protected-deleted", "step %d (%s) deletes %s which is outside Netspoc's scope\n%s",
					i+1, strings.Join(r.steps[i], " \\N "), k, ctx())
			}
			if txt != before[k] {
				sig := "asa:protected-changed"
				if strings.HasPrefix(k, "grp:") {
					sig = "asa:F3-group-shared-with-unmanaged-object-edited-in-place"
				} else if r.a.ManagedReach(sc)[k] {
					// The ACL is bound at a managed interface (or used by a
					// managed VPN anchor) and at the same time used by an
					// object outside Netspoc's scope: same root cause.
					sig = "asa:F3-acl-shared-with-unmanaged-object-edited-in-place"
				}
				return fail(sig, "step %d (%s) changes %s which is outside Netspoc's scope\n--- before\n%s--- after\n%s%s",
					i+1, strings.Join(r.steps[i], " \\N "), k, before[k], txt, ctx())
			}
		}
		if f := st.FrameText(sc); f != frame {
			return fail("asa:frame-changed", "step %d (%s) changes unmanaged bindings/routes/lines\n--- before\n%s\n--- after\n%s\n%s",
				i+1, strings.Join(r.steps[i], " \\N "), frame, f, ctx())
		}
		if f := vpnFrame.Text(st); f != vpnBefore {
			if shared, which := vpnFrame.SharedChanged(r.a, st); shared {
				return fail("asa:F3-vpn-object-shared-with-unmanaged-object-edited-in-place", "step %d (%s) changes %v, used by a managed anchor and by an object outside Netspoc's scope\n--- before\n%s\n--- after\n%s\n%s",
					i+1, strings.Join(r.steps[i], " \\N "), which, vpnBefore, f, ctx())
			}
			return fail("asa:vpn-frame-changed", "step %d (%s) changes VPN objects outside Netspoc's scope\n--- before\n%s\n--- after\n%s\n%s",
				i+1, strings.Join(r.steps[i], " \\N "), vpnBefore, f, ctx())
		}
	}
	nt := len(r.steps) > 0 && len(keys) > 0
	var classes []string
	if nt {
		classes = append(classes, "c07:protected-nonempty")
	}
	// shared: a protected object is also reachable from managed content
	empty := asam.Scope{Intfs: map[string]bool{}}
	all := r.a.Protected(empty)
	_ = all
	return pass(nt, classes...)
}

func init() { register("C07", "asa", oracleC07asa) }
