package props

import (
	"errors"
	"fmt"
	"strconv"
	"strings"

	"verif/harness/asam"
	"verif/harness/tool"
)

func spellingFromBits(bits int) asam.Spelling {
	return asam.Spelling{
		NamedPorts: bits&1 != 0, HostMask: bits&2 != 0, ZeroAny: bits&4 != 0,
		LogNames: bits&8 != 0, Metric: bits&16 != 0, NamedProto: bits&32 != 0,
	}
}

func spellingBits(sp asam.Spelling) int {
	b := 0
	for i, f := range []bool{sp.NamedPorts, sp.HostMask, sp.ZeroAny, sp.LogNames, sp.Metric, sp.NamedProto} {
		if f {
			b |= 1 << i
		}
	}
	return b
}

// asaCase builds the replayable case of a generated pair.
func asaCase(property string, p *asam.Pair) *Case {
	return &Case{
		Property: property,
		Family:   "asa",
		Files: tool.Files{
			"device":           p.A.Print(p.Sp),
			"code/router":      p.B.NetspocText(),
			"code/router.info": tool.Info("ASA"),
		},
		Params: map[string]string{"spelling": strconv.Itoa(spellingBits(p.Sp))},
		Gen:    p.Mode + " " + strings.Join(p.Ops, ","),
	}
}

// asaRun is one execution of the plan route for ASA: the tool's script,
// executed step by step on the strict model.
type asaRun struct {
	res     tool.Result
	a, b    *asam.State
	steps   [][]string
	states  []*asam.State // state after each step (only if keepStates)
	final   *asam.State
	refusal *asam.Refusal
	refStep int
	refCmd  string
}

// asaTarget computes the effective target of the case with the harness's
// own reference merge (v4 only for now; v6/raw handled by refmerge).
func asaTarget(c *Case) (*asam.State, error) {
	if c.Files["code/ipv6/router"] != "" || c.Files["code/router.raw"] != "" {
		return asaRefMerge(c.Files["code/router"], c.Files["code/ipv6/router"], c.Files["code/router.raw"])
	}
	return asam.Parse(c.Files["code/router"])
}

func isUnsupported(err error) bool {
	var u *asam.ErrUnsupported
	return errors.As(err, &u)
}

// runASA runs the tool on the case and executes the script on model(A).
// early is non-nil if the case ends before the oracle (discard/uncovered).
func runASA(c *Case, keepStates bool) (r *asaRun, early *Verdict) {
	r = &asaRun{}
	ret := func(v Verdict) (*asaRun, *Verdict) { return r, &v }
	var err error
	r.a, err = asam.Parse(c.Files["device"])
	if err != nil {
		return ret(uncovered("device: " + err.Error()))
	}
	r.b, err = asaTarget(c)
	if err != nil {
		return ret(uncovered("target: " + err.Error()))
	}
	r.res = tool.CompareStd(c.Files)
	if r.res.Crashed() {
		return ret(Verdict{Status: Discard, Reason: "crash"})
	}
	if r.res.Exit != 0 {
		return ret(discard("rejected"))
	}
	r.steps = tool.CiscoScript(r.res.Stdout)
	st := r.a.Clone()
	for i, step := range r.steps {
		for _, cmd := range step {
			err := st.Exec(cmd)
			if err == nil {
				continue
			}
			var ref *asam.Refusal
			if errors.As(err, &ref) {
				if r.refusal == nil {
					r.refusal, r.refStep, r.refCmd = ref, i, cmd
				}
				continue // go on leniently, only to classify
			}
			return ret(uncovered("exec: " + err.Error()))
		}
		if keepStates {
			st.EndSession() // snapshot must not carry mode
			r.states = append(r.states, st.Clone())
		}
	}
	st.EndSession()
	r.final = st
	return r, nil
}

func scriptText(steps [][]string) string {
	var b strings.Builder
	for i, s := range steps {
		fmt.Fprintf(&b, "%3d: %s\n", i+1, strings.Join(s, " \\N "))
	}
	return b.String()
}

func asaClasses(r *asaRun) []string {
	var cl []string
	seen := map[string]bool{}
	add := func(s string) {
		if !seen[s] {
			seen[s] = true
			cl = append(cl, s)
		}
	}
	for _, st := range r.steps {
		if len(st) == 2 {
			add("asa:joined")
			if strings.HasPrefix(st[0], "no access-list") {
				add("asa:move")
			}
			if strings.HasPrefix(st[0], "no route") {
				add("asa:routeReplace")
			}
		}
		c := st[0]
		switch {
		case strings.HasPrefix(c, "object-group"):
			add("asa:groupEditOrCreate")
		case strings.HasPrefix(c, "no object-group"):
			add("asa:groupDelete")
		case strings.HasPrefix(c, "clear configure access-list"):
			add("asa:aclCleared")
		case strings.HasPrefix(c, "access-group"):
			add("asa:rebind")
		case strings.HasPrefix(c, "no network-object"), strings.HasPrefix(c, "network-object"):
			add("asa:groupInPlace")
		case strings.Contains(c, "-DRC-") && strings.HasPrefix(c, "access-list") && !strings.Contains(c, " line "):
			add("asa:aclTransferred")
		}
	}
	return cl
}

// ------------------------------------------------------------------ C01

func oracleC01asa(c *Case) Verdict {
	r, early := runASA(c, false)
	if early != nil {
		return *early
	}
	sc := asam.ScopeOf(r.b)
	wantCanon := r.b.Canon(sc)
	classes := asaClasses(r)
	if r.refusal != nil {
		// C08's business; C01 undecided for this case.
		return Verdict{Status: Discard, Reason: "refused-by-model", Classes: classes}
	}
	got := r.final.Canon(sc)
	ctx := func() string {
		return fmt.Sprintf("--- device\n%s--- target\n%s--- script\n%s--- stderr\n%s",
			c.Files["device"], c.Files["code/router"], scriptText(r.steps), r.res.Stderr)
	}
	if got != wantCanon {
		return fail("asa:not-converged",
			"executing the script does not yield the target\n--- got\n%s\n--- want\n%s\n%s", got, wantCanon, ctx())
	}
	if len(r.steps) == 0 {
		if !r.res.Unchanged() {
			return fail("asa:marker", "empty script without 'device unchanged'\n%s", ctx())
		}
		if r.a.Canon(sc) != wantCanon {
			return fail("asa:unchanged-but-different",
				"'device unchanged' reported for a device that is not equivalent\n--- device canon\n%s\n--- want\n%s\n%s",
				r.a.Canon(sc), wantCanon, ctx())
		}
	} else if !r.res.Changed() {
		return fail("asa:marker", "non-empty script without 'device changed'\n%s", ctx())
	}
	// Second compare: what the device prints afterwards against the same target.
	bits, _ := strconv.Atoi(c.Param("spelling"))
	f2 := tool.Files{}
	for k, v := range c.Files {
		f2[k] = v
	}
	f2["device"] = r.final.Print(spellingFromBits(bits))
	res2 := tool.CompareStd(f2)
	if res2.Crashed() || res2.Exit != 0 {
		return fail("asa:second-compare-rejected", "second compare fails: exit %d\n%s\n%s\n--- device after\n%s\n%s",
			res2.Exit, res2.Stderr, res2.Panic, f2["device"], ctx())
	}
	if res2.Stdout != "" || !res2.Unchanged() {
		return fail("asa:second-compare-changes", "second compare still reports changes:\n%s\n--- device after\n%s\n%s",
			res2.Stdout, f2["device"], ctx())
	}
	// Non-trivial: script non-empty, device non-empty, and some reuse /
	// rename / position logic ran.
	nt := len(r.steps) > 0 && len(r.a.ACLs) > 0 && len(classes) > 0
	return pass(nt, classes...)
}

func init() {
	register("C01", "asa", oracleC01asa)
}

func asaRefMerge(v4, v6, raw string) (*asam.State, error) {
	return nil, &asam.ErrUnsupported{What: "v6/raw merge not yet modelled"}
}
