package props

import (
	"testing"

	"pgregory.net/rapid"
	"verif/harness/asam"
	"verif/harness/evid"
	"verif/harness/iosm"
)

const ruleC16 = "generated inputs with ties forced on (several identical groups on the device, equally good matches); each case is run 8 times in-process on byte-identical files (Go randomises map iteration per range); " +
	"non-trivial = the generator added at least one tie; distinct = hash of input files"

func TestC16(t *testing.T) {
	ev := evid.New("C16", ruleC16)
	finish(t, ev)
	t.Run("asa", func(t *testing.T) {
		rapid.Check(t, func(rt *rapid.T) {
			p := asam.GenPair(rt, asam.GenOpts{Ties: true})
			c := asaCase("C16", p)
			c.Params["ties"] = "1"
			judge(rt, ev, oracleC16, c, func() any { return c })
		})
	})
	t.Run("ios", func(t *testing.T) {
		rapid.Check(t, func(rt *rapid.T) {
			p := iosm.GenPair(rt, iosm.GenOpts{Ties: true})
			c := iosCase("C16", p)
			c.Params["ties"] = "1"
			judge(rt, ev, oracleC16, c, func() any { return c })
		})
	})
}
