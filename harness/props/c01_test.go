package props

import (
	"testing"

	"pgregory.net/rapid"
	"verif/harness/asam"
	"verif/harness/evid"
)

const ruleC01 = "pairs (device A, target B) from the abstract-config generator (derived by edit operators or independent); " +
	"non-trivial = accepted, script non-empty, device non-empty and at least one of move/joined line/group reuse or edit/ACL transfer/rebind/cleanup ran; " +
	"distinct = hash of the concrete input files"

func TestC01(t *testing.T) {
	ev := evid.New("C01", ruleC01)
	finish(t, ev)
	t.Run("asa", func(t *testing.T) {
		rapid.Check(t, func(rt *rapid.T) {
			p := asam.GenPair(rt, asam.GenOpts{})
			c := asaCase("C01", p)
			judge(rt, ev, oracleC01asa, c, func() any { return c })
		})
	})
}
