// sshdev simulates the CLI of an ASA, an IOS router or a Linux host on a
// pty. The tool under test spawns it through its own SIMULATE_ROUTER switch
// ("sshdev PLAN.json"). It wraps the harness's device models, owns the
// schedule (pause points), injects faults at chosen dialogue positions and
// appends everything it receives to a transcript.
package main

import (
	"bufio"
	"crypto/sha256"
	"encoding/hex"
	"encoding/json"
	"errors"
	"fmt"
	"os"
	"os/signal"
	"path/filepath"
	"strings"
	"syscall"
	"time"

	"verif/harness/asam"
	"verif/harness/iosm"
)

type Fault struct {
	Pos  int    `json:"pos"`  // index of the received line (0 = first line ever received)
	Kind string `json:"kind"` // error | garbage | badecho | stall | close | status | info | warning
	// Chg, if set, replaces Pos: the fault hits the configuration-mode
	// change line with this index (counted like Banner.Chg); only the
	// output kinds error and garbage.
	Chg *int `json:"chg,omitempty"`
}

type Banner struct {
	Chg    int    `json:"chg"`    // index among configuration-mode change lines (0-based)
	Form   string `json:"form"`   // inside | before | after | after-prompt
	Offset int    `json:"offset"` // character offset for "inside"
	Kind   string `json:"kind"`   // "0:02:00" | "0:01:00"
	Split  bool   `json:"split"`  // write banner and rest in two write() calls
	// At, if set, replaces Chg: "conf" = the "configure terminal" that
	// follows the scheduling of the reload, "end" = the "end" that leaves
	// configuration mode while the reload is pending.
	At string `json:"at,omitempty"`
}

type Pause struct {
	Pos  int    `json:"pos"`  // before handling received line #pos
	FIFO string `json:"fifo"` // block until this FIFO can be opened for reading and yields a byte
	Mark string `json:"mark"` // file created when the pause is reached
}

type Plan struct {
	Family     string   `json:"family"` // asa | ios | linux
	Hostname   string   `json:"hostname"`
	Banner     string   `json:"banner"` // login banner text (ASA/IOS), /etc/issue (Linux)
	HostKey    bool     `json:"hostkey"`
	EnablePass bool     `json:"enable_pass"`
	Password   string   `json:"password"`
	Device     string   `json:"device"`     // initial configuration text
	StateFile  string   `json:"state_file"` // persisted {running, saved}; loaded if present
	Transcript string   `json:"transcript"`
	Faults     []Fault  `json:"faults"`
	Banners    []Banner `json:"banners"`
	Pause      *Pause   `json:"pause"`
	Routes     []string `json:"routes"`   // linux: ip route show lines
	IPTables   string   `json:"iptables"` // linux: iptables-save text
	Modified   bool     `json:"modified"` // ios: running config differs from startup at session start
}

type persisted struct {
	Running  string   `json:"running"`
	Saved    string   `json:"saved"`
	Routes   []string `json:"routes"`
	IPTables string   `json:"iptables"`
	Reload   bool     `json:"reload_pending"`
}

type event struct {
	Ev    string `json:"ev"`
	Pid   int    `json:"pid"`
	T     int64  `json:"t"`
	N     int    `json:"n,omitempty"`
	Text  string `json:"text,omitempty"`
	Mode  string `json:"mode,omitempty"`
	Phase string `json:"phase,omitempty"`
	Res   string `json:"res,omitempty"` // accepted | refused | unsupported | readonly | fault:<kind>
	Msg   string `json:"msg,omitempty"`
	Hash  string `json:"hash,omitempty"`
}

type sim struct {
	plan       Plan
	in         *bufio.Reader
	out        *os.File
	tr         *os.File
	buf        strings.Builder
	nLine      int          // lines received so far
	nChg       int          // change lines seen in config mode
	curLine    string       // line being handled (for faults that depend on it)
	bannerUsed map[int]bool // banners with At that were already shown
	asa        *asam.State
	ios        *iosm.State
	saved      string
	mode       string // "", "enable", "config"
	reload     bool
	dirty      bool // config modified since last save
	routes     []string
	ipt        string
	lastRC     int
	pager      bool
	width      bool
}

func (s *sim) log(e event) {
	e.Pid = os.Getpid()
	e.T = time.Now().UnixNano()
	if s.tr != nil {
		b, _ := json.Marshal(e)
		s.tr.Write(append(b, '\n'))
	}
}

// write queues text; flush sends everything queued with a single write()
// so that the tool sees one response atomically.
func (s *sim) write(text string) {
	s.buf.WriteString(strings.ReplaceAll(text, "\n", "\r\n"))
}

func (s *sim) flush() {
	if s.buf.Len() > 0 {
		s.out.WriteString(s.buf.String())
		s.buf.Reset()
	}
}

func (s *sim) running() string {
	switch s.plan.Family {
	case "asa":
		return s.asa.Print(asam.Spelling{})
	case "ios":
		return s.ios.Print(iosm.Spelling{})
	}
	return strings.Join(s.routes, "\n") + "\n--\n" + s.ipt
}

func (s *sim) hash() string {
	h := sha256.Sum256([]byte(s.running() + "\x00saved\x00" + s.saved))
	return hex.EncodeToString(h[:8])
}

func (s *sim) persist() {
	if s.plan.StateFile == "" {
		return
	}
	p := persisted{Running: s.running(), Saved: s.saved, Routes: s.routes, IPTables: s.ipt, Reload: s.reload}
	b, _ := json.Marshal(p)
	tmp := s.plan.StateFile + fmt.Sprintf(".%d", os.Getpid())
	os.WriteFile(tmp, b, 0644)
	os.Rename(tmp, s.plan.StateFile)
}

// readLine returns the next input line (without "\n"); ok=false on EOF.
func (s *sim) readLine() (string, bool) {
	s.flush()
	line, err := s.in.ReadString('\n')
	if err != nil && line == "" {
		return "", false
	}
	line = strings.TrimRight(line, "\r\n")
	return line, true
}

func (s *sim) faultAt(n int) string {
	for _, f := range s.plan.Faults {
		if f.Chg == nil && f.Pos == n {
			return f.Kind
		}
	}
	return ""
}

func (s *sim) maybePause(n int) {
	p := s.plan.Pause
	if p == nil || p.Pos != n {
		return
	}
	s.log(event{Ev: "pause", N: n})
	if p.Mark != "" {
		os.WriteFile(p.Mark, []byte("reached\n"), 0644)
	}
	f, err := os.Open(p.FIFO) // blocks until a writer opens the FIFO
	if err == nil {
		buf := make([]byte, 1)
		f.Read(buf)
		f.Close()
	}
	s.log(event{Ev: "resume", N: n})
}

func (s *sim) prompt() string {
	h := s.plan.Hostname
	switch s.plan.Family {
	case "linux":
		return "router#"
	}
	switch s.mode {
	case "":
		return h + "> "
	case "config":
		if s.plan.Family == "ios" {
			return h + "(config)#"
		}
		return h + "(config)# "
	}
	if s.plan.Family == "ios" {
		return h + "#"
	}
	return h + "# "
}

func die(format string, a ...any) {
	fmt.Fprintf(os.Stderr, "sshdev: "+format+"\n", a...)
	os.Exit(3)
}

func main() {
	if len(os.Args) != 2 {
		die("usage: sshdev PLAN.json")
	}
	data, err := os.ReadFile(os.Args[1])
	if err != nil {
		die("%v", err)
	}
	s := &sim{in: bufio.NewReader(os.Stdin), out: os.Stdout}
	if err := json.Unmarshal(data, &s.plan); err != nil {
		die("plan: %v", err)
	}
	if s.plan.Transcript != "" {
		s.tr, err = os.OpenFile(s.plan.Transcript, os.O_APPEND|os.O_CREATE|os.O_WRONLY, 0644)
		if err != nil {
			die("%v", err)
		}
	}
	// A hang-up of the controlling pty must not kill us before "end" is logged.
	// (SIGHUP default action would terminate silently.)
	device := s.plan.Device
	s.saved = device
	s.routes = append([]string(nil), s.plan.Routes...)
	s.ipt = s.plan.IPTables
	s.dirty = s.plan.Modified
	if s.plan.StateFile != "" {
		if b, err := os.ReadFile(s.plan.StateFile); err == nil {
			var p persisted
			if json.Unmarshal(b, &p) == nil {
				device, s.saved, s.routes, s.ipt, s.reload = p.Running, p.Saved, p.Routes, p.IPTables, p.Reload
				s.dirty = p.Running != p.Saved
			}
		}
	}
	switch s.plan.Family {
	case "asa":
		s.asa, err = asam.Parse(device)
	case "ios":
		s.ios, err = iosm.Parse(device)
	case "linux":
	default:
		die("family %q", s.plan.Family)
	}
	if err != nil {
		die("device config: %v", err)
	}
	s.log(event{Ev: "begin", Hash: s.hash()})
	defer func() {
		s.flush()
		s.persist()
		s.log(event{Ev: "end", Hash: s.hash()})
	}()
	if s.plan.Family == "linux" {
		s.linuxSession()
	} else {
		s.ciscoSession()
	}
}

// next reads the next line, applying pause and transport-level faults.
// kind is the fault to apply by the caller ("" none).
func (s *sim) next(phase string) (line, kind string, ok bool) {
	s.maybePause(s.nLine)
	line, ok = s.readLine()
	if !ok {
		return "", "", false
	}
	n := s.nLine
	s.nLine++
	kind = s.faultAt(n)
	logged := line
	if phase == "password" {
		logged = "<password:" + fmt.Sprint(line == s.plan.Password) + ">"
	}
	s.log(event{Ev: "line", N: n, Text: logged, Mode: s.mode, Phase: phase})
	switch kind {
	case "close":
		s.log(event{Ev: "fault", N: n, Res: "fault:close"})
		s.persist()
		s.log(event{Ev: "end", Hash: s.hash()})
		os.Exit(0)
	case "stall":
		s.log(event{Ev: "fault", N: n, Res: "fault:stall"})
		// Answer nothing; wait until the peer gives up (EOF).
		for {
			if _, ok := s.readLine(); !ok {
				break
			}
		}
		s.persist()
		s.log(event{Ev: "end", Hash: s.hash()})
		os.Exit(0)
	}
	return line, kind, true
}

func (s *sim) echo(line, kind string) {
	if kind == "badecho" && len(line) > 1 {
		line = line[1:]
	}
	s.write(line + "\n")
}

func errText(family string) string {
	switch family {
	case "asa":
		return "ERROR: % Invalid input detected at '^' marker.\n"
	case "ios":
		return "% Invalid input detected at '^' marker.\n\n"
	}
	return "RTNETLINK answers: File exists\n"
}

// applyOutputFault returns the extra output of an output-level fault.
func (s *sim) outputFault(n int, kind string) string {
	switch kind {
	case "error":
		s.log(event{Ev: "fault", N: n, Res: "fault:error"})
		if s.plan.Family == "ios" && s.curLine == "enable" {
			// what an IOS without enable secret answers on a vty line
			return "% No password set\n"
		}
		if s.plan.Family == "ios" || s.plan.Family == "asa" {
			// the marker line that points at the rejected word
			return strings.Repeat(" ", 9+len(s.curLine)/2) + "^\n" + errText(s.plan.Family)
		}
		return errText(s.plan.Family)
	case "garbage":
		s.log(event{Ev: "fault", N: n, Res: "fault:garbage"})
		return "%%% something unexpected happened\n"
	case "warnerror":
		// A warning that the tool tolerates for this kind of command,
		// followed by the error text of a rejected command.
		s.log(event{Ev: "fault", N: n, Res: "fault:warnerror"})
		return toleratedWarning(s.plan.Family, s.curLine) + errText(s.plan.Family)
	case "info":
		s.log(event{Ev: "fault", N: n, Res: "perturb:info"})
		return "INFO: nothing to worry about\n"
	case "warning":
		s.log(event{Ev: "fault", N: n, Res: "perturb:warning"})
		return "WARNING: somewhat unusual\n"
	case "badecho":
		s.log(event{Ev: "fault", N: n, Res: "fault:badecho"})
	}
	return ""
}

// toleratedWarning is a warning text that devices print for the command and
// that does not mean rejection.
func toleratedWarning(family, line string) string {
	l := strings.TrimPrefix(line, "no ")
	switch {
	case family == "asa" && strings.HasPrefix(l, "access-list"):
		return "WARNING: Same object-group is used more than once in one config line. This config is redundant. MAC address of one of the objects might not be resolved.\n"
	case family == "asa" && strings.HasPrefix(l, "crypto map"):
		return "WARNING: The crypto map entry is incomplete!\n"
	case family == "asa" && strings.HasPrefix(l, "tunnel-group"):
		return "WARNING: L2L tunnel-groups that have names which are not an IP\naddress may only be used if the tunnel authentication\nmethod is Digital Certificates and/or The peer is\nconfigured to use Aggressive Mode\n"
	}
	return "WARNING: somewhat unusual\n"
}

const reloadBanner = "\n\n\n\x07***\n*** --- SHUTDOWN %s ---\n***\n"

func (s *sim) ciscoSession() {
	p := s.plan
	ios := p.Family == "ios"
	// ---- login
	if p.HostKey {
		s.write("The authenticity of host 'router (10.1.13.33)' can't be established.\nECDSA key fingerprint is ee:6e:ee:00:33:aa.\nAre you sure you want to continue connecting (yes/no)? ")
		if _, _, ok := s.next("hostkey"); !ok {
			return
		}
		s.write("\n")
	}
	if !ios {
		s.write(p.Banner)
	}
	tries := 0
	for {
		if ios {
			s.write("Enter Password:")
		} else {
			s.write("netspoc@10.1.13.33's password: ")
		}
		line, kind, ok := s.next("password")
		if !ok {
			return
		}
		s.write("\n")
		if extra := s.outputFault(s.nLine-1, kind); extra != "" {
			s.write(extra)
		}
		if line == p.Password {
			break
		}
		tries++
		s.write("Permission denied, please try again.\n")
		if tries >= 3 {
			return
		}
	}
	if ios {
		s.write(p.Banner)
	} else {
		s.write("Type help or '?' for a list of available commands.\n")
	}
	s.write("\n" + s.prompt())
	// ---- command loop
	for {
		line, kind, ok := s.next("cmd")
		if !ok {
			return
		}
		n := s.nLine - 1
		if s.handleCisco(n, line, kind) {
			return
		}
	}
}

// handleCisco processes one command line; returns true when the session ends.
func (s *sim) handleCisco(n int, line, kind string) bool {
	s.curLine = line
	ios := s.plan.Family == "ios"
	lookup := line
	hasDo := false
	if ios && strings.HasPrefix(lookup, "do ") {
		lookup, hasDo = strings.TrimPrefix(lookup, "do "), true
	}
	_ = hasDo
	isChange := s.mode == "config" && !hasDo && lookup != "end" && lookup != "" &&
		!(s.plan.Family == "asa" && lookup == "terminal width 511") && !s.iosPrepare(lookup)
	if kind == "" && isChange {
		for _, f := range s.plan.Faults {
			if f.Chg != nil && *f.Chg == s.nChg && (f.Kind == "error" || f.Kind == "garbage" || f.Kind == "warnerror") {
				kind = f.Kind
			}
		}
	}
	// ---- echo, possibly garbled by a reload banner
	echoed := false
	faultOut, faultDone := "", false
	framing := ""
	if ios && s.reload && !hasDo {
		switch {
		case lookup == "configure terminal" && s.mode == "enable":
			framing = "conf"
		case lookup == "end" && s.mode == "config":
			framing = "end"
		}
	}
	if ios && (isChange || framing != "") {
		for bi, b := range s.plan.Banners {
			if b.At == "" && (!isChange || b.Chg != s.nChg) {
				continue
			}
			if b.At != "" && (b.At != framing || s.bannerUsed[bi]) {
				continue
			}
			if b.At != "" {
				if s.bannerUsed == nil {
					s.bannerUsed = map[int]bool{}
				}
				s.bannerUsed[bi] = true
			}
			ban := fmt.Sprintf(reloadBanner, "in "+b.Kind)
			s.log(event{Ev: "banner", N: n, Text: b.Form + " " + b.Kind, Msg: fmt.Sprint(b.Offset)})
			switch b.Form {
			case "inside":
				off := b.Offset
				if off > len(line) {
					off = len(line)
				}
				if off < 1 {
					off = 1
				}
				s.write(line[:off])
				if b.Split {
					s.flush()
					time.Sleep(30 * time.Millisecond)
				}
				s.write(ban + line[off:] + "\n")
				echoed = true
			case "before":
				// banner, fresh prompt, then the echo
				s.write(ban + "\n" + s.prompt())
			case "after", "after-prompt":
				// The command is processed synchronously: whatever it
				// prints follows its echo, the asynchronous banner comes
				// behind that.
				faultOut, faultDone = s.outputFault(n, kind), true
				s.write(line + "\n" + faultOut + ban)
				if b.Form == "after-prompt" {
					s.write("\n" + s.prompt())
				}
				echoed = true
			}
		}
	}
	if !echoed {
		s.echo(line, kind)
	}
	if lookup == "exit" && s.mode != "config" {
		s.log(event{Ev: "exit", N: n})
		return true
	}
	out := ""
	if !faultDone {
		out = s.outputFault(n, kind)
	}
	_ = faultOut
	res := "readonly"
	msg := ""
	switch {
	case kind == "error" || kind == "garbage" || kind == "warnerror":
		// The device rejected the line: no effect.
		res = "fault:" + kind
		if isChange {
			s.nChg++
		}
	case lookup == "":
	case lookup == "enable" && s.mode == "":
		if s.plan.EnablePass {
			s.write(out + "Password: ")
			pl, _, ok := s.next("password")
			if !ok {
				return true
			}
			s.write("\n")
			if pl != s.plan.Password {
				s.write("Invalid password\n")
				break
			}
		}
		s.mode = "enable"
	case s.mode == "":
		out += "% Command not available before enable\n"
	case lookup == "configure terminal" && s.mode == "enable":
		s.mode = "config"
		if ios {
			out += "Enter configuration commands, one per line.  End with CNTL/Z.\n"
		}
	case lookup == "end" && s.mode == "config":
		s.mode = "enable"
		s.endCfg()
	case lookup == "exit" && s.mode == "config":
		// handled by the model (leaves sub-mode or config mode)
		s.nChg++
		res, msg = s.execModel(lookup)
	case !ios && lookup == "sh pager":
		if s.pager {
			out += "no pager\n"
		} else {
			out += "pager lines 24\n"
		}
	case !ios && lookup == "terminal pager 0":
		s.pager = true
	case !ios && lookup == "sh term":
		if s.width {
			out += "\nWidth = 511, no monitor\nterminal interactive\n"
		} else {
			out += "\nWidth = 80, no monitor\nterminal interactive\n"
		}
	case !ios && lookup == "terminal width 511" && s.mode == "config":
		s.width = true
		res = "session-setting"
	case lookup == "sh ver":
		if ios {
			out += "Cisco IOS Software, C2900 Software (C2900-UNIVERSALK9-M), Version 15.1(4)M4,\n"
		} else {
			out += "Cisco Adaptive Security Appliance Software Version 9.4(4)5\nHardware:   ASA5550, 4096 MB RAM\n"
		}
	case !ios && lookup == "show hostname":
		out += s.plan.Hostname + "\n"
	case ios && (lookup == "term len 0" || lookup == "term width 512"):
	case !ios && lookup == "write term", ios && lookup == "sh run":
		out += s.running()
		// what the tool was given to read (for the harness)
		if s.plan.Transcript != "" {
			os.WriteFile(filepath.Join(filepath.Dir(s.plan.Transcript), "config-sent"), []byte(s.running()), 0644)
		}
	case lookup == "write memory" && s.mode == "enable":
		res = "save"
		s.saved = s.running()
		s.dirty = false
		if ios {
			out += "Building configuration...\n  Compressed configuration from 106098 bytes to 30504 bytes[OK]\n"
		} else {
			out += "Building configuration...\nCryptochecksum: 9bf3a0c7 5a1c2d4e\n\n3166 bytes copied in 0.680 secs\n[OK]\n"
		}
		s.persist()
	case ios && lookup == "reload in 2":
		res = "reload-arm"
		if s.dirty {
			s.write(out + "\nSystem configuration has been modified. Save? [yes/no]: ")
			out = ""
			al, _, ok := s.next("reload-save")
			if !ok {
				return true
			}
			s.write(al + "\n")
			if strings.HasPrefix(al, "y") {
				s.saved = s.running()
				s.dirty = false
				s.log(event{Ev: "saved-by-reload-question", N: n})
			}
		}
		s.write(out + "Reload reason: Reload Command\nProceed with reload? [confirm]")
		out = ""
		if _, _, ok := s.next("reload-confirm"); !ok {
			return true
		}
		s.write("\n")
		s.reload = true
		s.persist()
	case ios && lookup == "reload cancel":
		res = "reload-cancel"
		s.reload = false
		out += fmt.Sprintf(reloadBanner, "ABORTED")
		s.persist()
	case s.mode == "config":
		if ios && s.iosPrepare(lookup) {
			res = "prepare"
			break
		}
		s.nChg++
		res, msg = s.execModel(lookup)
		if res == "refused" {
			out += errText(s.plan.Family)
		}
	default:
		out += "% Unknown command\n"
		res = "unknown"
	}
	s.log(event{Ev: "result", N: n, Res: res, Msg: msg, Mode: s.mode, Hash: s.hash()})
	s.write(out + s.prompt())
	return false
}

func (s *sim) endCfg() {
	if s.asa != nil {
		s.asa.EndSession()
	}
	if s.ios != nil {
		s.ios.EndSession()
	}
}

func (s *sim) iosPrepare(l string) bool {
	switch l {
	case "no logging console", "line vty 0 15", "logging synchronous level all", "ip subnet-zero", "ip classless":
		return true
	}
	return false
}

func (s *sim) execModel(line string) (res, msg string) {
	var err error
	if s.asa != nil {
		err = s.asa.Exec(line)
	} else {
		err = s.ios.Exec(line)
	}
	if err == nil {
		s.dirty = true
		s.persist()
		return "accepted", ""
	}
	var ra *asam.Refusal
	var ri *iosm.Refusal
	if errors.As(err, &ra) || errors.As(err, &ri) {
		return "refused", err.Error()
	}
	// Outside the model: accepted without effect, flagged for the harness.
	s.dirty = true
	return "unsupported", err.Error()
}

// ------------------------------------------------------------------ linux

func (s *sim) linuxSession() {
	p := s.plan
	if p.HostKey {
		s.write("The authenticity of host 'router (10.1.13.33)' can't be established.\nAre you sure you want to continue connecting (yes/no)? ")
		if _, _, ok := s.next("hostkey"); !ok {
			return
		}
		s.write("\n")
	}
	tries := 0
	for {
		s.write("root@10.1.13.33's password:")
		line, _, ok := s.next("password")
		if !ok {
			return
		}
		s.write("\n")
		if line == p.Password {
			break
		}
		tries++
		if tries >= 2 {
			return
		}
	}
	s.write("Last login: Thu Oct  1 10:00:00 2026\n\n" + p.Hostname + ":~# ")
	for {
		line, kind, ok := s.next("cmd")
		if !ok {
			return
		}
		n := s.nLine - 1
		s.curLine = line
		s.echo(line, kind)
		out := s.outputFault(n, kind)
		res := "readonly"
		rc := 0
		f := strings.Fields(line)
		switch {
		case kind == "error" || kind == "garbage" || kind == "warnerror":
			res, rc = "fault:"+kind, 2
		case kind == "status":
			s.log(event{Ev: "fault", N: n, Res: "fault:status"})
			res, rc = "fault:status", 1
		case line == "PS1=router#", line == "":
		case line == "uname -r":
			out += "5.10.0-28-amd64\n"
		case line == "uname -m":
			out += "x86_64\n"
		case line == "hostname -s":
			out += p.Hostname + "\n"
		case strings.HasPrefix(line, "grep ") && strings.HasSuffix(line, " /etc/issue"):
			re := strings.TrimSuffix(strings.TrimPrefix(line, "grep '"), "' /etc/issue")
			for _, l := range strings.Split(p.Banner, "\n") {
				if re != "" && strings.Contains(l, re) { // grep is case-sensitive
					out += l + "\n"
				}
			}
			if out == "" {
				rc = 1
			}
		case line == "iptables-save":
			out += s.ipt
		case line == "ip route show":
			for _, r := range s.routes {
				out += r + "\n"
			}
		case line == "echo $?":
			out += fmt.Sprintf("%d\n", s.lastRC)
			rc = 0
		case line == "which iptables-restore":
			out += "/sbin/iptables-restore\n"
		case len(f) >= 4 && f[0] == "ip" && f[1] == "route" && (f[2] == "add" || f[2] == "del"):
			res = "accepted"
			spec := strings.Join(f[3:], " ")
			idx := -1
			for i, r := range s.routes {
				if strings.HasPrefix(r, spec) || strings.HasPrefix(strings.Replace(r, "default", "0.0.0.0/0", 1), strings.Replace(spec, "default", "0.0.0.0/0", 1)) {
					idx = i
				}
			}
			if f[2] == "add" {
				if idx >= 0 {
					out += "RTNETLINK answers: File exists\n"
					res, rc = "refused", 2
				} else {
					s.routes = append(s.routes, spec)
				}
			} else if idx < 0 {
				out += "RTNETLINK answers: No such process\n"
				res, rc = "refused", 2
			} else {
				s.routes = append(s.routes[:idx:idx], s.routes[idx+1:]...)
			}
			s.persist()
		case strings.HasPrefix(line, "chmod a+x "):
			res = "accepted"
		case line == "/etc/network/packet-filter.new":
			res = "accepted"
			s.ipt = "# replaced by /etc/network/packet-filter.new\n"
			s.persist()
		case strings.HasPrefix(line, "mv -f /etc/network/packet-filter.new"):
			res = "save"
			s.saved = s.running()
			s.persist()
		case line == "exit":
			s.log(event{Ev: "exit", N: n})
			return
		default:
			out += "-bash: " + line + ": command not found\n"
			res, rc = "unknown", 127
		}
		if line != "echo $?" {
			s.lastRC = rc
		}
		s.log(event{Ev: "result", N: n, Res: res, Mode: "shell", Hash: s.hash()})
		s.write(out + "router#")
	}
}

func init() {
	// Ignore SIGHUP/SIGPIPE so that the deferred "end" record is written when
	// the tool goes away.
	ignore(syscall.SIGHUP)
	ignore(syscall.SIGPIPE)
}

func ignore(sig os.Signal) { signal.Ignore(sig) }
