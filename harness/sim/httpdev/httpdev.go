// Package httpdev provides stateful in-process HTTPS simulators for the
// PAN-OS XML API and the NSX-T Policy API, wrapping the harness's device
// models. They record every request (decoded, as the device would receive
// it), inject faults at chosen request positions and can park a request
// until released (schedule control).
package httpdev

import (
	"encoding/json"
	"errors"
	"fmt"
	"io"
	"net/http"
	"net/http/httptest"
	"net/url"
	"strings"
	"sync"
	"time"

	"verif/harness/nsxm"
	"verif/harness/panm"
)

type Fault struct {
	Pos  int    `json:"pos"`  // index of the request (0 = first request of the server's life)
	Kind string `json:"kind"` // http500 | http403 | malformed | status-error | close | stall | commit-fail
}

// Request is one recorded request.
type Request struct {
	N      int
	Method string
	Path   string
	Query  url.Values
	Form   url.Values
	Body   string
	Class  string // login | readonly | change | commit | poll
	Res    string // ok | refused | unsupported | fault:<kind> | denied
	Msg    string
	Hash   string // state hash after the request
	T0, T1 time.Time
}

type common struct {
	mu       sync.Mutex
	srv      *httptest.Server
	reqs     []*Request
	faults   []Fault
	pausePos int
	pauseCh  chan struct{}
	reached  chan struct{}
	stallFor time.Duration
}

func (c *common) URL() string { return c.srv.URL }
func (c *common) Close()      { c.srv.Close() }

func (c *common) Requests() []*Request {
	c.mu.Lock()
	defer c.mu.Unlock()
	return append([]*Request(nil), c.reqs...)
}

// PauseAt parks request number pos until Release is called; Reached is
// closed when the request has arrived.
func (c *common) PauseAt(pos int) (reached <-chan struct{}) {
	c.pausePos = pos
	c.pauseCh = make(chan struct{})
	c.reached = make(chan struct{})
	return c.reached
}

func (c *common) Release() {
	if c.pauseCh != nil {
		close(c.pauseCh)
		c.pauseCh = nil
	}
}

func (c *common) faultAt(n int) string {
	for _, f := range c.faults {
		if f.Pos == n {
			return f.Kind
		}
	}
	return ""
}

// begin records the request and applies transport-level faults. It
// returns false if the response has been produced already.
func (c *common) begin(w http.ResponseWriter, r *http.Request) (*Request, string, bool) {
	body, _ := io.ReadAll(r.Body)
	c.mu.Lock()
	n := len(c.reqs)
	q := &Request{N: n, Method: r.Method, Path: r.URL.Path, Query: r.URL.Query(), Body: string(body), T0: time.Now()}
	if r.Method == "POST" && strings.Contains(r.Header.Get("Content-Type"), "form") {
		q.Form, _ = url.ParseQuery(string(body))
	}
	c.reqs = append(c.reqs, q)
	pause := c.pauseCh != nil && c.pausePos == n
	ch, reached := c.pauseCh, c.reached
	kind := c.faultAt(n)
	c.mu.Unlock()
	if pause {
		close(reached)
		<-ch
	}
	switch kind {
	case "http500":
		q.Res = "fault:http500"
		http.Error(w, "Internal Server Error (injected)", 500)
		return q, kind, false
	case "http503":
		// what a manager answers while its services are still starting
		q.Res = "fault:http503"
		http.Error(w, "Service Unavailable (injected)", 503)
		return q, kind, false
	case "http500-empty", "http401-empty":
		// an error status without any body text
		q.Res = "fault:" + kind
		code := 500
		if kind == "http401-empty" {
			code = 401
		}
		w.WriteHeader(code)
		return q, kind, false
	case "http403":
		q.Res = "fault:http403"
		http.Error(w, "Forbidden (injected)", 403)
		return q, kind, false
	case "malformed":
		q.Res = "fault:malformed"
		w.Write([]byte("<<<this is neither XML nor JSON"))
		return q, kind, false
	case "truncated":
		// status line and headers arrive, the body is cut off
		q.Res = "fault:truncated"
		if hj, ok := w.(http.Hijacker); ok {
			if conn, buf, err := hj.Hijack(); err == nil {
				buf.WriteString("HTTP/1.1 200 OK\r\nContent-Type: application/xml\r\nContent-Length: 4096\r\n\r\n<response status=\"success\"><result>")
				buf.Flush()
				conn.Close()
			}
		}
		return q, kind, false
	case "close":
		q.Res = "fault:close"
		if hj, ok := w.(http.Hijacker); ok {
			if conn, _, err := hj.Hijack(); err == nil {
				conn.Close()
			}
		}
		return q, kind, false
	case "stall":
		q.Res = "fault:stall"
		d := c.stallFor
		if d == 0 {
			d = 8 * time.Second
		}
		select {
		case <-r.Context().Done():
		case <-time.After(d):
		}
		return q, kind, false
	}
	return q, kind, true
}

// ------------------------------------------------------------------ PAN-OS

type PanMember struct {
	HAEnabled bool
	Mode      string // Active-Passive | Active-Active
	State     string // active | passive | active-primary | active-secondary | suspended
	BadReply  bool   // malformed HA reply
}

type PanOpts struct {
	User, Password string
	Key            string
	Members        []PanMember // one per keygen in order; the last one repeats
	Faults         []Fault
	StallFor       time.Duration
	CommitPend     int // number of PEND answers before OK
	// Dirty > 0: the candidate configuration shows uncommitted changes, as
	// PAN-OS marks them (attributes admin, dirtyId, time), at that many
	// rule entries; DirtyAdmin is the administrator they belong to
	// (default: User, i.e. what an approve interrupted before its commit
	// leaves behind).
	Dirty      int
	DirtyAdmin string
}

type PanServer struct {
	common
	opts      PanOpts
	Candidate *panm.State
	Active    *panm.State
	keygens   int
	polls     int
	commitBad bool
	Commits   int
}

func NewPanServer(device *panm.State, o PanOpts) *PanServer {
	s := &PanServer{opts: o, Candidate: device.Clone(), Active: device.Clone()}
	s.faults = o.Faults
	s.stallFor = o.StallFor
	if s.opts.Key == "" {
		s.opts.Key = "LUFRPT1key"
	}
	s.srv = httptest.NewTLSServer(http.HandlerFunc(s.handle))
	return s
}

// markDirty adds the attributes of uncommitted changes to the first
// opts.Dirty entries behind the first <rules> element.
func (s *PanServer) markDirty(cfg string) string {
	if s.opts.Dirty <= 0 || s.Commits > 0 {
		return cfg
	}
	admin := s.opts.DirtyAdmin
	if admin == "" {
		admin = s.opts.User
	}
	at := strings.Index(cfg, "<rules>")
	if at < 0 {
		at = 0
	}
	head, rest := cfg[:at], cfg[at:]
	const open = `<entry name="`
	var b strings.Builder
	b.WriteString(head)
	for n := 0; n < s.opts.Dirty; n++ {
		i := strings.Index(rest, open)
		if i < 0 {
			break
		}
		j := strings.Index(rest[i+len(open):], `"`)
		if j < 0 {
			break
		}
		end := i + len(open) + j + 1
		b.WriteString(rest[:end])
		fmt.Fprintf(&b, ` admin="%s" dirtyId="%d" time="2026/10/01 11:58:0%d"`, admin, n+3, n%10)
		rest = rest[end:]
	}
	b.WriteString(rest)
	return b.String()
}

func (s *PanServer) member() PanMember {
	if len(s.opts.Members) == 0 {
		return PanMember{}
	}
	i := s.keygens - 1
	if i < 0 {
		i = 0
	}
	if i >= len(s.opts.Members) {
		i = len(s.opts.Members) - 1
	}
	return s.opts.Members[i]
}

func (s *PanServer) StateHash() string {
	return s.Candidate.Print(panm.Spelling{}) + "\x00" + s.Active.Print(panm.Spelling{})
}

func xmlResp(w http.ResponseWriter, body string) {
	w.Header().Set("Content-Type", "application/xml")
	w.Write([]byte(body))
}

func (s *PanServer) handle(w http.ResponseWriter, r *http.Request) {
	q, kind, ok := s.begin(w, r)
	defer func() { q.T1 = time.Now(); q.Hash = s.StateHash() }()
	if !ok {
		return
	}
	v := q.Query
	typ := v.Get("type")
	if typ == "keygen" {
		q.Class = "login"
		s.keygens++
		if v.Get("user") != s.opts.User || v.Get("password") != s.opts.Password {
			q.Res = "denied"
			w.WriteHeader(403)
			xmlResp(w, `<response status="error" code="403"><result><msg>Invalid credentials.</msg></result></response>`)
			return
		}
		q.Res = "ok"
		xmlResp(w, `<response status="success"><result><key>`+s.opts.Key+`</key></result></response>`)
		return
	}
	if v.Get("key") != s.opts.Key {
		q.Res = "denied"
		w.WriteHeader(403)
		xmlResp(w, `<response status="error" code="403"><result><msg>Invalid credentials.</msg></result></response>`)
		return
	}
	if kind == "status-error" {
		q.Res = "fault:status-error"
		xmlResp(w, `<response status="error" code="12"><msg><line>injected device error</line></msg></response>`)
		return
	}
	cmd := v.Get("cmd")
	switch {
	case typ == "op" && strings.Contains(cmd, "high-availability"):
		q.Class = "readonly"
		q.Res = "ok"
		m := s.member()
		switch {
		case m.BadReply:
			xmlResp(w, `<response status="success"><result><enabled>yes</enabled><group><mode>`)
		case !m.HAEnabled:
			xmlResp(w, `<response status="success"><result><enabled>no</enabled></result></response>`)
		case m.Mode == "-":
			// no <mode> element at all
			xmlResp(w, `<response status="success"><result><enabled>yes</enabled><group><local-info><state>`+m.State+
				`</state></local-info></group></result></response>`)
		default:
			xmlResp(w, `<response status="success"><result><enabled>yes</enabled><group><mode>`+m.Mode+
				`</mode><local-info><state>`+m.State+`</state></local-info></group></result></response>`)
		}
	case typ == "config" && v.Get("action") == "get":
		q.Class = "readonly"
		q.Res = "ok"
		xmlResp(w, `<response status="success" code="19"><result total-count="1" count="1">`+
			s.markDirty(s.Candidate.Devices.String(false))+`</result></response>`)
	case typ == "config":
		q.Class = "change"
		c := panm.Cmd{Action: v.Get("action"), XPath: v.Get("xpath"), Element: v.Get("element"), Where: v.Get("where"), Dst: v.Get("dst")}
		err := s.Candidate.Exec(c)
		var ref *panm.Refusal
		switch {
		case err == nil:
			q.Res = "ok"
			xmlResp(w, `<response status="success" code="20"><msg>command succeeded</msg></response>`)
		case errors.As(err, &ref):
			q.Res, q.Msg = "refused", err.Error()
			xmlResp(w, `<response status="error" code="12"><msg><line>`+ref.Msg+`</line></msg></response>`)
		default:
			q.Res, q.Msg = "unsupported", err.Error()
			xmlResp(w, `<response status="success" code="20"><msg>command succeeded</msg></response>`)
		}
	case typ == "commit":
		q.Class = "commit"
		q.Res = "ok"
		s.polls = 0
		s.commitBad = kind == "commit-fail"
		xmlResp(w, `<response status="success" code="19"><result><msg><line>Commit job enqueued with jobid 7</line></msg><job>7</job></result></response>`)
	case typ == "op" && strings.Contains(cmd, "<jobs>"):
		q.Class = "poll"
		q.Res = "ok"
		s.polls++
		res := "OK"
		if s.polls <= s.opts.CommitPend {
			res = "PEND"
		} else if s.commitBad || kind == "commit-fail" {
			res = "FAIL"
			q.Res = "fault:commit-fail"
		} else {
			s.Active = s.Candidate.Clone()
			s.Commits++
		}
		xmlResp(w, `<response status="success"><result><job><id>7</id><result>`+res+`</result></job></result></response>`)
	default:
		q.Class = "unknown"
		q.Res = "unknown"
		xmlResp(w, `<response status="error" code="17"><msg><line>unknown request</line></msg></response>`)
	}
}

// ------------------------------------------------------------------- NSX

type NsxOpts struct {
	User, Password string
	Token          string
	Faults         []Fault
	StallFor       time.Duration
	PageSize       int
	// Foreign objects (ids without the Netspoc prefix), raw JSON.
	ForeignGroups   []string
	ForeignServices []string
	ForeignPolicies []string
}

type NsxServer struct {
	common
	opts    NsxOpts
	Store   *nsxm.Store
	Foreign map[string]string // url path -> json; must stay untouched
}

func NewNsxServer(store *nsxm.Store, o NsxOpts) *NsxServer {
	s := &NsxServer{opts: o, Store: store.Clone(), Foreign: map[string]string{}}
	s.faults = o.Faults
	s.stallFor = o.StallFor
	if s.opts.Token == "" {
		s.opts.Token = "tok-0123456789abcdef"
	}
	if s.opts.PageSize == 0 {
		s.opts.PageSize = 3
	}
	s.srv = httptest.NewTLSServer(http.HandlerFunc(s.handle))
	return s
}

func (s *NsxServer) StateHash() string { return s.Store.Print(nsxm.Spelling{}) }

type nsxDump struct {
	Groups   []json.RawMessage `json:"groups"`
	Services []json.RawMessage `json:"services"`
	Policies []json.RawMessage `json:"policies"`
}

func (s *NsxServer) dump() nsxDump {
	var d nsxDump
	json.Unmarshal([]byte(s.Store.Print(nsxm.Spelling{})), &d)
	return d
}

func idOf(raw json.RawMessage) string {
	var x struct{ Id string }
	json.Unmarshal(raw, &x)
	return x.Id
}

func rawList(l []string) []json.RawMessage {
	var r []json.RawMessage
	for _, x := range l {
		r = append(r, json.RawMessage(x))
	}
	return r
}

func (s *NsxServer) page(w http.ResponseWriter, all []json.RawMessage, cursor string) {
	start := 0
	if cursor != "" {
		fmt.Sscanf(cursor, "c%d", &start)
	}
	end := start + s.opts.PageSize
	next := ""
	if end < len(all) {
		next = fmt.Sprintf("c%d", end)
	} else {
		end = len(all)
	}
	if start > len(all) {
		start = len(all)
	}
	res := all[start:end]
	if res == nil {
		res = []json.RawMessage{}
	}
	out := map[string]any{"results": res, "result_count": len(all)}
	if next != "" {
		out["cursor"] = next
	}
	w.Header().Set("Content-Type", "application/json")
	json.NewEncoder(w).Encode(out)
}

func (s *NsxServer) handle(w http.ResponseWriter, r *http.Request) {
	q, kind, ok := s.begin(w, r)
	defer func() { q.T1 = time.Now(); q.Hash = s.StateHash() }()
	if !ok {
		return
	}
	if q.Path == "/api/session/create" {
		q.Class = "login"
		if q.Form.Get("j_username") != s.opts.User || q.Form.Get("j_password") != s.opts.Password {
			q.Res = "denied"
			http.Error(w, "authentication failed", 403)
			return
		}
		q.Res = "ok"
		w.Header().Set("x-xsrf-token", s.opts.Token)
		http.SetCookie(w, &http.Cookie{Name: "JSESSIONID", Value: "sess" + s.opts.Token})
		w.Write([]byte("{}"))
		return
	}
	if r.Header.Get("x-xsrf-token") != s.opts.Token {
		q.Res = "denied"
		http.Error(w, "bad token", 403)
		return
	}
	if kind == "status-error" {
		q.Res = "fault:status-error"
		w.WriteHeader(400)
		w.Write([]byte(`{"httpStatus":"BAD_REQUEST","error_code":500012,"error_message":"injected device error"}`))
		return
	}
	const polPath = "/policy/api/v1/infra/domains/default/gateway-policies"
	const grpPath = "/policy/api/v1/infra/domains/default/groups"
	const svcPath = "/policy/api/v1/infra/services"
	if r.Method == "GET" {
		q.Class = "readonly"
		q.Res = "ok"
		d := s.dump()
		switch {
		case q.Path == polPath:
			all := append(rawList(s.opts.ForeignPolicies), d.Policies...)
			var ids []map[string]string
			for _, p := range all {
				ids = append(ids, map[string]string{"id": idOf(p)})
			}
			w.Header().Set("Content-Type", "application/json")
			json.NewEncoder(w).Encode(map[string]any{"results": ids})
		case strings.HasPrefix(q.Path, polPath+"/"):
			id := strings.TrimPrefix(q.Path, polPath+"/")
			for _, p := range append(rawList(s.opts.ForeignPolicies), d.Policies...) {
				if idOf(p) == id {
					w.Header().Set("Content-Type", "application/json")
					w.Write(p)
					return
				}
			}
			q.Res = "missing"
			http.Error(w, `{"error_message":"not found"}`, 404)
		case q.Path == svcPath:
			s.page(w, append(rawList(s.opts.ForeignServices), d.Services...), q.Query.Get("cursor"))
		case q.Path == grpPath:
			s.page(w, append(rawList(s.opts.ForeignGroups), d.Groups...), q.Query.Get("cursor"))
		default:
			q.Res = "unknown"
			http.Error(w, "unknown", 404)
		}
		return
	}
	q.Class = "change"
	uri := q.Path
	if r.URL.RawQuery != "" {
		uri += "?" + r.URL.RawQuery
	}
	err := s.Store.Exec(r.Method, uri, q.Body)
	var ref *nsxm.Refusal
	switch {
	case err == nil:
		q.Res = "ok"
		w.Write([]byte("{}"))
	case errors.As(err, &ref):
		q.Res, q.Msg = "refused", err.Error()
		w.WriteHeader(400)
		w.Write([]byte(`{"httpStatus":"BAD_REQUEST","error_message":` + fmt.Sprintf("%q", ref.Msg) + `}`))
	default:
		q.Res, q.Msg = "unsupported", err.Error()
		w.Write([]byte("{}"))
	}
}
