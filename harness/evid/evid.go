// Package evid collects what a check actually covered and writes one
// partial evidence file per shard; the driver merges the shards.
package evid

import (
	"encoding/json"
	"hash/fnv"
	"os"
	"path/filepath"
	"sort"
	"strconv"
	"sync"
	"time"
)

type Collector struct {
	mu          sync.Mutex
	ID          string
	Rule        string
	start       time.Time
	evaluations int
	nt          map[uint64]struct{}
	classes     map[string]int
	excluded    map[string]int
	samples     []any
	violations  int
	notes       map[string]string
	MaxSamples  int
}

func New(id, rule string) *Collector {
	return &Collector{ID: id, Rule: rule, start: time.Now(),
		nt: map[uint64]struct{}{}, classes: map[string]int{}, excluded: map[string]int{},
		notes: map[string]string{}, MaxSamples: 4}
}

func (c *Collector) Eval() {
	c.mu.Lock()
	c.evaluations++
	c.mu.Unlock()
}

func (c *Collector) Class(name string) {
	c.mu.Lock()
	c.classes[name]++
	c.mu.Unlock()
}

func (c *Collector) ClassN(name string, n int) {
	c.mu.Lock()
	c.classes[name] += n
	c.mu.Unlock()
}

func (c *Collector) Excluded(sig string) {
	c.mu.Lock()
	c.excluded[sig]++
	c.mu.Unlock()
}

func (c *Collector) Violation() {
	c.mu.Lock()
	c.violations++
	c.mu.Unlock()
}

func (c *Collector) Note(k, v string) {
	c.mu.Lock()
	c.notes[k] = v
	c.mu.Unlock()
}

// NonTrivial records a case that is non-trivial by the property's rule;
// key identifies the case (distinctness is counted over keys). sample is
// kept for the first few distinct keys.
func (c *Collector) NonTrivial(key string, sample func() any) {
	h := fnv.New64a()
	h.Write([]byte(key))
	v := h.Sum64()
	c.mu.Lock()
	defer c.mu.Unlock()
	if _, ok := c.nt[v]; ok {
		return
	}
	c.nt[v] = struct{}{}
	if len(c.samples) < c.MaxSamples && sample != nil {
		c.samples = append(c.samples, sample())
	}
}

type Partial struct {
	ID          string            `json:"id"`
	Rule        string            `json:"rule"`
	Evaluations int               `json:"evaluations"`
	NT          []string          `json:"nt"`
	Classes     map[string]int    `json:"classes"`
	Excluded    map[string]int    `json:"excluded"`
	Samples     []any             `json:"samples"`
	Violations  int               `json:"violations"`
	Notes       map[string]string `json:"notes"`
	WallS       float64           `json:"wall_s"`
}

// Write stores the partial evidence of this process under
// $VERIF_EVID_DIR/<ID>.<shard>.json (no-op when the variable is unset).
func (c *Collector) Write() {
	dir := os.Getenv("VERIF_EVID_DIR")
	if dir == "" {
		return
	}
	shard := os.Getenv("VERIF_SHARD")
	if shard == "" {
		shard = "0"
	}
	c.mu.Lock()
	defer c.mu.Unlock()
	p := Partial{ID: c.ID, Rule: c.Rule, Evaluations: c.evaluations,
		Classes: c.classes, Excluded: c.excluded, Samples: c.samples,
		Violations: c.violations, Notes: c.notes,
		WallS: time.Since(c.start).Seconds()}
	for v := range c.nt {
		p.NT = append(p.NT, strconv.FormatUint(v, 16))
	}
	sort.Strings(p.NT)
	data, _ := json.Marshal(p)
	os.MkdirAll(dir, 0755)
	os.WriteFile(filepath.Join(dir, c.ID+"."+shard+".json"), data, 0644)
}
