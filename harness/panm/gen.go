package panm

import (
	"fmt"
	"sort"
	"strings"

	"pgregory.net/rapid"
)

// Abstract configuration used by the generator; printed to XML.

type ARule struct {
	Name         string
	Action       string
	From, To     string
	Src, Dst     []string // names of addresses / one group / "any"
	Svc          []string
	LogStart     string
	LogEnd       string
	LogSetting   string
	Extra        string // unknown XML children, verbatim
	UUID         string // attribute a device adds
	IgnorableAny bool   // device adds <source-user><member>any</member></source-user>
}

type AVsys struct {
	Name        string
	DisplayName string
	Rules       []*ARule
	Addr        map[string]string    // name -> ip-netmask
	AddrExtra   map[string]string    // name -> unknown XML (e.g. <description>)
	Groups      map[string][]string  // name -> member address names
	Svc         map[string][2]string // name -> proto, port
	SGroups     map[string][]string
}

type AConf struct {
	DevName  string
	Hostname string
	Vsys     []*AVsys
}

func newVsys(name string) *AVsys {
	return &AVsys{Name: name, DisplayName: name + " netspoc", Addr: map[string]string{}, AddrExtra: map[string]string{},
		Groups: map[string][]string{}, Svc: map[string][2]string{}, SGroups: map[string][]string{}}
}

func (v *AVsys) clone() *AVsys {
	n := newVsys(v.Name)
	n.DisplayName = v.DisplayName
	for _, r := range v.Rules {
		c := *r
		c.Src = append([]string(nil), r.Src...)
		c.Dst = append([]string(nil), r.Dst...)
		c.Svc = append([]string(nil), r.Svc...)
		n.Rules = append(n.Rules, &c)
	}
	for k, x := range v.Addr {
		n.Addr[k] = x
	}
	for k, x := range v.AddrExtra {
		n.AddrExtra[k] = x
	}
	for k, x := range v.Groups {
		n.Groups[k] = append([]string(nil), x...)
	}
	for k, x := range v.Svc {
		n.Svc[k] = x
	}
	for k, x := range v.SGroups {
		n.SGroups[k] = append([]string(nil), x...)
	}
	return n
}

func (c *AConf) clone() *AConf {
	n := &AConf{DevName: c.DevName, Hostname: c.Hostname}
	for _, v := range c.Vsys {
		n.Vsys = append(n.Vsys, v.clone())
	}
	return n
}

func sortedKeys[V any](m map[string]V) []string {
	l := make([]string, 0, len(m))
	for k := range m {
		l = append(l, k)
	}
	sort.Strings(l)
	return l
}

func members(tag string, l []string) *Node {
	n := &Node{Name: tag}
	for _, m := range l {
		n.Children = append(n.Children, &Node{Name: "member", Text: m})
	}
	return n
}

func leaf(tag, text string) *Node { return &Node{Name: tag, Text: text} }

func (r *ARule) node(device bool) *Node {
	n := &Node{Name: "entry", Attrs: [][2]string{{"name", r.Name}}}
	if device && r.UUID != "" {
		n.Attrs = append(n.Attrs, [2]string{"uuid", r.UUID})
	}
	n.Children = append(n.Children, leaf("action", r.Action), members("from", []string{r.From}), members("to", []string{r.To}),
		members("source", r.Src), members("destination", r.Dst), members("service", r.Svc), members("application", []string{"any"}))
	if device && r.IgnorableAny {
		n.Children = append(n.Children, members("source-user", []string{"any"}), members("category", []string{"any"}))
	}
	n.Children = append(n.Children, leaf("rule-type", "interzone"))
	if r.LogStart != "" {
		n.Children = append(n.Children, leaf("log-start", r.LogStart))
	}
	if r.LogEnd != "" {
		n.Children = append(n.Children, leaf("log-end", r.LogEnd))
	}
	if r.LogSetting != "" {
		n.Children = append(n.Children, leaf("log-setting", r.LogSetting))
	}
	if r.Extra != "" {
		f, _ := parseFragment(r.Extra)
		n.Children = append(n.Children, f...)
	}
	return n
}

func (v *AVsys) node(device bool) *Node {
	n := &Node{Name: "entry", Attrs: [][2]string{{"name", v.Name}}}
	if device {
		n.Children = append(n.Children, leaf("display-name", v.DisplayName))
	}
	rules := &Node{Name: "rules"}
	for _, r := range v.Rules {
		rules.Children = append(rules.Children, r.node(device))
	}
	n.Children = append(n.Children, &Node{Name: "rulebase", Children: []*Node{{Name: "security", Children: []*Node{rules}}}})
	if len(v.Groups) > 0 {
		g := &Node{Name: "address-group"}
		for _, k := range sortedKeys(v.Groups) {
			g.Children = append(g.Children, &Node{Name: "entry", Attrs: [][2]string{{"name", k}},
				Children: []*Node{members("static", v.Groups[k])}})
		}
		n.Children = append(n.Children, g)
	}
	if len(v.Addr) > 0 {
		a := &Node{Name: "address"}
		for _, k := range sortedKeys(v.Addr) {
			e := &Node{Name: "entry", Attrs: [][2]string{{"name", k}}, Children: []*Node{leaf("ip-netmask", v.Addr[k])}}
			// other address types (from a raw file or made by hand), value "range:a-b"
			if r, ok := strings.CutPrefix(v.Addr[k], "range:"); ok {
				e.Children = []*Node{leaf("ip-range", r)}
			}
			if x := v.AddrExtra[k]; x != "" {
				f, _ := parseFragment(x)
				e.Children = append(e.Children, f...)
			}
			a.Children = append(a.Children, e)
		}
		n.Children = append(n.Children, a)
	}
	if len(v.SGroups) > 0 {
		g := &Node{Name: "service-group"}
		for _, k := range sortedKeys(v.SGroups) {
			g.Children = append(g.Children, &Node{Name: "entry", Attrs: [][2]string{{"name", k}},
				Children: []*Node{members("members", v.SGroups[k])}})
		}
		n.Children = append(n.Children, g)
	}
	if len(v.Svc) > 0 {
		a := &Node{Name: "service"}
		for _, k := range sortedKeys(v.Svc) {
			pp := v.Svc[k]
			a.Children = append(a.Children, &Node{Name: "entry", Attrs: [][2]string{{"name", k}},
				Children: []*Node{{Name: "protocol", Children: []*Node{{Name: pp[0], Children: []*Node{leaf("port", pp[1])}}}}}})
		}
		n.Children = append(n.Children, a)
	}
	return n
}

// State builds the XML state of the abstract configuration.
func (c *AConf) State(device bool) *State {
	d := &Node{Name: "entry", Attrs: [][2]string{{"name", c.DevName}}}
	if device {
		d.Children = append(d.Children, &Node{Name: "deviceconfig", Children: []*Node{{Name: "system",
			Children: []*Node{leaf("hostname", c.Hostname), leaf("timezone", "Europe/Berlin")}}}})
	}
	vs := &Node{Name: "vsys"}
	for _, v := range c.Vsys {
		vs.Children = append(vs.Children, v.node(device))
	}
	d.Children = append(d.Children, vs)
	return &State{Devices: &Node{Name: "devices", Children: []*Node{d}}}
}

// -------------------------------------------------------------- generator

type GenOpts struct {
	Decorate bool
	Ties     bool
	// TwoVsys forces two vsys in target and device (default: one in five).
	TwoVsys bool
}

// forceTwoVsys is set by GenPair for the duration of one generation.
var forceTwoVsys bool

var (
	hostIPs = []string{"10.1.1.10", "10.1.1.20", "10.1.1.30", "10.1.2.40", "10.2.2.2"}
	netIPs  = []string{"10.1.2.0/24", "10.1.3.0/24", "10.1.0.0/16", "172.16.0.0/12"}
	svcList = [][2]string{{"tcp", "80"}, {"tcp", "22"}, {"udp", "123"}, {"tcp", "443"}, {"udp", "53"}, {"tcp", "1024-65535"}}
	zones   = []string{"z1", "z2", "z3"}
	// values of ip-range address objects
	rangeVals = []string{"10.1.1.3-10.1.1.7", "10.1.1.3-10.1.1.9", "10.1.5.1-10.1.5.100"}
)

func addrName(ip string) string {
	if strings.Contains(ip, "/") {
		return "NET_" + strings.NewReplacer("/", "_").Replace(ip)
	}
	return "IP_" + ip
}

func (v *AVsys) ensureAddr(ip string) string {
	n := addrName(ip)
	if _, ok := v.Addr[n]; !ok {
		val := ip
		if !strings.Contains(ip, "/") {
			val += "/32"
		}
		v.Addr[n] = val
	}
	return n
}

func (v *AVsys) ensureSvc(pp [2]string) string {
	n := pp[0] + " " + pp[1]
	v.Svc[n] = pp
	return n
}

func genAddrList(t *rapid.T, v *AVsys, label string) []string {
	k := rapid.IntRange(0, 9).Draw(t, label+"K")
	switch {
	case k == 0:
		return []string{"any"}
	case k <= 4:
		// one group; sometimes two groups, or a group and an address
		group := func(label string) string {
			gn := fmt.Sprintf("g%d", rapid.IntRange(0, 3).Draw(t, label+"G"))
			if _, ok := v.Groups[gn]; !ok {
				n := rapid.IntRange(1, 5).Draw(t, label+"GN")
				seen := map[string]bool{}
				var ms []string
				for i := 0; i < n; i++ {
					ip := rapid.SampledFrom(append(hostIPs, netIPs...)).Draw(t, fmt.Sprintf("%sGM%d", label, i))
					a := v.ensureAddr(ip)
					if !seen[a] {
						seen[a] = true
						ms = append(ms, a)
					}
				}
				v.Groups[gn] = ms
			}
			return gn
		}
		l := []string{group(label)}
		// (Never two groups in one list: Netspoc writes one group per list,
		// and the tool pairs the groups of two lists by position, which
		// does not converge for two groups whose names on the device sort
		// differently; see DESIGN 8.6.)
		if k == 4 {
			l = append(l, v.ensureAddr(rapid.SampledFrom(append(hostIPs, netIPs...)).Draw(t, label+"GA")))
		}
		return l
	}
	n := rapid.IntRange(1, 3).Draw(t, label+"N")
	seen := map[string]bool{}
	var l []string
	if rapid.IntRange(0, 7).Draw(t, label+"range") == 0 {
		// an address object of type ip-range
		rn := rapid.SampledFrom([]string{"pool-a", "pool-b"}).Draw(t, label+"rangeN")
		if _, ok := v.Addr[rn]; !ok {
			v.Addr[rn] = "range:" + rapid.SampledFrom(rangeVals).Draw(t, label+"rangeV")
		}
		seen[rn] = true
		l = append(l, rn)
	}
	for i := 0; i < n; i++ {
		ip := rapid.SampledFrom(append(hostIPs, netIPs...)).Draw(t, fmt.Sprintf("%sA%d", label, i))
		a := v.ensureAddr(ip)
		if !seen[a] {
			seen[a] = true
			l = append(l, a)
		}
	}
	return l
}

func genSvcList(t *rapid.T, v *AVsys, label string) []string {
	k := rapid.IntRange(0, 9).Draw(t, label+"K")
	switch {
	case k == 0:
		return []string{"any"}
	case k == 1:
		return []string{"application-default"}
	case k == 2:
		gn := "sg0"
		if _, ok := v.SGroups[gn]; !ok {
			v.SGroups[gn] = []string{v.ensureSvc(svcList[0]), v.ensureSvc(svcList[1])}
		}
		return []string{gn}
	}
	n := rapid.IntRange(1, 2).Draw(t, label+"N")
	seen := map[string]bool{}
	var l []string
	for i := 0; i < n; i++ {
		s := v.ensureSvc(rapid.SampledFrom(svcList).Draw(t, fmt.Sprintf("%sS%d", label, i)))
		if !seen[s] {
			seen[s] = true
			l = append(l, s)
		}
	}
	return l
}

func genRule(t *rapid.T, v *AVsys, name, label string) *ARule {
	r := &ARule{Name: name}
	r.Action = rapid.SampledFrom([]string{"allow", "allow", "deny", "drop"}).Draw(t, label+"act")
	r.From = rapid.SampledFrom(zones).Draw(t, label+"from")
	r.To = rapid.SampledFrom(zones).Draw(t, label+"to")
	r.Src = genAddrList(t, v, label+"src")
	r.Dst = genAddrList(t, v, label+"dst")
	r.Svc = genSvcList(t, v, label+"svc")
	if rapid.Bool().Draw(t, label+"log") {
		r.LogStart, r.LogEnd = "yes", "yes"
	}
	if rapid.IntRange(0, 5).Draw(t, label+"ls") == 0 {
		r.LogSetting = "fwd1"
	}
	switch rapid.IntRange(0, 11).Draw(t, label+"extra") {
	case 0:
		r.Extra = "<description>managed rule</description>"
	case 1:
		r.Extra = "<tag><member>t1</member></tag><disabled>no</disabled>"
	}
	return r
}

func GenTarget(t *rapid.T, label string) *AConf {
	c := &AConf{DevName: "localhost.localdomain", Hostname: "router"}
	nv := 1
	if rapid.IntRange(0, 4).Draw(t, label+"twoVsys") == 0 || forceTwoVsys {
		nv = 2
	}
	for i := 0; i < nv; i++ {
		v := newVsys(fmt.Sprintf("vsys%d", i+1))
		n := rapid.IntRange(1, 6).Draw(t, fmt.Sprintf("%sv%dn", label, i))
		for j := 0; j < n; j++ {
			v.Rules = append(v.Rules, genRule(t, v, fmt.Sprintf("r%d", j+1), fmt.Sprintf("%sv%dr%d", label, i, j)))
		}
		// Hand-chosen names of the shape <name>-<n> (raw rules) may look
		// like the names the tool generates on a clash.
		if len(v.Rules) >= 2 && rapid.IntRange(0, 7).Draw(t, fmt.Sprintf("%sv%dclash", label, i)) == 0 {
			v.Rules[len(v.Rules)-1].Name = v.Rules[0].Name + "-1"
		}
		if len(v.Groups) > 0 && rapid.IntRange(0, 7).Draw(t, fmt.Sprintf("%sv%dgclash", label, i)) == 0 {
			gs := sortedKeys(v.Groups)
			if len(gs) >= 2 {
				v.renameGroup(gs[1], gs[0]+"-1")
			}
		}
		c.Vsys = append(c.Vsys, v)
	}
	return c
}

func (v *AVsys) usedObjects() (addr, grp, svc, sgrp map[string]bool) {
	addr, grp, svc, sgrp = map[string]bool{}, map[string]bool{}, map[string]bool{}, map[string]bool{}
	for _, r := range v.Rules {
		for _, l := range [][]string{r.Src, r.Dst} {
			for _, m := range l {
				if _, ok := v.Groups[m]; ok {
					grp[m] = true
					for _, a := range v.Groups[m] {
						addr[a] = true
					}
				} else {
					addr[m] = true
				}
			}
		}
		for _, m := range r.Svc {
			if _, ok := v.SGroups[m]; ok {
				sgrp[m] = true
				for _, s := range v.SGroups[m] {
					svc[s] = true
				}
			} else {
				svc[m] = true
			}
		}
	}
	return
}

// prune removes objects no rule uses (Netspoc emits none; a device after a
// complete approve holds none).
func (v *AVsys) prune() {
	addr, grp, svc, sgrp := v.usedObjects()
	for k := range v.Addr {
		if !addr[k] {
			delete(v.Addr, k)
			delete(v.AddrExtra, k)
		}
	}
	for k := range v.Groups {
		if !grp[k] {
			delete(v.Groups, k)
		}
	}
	for k := range v.Svc {
		if !svc[k] {
			delete(v.Svc, k)
		}
	}
	for k := range v.SGroups {
		if !sgrp[k] {
			delete(v.SGroups, k)
		}
	}
}

func (v *AVsys) renameGroup(old, new string) {
	if _, ok := v.Groups[new]; ok || old == new {
		return
	}
	v.Groups[new] = v.Groups[old]
	delete(v.Groups, old)
	for _, r := range v.Rules {
		for _, l := range [][]string{r.Src, r.Dst} {
			for i, m := range l {
				if m == old {
					l[i] = new
				}
			}
		}
	}
}

func (v *AVsys) freshRuleName(base string) string {
	used := map[string]bool{}
	for _, r := range v.Rules {
		used[r.Name] = true
	}
	if !used[base] {
		return base
	}
	for i := 1; ; i++ {
		n := fmt.Sprintf("%s-%d", base, i)
		if !used[n] {
			return n
		}
	}
}

func (v *AVsys) mutate(t *rapid.T, label string) string {
	switch rapid.IntRange(0, 18).Draw(t, label+"op") {
	case 17, 18: // a rule field that names one group is pointed at another existing group
		gs := sortedKeys(v.Groups)
		if len(gs) < 2 {
			return "noop"
		}
		var fields []*[]string
		for _, r := range v.Rules {
			for _, l := range []*[]string{&r.Src, &r.Dst} {
				if len(*l) == 1 {
					if _, ok := v.Groups[(*l)[0]]; ok {
						fields = append(fields, l)
					}
				}
			}
		}
		if len(fields) == 0 {
			return "noop"
		}
		f := fields[rapid.IntRange(0, len(fields)-1).Draw(t, label+"field")]
		g := rapid.SampledFrom(gs).Draw(t, label+"g")
		if g == (*f)[0] {
			return "noop"
		}
		*f = []string{g}
		return "repointGroup"
	case 0, 1: // add rule
		i := rapid.IntRange(0, len(v.Rules)).Draw(t, label+"pos")
		r := genRule(t, v, v.freshRuleName(fmt.Sprintf("r%d", rapid.IntRange(1, 9).Draw(t, label+"rn"))), label+"new")
		v.Rules = append(v.Rules[:i:i], append([]*ARule{r}, v.Rules[i:]...)...)
		return "addRule"
	case 2, 3: // delete rule
		if len(v.Rules) < 2 {
			return "noop"
		}
		i := rapid.IntRange(0, len(v.Rules)-1).Draw(t, label+"pos")
		v.Rules = append(v.Rules[:i:i], v.Rules[i+1:]...)
		return "delRule"
	case 4, 5: // move rule
		if len(v.Rules) < 2 {
			return "noop"
		}
		i := rapid.IntRange(0, len(v.Rules)-1).Draw(t, label+"from")
		r := v.Rules[i]
		rest := append(v.Rules[:i:i], v.Rules[i+1:]...)
		j := rapid.IntRange(0, len(rest)).Draw(t, label+"to")
		v.Rules = append(rest[:j:j], append([]*ARule{r}, rest[j:]...)...)
		return "moveRule"
	case 6: // rename rule
		r := v.Rules[rapid.IntRange(0, len(v.Rules)-1).Draw(t, label+"pos")]
		r.Name = v.freshRuleName(rapid.SampledFrom([]string{"r1", "r2", "r3", "r1-1", "r2-1", "old"}).Draw(t, label+"nn"))
		return "renameRule"
	case 7: // change action / log
		r := v.Rules[rapid.IntRange(0, len(v.Rules)-1).Draw(t, label+"pos")]
		if rapid.Bool().Draw(t, label+"what") {
			r.Action = rapid.SampledFrom([]string{"allow", "deny", "drop"}).Draw(t, label+"act")
		} else if r.LogStart == "" {
			r.LogStart, r.LogEnd = "yes", "yes"
		} else {
			r.LogStart, r.LogEnd = "", ""
		}
		return "chgRule"
	case 8, 9: // group membership: few changes
		gs := sortedKeys(v.Groups)
		if len(gs) == 0 {
			return "noop"
		}
		g := rapid.SampledFrom(gs).Draw(t, label+"g")
		ms := v.Groups[g]
		if rapid.Bool().Draw(t, label+"add") || len(ms) < 2 {
			a := v.ensureAddr(rapid.SampledFrom(append(hostIPs, netIPs...)).Draw(t, label+"ip"))
			for _, x := range ms {
				if x == a {
					return "noop"
				}
			}
			v.Groups[g] = append(ms, a)
			return "grpAdd"
		}
		i := rapid.IntRange(0, len(ms)-1).Draw(t, label+"mi")
		v.Groups[g] = append(ms[:i:i], ms[i+1:]...)
		return "grpDel"
	case 10: // group membership: replace most
		gs := sortedKeys(v.Groups)
		if len(gs) == 0 {
			return "noop"
		}
		g := rapid.SampledFrom(gs).Draw(t, label+"g")
		n := rapid.IntRange(1, 4).Draw(t, label+"n")
		seen := map[string]bool{}
		var ms []string
		for i := 0; i < n; i++ {
			a := v.ensureAddr(rapid.SampledFrom(append(hostIPs, netIPs...)).Draw(t, fmt.Sprintf("%sip%d", label, i)))
			if !seen[a] {
				seen[a] = true
				ms = append(ms, a)
			}
		}
		v.Groups[g] = ms
		return "grpReplace"
	case 11: // rename group
		gs := sortedKeys(v.Groups)
		if len(gs) == 0 {
			return "noop"
		}
		g := rapid.SampledFrom(gs).Draw(t, label+"g")
		v.renameGroup(g, rapid.SampledFrom([]string{"g0", "g1", "g2", "g0-1", "g1-1", "grpX"}).Draw(t, label+"nn"))
		return "renameGroup"
	case 12: // split: one rule gets its own copy of the group
		for _, r := range v.Rules {
			for _, l := range [][]string{r.Src, r.Dst} {
				if len(l) == 1 {
					if ms, ok := v.Groups[l[0]]; ok {
						nn := l[0] + "-copy"
						if _, dup := v.Groups[nn]; !dup {
							v.Groups[nn] = append([]string(nil), ms...)
							l[0] = nn
							return "splitGroup"
						}
					}
				}
			}
		}
		return "noop"
	case 13: // change the value of an address object (same name)
		as := sortedKeys(v.Addr)
		if len(as) == 0 {
			return "noop"
		}
		a := rapid.SampledFrom(as).Draw(t, label+"a")
		if strings.HasPrefix(v.Addr[a], "range:") {
			v.Addr[a] = "range:" + rapid.SampledFrom(rangeVals).Draw(t, label+"rval")
			return "chgAddrRange"
		}
		if rapid.Bool().Draw(t, label+"descr") {
			v.AddrExtra[a] = "<description>changed</description>"
		} else {
			v.Addr[a] = rapid.SampledFrom([]string{"10.9.9.9/32", "10.9.0.0/16"}).Draw(t, label+"val")
		}
		return "chgAddrValue"
	case 14: // change the definition of a service (same name)
		ss := sortedKeys(v.Svc)
		if len(ss) == 0 {
			return "noop"
		}
		s := rapid.SampledFrom(ss).Draw(t, label+"s")
		pp := v.Svc[s]
		pp[1] = rapid.SampledFrom([]string{"8080", "1-1023"}).Draw(t, label+"port")
		v.Svc[s] = pp
		return "chgSvcValue"
	case 16: // change members of a service-group
		gs := sortedKeys(v.SGroups)
		if len(gs) == 0 {
			return "noop"
		}
		g := rapid.SampledFrom(gs).Draw(t, label+"sg")
		v.SGroups[g] = []string{v.ensureSvc(rapid.SampledFrom(svcList).Draw(t, label+"sgm1")), v.ensureSvc(svcList[3])}
		if v.SGroups[g][0] == v.SGroups[g][1] {
			v.SGroups[g] = v.SGroups[g][:1]
		}
		return "chgSGroup"
	case 15: // change members of a rule (plain lists)
		r := v.Rules[rapid.IntRange(0, len(v.Rules)-1).Draw(t, label+"pos")]
		if rapid.Bool().Draw(t, label+"side") {
			r.Src = genAddrList(t, v, label+"nsrc")
		} else {
			r.Svc = genSvcList(t, v, label+"nsvc")
		}
		return "chgMembers"
	}
	return "noop"
}

type Pair struct {
	A, B *AConf
	Mode string
	Ops  []string
	Sp   Spelling
}

func GenPair(t *rapid.T, o GenOpts) *Pair {
	p := &Pair{}
	forceTwoVsys = o.TwoVsys
	defer func() { forceTwoVsys = false }()
	p.B = GenTarget(t, "B")
	for _, v := range p.B.Vsys {
		v.prune()
	}
	if rapid.IntRange(0, 5).Draw(t, "independent") == 0 {
		p.Mode = "independent"
		p.A = GenTarget(t, "A")
		// device must have every targeted vsys
		have := map[string]bool{}
		for _, v := range p.A.Vsys {
			have[v.Name] = true
		}
		for _, v := range p.B.Vsys {
			if !have[v.Name] {
				p.A.Vsys = append(p.A.Vsys, newVsys(v.Name))
			}
		}
	} else {
		p.Mode = "derived"
		p.A = p.B.clone()
	}
	n := rapid.IntRange(0, 6).Draw(t, "nOps")
	for i := 0; i < n; i++ {
		v := p.A.Vsys[rapid.IntRange(0, len(p.A.Vsys)-1).Draw(t, fmt.Sprintf("op%dv", i))]
		if len(v.Rules) == 0 {
			continue
		}
		p.Ops = append(p.Ops, v.mutate(t, fmt.Sprintf("op%d", i)))
	}
	// Device-only decoration that the tool must ignore when comparing.
	for vi, v := range p.A.Vsys {
		for ri, r := range v.Rules {
			if rapid.IntRange(0, 3).Draw(t, fmt.Sprintf("uuid%d_%d", vi, ri)) == 0 {
				r.UUID = fmt.Sprintf("0000-%d-%d", vi, ri)
			}
			if rapid.IntRange(0, 4).Draw(t, fmt.Sprintf("ign%d_%d", vi, ri)) == 0 {
				r.IgnorableAny = true
			}
		}
		if rapid.IntRange(0, 2).Draw(t, fmt.Sprintf("keepUnused%d", vi)) != 0 {
			v.prune()
		}
	}
	if o.Ties {
		for _, v := range p.A.Vsys {
			gs := sortedKeys(v.Groups)
			if len(gs) == 0 {
				continue
			}
			src := rapid.SampledFrom(gs).Draw(t, "tieSrc"+v.Name)
			for j := 0; j < 3; j++ {
				if rapid.Bool().Draw(t, fmt.Sprintf("tie%s%d", v.Name, j)) {
					v.Groups[fmt.Sprintf("%s_tie%d", src, j)] = append([]string(nil), v.Groups[src]...)
				}
			}
		}
	}
	if o.Decorate {
		// other vsys the target does not mention
		ov := newVsys("vsys9")
		ov.DisplayName = "other"
		ov.Rules = append(ov.Rules, genRule(t, ov, "keep1", "decR"))
		p.A.Vsys = append(p.A.Vsys, ov)
		p.Ops = append(p.Ops, "dec:otherVsys")
	}
	bits := rapid.IntRange(0, 3).Draw(t, "spelling")
	p.Sp = Spelling{Pretty: bits&1 != 0, Envelope: bits&2 != 0}
	return p
}
