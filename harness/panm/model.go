// Package panm is an independent, strict, executable model of the part of
// a PAN-OS candidate configuration that Netspoc-Approve manages. The state
// is an XML tree; the XML-API commands set/edit/delete/move are interpreted
// on it by a restricted xpath evaluator, with the referential checks a
// device makes.
package panm

import (
	"bytes"
	"encoding/xml"
	"fmt"
	"io"
	"net/url"
	"sort"
	"strings"
)

type ErrUnsupported struct{ What string }

func (e *ErrUnsupported) Error() string { return "unsupported by model: " + e.What }
func unsupported(format string, a ...any) error {
	return &ErrUnsupported{fmt.Sprintf(format, a...)}
}

type Refusal struct{ Rule, Msg string }

func (e *Refusal) Error() string { return "refused[" + e.Rule + "]: " + e.Msg }
func refuse(rule, format string, a ...any) error {
	return &Refusal{rule, fmt.Sprintf(format, a...)}
}

// Node is an XML element.
// ReplaceServiceGroupMembers makes "set .../service-group/entry/members"
// replace the member list instead of merging into it: what the device would
// hold had the tool used an action that replaces. Only the oracles switch it
// on, to decide whether a failure is fully explained by known finding F21.
var ReplaceServiceGroupMembers bool

type Node struct {
	Name     string
	Attrs    [][2]string
	Children []*Node
	Text     string // only for leaves
}

func (n *Node) Clone() *Node {
	c := &Node{Name: n.Name, Text: n.Text, Attrs: append([][2]string(nil), n.Attrs...)}
	for _, ch := range n.Children {
		c.Children = append(c.Children, ch.Clone())
	}
	return c
}

func (n *Node) Attr(k string) string {
	for _, a := range n.Attrs {
		if a[0] == k {
			return a[1]
		}
	}
	return ""
}

func (n *Node) Child(name string) *Node {
	for _, c := range n.Children {
		if c.Name == name {
			return c
		}
	}
	return nil
}

func (n *Node) Entry(name string) *Node {
	for _, c := range n.Children {
		if c.Name == "entry" && c.Attr("name") == name {
			return c
		}
	}
	return nil
}

// Path descends through child element names.
func (n *Node) Path(names ...string) *Node {
	cur := n
	for _, x := range names {
		if cur == nil {
			return nil
		}
		cur = cur.Child(x)
	}
	return cur
}

func (n *Node) Members() []string {
	var l []string
	if n == nil {
		return nil
	}
	for _, c := range n.Children {
		if c.Name == "member" {
			l = append(l, c.Text)
		}
	}
	return l
}

// ParseXML parses one XML document into a tree (whitespace between tags
// is dropped, text of leaves is trimmed).
func ParseXML(data string) (*Node, error) {
	d := xml.NewDecoder(strings.NewReader(data))
	var stack []*Node
	var root *Node
	for {
		tok, err := d.Token()
		if err == io.EOF {
			break
		}
		if err != nil {
			return nil, err
		}
		switch t := tok.(type) {
		case xml.StartElement:
			n := &Node{Name: t.Name.Local}
			for _, a := range t.Attr {
				n.Attrs = append(n.Attrs, [2]string{a.Name.Local, a.Value})
			}
			if len(stack) > 0 {
				p := stack[len(stack)-1]
				p.Children = append(p.Children, n)
			} else if root == nil {
				root = n
			} else {
				return nil, fmt.Errorf("more than one root element")
			}
			stack = append(stack, n)
		case xml.EndElement:
			if len(stack) == 0 {
				return nil, fmt.Errorf("unbalanced end tag")
			}
			stack = stack[:len(stack)-1]
		case xml.CharData:
			if len(stack) > 0 {
				n := stack[len(stack)-1]
				n.Text += string(t)
			}
		}
	}
	if root == nil {
		return nil, fmt.Errorf("no root element")
	}
	var trim func(n *Node)
	trim = func(n *Node) {
		if len(n.Children) > 0 {
			n.Text = ""
		} else {
			n.Text = strings.TrimSpace(n.Text)
		}
		for _, c := range n.Children {
			trim(c)
		}
	}
	trim(root)
	mergeSiblings(root)
	return root, nil
}

// mergeSiblings joins repeated sibling containers of the same name
// (<source><member>a</member></source><source><member>b</member></source>
// means the same as one <source> with two members).
func mergeSiblings(n *Node) {
	var out []*Node
	first := map[string]*Node{}
	for _, c := range n.Children {
		if c.Name != "entry" && c.Name != "member" && len(c.Children) > 0 {
			if f := first[c.Name]; f != nil {
				f.Children = append(f.Children, c.Children...)
				continue
			}
			first[c.Name] = c
		}
		out = append(out, c)
	}
	n.Children = out
	for _, c := range n.Children {
		mergeSiblings(c)
	}
}

// parseFragment parses a sequence of sibling elements.
func parseFragment(data string) ([]*Node, error) {
	n, err := ParseXML("<x>" + data + "</x>")
	if err != nil {
		return nil, err
	}
	return n.Children, nil
}

func esc(s string) string {
	var b bytes.Buffer
	xml.EscapeText(&b, []byte(s))
	return b.String()
}

func (n *Node) write(b *strings.Builder, indent string, pretty bool) {
	b.WriteString(indent + "<" + n.Name)
	for _, a := range n.Attrs {
		b.WriteString(" " + a[0] + "=\"" + esc(a[1]) + "\"")
	}
	if len(n.Children) == 0 {
		if n.Text == "" {
			b.WriteString("/>")
		} else {
			b.WriteString(">" + esc(n.Text) + "</" + n.Name + ">")
		}
		if pretty {
			b.WriteString("\n")
		}
		return
	}
	b.WriteString(">")
	if pretty {
		b.WriteString("\n")
	}
	ni := indent
	if pretty {
		ni += " "
	}
	for _, c := range n.Children {
		c.write(b, ni, pretty)
	}
	b.WriteString(indent + "</" + n.Name + ">")
	if pretty {
		b.WriteString("\n")
	}
}

// String prints the tree; pretty adds indentation and newlines (a
// semantics-preserving respelling).
func (n *Node) String(pretty bool) string {
	var b strings.Builder
	n.write(&b, "", pretty)
	return b.String()
}

// ------------------------------------------------------------------ state

// State is a PAN-OS configuration: the <devices> subtree.
type State struct {
	Devices *Node // <devices><entry name=...>...
}

func (s *State) Clone() *State { return &State{Devices: s.Devices.Clone()} }

// Parse reads a configuration file as the tool accepts it: either
// <config><devices>... or a saved API response ("http..." line followed by
// <response status="success"><result><devices>...).
func Parse(text string) (*State, error) {
	if strings.TrimSpace(text) == "" {
		return &State{Devices: &Node{Name: "devices"}}, nil
	}
	if strings.HasPrefix(text, "http") {
		i := strings.IndexByte(text, '\n')
		if i < 0 {
			return nil, unsupported("response without body")
		}
		text = text[i+1:]
	}
	root, err := ParseXML(text)
	if err != nil {
		return nil, unsupported("xml: %v", err)
	}
	var dev *Node
	switch root.Name {
	case "config":
		dev = root.Child("devices")
	case "response":
		dev = root.Path("result", "devices")
	}
	if dev == nil {
		return nil, unsupported("no <devices> element")
	}
	return &State{Devices: dev}, nil
}

func (s *State) Device() *Node {
	if len(s.Devices.Children) == 0 {
		return nil
	}
	return s.Devices.Children[0]
}

func (s *State) Vsys(name string) *Node {
	d := s.Device()
	if d == nil {
		return nil
	}
	v := d.Child("vsys")
	if v == nil {
		return nil
	}
	return v.Entry(name)
}

func (s *State) VsysNames() []string {
	var l []string
	d := s.Device()
	if d == nil || d.Child("vsys") == nil {
		return nil
	}
	for _, e := range d.Child("vsys").Children {
		if e.Name == "entry" {
			l = append(l, e.Attr("name"))
		}
	}
	return l
}

type Spelling struct {
	Pretty   bool // indentation and newlines
	Envelope bool // saved API response form
}

func (s *State) Print(sp Spelling) string {
	if sp.Envelope {
		r := &Node{Name: "response", Attrs: [][2]string{{"status", "success"}},
			Children: []*Node{{Name: "result", Children: []*Node{s.Devices}}}}
		return "https://10.1.13.33/api/?key=xxx&type=config&action=get&xpath=/config/devices\n" + r.String(sp.Pretty) + "\n"
	}
	r := &Node{Name: "config", Children: []*Node{s.Devices}}
	return r.String(sp.Pretty) + "\n"
}

// ------------------------------------------------------------------ xpath

type step struct {
	name string
	attr string // "name" for [@name='x'], "text" for [text()='x'], "" none
	val  string
}

func parseXPath(xp string) ([]step, error) {
	if !strings.HasPrefix(xp, "/") {
		return nil, unsupported("relative xpath %q", xp)
	}
	var steps []step
	rest := xp[1:]
	for rest != "" {
		// element name up to '/' or '['
		i := strings.IndexAny(rest, "/[")
		st := step{}
		if i < 0 {
			st.name = rest
			rest = ""
		} else if rest[i] == '/' {
			st.name = rest[:i]
			rest = rest[i+1:]
		} else {
			st.name = rest[:i]
			rest = rest[i:]
			var pfx string
			switch {
			case strings.HasPrefix(rest, "[@name='"):
				pfx, st.attr = "[@name='", "name"
			case strings.HasPrefix(rest, "[text()='"):
				pfx, st.attr = "[text()='", "text"
			default:
				return nil, unsupported("xpath predicate in %q", xp)
			}
			rest = rest[len(pfx):]
			j := strings.Index(rest, "']")
			if j < 0 {
				return nil, unsupported("unterminated predicate in %q", xp)
			}
			st.val = rest[:j]
			rest = rest[j+2:]
			if strings.HasPrefix(rest, "/") {
				rest = rest[1:]
			} else if rest != "" {
				return nil, unsupported("xpath %q", xp)
			}
		}
		if st.name == "" {
			return nil, unsupported("empty step in %q", xp)
		}
		steps = append(steps, st)
	}
	return steps, nil
}

func matchStep(n *Node, st step) bool {
	if n.Name != st.name {
		return false
	}
	switch st.attr {
	case "name":
		return n.Attr("name") == st.val
	case "text":
		return n.Text == st.val
	}
	return true
}

// resolve walks the xpath from /config; returns the parent of the last
// step and the node itself (nil if it does not exist). create makes
// missing intermediate nodes (as "set" does).
func (s *State) resolve(steps []step, create bool) (parent, node *Node, err error) {
	if len(steps) < 2 || steps[0].name != "config" || steps[1].name != "devices" {
		return nil, nil, unsupported("xpath outside /config/devices")
	}
	cur := s.Devices
	var par *Node
	for _, st := range steps[2:] {
		var next *Node
		for _, c := range cur.Children {
			if matchStep(c, st) {
				next = c
				break
			}
		}
		if next == nil {
			if !create {
				return cur, nil, nil
			}
			next = &Node{Name: st.name}
			switch st.attr {
			case "name":
				next.Attrs = [][2]string{{"name", st.val}}
			case "text":
				next.Text = st.val
			}
			cur.Children = append(cur.Children, next)
		}
		par, cur = cur, next
	}
	return par, cur, nil
}

// vsysOf returns the vsys entry that contains the xpath, and the
// remaining steps below it.
func (s *State) vsysOf(steps []step) (*Node, []step) {
	for i, st := range steps {
		if st.name == "vsys" && i+1 < len(steps) && steps[i+1].name == "entry" {
			d := s.Device()
			if d == nil || d.Child("vsys") == nil {
				return nil, nil
			}
			return d.Child("vsys").Entry(steps[i+1].val), steps[i+2:]
		}
	}
	return nil, nil
}

// ---------------------------------------------------- referential checks

func names(n *Node) map[string]bool {
	m := map[string]bool{}
	if n != nil {
		for _, e := range n.Children {
			if e.Name == "entry" {
				m[e.Attr("name")] = true
			}
		}
	}
	return m
}

// sharedNames: objects of <shared> may be referenced from every vsys.
func (s *State) sharedNames(kind string) map[string]bool {
	d := s.Device()
	if d == nil {
		return nil
	}
	// shared lives beside <devices> in a real config; a device file given
	// to drc carries only <devices>, so shared objects are unknown to the
	// model: references to them are reported as dangling only if
	// StrictShared is set by the caller's generator (never by default).
	return nil
}

// checkVsys verifies referential integrity of one vsys.
func checkVsys(v *Node) error {
	addr := names(v.Child("address"))
	grp := names(v.Child("address-group"))
	svc := names(v.Child("service"))
	sgrp := names(v.Child("service-group"))
	if g := v.Child("address-group"); g != nil {
		for _, e := range g.Children {
			for _, m := range e.Path("static").Members() {
				if !addr[m] && !grp[m] {
					return refuse("dangling", "address-group %s references missing address %s", e.Attr("name"), m)
				}
			}
		}
	}
	if g := v.Child("service-group"); g != nil {
		for _, e := range g.Children {
			for _, m := range e.Path("members").Members() {
				if !svc[m] && !sgrp[m] {
					return refuse("dangling", "service-group %s references missing service %s", e.Attr("name"), m)
				}
			}
		}
	}
	rules := v.Path("rulebase", "security", "rules")
	if rules != nil {
		seen := map[string]bool{}
		for _, r := range rules.Children {
			if seen[r.Attr("name")] {
				return refuse("duplicate", "two rules named %s", r.Attr("name"))
			}
			seen[r.Attr("name")] = true
			for _, part := range []string{"source", "destination"} {
				for _, m := range r.Child(part).Members() {
					if m != "any" && !addr[m] && !grp[m] {
						return refuse("dangling", "rule %s %s references missing object %s", r.Attr("name"), part, m)
					}
				}
			}
			for _, m := range r.Child("service").Members() {
				if m != "any" && m != "application-default" && !svc[m] && !sgrp[m] {
					return refuse("dangling", "rule %s references missing service %s", r.Attr("name"), m)
				}
			}
		}
	}
	return nil
}

// CheckRefs verifies the referential integrity of every vsys; a device
// file that fails it references objects defined elsewhere (e.g. <shared>)
// and is outside the model.
func (s *State) CheckRefs() error {
	for _, n := range s.VsysNames() {
		if err := checkVsys(s.Vsys(n)); err != nil {
			return err
		}
	}
	return nil
}

// Cmd is one XML-API configuration command.
type Cmd struct {
	Action  string
	XPath   string
	Element string
	Where   string
	Dst     string
}

// mergeInto implements "set": children of src are merged into dst.
func mergeInto(dst *Node, src []*Node) error {
	for _, c := range src {
		switch {
		case c.Name == "member":
			dup := false
			for _, x := range dst.Children {
				if x.Name == "member" && x.Text == c.Text {
					dup = true
				}
			}
			if !dup {
				dst.Children = append(dst.Children, c.Clone())
			}
		case c.Name == "entry":
			if e := dst.Entry(c.Attr("name")); e != nil {
				if err := mergeInto(e, c.Children); err != nil {
					return err
				}
			} else {
				dst.Children = append(dst.Children, c.Clone())
			}
		default:
			if e := dst.Child(c.Name); e != nil {
				if len(c.Children) == 0 {
					e.Text = c.Text
					e.Children = nil
				} else {
					if err := mergeInto(e, c.Children); err != nil {
						return err
					}
				}
			} else {
				dst.Children = append(dst.Children, c.Clone())
			}
		}
	}
	return nil
}

// Exec executes one command strictly.
func (s *State) Exec(c Cmd) error {
	steps, err := parseXPath(c.XPath)
	if err != nil {
		return err
	}
	vsysBefore, _ := s.vsysOf(steps)
	if vsysBefore == nil {
		return refuse("missing", "vsys of xpath %s does not exist", c.XPath)
	}
	switch c.Action {
	case "set":
		frag, err := parseFragment(c.Element)
		if err != nil {
			return unsupported("element: %v", err)
		}
		_, node, err := s.resolve(steps, true)
		if err != nil {
			return err
		}
		if ReplaceServiceGroupMembers && strings.HasSuffix(c.XPath, "/members") && strings.Contains(c.XPath, "/service-group/entry[@name='") {
			node.Children = nil
		}
		if err := mergeInto(node, frag); err != nil {
			return err
		}
	case "edit":
		frag, err := parseFragment(c.Element)
		if err != nil {
			return unsupported("element: %v", err)
		}
		par, node, err := s.resolve(steps, false)
		if err != nil {
			return err
		}
		if node == nil {
			return refuse("missing", "edit of missing node %s", c.XPath)
		}
		if len(frag) != 1 || frag[0].Name != node.Name {
			return refuse("type", "edit element <%s> does not match node <%s>", fragName(frag), node.Name)
		}
		if node.Name == "entry" && frag[0].Attr("name") != node.Attr("name") {
			return refuse("type", "edit element renames entry %s to %s", node.Attr("name"), frag[0].Attr("name"))
		}
		for i, ch := range par.Children {
			if ch == node {
				par.Children[i] = frag[0].Clone()
			}
		}
	case "delete":
		par, node, err := s.resolve(steps, false)
		if err != nil {
			return err
		}
		if node == nil {
			return refuse("missing", "delete of missing node %s", c.XPath)
		}
		for i, ch := range par.Children {
			if ch == node {
				par.Children = append(par.Children[:i:i], par.Children[i+1:]...)
				break
			}
		}
	case "move":
		par, node, err := s.resolve(steps, false)
		if err != nil {
			return err
		}
		if node == nil {
			return refuse("missing", "move of missing node %s", c.XPath)
		}
		if c.Where != "before" && c.Where != "after" && c.Where != "top" && c.Where != "bottom" {
			return unsupported("move where=%s", c.Where)
		}
		var rest []*Node
		for _, ch := range par.Children {
			if ch != node {
				rest = append(rest, ch)
			}
		}
		switch c.Where {
		case "top":
			par.Children = append([]*Node{node}, rest...)
		case "bottom":
			par.Children = append(rest, node)
		default:
			idx := -1
			for i, ch := range rest {
				if ch.Name == "entry" && ch.Attr("name") == c.Dst {
					idx = i
				}
			}
			if idx < 0 {
				return refuse("missing", "move destination %s does not exist", c.Dst)
			}
			if c.Where == "after" {
				idx++
			}
			n := append([]*Node{}, rest[:idx]...)
			n = append(n, node)
			n = append(n, rest[idx:]...)
			par.Children = n
		}
	default:
		return unsupported("action %q", c.Action)
	}
	// Referential integrity of the touched vsys after the command.
	if v, _ := s.vsysOf(steps); v != nil {
		if err := checkVsys(v); err != nil {
			return err
		}
	}
	return nil
}

func fragName(f []*Node) string {
	if len(f) == 0 {
		return ""
	}
	return f[0].Name
}

// ParseScript parses the tool's stdout (one query-unescaped command per
// line).
func ParseScript(stdout string) ([]Cmd, error) {
	var res []Cmd
	for _, line := range strings.Split(stdout, "\n") {
		if line == "" {
			continue
		}
		c := Cmd{}
		keys := []string{"action=", "type=", "xpath=", "element=", "where=", "dst="}
		type kv struct {
			k   string
			pos int
		}
		var found []kv
		for _, k := range keys {
			idx := 0
			for idx < len(line) {
				i := strings.Index(line[idx:], k)
				if i < 0 {
					break
				}
				p := idx + i
				if p == 0 || line[p-1] == '&' {
					found = append(found, kv{k, p})
					break
				}
				idx = p + 1
			}
		}
		sort.Slice(found, func(i, j int) bool { return found[i].pos < found[j].pos })
		for i, f := range found {
			end := len(line)
			if i+1 < len(found) {
				end = found[i+1].pos - 1
			}
			v := line[f.pos+len(f.k) : end]
			switch f.k {
			case "action=":
				c.Action = v
			case "xpath=":
				c.XPath = v
			case "element=":
				c.Element = v
			case "where=":
				c.Where = v
			case "dst=":
				c.Dst = v
			}
		}
		if c.Action == "" || c.XPath == "" {
			return nil, fmt.Errorf("cannot parse command %q", line)
		}
		res = append(res, c)
	}
	return res, nil
}

var _ = url.QueryEscape

// ------------------------------------------------------------------ canon

func unknownText(n *Node, known map[string]bool) string {
	var l []string
	for _, c := range n.Children {
		if known[c.Name] {
			continue
		}
		switch c.Name {
		case "source-user", "category", "source-hip", "destination-hip":
			if m := c.Members(); len(m) == 1 && m[0] == "any" && len(c.Children) == 1 {
				continue
			}
		}
		l = append(l, c.String(false))
	}
	return strings.Join(l, "")
}

var addrKnown = map[string]bool{"ip-netmask": true}

func expandAddr(v *Node, name string, depth int) []string {
	if name == "any" {
		return []string{"any"}
	}
	if depth > 6 {
		return []string{"<cycle>"}
	}
	if g := v.Path("address-group"); g != nil {
		if e := g.Entry(name); e != nil {
			var l []string
			for _, m := range e.Path("static").Members() {
				l = append(l, expandAddr(v, m, depth+1)...)
			}
			return l
		}
	}
	if a := v.Path("address"); a != nil {
		if e := a.Entry(name); e != nil {
			ip := ""
			if c := e.Child("ip-netmask"); c != nil {
				ip = c.Text
			}
			return []string{"ip=" + ip + unknownText(e, addrKnown)}
		}
	}
	return []string{"name=" + name}
}

func expandSvc(v *Node, name string, depth int) []string {
	if name == "any" || name == "application-default" {
		return []string{name}
	}
	if depth > 6 {
		return []string{"<cycle>"}
	}
	if g := v.Path("service-group"); g != nil {
		if e := g.Entry(name); e != nil {
			var l []string
			for _, m := range e.Path("members").Members() {
				l = append(l, expandSvc(v, m, depth+1)...)
			}
			return l
		}
	}
	if a := v.Path("service"); a != nil {
		if e := a.Entry(name); e != nil {
			var parts []string
			for _, c := range e.Children {
				parts = append(parts, c.String(false))
			}
			return []string{"svc=" + strings.Join(parts, "")}
		}
	}
	return []string{"name=" + name}
}

func uniqSorted(l []string) string {
	sort.Strings(l)
	var out []string
	for i, x := range l {
		if i == 0 || x != l[i-1] {
			out = append(out, x)
		}
	}
	return strings.Join(out, ",")
}

var ruleKnown = map[string]bool{"action": true, "from": true, "to": true, "source": true, "destination": true,
	"service": true, "application": true, "log-start": true, "log-end": true, "log-setting": true, "rule-type": true}

// RuleCanon is the name-free content of a rule.
func RuleCanon(v, r *Node) string {
	txt := func(n string) string {
		if c := r.Child(n); c != nil {
			return c.Text
		}
		return ""
	}
	var src, dst, svc []string
	for _, m := range r.Child("source").Members() {
		src = append(src, expandAddr(v, m, 0)...)
	}
	for _, m := range r.Child("destination").Members() {
		dst = append(dst, expandAddr(v, m, 0)...)
	}
	for _, m := range r.Child("service").Members() {
		svc = append(svc, expandSvc(v, m, 0)...)
	}
	return fmt.Sprintf("action=%s from=%v to=%v src={%s} dst={%s} svc={%s} app=%v log=%s/%s/%s type=%s other=%s",
		txt("action"), r.Child("from").Members(), r.Child("to").Members(), uniqSorted(src), uniqSorted(dst), uniqSorted(svc),
		r.Child("application").Members(), txt("log-start"), txt("log-end"), txt("log-setting"), txt("rule-type"),
		unknownText(r, ruleKnown))
}

// VsysCanon is the ordered list of name-free rules of a vsys.
func (s *State) VsysCanon(name string) string {
	v := s.Vsys(name)
	if v == nil {
		return "<missing vsys " + name + ">"
	}
	var l []string
	if rules := v.Path("rulebase", "security", "rules"); rules != nil {
		for _, r := range rules.Children {
			if r.Name == "entry" {
				l = append(l, RuleCanon(v, r))
			}
		}
	}
	return strings.Join(l, "\n")
}

// Canon restricted to the vsys the target names.
func (s *State) Canon(vsys []string) string {
	var out []string
	for _, n := range vsys {
		out = append(out, "vsys "+n+":\n"+s.VsysCanon(n))
	}
	return strings.Join(out, "\n")
}

// FrameText is everything outside the targeted vsys (C07).
func (s *State) FrameText(targeted []string) string {
	t := map[string]bool{}
	for _, n := range targeted {
		t[n] = true
	}
	c := s.Devices.Clone()
	for _, d := range c.Children {
		if v := d.Child("vsys"); v != nil {
			var keep []*Node
			for _, e := range v.Children {
				if !(e.Name == "entry" && t[e.Attr("name")]) {
					keep = append(keep, e)
				}
			}
			v.Children = keep
		}
	}
	return c.String(true)
}
