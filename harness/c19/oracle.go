package c19

import (
	"encoding/json"
	"errors"
	"fmt"
	"os"
	"path/filepath"
	"sort"
	"strings"
	"sync/atomic"
	"time"

	"verif/harness/props"
)

// Action is one step of a history. The whole history is stored as JSON in
// Case.Params["history"], so that a case is replayable without rapid.
type Action struct {
	// commit | run | kill | conc | rmcurrent
	Op string `json:"op"`
	// commit: revision does not compile / author has no e-mail address.
	Bad     bool `json:"bad,omitempty"`
	NoEmail bool `json:"noemail,omitempty"`
	// kill: SIGKILL before the k-th simple command of newpolicy.sh.
	K int `json:"k,omitempty"`
	// kill, alternative to K (used by saved reproducers, independent of
	// line shifts): SIGKILL before the first command whose function name
	// and unexpanded text start with this, e.g. "handle_success mv next".
	Before string `json:"before,omitempty"`
	// conc: number of simultaneous invocations, delay between their starts.
	N         int `json:"n,omitempty"`
	StaggerMs int `json:"stagger_ms,omitempty"`
	// run, conc: invoke through bin/newpolicy -> bin/sudo-newpolicy.
	Wrapper bool `json:"wrapper,omitempty"`
}

func (a Action) String() string {
	switch a.Op {
	case "commit":
		s := "commit good"
		if a.Bad {
			s = "commit bad"
		}
		if a.NoEmail {
			s += " (author without e-mail)"
		}
		return s
	case "run":
		if a.Wrapper {
			return "run bin/newpolicy undisturbed"
		}
		return "run newpolicy.sh undisturbed"
	case "kill":
		if a.Before != "" {
			return fmt.Sprintf("run newpolicy.sh, SIGKILL before command [%s...]", a.Before)
		}
		return fmt.Sprintf("run newpolicy.sh, SIGKILL before command %d", a.K)
	case "killcompile":
		return "run whose script is killed while the compiler works, second run started at once"
	case "conc":
		s := fmt.Sprintf("%d simultaneous invocations (stagger %d ms)", a.N, a.StaggerMs)
		if a.Wrapper {
			s += " through bin/newpolicy"
		}
		return s
	case "rmcurrent":
		return "remove link 'current' by hand"
	}
	return "?" + a.Op
}

const (
	SigF9       = "sh:F9-killed-between-push-and-promote-stuck"
	SigStale    = "sh:killed-after-clone-stale-next-taken-as-uptodate-stuck"
	SigNotProm  = "sh:not-promoted"
	SigNotComp  = "sh:current-not-compiled"
	SigNumber   = "sh:number-not-increasing"
	SigBadMoved = "sh:bad-commit-changed-current"
	SigOverlap  = "sh:overlap"
)

// Lower value = reported first. The stuck classes come last, so that a
// listed known finding never hides another violation in the same history.
var sigPriority = map[string]int{
	SigOverlap: 0, SigNotComp: 1, SigNumber: 2, SigBadMoved: 3, SigNotProm: 4, SigStale: 5, SigF9: 6,
}

type violation struct {
	sig string
	msg string
}

// harnessErrors counts evaluations that could not be decided because the
// harness itself failed (never reported as a violation).
var harnessErrors atomic.Int64
var lastHarnessError atomic.Value

func HistoryCase(h []Action) *props.Case {
	data, _ := json.Marshal(h)
	return &props.Case{Property: "C19", Family: "sh", Params: map[string]string{"history": string(data)}}
}

func init() { props.Register("C19", "sh", Oracle) }

// Oracle replays the history of the case in a fresh scratch world and
// checks the clauses of C19 after every action and after one final
// undisturbed run.
func Oracle(c *props.Case) props.Verdict {
	var hist []Action
	if err := json.Unmarshal([]byte(c.Param("history")), &hist); err != nil {
		return props.DiscardV("harness:bad-history-json")
	}
	e := &eval{classes: map[string]bool{}}
	v, err := e.run(hist)
	if err != nil {
		harnessErrors.Add(1)
		lastHarnessError.Store(err.Error() + "\n" + e.log.String())
		reason := "harness:error"
		if strings.Contains(err.Error(), "timeout") {
			reason = "harness:timeout"
		}
		vd := props.DiscardV(reason)
		vd.Msg = err.Error() + "\n" + e.log.String()
		return vd
	}
	return v
}

type eval struct {
	w       *world
	log     strings.Builder
	classes map[string]bool
	viol    []violation
	nt      bool

	last      state // state after the previous action
	lastN     int   // number of the last policy 'current' pointed to
	lastCur   string
	maxDir    int
	sawBad    bool // a bad commit was made earlier
	logOffset int  // records of stub.log already attributed
	mailSeen  int
	lastKill  string
}

func (e *eval) class(s string) { e.classes[s] = true }

func (e *eval) logf(format string, a ...any) {
	fmt.Fprintf(&e.log, format+"\n", a...)
}

func (e *eval) violate(sig, format string, a ...any) {
	msg := fmt.Sprintf(format, a...)
	e.logf("    VIOLATION %s: %s", sig, msg)
	e.viol = append(e.viol, violation{sig, msg})
}

func short(rev string) string {
	if len(rev) > 8 {
		return rev[:8]
	}
	return rev
}

func (s state) String() string {
	cur := s.cur
	if cur == "" {
		cur = "(absent)"
	} else if s.curRev != "" {
		cur += " compiled from " + short(s.curRev)
	}
	hb := "compiles"
	if s.headBad {
		hb = "does not compile"
	}
	nx := ""
	if s.nextHead != "" {
		nx = fmt.Sprintf(", next/src HEAD=%s", short(s.nextHead))
		if s.nextRev != "" {
			nx += " witness=" + short(s.nextRev)
		}
	}
	return fmt.Sprintf("current=%s, repo head=%s (%s), policy dirs=%v%s", cur, short(s.head), hb, s.dirs, nx)
}

func (e *eval) run(hist []Action) (props.Verdict, error) {
	w, err := newWorld()
	e.w = w
	defer w.remove()
	if err != nil {
		return props.Verdict{}, err
	}
	if e.last, err = w.observe(); err != nil {
		return props.Verdict{}, err
	}
	e.logf("start: %s", e.last)
	for i, a := range hist {
		e.logf("[%d] %s", i+1, a)
		if err := e.step(a, false); err != nil {
			return props.Verdict{}, err
		}
	}
	e.logf("[final] run newpolicy.sh undisturbed")
	if err := e.step(Action{Op: "run"}, true); err != nil {
		return props.Verdict{}, err
	}

	classes := make([]string, 0, len(e.classes))
	for c := range e.classes {
		classes = append(classes, c)
	}
	sort.Strings(classes)
	if len(e.viol) > 0 {
		sort.SliceStable(e.viol, func(i, j int) bool { return sigPriority[e.viol[i].sig] < sigPriority[e.viol[j].sig] })
		v := e.viol[0]
		var hs []string
		for i, a := range hist {
			hs = append(hs, fmt.Sprintf("  %d. %s", i+1, a))
		}
		fv := props.FailV(v.sig, "%s\n--- history\n%s\n  final. run newpolicy.sh undisturbed\n--- log\n%s",
			v.msg, strings.Join(hs, "\n"), e.log.String())
		fv.Classes = classes
		return fv, nil
	}
	return props.PassV(e.nt, classes...), nil
}

func (e *eval) step(a Action, final bool) error {
	w := e.w
	before := e.last
	var undisturbed *runResult // a single run that ended by itself
	isRun := false
	overlapCheck := false
	var runs []string // ids of the invocations of this action

	switch a.Op {
	case "commit":
		rev, err := w.commit(a.Bad, a.NoEmail)
		if err != nil {
			return err
		}
		e.logf("    pushed %s", short(rev))
		switch {
		case !a.Bad:
			e.class("act:commit-good")
			if e.sawBad {
				e.class("bad-then-good")
				e.nt = true
			}
		case a.NoEmail:
			e.class("act:commit-bad-noemail")
			e.sawBad = true
		default:
			e.class("act:commit-bad-email")
			e.sawBad = true
		}

	case "rmcurrent":
		e.class("act:rmcurrent")
		if err := removeLink(w); err != nil {
			return err
		}

	case "run":
		isRun = true
		if !final {
			e.class("act:run")
			if a.Wrapper {
				e.class("act:run-wrapper")
			}
		}
		p, err := w.start(a.Wrapper, false, false, 0, "")
		if err != nil {
			return err
		}
		r, err := w.wait(p)
		if err != nil {
			return err
		}
		runs = append(runs, r.id)
		e.logf("    %s exit=%d", r.id, r.exit)
		if r.exit >= 0 {
			undisturbed = &r
		}

	case "kill":
		isRun = true
		e.class("act:kill")
		k := a.K
		if a.Before != "" {
			k = 0
		} else if k < 1 {
			k = 1
		}
		p, err := w.start(false, false, true, k, a.Before)
		if err != nil {
			return err
		}
		r, err := w.wait(p)
		if err != nil {
			return err
		}
		runs = append(runs, r.id)
		if r.killed {
			e.nt = true
			fn, cmd := "?", "?"
			if n := len(r.trace); n > 0 {
				fn, cmd = r.trace[n-1].fn, r.trace[n-1].text
			}
			e.class("kill:in:" + fn)
			if win := killWindow(r.trace); win != "" {
				e.class("kill:window:" + win)
				e.lastKill = fmt.Sprintf("last kill: before command %d, [%s] %s (window %s)", len(r.trace), fn, cmd, win)
			}
			e.logf("    %s killed before command %d of %d traced: [%s] %s", r.id, len(r.trace), len(r.trace), fn, cmd)
		} else {
			e.class("kill:not-reached")
			e.logf("    %s position %d not reached (%d commands traced), exit=%d", r.id, k, len(r.trace), r.exit)
			if r.exit >= 0 {
				undisturbed = &r
			}
		}

	case "killcompile":
		// The script is killed (only the script, not its children) while the
		// compiler runs; a second invocation starts at once. As long as the
		// orphaned compiler works in next/, nobody else may.
		isRun = true
		e.class("act:killcompile")
		p1, err := w.start(false, true, false, 0, "", "C19_COMPILE_KILLS_SCRIPT=0.4")
		if err != nil {
			return err
		}
		r1, err := w.waitQ(p1, false)
		if err != nil {
			return err
		}
		runs = append(runs, r1.id)
		if !r1.killed {
			// nothing to compile (up to date) or the commit does not compile
			e.class("killcompile:not-reached")
			if err := w.quiesce(p1.cmd.Process.Pid); err != nil {
				return err
			}
			if r1.exit >= 0 {
				undisturbed = &r1
			}
			break
		}
		e.nt = true
		e.class("kill:during-compile")
		p2, err := w.start(false, true, false, 0, "")
		if err != nil {
			w.quiesce(p1.cmd.Process.Pid)
			return err
		}
		r2, err := w.wait(p2)
		if err != nil {
			w.quiesce(p1.cmd.Process.Pid)
			return err
		}
		runs = append(runs, r2.id)
		e.logf("    %s killed during compile; %s started at once: exit=%d", r1.id, r2.id, r2.exit)
		if r2.exit == 1 {
			e.class("killcompile:second-refused")
		}
		if err := w.quiesce(p1.cmd.Process.Pid); err != nil {
			return err
		}
		overlapCheck = true

	case "conc":
		isRun = true
		e.nt = true
		n := a.N
		if n < 2 {
			n = 2
		}
		if n > 4 {
			n = 4
		}
		e.class("concurrent")
		e.class(fmt.Sprintf("act:conc%d", n))
		if a.Wrapper {
			e.class("act:conc-wrapper")
		}
		var ps []*proc
		for i := 0; i < n; i++ {
			if i > 0 && a.StaggerMs > 0 {
				time.Sleep(time.Duration(a.StaggerMs) * time.Millisecond)
			}
			// Mixed entry points: with Wrapper every second invocation
			// goes through bin/newpolicy.
			p, err := w.start(a.Wrapper && i%2 == 0, true, false, 0, "")
			if err != nil {
				for _, q := range ps {
					w.wait(q)
				}
				return err
			}
			ps = append(ps, p)
		}
		var firstErr error
		for _, p := range ps {
			r, err := w.wait(p)
			if err != nil && firstErr == nil {
				firstErr = err
			}
			runs = append(runs, r.id)
			e.logf("    %s exit=%d", r.id, r.exit)
			if r.exit == 1 {
				e.class("conc:lock-busy")
			}
		}
		if firstErr != nil {
			return firstErr
		}

	default:
		return hfail("unknown action %q", a.Op)
	}

	after, err := w.observe()
	if err != nil {
		return err
	}
	e.logf("    -> %s", after)

	// Records of the stubs written during this action.
	recs := w.stubLog()
	newRecs := recs[e.logOffset:]
	e.logOffset = len(recs)
	okRevs := map[string]bool{}
	for _, r := range newRecs {
		if r.kind == "compile" {
			if r.ok {
				okRevs[r.rev] = true
				e.class("run:compiled-ok")
			} else {
				e.class("run:compile-failed")
			}
		}
	}
	if isRun && len(newRecs) == 0 && undisturbed != nil {
		e.class("run:nothing-to-do")
	}
	if m := strings.Count(w.mailLog(), "Your commit has been reverted"); m > e.mailSeen {
		e.mailSeen = m
		e.class("revert-taken")
	}

	// (a) 'current' is absent or names a directory produced by a
	// successful compile.
	if after.curProb != "" {
		e.violate(SigNotComp, "after %q: %s", a.String(), after.curProb)
	} else if isRun && after.cur != "" && after.cur != before.cur && !okRevs[after.curRev] {
		e.violate(SigNotComp, "after %q: 'current' moved to %s (witness %s), but no successful compile of that revision happened during this action",
			a.String(), after.cur, short(after.curRev))
	}

	// (b) policy numbers strictly increase over time: every new value of
	// 'current' is larger than all earlier ones, every new policy
	// directory has a larger number than all directories seen before.
	if after.cur != "" && after.curProb == "" && after.cur != before.cur {
		if e.lastCur != "" && after.curN <= e.lastN {
			e.violate(SigNumber, "after %q: 'current' was set to %s although it had already reached %s", a.String(), after.cur, e.lastCur)
		}
		if after.curN > e.lastN || e.lastCur == "" {
			e.lastCur, e.lastN = after.cur, after.curN
		}
	}
	prevDirs := map[int]bool{}
	for _, n := range before.dirs {
		prevDirs[n] = true
	}
	for _, n := range after.dirs {
		if !prevDirs[n] && n <= e.maxDir {
			e.violate(SigNumber, "after %q: new policy directory p%d although p%d existed before", a.String(), n, e.maxDir)
		}
	}
	for _, n := range after.dirs {
		if n > e.maxDir {
			e.maxDir = n
		}
	}

	// (c) a commit that does not compile never changes 'current': the head
	// did not compile when the invocations started and does not compile
	// now (so no revert produced a compiling revision in between).
	if isRun && before.headBad && after.headBad && after.cur != before.cur {
		e.violate(SigBadMoved, "after %q: head %s does not compile, but 'current' changed from %q to %q",
			a.String(), short(after.head), before.cur, after.cur)
	}

	// (d) at most one newpolicy.sh works on the database at a time.
	if a.Op == "conc" || overlapCheck {
		e.checkOverlap(a, newRecs, runs)
	}

	// (e) an undisturbed run makes the newest compiling revision current.
	// Decided only when the head of the repository compiles after the run.
	if undisturbed != nil {
		switch {
		case after.headBad:
			if final {
				e.class("final:head-does-not-compile")
			}
		case after.curProb == "" && after.cur != "" && w.sameButPolicy(after.curRev, after.head):
			if final {
				e.class("final:promoted")
			}
			// Lenient reading: a policy compiled from another revision
			// with the same tree (e.g. the state a revert restored)
			// counts as 'compiled from the newest compiling revision'.
			if after.curRev != after.head && !w.isParent(after.curRev, after.head) {
				e.class("promoted:same-content-other-revision")
			}
		default:
			e.notPromoted(a, before, after)
		}
	}
	e.last = after
	return nil
}

func removeLink(w *world) error {
	err := os.Remove(filepath.Join(w.pol, "current"))
	if err != nil && !errors.Is(err, os.ErrNotExist) {
		return hfail("remove current: %v", err)
	}
	return nil
}

// notPromoted classifies by root cause: what did the database look like
// when the undisturbed run started?
func (e *eval) notPromoted(a Action, before, after state) {
	what := fmt.Sprintf("after undisturbed %q the head %s of the repository compiles, but 'current' is %s",
		a.String(), short(after.head), describeCur(after))
	switch {
	case before.nextHead != "" && before.nextHead == before.head && before.nextIsPol:
		e.violate(SigF9, "%s. Before the run next/ held a policy compiled from %s whose POLICY commit %s was already pushed "+
			"(an earlier run was killed between 'git push' and 'mv next pN'); uptodate() looked into next/, found HEAD equal to the remote head and exited 0",
			what, short(before.nextRev), short(before.nextHead))
	case before.nextHead != "" && before.nextHead == before.head:
		e.violate(SigStale, "%s. Before the run next/src (left behind by a killed run) had HEAD %s equal to the remote head, "+
			"but that revision was never compiled and promoted; uptodate() looked into next/ and exited 0 (%s)",
			what, short(before.nextHead), e.lastKill)
	default:
		e.violate(SigNotProm, "%s", what)
	}
}

func describeCur(s state) string {
	switch {
	case s.cur == "":
		return "absent"
	case s.curProb != "":
		return s.curProb
	}
	return fmt.Sprintf("%s compiled from %s", s.cur, short(s.curRev))
}

// checkOverlap: every git call and every compile of newpolicy.sh happens
// behind 'flock -n 9', and the lock is held until the script exits. If the
// recorded activity spans of two invocations intersect, both were past the
// lock at the same time.
func (e *eval) checkOverlap(a Action, recs []stubRec, runs []string) {
	type span struct {
		run    string
		t0, t1 int64
	}
	m := map[string]*span{}
	for _, r := range recs {
		s := m[r.run]
		if s == nil {
			m[r.run] = &span{r.run, r.t0, r.t1}
			continue
		}
		if r.t0 < s.t0 {
			s.t0 = r.t0
		}
		if r.t1 > s.t1 {
			s.t1 = r.t1
		}
	}
	var l []*span
	for _, s := range m {
		l = append(l, s)
	}
	sort.Slice(l, func(i, j int) bool { return l[i].t0 < l[j].t0 })
	if len(l) >= 2 {
		e.class("conc:two-worked-in-sequence")
	}
	for i := 1; i < len(l); i++ {
		if l[i].t0 < l[i-1].t1 {
			e.violate(SigOverlap, "after %q: invocations %s [%d..%d] and %s [%d..%d] worked on the database at the same time",
				a.String(), l[i-1].run, l[i-1].t0, l[i-1].t1, l[i].run, l[i].t0, l[i].t1)
		}
	}
}

// killWindow names the part of the script in which the kill landed, from
// the trace (last line = command that was not executed any more).
func killWindow(tr []traceLine) string {
	if len(tr) == 0 {
		return ""
	}
	done := tr[:len(tr)-1]
	has := func(fn, prefix string) bool {
		for _, l := range done {
			if l.fn == fn && strings.HasPrefix(l.text, prefix) {
				return true
			}
		}
		return false
	}
	lastIdx := func(fn, prefix string) int {
		for i := len(done) - 1; i >= 0; i-- {
			if done[i].fn == fn && strings.HasPrefix(done[i].text, prefix) {
				return i
			}
		}
		return -1
	}
	switch {
	case has("handle_success", "ln -s"):
		return "after-promote"
	case has("handle_success", "rm -f $CURRENT"):
		return "between-rm-and-ln"
	case has("handle_success", "mv next"):
		return "between-mv-and-rm"
	case has("handle_success", "git push"):
		return "between-push-and-mv"
	case has("handle_success", "git commit"):
		return "between-commit-and-push"
	case has("handle_success", "handle_success"):
		return "compiled-before-commit"
	}
	clone := lastIdx("prepare_next", "git clone")
	revPush := lastIdx("try_revert", "git push")
	rmNext := lastIdx("prepare_next", "rm -rf $NEXT")
	switch {
	case revPush >= 0 && revPush > clone && revPush > rmNext:
		return "after-revert-push"
	case clone >= 0 && clone > rmNext:
		if has("try_revert", "git revert") && lastIdx("try_revert", "git revert") > clone {
			return "between-revert-and-push"
		}
		return "between-clone-and-commit"
	case rmNext >= 0:
		return "before-clone"
	}
	return "before-prepare"
}

// MeasureTrace replays the prefix and then makes one traced, undisturbed
// run; it returns the traced simple commands of that run (the kill
// positions 1..len that exist for it).
func MeasureTrace(prefix []Action) ([]string, error) {
	e := &eval{classes: map[string]bool{}}
	w, err := newWorld()
	e.w = w
	defer w.remove()
	if err != nil {
		return nil, err
	}
	if e.last, err = w.observe(); err != nil {
		return nil, err
	}
	for _, a := range prefix {
		if err := e.step(a, false); err != nil {
			return nil, err
		}
	}
	p, err := w.start(false, false, true, 0, "")
	if err != nil {
		return nil, err
	}
	r, err := w.wait(p)
	if err != nil {
		return nil, err
	}
	var res []string
	for _, l := range r.trace {
		res = append(res, "["+l.fn+"] "+l.text)
	}
	return res, nil
}

// Explain evaluates the case and returns the full log of the evaluation.
func Explain(c *props.Case) string {
	var hist []Action
	if err := json.Unmarshal([]byte(c.Param("history")), &hist); err != nil {
		return err.Error()
	}
	e := &eval{classes: map[string]bool{}}
	v, err := e.run(hist)
	return fmt.Sprintf("status=%d sig=%s nt=%v err=%v classes=%v\n%s", v.Status, v.Sig, v.NT, err, v.Classes, e.log.String())
}
