package c19

import (
	"encoding/json"
	"flag"
	"fmt"
	"os"
	"strconv"
	"strings"
	"testing"

	"pgregory.net/rapid"
	"verif/harness/evid"
	"verif/harness/props"
)

var replayFile = flag.String("replayfile", "", "re-evaluate the oracle on a saved case (no generator)")

func TestMain(m *testing.M) {
	flag.Parse()
	code := m.Run()
	CleanupProcess()
	os.Exit(code)
}

// TestReplay re-runs the oracle of a saved failing case without rapid.
func TestReplay(t *testing.T) { props.ReplayMain(t, *replayFile) }

const ruleC19 = "histories of actions (commit good / bad with or without author e-mail, undisturbed run, run whose script alone is killed while the compiler works and a second run started at once, run killed with SIGKILL " +
	"before the k-th simple command, 2-3 simultaneous invocations, removal of 'current') against the unmodified bin/newpolicy.sh, " +
	"each followed by one final undisturbed run; non-trivial = the history contains a kill at a position the run actually reached, " +
	"or a bad commit followed by a good one, or simultaneous invocations; distinct = the JSON of the history"

// genHistory draws a history. All randomness comes from rapid.
func genHistory(rt *rapid.T, maxLen int) []Action {
	n := rapid.IntRange(1, maxLen).Draw(rt, "len")
	kinds := []string{
		"good", "good", "good", "good", "bad-email", "bad-email", "bad-noemail",
		"run", "run", "run", "kill", "kill", "kill", "kill", "kill", "conc", "conc", "rmcurrent", "killcompile",
	}
	var h []Action
	for len(h) < n {
		switch rapid.SampledFrom(kinds).Draw(rt, "kind") {
		case "good":
			h = append(h, Action{Op: "commit"})
		case "bad-email":
			h = append(h, Action{Op: "commit", Bad: true})
		case "bad-noemail":
			h = append(h, Action{Op: "commit", Bad: true, NoEmail: true})
		case "run":
			h = append(h, Action{Op: "run", Wrapper: rapid.Bool().Draw(rt, "wrapper")})
		case "kill":
			// A kill is most interesting when there is something to do.
			if len(h)+1 < n && (len(h) == 0 || h[len(h)-1].Op != "commit") && rapid.Bool().Draw(rt, "fresh") {
				bad := rapid.IntRange(0, 3).Draw(rt, "freshBad") == 0
				h = append(h, Action{Op: "commit", Bad: bad})
			}
			var k int
			if rapid.IntRange(0, 2).Draw(rt, "far") == 0 {
				k = rapid.IntRange(81, 150).Draw(rt, "k")
			} else {
				k = rapid.IntRange(1, 80).Draw(rt, "k")
			}
			h = append(h, Action{Op: "kill", K: k})
		case "killcompile":
			// only interesting when there is something to compile
			if len(h) == 0 || h[len(h)-1].Op != "commit" {
				h = append(h, Action{Op: "commit"})
			}
			h = append(h, Action{Op: "killcompile"})
		case "conc":
			h = append(h, Action{Op: "conc",
				N:         rapid.IntRange(2, 3).Draw(rt, "n"),
				StaggerMs: rapid.SampledFrom([]int{0, 0, 5, 30, 120}).Draw(rt, "stagger"),
				Wrapper:   rapid.Bool().Draw(rt, "wrapper")})
		case "rmcurrent":
			h = append(h, Action{Op: "rmcurrent"})
		}
	}
	return h
}

func envInt(name string, def int) int {
	if v, err := strconv.Atoi(os.Getenv(name)); err == nil {
		return v
	}
	return def
}

func TestC19(t *testing.T) {
	ev := evid.New("C19", ruleC19)
	props.Finish(t, ev)
	t.Cleanup(func() {
		if n := harnessErrors.Load(); n > 0 {
			t.Errorf("VERIF-UNHEALTHY %d evaluation(s) undecided because of harness errors; last: %v", n, lastHarnessError.Load())
		}
	})
	maxLen := 6
	if props.Thorough() {
		maxLen = 10
	}
	t.Run("history", func(t *testing.T) {
		rapid.Check(t, func(rt *rapid.T) {
			h := genHistory(rt, maxLen)
			c := HistoryCase(h)
			props.Judge(rt, ev, Oracle, c, func() any { return c })
		})
	})
	// Fixed scenario histories (those of the repository's own test of
	// newpolicy plus the fault-free variants of the classes named in the
	// non-triviality rule), so that every tier exercises them.
	t.Run("scenarios", func(t *testing.T) {
		good := Action{Op: "commit"}
		bad := Action{Op: "commit", Bad: true}
		badAuto := Action{Op: "commit", Bad: true, NoEmail: true}
		run := Action{Op: "run"}
		scen := [][]Action{
			{good, run, badAuto, run, good},
			{good, run, bad, run},
			{good, run, bad, bad, run, good},
			{good, run, {Op: "rmcurrent"}, run, good},
			{good, {Op: "conc", N: 3, StaggerMs: 30, Wrapper: true}, good, {Op: "conc", N: 2}},
			{good, run, bad, {Op: "conc", N: 2, StaggerMs: 5}},
		}
		shard, nshards := envInt("VERIF_SHARD", 0), envInt("VERIF_NSHARDS", 1)
		if nshards < 1 {
			nshards = 1
		}
		for i, h := range scen {
			if i%nshards != shard%nshards {
				continue
			}
			h := h
			t.Run(fmt.Sprintf("s%d", i+1), func(t *testing.T) {
				t.Parallel()
				c := HistoryCase(h)
				props.Judge(t, ev, Oracle, c, func() any { return c })
				ev.Class("scenario")
			})
		}
	})
	// Fault enumeration: every kill position of one run after a fixed
	// history, each followed by the final undisturbed run of the oracle.
	t.Run("enumerate", func(t *testing.T) {
		type fixed struct {
			name   string
			prefix []Action
		}
		good := Action{Op: "commit"}
		run := Action{Op: "run"}
		fixedL := []fixed{
			// good commit, (policy p1 made current), good commit, killed run
			{"good-run-good", []Action{good, run, good}},
			// a failed compile that could not be reverted has left its
			// marker and next/ behind; then a good commit arrives
			{"good-run-badnoemail-run-good", []Action{good, run, {Op: "commit", Bad: true, NoEmail: true}, run, good}},
			// revert path: compile fails, revert, compile again
			// (the second good commit makes the reverted head differ
			// from what p1 was compiled from)
			{"good-run-good-bad", []Action{good, run, good, {Op: "commit", Bad: true}}},
		}
		step := 5
		if props.Thorough() {
			step = 1
			fixedL = append(fixedL,
				// no previous policy
				fixed{"good-good", []Action{good, good}},
				// failing compile without revert
				fixed{"good-run-badnoemail", []Action{good, run, {Op: "commit", Bad: true, NoEmail: true}}},
			)
		}
		shard, nshards := envInt("VERIF_SHARD", 0), envInt("VERIF_NSHARDS", 1)
		if nshards < 1 {
			nshards = 1
		}
		for _, f := range fixedL {
			tr, err := MeasureTrace(f.prefix)
			if err != nil {
				t.Fatalf("VERIF-UNHEALTHY cannot trace fixed history %s: %v", f.name, err)
			}
			if len(tr) < 40 {
				t.Fatalf("VERIF-UNHEALTHY trace of fixed history %s has only %d commands:\n%v", f.name, len(tr), tr)
			}
			ev.Note("enumerate:"+f.name, fmt.Sprintf("%d kill positions; enumerated: every %d. and all of handle_success", len(tr), step))
			idx := 0
			for k := 1; k <= len(tr); k++ {
				// Quick: every 5th position, every position inside
				// handle_success (commit, push, promotion), every position
				// of prepare_next when a failed marker exists, and every
				// position of try_revert and of the main loop on the
				// revert path.
				if k%step != 0 && !strings.HasPrefix(tr[k-1], "[handle_success]") &&
					!(f.name == "good-run-badnoemail-run-good" && strings.HasPrefix(tr[k-1], "[prepare_next]")) &&
					!(f.name == "good-run-good-bad" && (strings.HasPrefix(tr[k-1], "[try_revert]") || strings.HasPrefix(tr[k-1], "[main]") ||
						strings.HasPrefix(tr[k-1], "[prepare_next] cd $POLICYDB") || strings.HasPrefix(tr[k-1], "[prepare_next] rm "))) {
					continue
				}
				mine := idx%nshards == shard
				idx++
				if !mine {
					continue
				}
				k := k
				h := append(append([]Action{}, f.prefix...), Action{Op: "kill", K: k})
				t.Run(fmt.Sprintf("%s/k%d", f.name, k), func(t *testing.T) {
					t.Parallel()
					c := HistoryCase(h)
					v := props.Judge(t, ev, Oracle, c, func() any { return c })
					ev.Class("enumerated-kill")
					if v.Status == props.Pass && !v.NT {
						t.Errorf("VERIF-UNHEALTHY enumerated kill position %d of %s was not reached", k, f.name)
					}
				})
				// Same kill, but a further good commit arrives before the
				// next (undisturbed) run: what the killed run left behind
				// must not be mistaken for the result of the newer revision.
				h2 := append(append([]Action{}, h...), Action{Op: "commit"})
				t.Run(fmt.Sprintf("%s/k%d+commit", f.name, k), func(t *testing.T) {
					t.Parallel()
					c := HistoryCase(h2)
					props.Judge(t, ev, Oracle, c, func() any { return c })
					ev.Class("enumerated-kill-then-commit")
				})
			}
		}
	})
}

// TestShowTrace prints the kill positions of the fixed history (good
// commit, run, good commit); documentation aid, only with C19_SHOW_TRACE=1.
func TestShowTrace(t *testing.T) {
	if os.Getenv("C19_SHOW_TRACE") == "" {
		t.Skip("set C19_SHOW_TRACE=1")
	}
	prefix := []Action{{Op: "commit"}, {Op: "run"}, {Op: "commit"}}
	if v := os.Getenv("C19_SHOW_TRACE"); len(v) > 0 && v[0] == '[' {
		prefix = nil
		if err := json.Unmarshal([]byte(v), &prefix); err != nil {
			t.Fatal(err)
		}
	}
	tr, err := MeasureTrace(prefix)
	if err != nil {
		t.Fatal(err)
	}
	for i, l := range tr {
		fmt.Printf("%3d %s\n", i+1, l)
	}
}

// TestExplain prints the oracle's log for a saved case, whatever the
// verdict (debugging aid; needs -replayfile).
func TestExplain(t *testing.T) {
	if *replayFile == "" || os.Getenv("C19_EXPLAIN") == "" {
		t.Skip("set C19_EXPLAIN=1 and -replayfile")
	}
	data, err := os.ReadFile(*replayFile)
	if err != nil {
		t.Fatal(err)
	}
	var c props.Case
	if err := json.Unmarshal(data, &c); err != nil {
		t.Fatal(err)
	}
	fmt.Println(Explain(&c))
}
