// Package c19 checks property C19 (the policy database always points to a
// complete, compiled policy) by driving the unmodified bin/newpolicy.sh of
// the repository against a local bare git repository, a stub compiler and
// kills injected at simple-command boundaries through BASH_ENV.
package c19

import (
	"bytes"
	"context"
	"errors"
	"fmt"
	"os"
	"os/exec"
	"path/filepath"
	"regexp"
	"sort"
	"strconv"
	"strings"
	"sync"
	"syscall"
	"time"

	"verif/harness/props"
)

// ------------------------------------------------------------ stub scripts

// Marker file: the stub compiler fails iff the source tree contains it.
const badMarker = "BAD"

// Witness written by the stub compiler into the code directory of a
// successful compile; holds the compiled revision.
const witnessName = ".compiled-from"

const stubNetspoc = `#!/bin/sh
# stub compiler: netspoc SRC CODE
# fails iff SRC contains the marker file, else writes CODE/ plus a witness.
src=$1; code=$2
rev=$(git -C "$src" rev-parse HEAD 2>/dev/null)
t0=$(date +%s%N)
if [ -e "$src/` + badMarker + `" ]; then
  echo "Error: marker file present in $src" >&2
  echo "Aborted" >&2
  echo "compile $C19_RUN $$ $t0 $(date +%s%N) $rev fail" >> "$C19_DIR/stub.log"
  exit 1
fi
mkdir -p "$code" || exit 1
if [ -n "$C19_COMPILE_KILLS_SCRIPT" ]; then
  # The script is killed while the compiler runs; the compiler goes on.
  kill -9 $PPID
  sleep "$C19_COMPILE_KILLS_SCRIPT"
fi
echo "config of r1" > "$code/r1"
echo "pass1 data" > "$code/r1.config"
echo "pass1 data" > "$code/r1.rules"
echo "$rev" > "$code/` + witnessName + `"
echo "compile $C19_RUN $$ $t0 $(date +%s%N) $rev ok" >> "$C19_DIR/stub.log"
exit 0
`

const stubMail = `#!/bin/sh
{ echo mail "$@"; cat; echo --END--; } >> "$C19_DIR/mail.log"
`

// Wrapper around the real git, only on PATH during concurrent invocations:
// records the interval of every git call together with the id of the
// invocation. Every git call of newpolicy.sh happens behind 'flock -n 9'.
const stubGit = `#!/bin/sh
t0=$(date +%%s%%N)
%s "$@"
rc=$?
echo "git $C19_RUN $$ $t0 $(date +%%s%%N) $1" >> "$C19_DIR/stub.log"
exit $rc
`

// Sourced by bash at start-up of newpolicy.sh (BASH_ENV). The DEBUG trap is
// inherited by functions, command substitutions and subshells (set -T). It
// appends one line per simple command to $C19_TRACE; the global position of
// a command is its line number in that file. With $C19_KILL set, the shell
// that reaches position k kills the script ($$) and itself with SIGKILL
// before the command is executed. $C19_KILL_BEFORE = "<function> <command
// prefix>" does the same at the first command with that (unexpanded) text.
const bashEnv = `if [ -n "$C19_TRACE" ] && [ -z "$__c19_on" ] && [ "${0##*/}" = newpolicy.sh ]; then
__c19_on=1
set -T
trap 'echo "$BASHPID ${FUNCNAME[0]:-top} ${BASH_COMMAND//$'"'"'\n'"'"'/ }" >> "$C19_TRACE"; if [ -n "$C19_KILL" ]; then mapfile -t __c19_l < "$C19_TRACE"; if [ "${#__c19_l[@]}" -ge "$C19_KILL" ]; then kill -9 $$ $BASHPID; fi; fi; if [ -n "$C19_KILL_BEFORE" ]; then case "${FUNCNAME[0]:-top} $BASH_COMMAND" in "$C19_KILL_BEFORE"*) kill -9 $$ $BASHPID;; esac; fi' DEBUG
fi
`

// ------------------------------------------------- per-process preparation

var (
	binOnce sync.Once
	binDir  string // directory holding get-netspoc-approve-conf
	binTmp  string // to be removed at process end, if created here
	binErr  error
	realGit string
)

// confBinDir returns a directory with the real get-netspoc-approve-conf
// built from the repository ($VERIF_BIN of the driver, else built once per
// process into a scratch directory).
func confBinDir() (string, error) {
	binOnce.Do(func() {
		realGit, binErr = exec.LookPath("git")
		if binErr != nil {
			return
		}
		if d := os.Getenv("VERIF_BIN"); d != "" {
			if st, err := os.Stat(filepath.Join(d, "get-netspoc-approve-conf")); err == nil && !st.IsDir() {
				binDir = d
				return
			}
		}
		d, err := os.MkdirTemp(os.Getenv("VERIF_SCRATCH"), "c19bin-")
		if err != nil {
			binErr = err
			return
		}
		binTmp = d
		cmd := exec.Command("go", "build", "-o", filepath.Join(d, "get-netspoc-approve-conf"),
			"./cmd/get-netspoc-approve-conf")
		cmd.Dir = filepath.Join(props.RepoDir(), "go")
		env := os.Environ()
		for _, kv := range []string{"GOFLAGS=-mod=mod", "GOPROXY=off", "GOSUMDB=off", "GOTOOLCHAIN=local"} {
			if os.Getenv(kv[:strings.Index(kv, "=")]) == "" {
				env = append(env, kv)
			}
		}
		cmd.Env = env
		out, err := cmd.CombinedOutput()
		if err != nil {
			binErr = fmt.Errorf("go build get-netspoc-approve-conf: %v\n%s", err, out)
			return
		}
		binDir = d
	})
	return binDir, binErr
}

// CleanupProcess removes what confBinDir created.
func CleanupProcess() {
	if binTmp != "" {
		os.RemoveAll(binTmp)
	}
}

// -------------------------------------------------------------------- world

type world struct {
	dir     string // scratch root
	home    string
	base    string // basedir of .netspoc-approve
	pol     string // base/policies
	bare    string // bare repository
	work    string // clone used by the "users" to commit
	stub    string // netspoc, mail
	gitwrap string // git wrapper (only on PATH for concurrent invocations)
	trace   string // trace files
	repoBin string
	nrun    int
	ncommit int
}

type harnessError struct{ msg string }

func (e *harnessError) Error() string { return e.msg }

func hfail(format string, a ...any) error { return &harnessError{fmt.Sprintf(format, a...)} }

const runTimeout = 60 * time.Second

func newWorld() (*world, error) {
	bd, err := confBinDir()
	if err != nil {
		return nil, hfail("%v", err)
	}
	_ = bd
	dir, err := os.MkdirTemp(os.Getenv("VERIF_SCRATCH"), "c19-")
	if err != nil {
		return nil, hfail("mkdtemp: %v", err)
	}
	// Resolve symlinks (e.g. /tmp), the script works with absolute paths.
	if d, err := filepath.EvalSymlinks(dir); err == nil {
		dir = d
	}
	w := &world{dir: dir,
		home: filepath.Join(dir, "home"), base: filepath.Join(dir, "base"),
		bare: filepath.Join(dir, "netspoc.git"), work: filepath.Join(dir, "work"),
		stub: filepath.Join(dir, "stub"), gitwrap: filepath.Join(dir, "gitwrap"),
		trace:   filepath.Join(dir, "trace"),
		repoBin: filepath.Join(props.RepoDir(), "bin"),
	}
	w.pol = filepath.Join(w.base, "policies")
	for _, d := range []string{w.home, w.pol, w.stub, w.gitwrap, w.trace} {
		if err := os.MkdirAll(d, 0755); err != nil {
			return w, hfail("mkdir: %v", err)
		}
	}
	files := map[string]string{
		filepath.Join(w.stub, "netspoc"):  stubNetspoc,
		filepath.Join(w.stub, "mail"):     stubMail,
		filepath.Join(w.stub, "sendmail"): stubMail,
		filepath.Join(w.gitwrap, "git"):   fmt.Sprintf(stubGit, realGit),
		filepath.Join(w.dir, "bashenv"):   bashEnv,
		// Identity of the system user: a name, but an empty e-mail address;
		// this is what try_revert tests for (as in go/test/newpolicy_test.go).
		filepath.Join(w.home, ".gitconfig"): "[user]\n\tname = System User\n\temail =\n" +
			"[init]\n\tdefaultBranch = master\n[pull]\n\trebase = true\n[advice]\n\tdetachedHead = false\n",
		filepath.Join(w.home, ".netspoc-approve"): fmt.Sprintf(
			"basedir = %s\nnetspoc_git = file://%s\nadmin_emails = admin1@example.com\n", w.base, w.bare),
	}
	for name, data := range files {
		if err := os.WriteFile(name, []byte(data), 0755); err != nil {
			return w, hfail("write %s: %v", name, err)
		}
	}
	// Initial repository content: one revision that compiles.
	tmp := filepath.Join(dir, "tmp-git")
	os.MkdirAll(tmp, 0755)
	os.WriteFile(filepath.Join(tmp, "topology"), []byte("network:n1 = { ip = 10.1.1.0/24; } # t0\n"), 0644)
	steps := [][]string{
		{tmp, "init", "--quiet"},
		{tmp, "add", "."},
		{tmp, "-c", "user.name=Test User", "-c", "user.email=user@example.com", "commit", "--quiet", "-m", "initial"},
		{dir, "clone", "--quiet", "--bare", tmp, w.bare},
		{dir, "clone", "--quiet", w.bare, w.work},
		{w.work, "config", "--local", "user.name", "Test User"},
		{w.work, "config", "--local", "user.email", "user@example.com"},
	}
	for _, s := range steps {
		if _, err := w.git(s[0], s[1:]...); err != nil {
			return w, err
		}
	}
	os.RemoveAll(tmp)
	return w, nil
}

func (w *world) remove() {
	if w != nil && w.dir != "" {
		os.RemoveAll(w.dir)
	}
}

func (w *world) env(conc bool, extra ...string) []string {
	path := w.stub + ":" + binDir + ":" + w.repoBin + ":/usr/local/bin:/usr/bin:/bin"
	if conc {
		path = w.gitwrap + ":" + path
	}
	e := []string{
		"HOME=" + w.home, "PATH=" + path, "LANG=C", "LC_ALL=C", "TZ=UTC",
		"GIT_CONFIG_NOSYSTEM=1", "GIT_TERMINAL_PROMPT=0",
		"C19_DIR=" + w.dir,
	}
	return append(e, extra...)
}

// git runs the real git as harness bookkeeping (never through the wrapper).
func (w *world) git(dir string, args ...string) (string, error) {
	ctx, cancel := context.WithTimeout(context.Background(), runTimeout)
	defer cancel()
	cmd := exec.CommandContext(ctx, realGit, args...)
	cmd.Dir = dir
	cmd.Env = w.env(false)
	var out, errb bytes.Buffer
	cmd.Stdout, cmd.Stderr = &out, &errb
	if err := cmd.Run(); err != nil {
		return out.String(), hfail("git %s (in %s): %v\n%s", strings.Join(args, " "), dir, err, errb.String())
	}
	return strings.TrimSpace(out.String()), nil
}

// gitOK reports whether the git command succeeds (harness bookkeeping).
func (w *world) gitOK(dir string, args ...string) bool {
	cmd := exec.Command(realGit, args...)
	cmd.Dir = dir
	cmd.Env = w.env(false)
	return cmd.Run() == nil
}

// ------------------------------------------------------------------ commits

// commit adds one revision to the repository, like a user would: pull,
// change, commit, push. A bad revision carries the marker file.
func (w *world) commit(bad, noEmail bool) (string, error) {
	w.ncommit++
	if _, err := w.git(w.work, "pull", "--quiet", "--ff-only"); err != nil {
		return "", err
	}
	if bad {
		os.WriteFile(filepath.Join(w.work, badMarker), []byte(fmt.Sprintf("syntax error %d\n", w.ncommit)), 0644)
	} else {
		os.Remove(filepath.Join(w.work, badMarker))
		os.WriteFile(filepath.Join(w.work, "topology"),
			[]byte(fmt.Sprintf("network:n1 = { ip = 10.1.1.0/24; } # t%d\n", w.ncommit)), 0644)
	}
	if _, err := w.git(w.work, "add", "--all"); err != nil {
		return "", err
	}
	args := []string{"commit", "--quiet", "-m", fmt.Sprintf("change %d", w.ncommit)}
	if noEmail {
		// Automated commit: author without e-mail address.
		args = append(args, "--author=Robot <>")
	}
	if _, err := w.git(w.work, args...); err != nil {
		return "", err
	}
	if _, err := w.git(w.work, "push", "--quiet"); err != nil {
		return "", err
	}
	return w.git(w.work, "rev-parse", "HEAD")
}

// ---------------------------------------------------------------- execution

type runResult struct {
	id     string
	exit   int  // exit code, -1 if signalled
	killed bool // ended by SIGKILL
	out    string
	trace  []traceLine // only for traced runs
}

type traceLine struct {
	pid  string
	fn   string
	text string
}

type proc struct {
	id      string
	cmd     *exec.Cmd
	outFile string
	trFile  string
	cancel  context.CancelFunc
	ctx     context.Context
}

// start launches newpolicy.sh (or the wrapper bin/newpolicy). k > 0: traced
// and killed at the k-th simple command; k == 0 with trace: traced only.
func (w *world) start(wrapper, conc, trace bool, k int, before string, more ...string) (*proc, error) {
	w.nrun++
	id := fmt.Sprintf("r%d", w.nrun)
	prog := filepath.Join(w.repoBin, "newpolicy.sh")
	if wrapper {
		prog = filepath.Join(w.repoBin, "newpolicy")
	}
	extra := append([]string{"C19_RUN=" + id}, more...)
	p := &proc{id: id, outFile: filepath.Join(w.dir, "out-"+id+".txt")}
	if trace || k > 0 || before != "" {
		p.trFile = filepath.Join(w.trace, id)
		extra = append(extra, "BASH_ENV="+filepath.Join(w.dir, "bashenv"), "C19_TRACE="+p.trFile)
		if k > 0 {
			extra = append(extra, "C19_KILL="+strconv.Itoa(k))
		}
		if before != "" {
			extra = append(extra, "C19_KILL_BEFORE="+before)
		}
	}
	p.ctx, p.cancel = context.WithTimeout(context.Background(), runTimeout)
	cmd := exec.Command(prog)
	cmd.Dir = w.dir
	cmd.Env = w.env(conc, extra...)
	// Output goes to a file, not a pipe: Wait must not depend on orphans.
	f, err := os.Create(p.outFile)
	if err != nil {
		return nil, hfail("create: %v", err)
	}
	defer f.Close()
	cmd.Stdout, cmd.Stderr = f, f
	cmd.SysProcAttr = &syscall.SysProcAttr{Setpgid: true}
	if err := cmd.Start(); err != nil {
		p.cancel()
		return nil, hfail("start %s: %v", prog, err)
	}
	p.cmd = cmd
	return p, nil
}

func (w *world) wait(p *proc) (runResult, error) { return w.waitQ(p, true) }

// waitQ: with quiesce == false the orphans of a killed run are left alone.
func (w *world) waitQ(p *proc, quiesce bool) (runResult, error) {
	defer p.cancel()
	done := make(chan error, 1)
	go func() { done <- p.cmd.Wait() }()
	var err error
	select {
	case err = <-done:
	case <-p.ctx.Done():
		syscall.Kill(-p.cmd.Process.Pid, syscall.SIGKILL)
		<-done
		return runResult{}, hfail("timeout: run %s did not end within %v", p.id, runTimeout)
	}
	r := runResult{id: p.id}
	if err != nil {
		var ee *exec.ExitError
		if !errors.As(err, &ee) {
			return r, hfail("wait %s: %v", p.id, err)
		}
		ws := ee.Sys().(syscall.WaitStatus)
		if ws.Signaled() {
			r.exit = -1
			r.killed = ws.Signal() == syscall.SIGKILL
		} else {
			r.exit = ws.ExitStatus()
		}
	}
	// Orphans of a killed run (members of a pipeline, a command
	// substitution) may still hold the lock for a moment. 'Undisturbed'
	// means none of them is left: wait until the process group is empty
	// and the lock is free.
	if quiesce {
		if err := w.quiesce(p.cmd.Process.Pid); err != nil {
			return r, err
		}
	}
	data, _ := os.ReadFile(p.outFile)
	r.out = string(data)
	if p.trFile != "" {
		r.trace = readTrace(p.trFile)
	}
	return r, nil
}

func (w *world) quiesce(pgid int) error {
	deadline := time.Now().Add(20 * time.Second)
	for {
		groupGone := pgid <= 0 || syscall.Kill(-pgid, 0) == syscall.ESRCH
		if groupGone && w.lockFree() {
			return nil
		}
		if time.Now().After(deadline) {
			return hfail("timeout: lock still held or process group %d still alive after a run ended", pgid)
		}
		time.Sleep(2 * time.Millisecond)
	}
}

func (w *world) lockFree() bool {
	f, err := os.Open(filepath.Join(w.pol, "LOCK"))
	if err != nil {
		return true // not yet created: nobody holds it
	}
	defer f.Close()
	if err := syscall.Flock(int(f.Fd()), syscall.LOCK_EX|syscall.LOCK_NB); err != nil {
		return false
	}
	syscall.Flock(int(f.Fd()), syscall.LOCK_UN)
	return true
}

func readTrace(file string) []traceLine {
	data, _ := os.ReadFile(file)
	var res []traceLine
	for _, l := range strings.Split(string(data), "\n") {
		if l == "" {
			continue
		}
		f := strings.SplitN(l, " ", 3)
		for len(f) < 3 {
			f = append(f, "")
		}
		res = append(res, traceLine{f[0], f[1], f[2]})
	}
	return res
}

// -------------------------------------------------------------- observation

var policyRE = regexp.MustCompile(`^p([0-9]+)$`)

type state struct {
	cur       string // target of the link 'current', "" if absent
	curN      int
	curProb   string // why 'current' is not a proper policy ("" if fine or absent)
	curRev    string // revision recorded by the witness of the current policy
	head      string // head of the repository
	headBad   bool   // head does not compile
	dirs      []int  // numbers of the policy directories present
	nextHead  string // HEAD of next/src, if present
	nextRev   string // witness in next/code, if present
	nextIsPol bool   // HEAD of next/src is the POLICY commit on top of nextRev
}

func (w *world) revBad(rev string) bool {
	return w.gitOK(w.bare, "cat-file", "-e", rev+":"+badMarker)
}

func readWitness(codeDir string) string {
	data, err := os.ReadFile(filepath.Join(codeDir, witnessName))
	if err != nil {
		return ""
	}
	return strings.TrimSpace(string(data))
}

func (w *world) observe() (state, error) {
	var s state
	var err error
	s.head, err = w.git(w.bare, "rev-parse", "refs/heads/master")
	if err != nil {
		return s, err
	}
	s.headBad = w.revBad(s.head)
	entries, _ := os.ReadDir(w.pol)
	for _, e := range entries {
		if m := policyRE.FindStringSubmatch(e.Name()); m != nil {
			n, _ := strconv.Atoi(m[1])
			s.dirs = append(s.dirs, n)
		}
	}
	sort.Ints(s.dirs)
	// next/
	nsrc := filepath.Join(w.pol, "next", "src")
	if _, err := os.Stat(filepath.Join(nsrc, ".git")); err == nil {
		if h, err := w.git(nsrc, "rev-parse", "HEAD"); err == nil {
			s.nextHead = h
		}
		s.nextRev = readWitness(filepath.Join(w.pol, "next", "code"))
		if s.nextRev != "" && s.nextHead != "" {
			if p, err := w.git(nsrc, "rev-parse", "HEAD^"); err == nil && p == s.nextRev {
				s.nextIsPol = true
			}
		}
	}
	// current
	link := filepath.Join(w.pol, "current")
	fi, err := os.Lstat(link)
	if err != nil {
		if os.IsNotExist(err) {
			return s, nil
		}
		return s, hfail("lstat current: %v", err)
	}
	if fi.Mode()&os.ModeSymlink == 0 {
		s.cur = "?"
		s.curProb = "'current' exists but is not a symbolic link"
		return s, nil
	}
	s.cur, _ = os.Readlink(link)
	m := policyRE.FindStringSubmatch(s.cur)
	if m == nil {
		s.curProb = fmt.Sprintf("'current' -> %q does not name a policy pN", s.cur)
		return s, nil
	}
	s.curN, _ = strconv.Atoi(m[1])
	pdir := filepath.Join(w.pol, s.cur)
	if st, err := os.Stat(pdir); err != nil || !st.IsDir() {
		s.curProb = fmt.Sprintf("'current' -> %s, which is not a directory", s.cur)
		return s, nil
	}
	if st, err := os.Stat(filepath.Join(pdir, "code")); err != nil || !st.IsDir() {
		s.curProb = fmt.Sprintf("'current' -> %s, which has no code/ directory", s.cur)
		return s, nil
	}
	s.curRev = readWitness(filepath.Join(pdir, "code"))
	if s.curRev == "" {
		s.curProb = fmt.Sprintf("'current' -> %s, whose code/ carries no witness of a successful compile", s.cur)
		return s, nil
	}
	if !w.gitOK(w.bare, "cat-file", "-e", s.curRev+"^{commit}") {
		s.curProb = fmt.Sprintf("'current' -> %s compiled from %s, which is no revision of the repository", s.cur, s.curRev)
		return s, nil
	}
	if w.revBad(s.curRev) {
		s.curProb = fmt.Sprintf("'current' -> %s compiled from %s, a revision that does not compile", s.cur, s.curRev)
	}
	return s, nil
}

// sameButPolicy: the current policy was compiled from the head of the
// repository, where the bookkeeping commit of handle_success (file POLICY
// only) on top of the compiled revision does not count as a difference.
func (w *world) sameButPolicy(rev, head string) bool {
	if rev == head {
		return true
	}
	out, err := w.git(w.bare, "diff", "--name-only", rev, head)
	if err != nil {
		return false
	}
	for _, f := range strings.Fields(out) {
		if f != "POLICY" {
			return false
		}
	}
	return true
}

func (w *world) isParent(rev, head string) bool {
	p, err := w.git(w.bare, "rev-parse", head+"^")
	return err == nil && p == rev
}

// ------------------------------------------------------------ stub records

type stubRec struct {
	kind   string // compile | git
	run    string
	t0, t1 int64
	rev    string // compile: revision
	ok     bool   // compile: result
}

func (w *world) stubLog() []stubRec {
	data, _ := os.ReadFile(filepath.Join(w.dir, "stub.log"))
	var res []stubRec
	for _, l := range strings.Split(string(data), "\n") {
		f := strings.Fields(l)
		if len(f) < 5 {
			continue
		}
		r := stubRec{kind: f[0], run: f[1]}
		r.t0, _ = strconv.ParseInt(f[3], 10, 64)
		r.t1, _ = strconv.ParseInt(f[4], 10, 64)
		if r.kind == "compile" && len(f) >= 7 {
			r.rev = f[5]
			r.ok = f[6] == "ok"
		}
		res = append(res, r)
	}
	return res
}

func (w *world) mailLog() string {
	data, _ := os.ReadFile(filepath.Join(w.dir, "mail.log"))
	return string(data)
}
