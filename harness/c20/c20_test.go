package c20

import (
	"encoding/json"
	"flag"
	"fmt"
	"os"
	"path/filepath"
	"strconv"
	"strings"
	"testing"
	"time"

	_ "pgregory.net/rapid" // the driver passes -rapid.* flags to every check
	"verif/harness/evid"
	"verif/harness/props"
	"verif/harness/tool"
)

var replayFile = flag.String("replayfile", "", "re-evaluate the oracle on a saved case (no generator)")

func TestMain(m *testing.M) {
	flag.Parse()
	code := m.Run()
	CleanupProcess()
	os.Exit(code)
}

// TestReplay re-runs the oracle of a saved failing case.
func TestReplay(t *testing.T) { props.ReplayMain(t, *replayFile) }

const ruleC20 = "finite family enumerated in a fixed order from every line of every DEVICE / NETSPOC / ipv6 / raw / info block of go/testdata/*.t " +
	"(all five device types), each mutant replacing one file of the otherwise unchanged example: word-prefix truncations of the line and of the file, " +
	"single-token deletion, duplication, adjacent swap, unterminated quote before a token, indentation +1/-1/removed, line duplicated, indented line moved to top level; " +
	"whole-file: empty, whitespace, binary garbage (NUL, 0xff, BOM, CRLF, 200 kB token, 100000-deep nesting), lone [APPEND] / <APPEND/>, unterminated quote, " +
	"XML/JSON cut behind every '>' ',' '{' '['; each in its own and in the other argument position of drc FILE1 FILE2; plus status-file mutants for missing-approve / do-approve. " +
	"non-trivial = mutant differs from the original (identical results are not enumerated); distinct = (family, file role, mutation kind, 'accepted' or first 40 characters of the first ERROR>>> line)"

// ------------------------------------------------------------- selection

func mix(idx int64, seed, salt uint64) uint64 {
	z := uint64(idx) + seed*0x9e3779b97f4a7c15 + salt*0xd1b54a32d192ed03
	z = (z ^ (z >> 30)) * 0xbf58476d1ce4e5b9
	z = (z ^ (z >> 27)) * 0x94d049bb133111eb
	return z ^ (z >> 31)
}

// sampler selects about `want` of `total` indices over all shards, the
// share of this shard being those with hash % (nshards*stride) == shard.
// The choice is a pure function of (index, VERIF_SEED).
func sampler(total, want int64, seed, salt uint64, shard, nshards int) func(int64) bool {
	stride := int64(1)
	if want > 0 && total > want {
		stride = total / want
	}
	m := uint64(int64(nshards) * stride)
	return func(idx int64) bool { return mix(idx, seed, salt)%m == uint64(shard) }
}

func explicitChecks() int {
	n := 0
	flag.Visit(func(f *flag.Flag) {
		if f.Name == "rapid.checks" {
			n, _ = strconv.Atoi(f.Value.String())
		}
	})
	return n
}

type shardInfo struct {
	shard, nshards int
	seed           uint64
}

func getShard() shardInfo {
	s := shardInfo{props.EnvInt("VERIF_SHARD", 0), props.EnvInt("VERIF_NSHARDS", 1), uint64(props.EnvInt("VERIF_SEED", 1))}
	if s.nshards < 1 {
		s.nshards = 1
	}
	s.shard %= s.nshards
	return s
}

// --------------------------------------------------------------- helpers

func caseOf(m *Mutant) *props.Case {
	return &props.Case{Property: Property, Family: m.Triple.Family, Files: encodeFiles(m.Files()),
		Params: map[string]string{"dev": "device", "spoc": "code/router"},
		Gen: fmt.Sprintf("index=%d example=%s:%q role=%s kind=%s pos=%s line=%d",
			m.Index, m.Triple.File, m.Triple.Title, m.Role, m.Kind, m.Pos, m.Line)}
}

// Samples in the evidence are bounded.
func clipStr(s string) string {
	if len(s) > 3000 {
		return s[:3000] + fmt.Sprintf("...[%d bytes]", len(s))
	}
	return s
}

func clipFiles(f tool.Files) tool.Files {
	r := tool.Files{}
	for k, v := range f {
		r[k] = clipStr(v)
	}
	return r
}

func sigFile(sig string) string {
	return strings.NewReplacer(":", "_", "/", "_", "*", "", "(", "", ")", "").Replace(sig) + ".json"
}

// crashLog keeps, per signature, the first few failing cases of this
// process; they are re-run through the real binary.
type crashLog struct {
	perSig map[string][]*props.Case
	count  map[string]int
	order  []string
}

const crashesPerSig = 25

func (l *crashLog) add(v props.Verdict, c *props.Case) {
	if l.perSig == nil {
		l.perSig, l.count = map[string][]*props.Case{}, map[string]int{}
	}
	if l.count[v.Sig] == 0 {
		l.order = append(l.order, v.Sig)
		if d := os.Getenv("C20_DUMP_DIR"); d != "" {
			cc := *c
			cc.Sig, cc.Msg = v.Sig, v.Msg
			data, _ := json.MarshalIndent(&cc, "", " ")
			os.MkdirAll(d, 0755)
			p := filepath.Join(d, sigFile(v.Sig))
			if _, err := os.Stat(p); err != nil {
				os.WriteFile(p, data, 0644)
			}
		}
	}
	l.count[v.Sig]++
	if len(l.perSig[v.Sig]) < crashesPerSig {
		l.perSig[v.Sig] = append(l.perSig[v.Sig], c)
	}
}

// progress leaves the index under evaluation in a file, so that a process
// killed by a Go fatal error (stack overflow, out of memory - not
// recoverable) still tells which member of the family did it
// (C20_ONLY_INDEX=<n> re-runs that member alone).
type progress struct{ f *os.File }

func openProgress(s shardInfo) *progress {
	d := os.Getenv("VERIF_FAIL_DIR")
	if d == "" {
		return &progress{}
	}
	os.MkdirAll(d, 0755)
	f, _ := os.Create(filepath.Join(d, fmt.Sprintf("C20-progress-shard%d.txt", s.shard)))
	return &progress{f}
}

func (p *progress) at(idx int64) {
	if p.f != nil {
		p.f.WriteAt([]byte(fmt.Sprintf("%-20d\n", idx)), 0)
	}
}

func (p *progress) done() {
	if p.f != nil {
		name := p.f.Name()
		p.f.Close()
		os.Remove(name)
	}
}

// judgeOrDiscover is props.Judge, except in the development mode
// C20_DISCOVER=1 where no failure ends the run: every failing signature is
// set aside as if it were listed (and dumped to $C20_DUMP_DIR), which
// shows all distinct root causes in one pass over the family.
func judgeOrDiscover(t *testing.T, ev *evid.Collector, c *props.Case) props.Verdict {
	if os.Getenv("C20_DISCOVER") == "" {
		return props.Judge(t, ev, Oracle, c, nil)
	}
	v := Oracle(c)
	ev.Eval()
	for _, cl := range v.Classes {
		ev.Class(cl)
	}
	if v.Status == props.Fail {
		ev.Excluded(v.Sig)
	}
	return v
}

// ------------------------------------------------------------------ test

func TestC20(t *testing.T) {
	ev := evid.New(Property, ruleC20)
	props.Finish(t, ev)
	corpus, err := props.LoadCorpus()
	if err != nil || len(corpus) == 0 {
		t.Fatalf("VERIF-UNHEALTHY cannot load corpus: %v", err)
	}
	sh := getShard()
	total, per := FamilySizes(corpus)
	ev.Note("family_size", strconv.FormatInt(total, 10))
	for _, k := range sortedKeys(per) {
		ev.Note("family_size:"+k, strconv.FormatInt(per[k], 10))
	}
	ev.Note("examples", strconv.Itoa(len(corpus)))

	var sel func(int64) bool
	if only := os.Getenv("C20_ONLY_INDEX"); only != "" {
		n, _ := strconv.ParseInt(only, 10, 64)
		sel = func(i int64) bool { return i == n }
	} else if props.Thorough() {
		sel = func(i int64) bool { return i%int64(sh.nshards) == int64(sh.shard) }
		ev.Note("exhaustive", fmt.Sprintf("true: all %d members of the family evaluated in-process, split over %d shards by index", total, sh.nshards))
	} else {
		perShard := explicitChecks()
		if perShard <= 0 {
			perShard = props.EnvInt("C20_QUICK_PER_SHARD", 4000)
		}
		sel = sampler(total, int64(perShard)*int64(sh.nshards), sh.seed, 1, sh.shard, sh.nshards)
		ev.Note("exhaustive", fmt.Sprintf("false: seed-indexed sample of about %d of %d members", perShard*sh.nshards, total))
	}

	var crashes crashLog
	var binSample []*props.Case
	binWant := int64(200)
	if props.Thorough() {
		binWant = 3200
	}
	binSel := sampler(total, binWant, sh.seed, 2, sh.shard, sh.nshards)

	ok := t.Run("inproc", func(t *testing.T) {
		pr := openProgress(sh)
		defer pr.done()
		n := 0
		filter := os.Getenv("C20_FILTER") // development: restrict to matching "file role kind pos"
		if filter != "" || os.Getenv("C20_ONLY_INDEX") != "" {
			ev.Note("exhaustive", "false: restricted by C20_FILTER / C20_ONLY_INDEX")
		}
		var timing map[string]time.Duration
		timingN := map[string]int{}
		if os.Getenv("C20_TIMING") != "" {
			timing = map[string]time.Duration{}
			defer func() {
				for _, k := range sortedKeys(timing) {
					t.Logf("timing %-32s n=%6d total=%8.2fs mean=%7.2fms", k, timingN[k], timing[k].Seconds(),
						timing[k].Seconds()*1000/float64(timingN[k]))
				}
			}()
		}
		Enumerate(corpus, func(i int64) bool { return sel(i) || binSel(i) }, func(m *Mutant) bool {
			if filter != "" && !strings.Contains(m.Triple.File+" "+m.Role+" "+m.Kind+" "+m.Pos, filter) {
				return true
			}
			c := caseOf(m)
			if binSel(m.Index) {
				binSample = append(binSample, c)
				if !sel(m.Index) {
					return true
				}
			}
			pr.at(m.Index)
			t0 := time.Now()
			v := judgeOrDiscover(t, ev, c)
			if timing != nil {
				d := time.Since(t0)
				timing[m.Triple.Family+"/"+m.Kind] += d
				timingN[m.Triple.Family+"/"+m.Kind]++
				if d > 200*time.Millisecond {
					t.Logf("slow case %v: %s", d, c.Gen)
				}
			}
			n++
			fam, role := m.Triple.Family, m.Role
			ev.Class("fam:" + fam)
			ev.Class("role:" + role)
			ev.Class("kind:" + m.Kind)
			ev.Class("pos:" + m.Pos)
			ev.Class("fam-role:" + fam + "/" + role)
			switch v.Status {
			case props.Pass:
				ev.NonTrivial(strings.Join([]string{fam, role, m.Kind, v.Reason}, "\x00"), func() any {
					return map[string]any{"generator_note": c.Gen, "diagnostic": v.Reason, "files": clipFiles(c.Files)}
				})
			case props.Fail: // listed known finding, set aside by Judge
				ev.Class("outcome:crash-or-violation-known")
				crashes.add(v, c)
			case props.Discard:
				if strings.HasPrefix(v.Reason, "harness:") {
					t.Fatalf("VERIF-UNHEALTHY %s at index %d", v.Reason, m.Index)
				}
			}
			return true
		})
		ev.Note(fmt.Sprintf("evaluated_inproc:shard%d", sh.shard), strconv.Itoa(n))
		for _, s := range crashes.order {
			t.Logf("known root cause %s: %d case(s) in this shard", s, crashes.count[s])
		}
		if poisoned.Load() {
			ev.Note(fmt.Sprintf("watchdog:shard%d", sh.shard), "a case exceeded the watchdog; the rest of the shard was evaluated in fresh processes")
		}
	})
	if !ok {
		return
	}

	t.Run("binaries", func(t *testing.T) {
		if _, err := Binaries(); err != nil {
			t.Fatalf("VERIF-UNHEALTHY cannot build binaries: %v", err)
		}
		judgeBin := func(c *props.Case, label string) props.Verdict {
			v := judgeOrDiscover(t, ev, c)
			ev.Class("bin:" + label)
			if v.Status == props.Discard && strings.HasPrefix(v.Reason, "harness:") {
				t.Fatalf("VERIF-UNHEALTHY %s (%s)", v.Reason, label)
			}
			return v
		}
		// (a1) every root cause seen in-process, again through `drc`: the
		// same signature must come out (a runtime panic exits with 2).
		for _, sig := range crashes.order {
			if !strings.HasPrefix(sig, "crash:") {
				continue
			}
			for _, c := range crashes.perSig[sig] {
				bc := *c
				bc.Params = map[string]string{"arm": "drc", "dev": c.Param("dev"), "spoc": c.Param("spoc")}
				v := judgeBin(&bc, "drc-recheck-of-crash")
				if v.Status != props.Fail || v.Sig != sig {
					// The two routes disagree: the harness (or its
					// signature) is wrong, not the tool.
					t.Fatalf("VERIF-UNHEALTHY in-process crash %s not confirmed by the drc binary (status %d sig %q) for %s",
						sig, v.Status, v.Sig, c.Gen)
				}
				ev.Class("bin:crash-confirmed")
			}
		}
		// (a2) the sample.
		for _, c := range binSample {
			bc := *c
			bc.Params = map[string]string{"arm": "drc", "dev": c.Param("dev"), "spoc": c.Param("spoc")}
			v := judgeBin(&bc, "drc-sample")
			if v.Status == props.Pass {
				ev.NonTrivial("drc-binary\x00"+c.Family+"\x00"+v.Reason, nil)
			}
		}
		// (b) status files.
		muts := StatusMutants()
		ev.Note("status_mutants", strconv.Itoa(len(muts)))
		for i, sm := range muts {
			if i%sh.nshards != sh.shard {
				continue
			}
			for _, arm := range []string{"missing-approve", "do-approve"} {
				// do-approve waits a second for its "device": sample in quick.
				if arm == "do-approve" && !props.Thorough() && mix(int64(i), sh.seed, 3)%4 != 0 {
					continue
				}
				files := StatusBase()
				if !sm.absent {
					files["status"] = sm.content
				}
				files = encodeFiles(files)
				c := &props.Case{Property: Property, Family: "status", Files: files,
					Params: map[string]string{"arm": arm},
					Gen:    fmt.Sprintf("status mutant %d kind=%s", i, sm.kind)}
				v := judgeBin(c, arm)
				ev.Class("role:status")
				ev.Class("kind:status-" + sm.kind)
				if v.Status == props.Pass {
					ev.NonTrivial(strings.Join([]string{arm, sm.kind, v.Reason}, "\x00"), func() any {
						return map[string]any{"generator_note": c.Gen, "arm": arm, "status": clipStr(sm.content), "diagnostic": v.Reason}
					})
				}
			}
		}
	})
}
