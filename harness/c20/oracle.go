package c20

import (
	"bytes"
	"context"
	"encoding/base64"
	"encoding/json"
	"fmt"
	"os"
	"os/exec"
	"path/filepath"
	"regexp"
	"strings"
	"sync"
	"sync/atomic"
	"time"
	"unicode/utf8"

	"verif/harness/props"
	"verif/harness/tool"
)

const Property = "C20"

var Families = []string{"asa", "ios", "linux", "nsx", "panos"}

func init() {
	for _, f := range Families {
		props.Register(Property, f, Oracle)
	}
	// Status-file arm (missing-approve / do-approve) is family-independent.
	props.Register(Property, "status", Oracle)
}

// Oracle decides one case. Params:
//
//	arm   ""                 in-process device.CompareFiles (default)
//	      "drc"              the drc binary as a subprocess
//	      "missing-approve"  the binary on a scratch basedir; Files["status"] is the status file
//	      "do-approve"       `do-approve compare router` on a scratch basedir
//	dev, spoc                names of FILE1 and FILE2 inside Files
//
// A passing verdict carries the diagnostic class in Reason ("accepted" or
// the first 40 characters of the first ERROR>>> line).
func Oracle(c *props.Case) props.Verdict {
	switch c.Param("arm") {
	case "":
		return oracleInProc(c)
	case "drc":
		return oracleDrc(c)
	case "missing-approve", "do-approve":
		return oracleStatus(c)
	}
	return props.DiscardV("unknown arm " + c.Param("arm"))
}

// A saved case is JSON, which cannot hold bytes that are not valid UTF-8.
// Such a file is stored under "<name>#base64" and decoded here, so that
// the replay runs on exactly the bytes that were evaluated.
const b64Suffix = "#base64"

func encodeFiles(files tool.Files) tool.Files {
	for name, content := range files {
		if !utf8.ValidString(content) {
			delete(files, name)
			files[name+b64Suffix] = base64.StdEncoding.EncodeToString([]byte(content))
		}
	}
	return files
}

func decodeFiles(files tool.Files) tool.Files {
	enc := false
	for name := range files {
		if strings.HasSuffix(name, b64Suffix) {
			enc = true
		}
	}
	if !enc {
		return files
	}
	res := make(tool.Files, len(files))
	for name, content := range files {
		if n, ok := strings.CutSuffix(name, b64Suffix); ok {
			if b, err := base64.StdEncoding.DecodeString(content); err == nil {
				res[n] = string(b)
				continue
			}
		}
		res[name] = content
	}
	return res
}

func devSpoc(c *props.Case) (string, string) {
	dev, spoc := c.Param("dev"), c.Param("spoc")
	if dev == "" {
		dev = "device"
	}
	if spoc == "" {
		spoc = "code/router"
	}
	return dev, spoc
}

// ------------------------------------------------------------ in-process

var (
	origStdout, origStderr = os.Stdout, os.Stderr
	// poisoned is set after a watchdog expiry: the goroutine that never
	// returned still holds the lock of package tool, so this process can
	// no longer evaluate in-process; later cases go to a fresh process.
	poisoned atomic.Bool
)

// watchdog is the time after which a compare is suspected to hang: 30 s
// for ordinary inputs (normal cost is about a millisecond). The one
// example with a 10 000-line ACL needs 1-25 s and 0.8 GB per compare,
// more when all shards work on it at the same time; inputs of that size
// get ten times as long.
func watchdog(files tool.Files) time.Duration { return watchdogFor(os.Getenv("C20_WATCHDOG"), files) }

func watchdogFor(v string, files tool.Files) time.Duration {
	d := 30 * time.Second
	if v != "" {
		if x, err := time.ParseDuration(v); err == nil {
			d = x
		}
	}
	n := 0
	for _, v := range files {
		n += len(v)
	}
	if n > 100000 {
		d *= 10
	}
	return d
}

func isChild() bool { return os.Getenv("C20_CHILD") != "" }

// compareWatched runs tool.Compare under a watchdog.
func compareWatched(files tool.Files, dev, spoc string) (res tool.Result, hung bool) {
	ch := make(chan tool.Result, 1)
	go func() { ch <- tool.Compare(files, dev, spoc) }()
	timer := time.NewTimer(watchdog(files))
	defer timer.Stop()
	select {
	case res = <-ch:
		return res, false
	case <-timer.C:
		// tool.Compare redirected the standard streams and did not come
		// back to restore them.
		os.Stdout, os.Stderr = origStdout, origStderr
		poisoned.Store(true)
		return res, true
	}
}

func oracleInProc(c *props.Case) props.Verdict {
	if poisoned.Load() {
		return viaChild(c, false)
	}
	dev, spoc := devSpoc(c)
	res, hung := compareWatched(decodeFiles(c.Files), dev, spoc)
	if hung {
		if isChild() {
			return props.FailV("hang:"+c.Family,
				"device.CompareFiles did not return within %v (fresh process)", watchdog(c.Files))
		}
		// Counted as a hang only if it repeats in a fresh process.
		return viaChild(c, true)
	}
	if os.Getenv("C20_DEBUG") != "" {
		fmt.Fprintf(origStderr, "C20_DEBUG exit=%d\nstdout:\n%s\nstderr:\n%s\npanic:\n%s\n", res.Exit, res.Stdout, res.Stderr, res.Panic)
	}
	return judgeResult(c, res.Exit, res.Stderr, res.Panic)
}

// judgeResult is the common part of the in-process and the drc arm.
func judgeResult(c *props.Case, exit int, stderr, panicText string) props.Verdict {
	if panicText != "" {
		sig, top := crashSignature(panicText)
		return props.FailV(sig, "runtime panic escaped (not an errlog bailout)\ntop repo frame: %s\n%s",
			top, clipLines(panicText, 60))
	}
	if exit != 0 && exit != 1 {
		return props.FailV(fmt.Sprintf("exit:%d", exit), "exit status %d, stderr:\n%s", exit, clipLines(stderr, 40))
	}
	diag := "accepted"
	outcome := "accepted"
	if exit == 1 {
		d, ok := firstError(stderr)
		if !ok {
			return props.FailV("nodiag", "exit status 1 without an ERROR>>> line; stderr:\n%s", clipLines(stderr, 40))
		}
		outcome = "rejected"
		diag = d
		if len(diag) > 40 {
			diag = diag[:40]
		}
	}
	v := props.PassV(false, "outcome:"+outcome)
	v.Reason = diag
	return v
}

func firstError(stderr string) (string, bool) {
	for _, l := range strings.Split(stderr, "\n") {
		if strings.HasPrefix(l, "ERROR>>>") {
			return strings.TrimSpace(strings.TrimPrefix(l, "ERROR>>>")), true
		}
	}
	return "", false
}

func clipLines(s string, n int) string {
	l := strings.Split(s, "\n")
	if len(l) > n {
		l = append(l[:n], "...")
	}
	for i, x := range l {
		if len(x) > 400 {
			l[i] = x[:400] + "..."
		}
	}
	return strings.Join(l, "\n")
}

// ------------------------------------------------------ crash signature

const repoMod = "github.com/hknutzen/Netspoc-Approve/go/"

var (
	frameRE    = regexp.MustCompile(`(?m)^(\S.*)\(.*\)\n\t(\S+\.go):(\d+)`)
	receiverRE = regexp.MustCompile(`\(\*?[^)]*\)\.`)
	genericRE  = regexp.MustCompile(`\[\.\.\.\]`)
)

// crashSignature derives "crash:<pkg.func>:<kind>" from the text of a
// panic (value, newline, stack as printed by debug.Stack or by the Go
// runtime): function = innermost frame inside the repository that is not
// the re-panic of errlog.HandleAbort; kind = class of the panic value.
func crashSignature(text string) (sig, topFrame string) {
	fn, top := "unknown", ""
	for _, m := range frameRE.FindAllStringSubmatch(text, -1) {
		name := m[1]
		if !strings.HasPrefix(name, repoMod) {
			continue
		}
		name = strings.TrimPrefix(name, repoMod)
		name = strings.TrimPrefix(name, "pkg/")
		name = strings.TrimPrefix(name, "cmd/")
		if strings.HasPrefix(name, "errlog.HandleAbort") {
			continue
		}
		top = fmt.Sprintf("%s %s:%s", m[1], filepath.Base(m[2]), m[3])
		name = receiverRE.ReplaceAllString(name, "")
		name = genericRE.ReplaceAllString(name, "")
		fn = name
		break
	}
	return "crash:" + fn + ":" + panicKind(text), top
}

func panicKind(text string) string {
	head := text
	if i := strings.Index(head, "\ngoroutine "); i >= 0 {
		head = head[:i]
	}
	switch {
	case strings.Contains(head, "stack overflow") || strings.Contains(head, "stack exceeds"):
		return "stack-overflow"
	case strings.Contains(head, "out of memory"):
		return "out-of-memory"
	case strings.Contains(head, "concurrent map"):
		return "concurrent-map"
	case strings.Contains(head, "slice bounds out of range"):
		return "slice-bounds"
	case strings.Contains(head, "index out of range"):
		return "index-range"
	case strings.Contains(head, "nil pointer dereference"):
		return "nil-deref"
	case strings.Contains(head, "assignment to entry in nil map"):
		return "nil-map"
	case strings.Contains(head, "interface conversion"):
		return "type-assert"
	case strings.Contains(head, "integer divide by zero"):
		return "div-zero"
	case strings.Contains(head, "makeslice") || strings.Contains(head, "len out of range"):
		return "makeslice"
	case strings.Contains(head, "runtime error"):
		return "runtime-error"
	case strings.Contains(head, "Incomplete string"):
		return "incomplete-string"
	}
	return "panic(err)"
}

// ------------------------------------------------- fresh-process re-run

var childRE = regexp.MustCompile(`(?s)REPLAY-FAIL property=\S+ sig=(\S+)\n(.*)`)

// viaChild evaluates the case in a fresh process (the test binary itself
// with -replayfile). confirmHang: the case exceeded the watchdog here.
func viaChild(c *props.Case, confirmHang bool) props.Verdict {
	dir, err := os.MkdirTemp(scratchBase(), "c20child-")
	if err != nil {
		return props.DiscardV("harness:cannot create temp dir")
	}
	defer os.RemoveAll(dir)
	data, _ := json.Marshal(c)
	file := filepath.Join(dir, "case.json")
	os.WriteFile(file, data, 0644)
	// The child gets the default watchdog unless C20_CHILD_WATCHDOG says
	// otherwise (a shortened C20_WATCHDOG of the parent is for self-tests).
	childWD := os.Getenv("C20_CHILD_WATCHDOG")
	wd := watchdogFor(childWD, c.Files)
	ctx, cancel := context.WithTimeout(context.Background(), wd+60*time.Second)
	defer cancel()
	self, err := os.Executable()
	if err != nil {
		return props.DiscardV("harness:cannot find own executable")
	}
	cmd := exec.CommandContext(ctx, self, "-test.run", "^TestReplay$", "-test.v",
		"-test.timeout", "0", "-replayfile", file)
	cmd.Dir = dir
	cmd.Env = append(os.Environ(), "C20_CHILD=1", "C20_WATCHDOG="+childWD, "VERIF_EVID_DIR=")
	var out bytes.Buffer
	cmd.Stdout, cmd.Stderr = &out, &out
	cmd.WaitDelay = 5 * time.Second
	runErr := cmd.Run()
	text := out.String()
	classes := []string{"via-child"}
	if confirmHang {
		classes = append(classes, "watchdog-expired")
	}
	switch {
	case strings.Contains(text, "REPLAY-PASS"):
		if confirmHang {
			classes = append(classes, "slow-not-hang")
		}
		v := props.PassV(false, classes...)
		v.Reason = "via-child"
		return v
	case strings.Contains(text, "REPLAY-FAIL"):
		m := childRE.FindStringSubmatch(text)
		if m == nil {
			return props.DiscardV("harness:unparsable child output")
		}
		return props.FailV(m[1], "%s", "[fresh process] "+clipLines(m[2], 80))
	case ctx.Err() != nil:
		return props.FailV("hang:"+c.Family, "fresh process did not finish within %v", wd+60*time.Second)
	}
	// The child died without a verdict: Go fatal error (stack overflow,
	// out of memory) cannot be recovered in-process.
	if strings.Contains(text, "fatal error:") || strings.Contains(text, "goroutine ") {
		sig, top := crashSignature(text)
		return props.FailV(sig, "fresh process died: %v\ntop repo frame: %s\n%s", runErr, top, clipLines(tail(text, 6000), 80))
	}
	fmt.Fprintf(origStderr, "C20: fresh process gave no verdict (%v):\n%s\n", runErr, tail(text, 2000))
	return props.DiscardV("harness:child without verdict")
}

func tail(s string, n int) string {
	if len(s) > n {
		return s[len(s)-n:]
	}
	return s
}

func scratchBase() string {
	if v := os.Getenv("VERIF_SCRATCH"); v != "" {
		return v
	}
	return os.TempDir()
}

// --------------------------------------------------------------- binaries

var (
	binOnce sync.Once
	binDir  string
	binErr  error
	ownBins string // directory to remove at process end
)

// Binaries builds drc, do-approve and missing-approve once per process
// (or takes them from $VERIF_BIN).
func Binaries() (string, error) {
	binOnce.Do(func() {
		if v := os.Getenv("VERIF_BIN"); v != "" {
			if _, err := os.Stat(filepath.Join(v, "drc")); err == nil {
				binDir = v
				return
			}
		}
		d, err := os.MkdirTemp(scratchBase(), "c20bin-")
		if err != nil {
			binErr = err
			return
		}
		ownBins = d
		for _, c := range []string{"drc", "do-approve", "missing-approve"} {
			cmd := exec.Command("go", "build", "-o", filepath.Join(d, c), "./cmd/"+c)
			cmd.Dir = filepath.Join(props.RepoDir(), "go")
			cmd.Env = append(os.Environ(), "GOFLAGS=-mod=mod", "GOPROXY=off", "GOSUMDB=off", "GOTOOLCHAIN=local")
			if out, err := cmd.CombinedOutput(); err != nil {
				binErr = fmt.Errorf("go build %s: %v\n%s", c, err, out)
				return
			}
		}
		binDir = d
	})
	return binDir, binErr
}

// CleanupProcess removes the scratch data of this process.
func CleanupProcess() {
	if !poisoned.Load() {
		tool.Cleanup()
	}
	if ownBins != "" {
		os.RemoveAll(ownBins)
	}
}

type procResult struct {
	stdout, stderr string
	exit           int
	timedOut       bool
	err            error
}

func runProc(timeout time.Duration, dir string, env []string, bin string, args ...string) procResult {
	ctx, cancel := context.WithTimeout(context.Background(), timeout)
	defer cancel()
	cmd := exec.CommandContext(ctx, bin, args...)
	cmd.Dir = dir
	cmd.Env = env
	var so, se bytes.Buffer
	cmd.Stdout, cmd.Stderr = &so, &se
	cmd.WaitDelay = 2 * time.Second
	err := cmd.Run()
	r := procResult{stdout: so.String(), stderr: se.String()}
	if ctx.Err() != nil {
		r.timedOut = true
		return r
	}
	if err != nil {
		if ee, ok := err.(*exec.ExitError); ok {
			r.exit = ee.ExitCode()
		} else {
			r.err = err
		}
	}
	return r
}

func baseEnv(home string) []string {
	env := []string{"HOME=" + home, "PATH=" + os.Getenv("PATH"), "LANG=C"}
	for _, k := range []string{"GOCOVERDIR", "TMPDIR"} {
		if v := os.Getenv(k); v != "" {
			env = append(env, k+"="+v)
		}
	}
	return env
}

func writeTree(dir string, files tool.Files) error {
	for name, content := range files {
		p := filepath.Join(dir, name)
		if err := os.MkdirAll(filepath.Dir(p), 0755); err != nil {
			return err
		}
		if err := os.WriteFile(p, []byte(content), 0644); err != nil {
			return err
		}
	}
	return nil
}

// binTimeout is the time limit of one subprocess: 20 s, ten times as
// long for the 10 000-line example (see watchdog).
const binTimeout = 20 * time.Second

func binTimeoutFor(files tool.Files) time.Duration {
	n := 0
	for _, v := range files {
		n += len(v)
	}
	if n > 100000 {
		return 10 * binTimeout
	}
	return binTimeout
}

// oracleDrc runs `drc FILE1 FILE2` as a subprocess.
func oracleDrc(c *props.Case) props.Verdict {
	bins, err := Binaries()
	if err != nil {
		return props.DiscardV("harness:binaries unavailable")
	}
	dir, err := os.MkdirTemp(scratchBase(), "c20drc-")
	if err != nil {
		return props.DiscardV("harness:cannot create temp dir")
	}
	defer os.RemoveAll(dir)
	if err := writeTree(dir, decodeFiles(c.Files)); err != nil {
		return props.DiscardV("harness:cannot write files")
	}
	dev, spoc := devSpoc(c)
	limit := binTimeoutFor(c.Files)
	r := runProc(limit, dir, baseEnv(dir), filepath.Join(bins, "drc"), dev, spoc)
	if r.err != nil {
		return props.DiscardV("harness:cannot start drc")
	}
	if r.timedOut {
		return props.FailV("hang:"+c.Family, "drc %s %s did not finish within %v", dev, spoc, limit)
	}
	panicText := ""
	if r.exit == 2 || strings.Contains(r.stderr, "\ngoroutine ") {
		if i := strings.Index(r.stderr, "panic: "); i >= 0 && strings.Contains(r.stderr, "goroutine ") {
			panicText = r.stderr[i:]
		} else if i := strings.Index(r.stderr, "fatal error: "); i >= 0 {
			panicText = r.stderr[i:]
		} else if i := strings.Index(r.stderr, "runtime: goroutine stack exceeds"); i >= 0 {
			panicText = r.stderr[i:]
		}
	}
	v := judgeResult(c, r.exit, r.stderr, panicText)
	v.Classes = append(v.Classes, "arm:drc-binary")
	return v
}

// ------------------------------------------------------------ status arm

// ValidStatus is a status file as do-approve writes it.
const ValidStatus = `{"approve":{"result":"OK","policy":"p1","time":1727626790},"compare":{"result":"UPTODATE","policy":"p1","time":1727626791}}`

// StatusBase is the example the status arm runs on: an ASA whose device
// (served by a SIMULATE_ROUTER command that ends at once) is irrelevant.
func StatusBase() tool.Files {
	return tool.Files{
		"policies/p1/code/router":      "access-list inside_in extended permit ip any4 any4\naccess-group inside_in in interface inside\n",
		"policies/p1/code/router.info": tool.Info("ASA"),
		"policies/p0/code/router":      "access-list inside_in extended deny ip any4 any4\naccess-group inside_in in interface inside\n",
		"policies/p0/code/router.info": tool.Info("ASA"),
		"credentials":                  "* admin secret\n",
	}
}

var forbiddenOut = []string{"panic:", "goroutine ", "fatal error:"}

// oracleStatus runs missing-approve or `do-approve compare router` with
// Files["status"] as status/router (absent key: no status file).
func oracleStatus(c *props.Case) props.Verdict {
	arm := c.Param("arm")
	bins, err := Binaries()
	if err != nil {
		return props.DiscardV("harness:binaries unavailable")
	}
	dir, err := os.MkdirTemp(scratchBase(), "c20st-")
	if err != nil {
		return props.DiscardV("harness:cannot create temp dir")
	}
	defer os.RemoveAll(dir)
	files := tool.Files{}
	for k, v := range decodeFiles(c.Files) {
		if k == "status" {
			files["status/router"] = v
		} else {
			files[k] = v
		}
	}
	files[".netspoc-approve"] = fmt.Sprintf("basedir = %s\ncheckbanner = NetSPoC\nsystemuser = admin\ntimeout = 1\nlogin_timeout = 1\n", dir)
	if err := writeTree(dir, files); err != nil {
		return props.DiscardV("harness:cannot write files")
	}
	for _, d := range []string{"status", "lock", "history"} {
		os.MkdirAll(filepath.Join(dir, d), 0755)
	}
	if err := os.Symlink("p1", filepath.Join(dir, "policies", "current")); err != nil {
		return props.DiscardV("harness:cannot create symlink")
	}
	env := append(baseEnv(dir), "TEST_TIME=2024-Sep-29 16:19:50")
	var r procResult
	switch arm {
	case "missing-approve":
		r = runProc(binTimeout, dir, env, filepath.Join(bins, "missing-approve"))
	case "do-approve":
		// The "device" says nothing and ends: login fails at once.
		env = append(env, "SIMULATE_ROUTER=true")
		r = runProc(binTimeout, dir, env, filepath.Join(bins, "do-approve"), "compare", "router")
	}
	if r.err != nil {
		return props.DiscardV("harness:cannot start " + arm)
	}
	if r.timedOut {
		return props.FailV("hang:"+arm, "%s did not finish within %v", arm, binTimeout)
	}
	all := r.stderr + "\n" + r.stdout
	for _, f := range forbiddenOut {
		if strings.Contains(all, f) {
			i := strings.Index(r.stderr, "panic:")
			if i < 0 {
				i = 0
			}
			sig, top := crashSignature(r.stderr[i:])
			return props.FailV(sig, "%s: runtime panic, exit %d\ntop repo frame: %s\n%s", arm, r.exit, top, clipLines(r.stderr, 60))
		}
	}
	if r.exit != 0 && r.exit != 1 {
		return props.FailV(fmt.Sprintf("exit:%d:%s", r.exit, arm), "%s: exit status %d\n%s", arm, r.exit, clipLines(r.stderr, 40))
	}
	outcome := "accepted"
	diag := "accepted"
	if r.exit == 1 {
		outcome = "rejected"
		// missing-approve and the do-approve front-end say "Error: ...";
		// the compare itself logs ERROR>>> lines which do-approve echoes.
		d := ""
		for _, l := range strings.Split(all, "\n") {
			if strings.HasPrefix(l, "ERROR>>>") || strings.HasPrefix(l, "Error:") {
				d = l
				break
			}
		}
		if d == "" {
			return props.FailV("nodiag:"+arm, "%s: exit status 1 without a diagnostic\nstdout:\n%s\nstderr:\n%s",
				arm, clipLines(r.stdout, 20), clipLines(r.stderr, 20))
		}
		diag = d
		if len(diag) > 40 {
			diag = diag[:40]
		}
	}
	v := props.PassV(false, "outcome:"+outcome, "arm:"+arm)
	v.Reason = diag
	return v
}
