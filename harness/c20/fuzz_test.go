package c20

import (
	"testing"

	"verif/harness/evid"
	"verif/harness/props"
	"verif/harness/tool"
)

// Native coverage-guided fuzzing of the five ParseConfig + GetChanges
// pipelines through device.CompareFiles, with the oracle of TestC20. The
// seed corpus is the set of (device, Netspoc, raw) files of every example
// of the family. Run by hand or by the driver in the thorough tier:
//
//	go test ./c20 -run '^$' -fuzz '^FuzzCompareASA$' -fuzztime 60s
//
// Plain `go test ./c20 -run TestC20` never starts fuzzing; `go test ./c20`
// without -run evaluates the seed corpus once (a few hundred compares).
// Root causes listed in known_findings.json are set aside, as in TestC20.

var fuzzEv = evid.New("C20-fuzz", "native fuzzing; evidence is not collected")

func fuzzFamily(f *testing.F, family, model string) {
	corpus, err := props.LoadCorpus()
	if err != nil {
		f.Fatalf("VERIF-UNHEALTHY cannot load corpus: %v", err)
	}
	for i := range corpus {
		t := &corpus[i]
		if t.Family != family {
			continue
		}
		// The generated 10 000-line example costs a second per run.
		if len(t.Files["code/router"]) > 100000 {
			continue
		}
		f.Add([]byte(t.Files["device"]), []byte(t.Files["code/router"]), []byte(t.Files["code/router.raw"]))
	}
	f.Add([]byte(""), []byte(""), []byte("[APPEND]\n"))
	info := tool.Info(model)
	f.Fuzz(func(t *testing.T, device, code, raw []byte) {
		files := tool.Files{"device": string(device), "code/router": string(code), "code/router.info": info}
		if len(raw) > 0 {
			files["code/router.raw"] = string(raw)
		}
		c := &props.Case{Property: Property, Family: family, Files: encodeFiles(files),
			Params: map[string]string{"dev": "device", "spoc": "code/router"}, Gen: "native fuzzing"}
		v := props.Judge(t, fuzzEv, Oracle, c, nil)
		if v.Status == props.Discard {
			t.Fatalf("VERIF-UNHEALTHY %s", v.Reason)
		}
	})
}

func FuzzCompareASA(f *testing.F)   { fuzzFamily(f, "asa", "ASA") }
func FuzzCompareIOS(f *testing.F)   { fuzzFamily(f, "ios", "IOS") }
func FuzzCompareLinux(f *testing.F) { fuzzFamily(f, "linux", "Linux") }
func FuzzCompareNSX(f *testing.F)   { fuzzFamily(f, "nsx", "NSX") }
func FuzzComparePANOS(f *testing.F) { fuzzFamily(f, "panos", "PAN-OS") }
