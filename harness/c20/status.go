package c20

import "strings"

type statusMut struct {
	kind    string
	content string
	absent  bool
}

// jsonTokens splits a JSON text into lexical tokens (strings, numbers and
// literals, punctuation), keeping white space out.
func jsonTokens(s string) []span {
	var res []span
	i := 0
	for i < len(s) {
		switch c := s[i]; {
		case c == ' ' || c == '\n' || c == '\t' || c == '\r':
			i++
		case c == '"':
			a := i
			i++
			for i < len(s) && s[i] != '"' {
				if s[i] == '\\' {
					i++
				}
				i++
			}
			if i < len(s) {
				i++
			}
			res = append(res, span{a, i})
		case strings.ContainsRune("{}[]:,", rune(c)):
			res = append(res, span{i, i + 1})
			i++
		default:
			a := i
			for i < len(s) && !strings.ContainsRune("{}[]:,\" \n\t\r", rune(s[i])) {
				i++
			}
			res = append(res, span{a, i})
		}
	}
	return res
}

// StatusMutants is the fixed list of status files tried on
// missing-approve and do-approve.
func StatusMutants() []statusMut {
	var res []statusMut
	seen := map[string]bool{}
	add := func(kind, s string) {
		if seen[s] {
			return
		}
		seen[s] = true
		res = append(res, statusMut{kind: kind, content: s})
	}
	res = append(res, statusMut{kind: "absent", absent: true})
	bases := []string{
		ValidStatus,
		// Approved with an older policy, never compared since.
		`{"approve":{"result":"OK","policy":"p0","time":1727626790},"compare":{"result":"DIFF","policy":"p0","time":1727626700}}`,
	}
	for _, b := range bases {
		add("valid", b)
	}
	add("empty", "")
	add("whitespace", " \n\t\n")
	for _, g := range []string{"\x00", "\xff\xfe\xfd", "\x00\xff binary \x01\x02\n\x7f\x80\n", longToken, deepJSON, deepJSON2,
		"\xef\xbb\xbf" + ValidStatus, `"`, "[APPEND]\n", "<APPEND/>\n"} {
		add("garbage", g)
	}
	for _, w := range []string{
		`{"approve":{"result":"OK","policy":"p1","time":"x"},"compare":{"result":"UPTODATE","policy":"p1","time":1727626791}}`,
		`{"approve":{"result":"OK","policy":"p1","time":1e400},"compare":{"result":"UPTODATE","policy":"p1","time":-1}}`,
		`{"approve":{"result":"OK","policy":"p1","time":99999999999999999999999},"compare":null}`,
		`{"approve":{"result":"OK","policy":"p1","time":1.5},"compare":{"result":"UPTODATE","policy":"p1","time":1727626791}}`,
		`{"approve":[[["OK"]]],"compare":[[[]]]}`,
		`{"approve":"OK","compare":7}`,
		`{"approve":{"result":["OK"],"policy":{"a":1},"time":[1]},"compare":{"result":null,"policy":null,"time":null}}`,
		`{"approve":{"result":"OK","policy":"../../..","time":1727626790},"compare":{"result":"DIFF","policy":"","time":0}}`,
		`{"approve":{"result":"OK","policy":"p1/../p0","time":1727626790}}`,
		`{"approve":{"result":"OK","policy":"\u0000","time":1727626790}}`,
		`{"approve":{"result":"OK","policy":"` + strings.Repeat("p", 5000) + `","time":1727626790}}`,
		`{"approve":{"result":"WARNINGS","policy":"p0","time":1727626790}}`,
		`{"compare":{"result":"UPTODATE","policy":"p0","time":1727626790}}`,
		`[` + ValidStatus + `]`,
		`[[1,2],[3]]`,
		`null`, `true`, `0`, `"OK"`, `{}`, `[]`,
		ValidStatus + ValidStatus,
		ValidStatus + "\ngarbage",
	} {
		add("wrong-type", w)
	}
	for _, b := range bases {
		for i := 0; i < len(b); i++ {
			add("trunc-byte", b[:i])
		}
		toks := jsonTokens(b)
		for _, t := range toks {
			add("del-token", b[:t.a]+b[t.b:])
		}
		for _, t := range toks {
			add("dup-token", b[:t.b]+b[t.a:t.b]+b[t.b:])
		}
		for j := 0; j+1 < len(toks); j++ {
			t, u := toks[j], toks[j+1]
			add("swap-token", b[:t.a]+b[u.a:u.b]+b[t.b:u.a]+b[t.a:t.b]+b[u.b:])
		}
	}
	return res
}
