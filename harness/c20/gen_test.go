package c20

import (
	"encoding/json"
	"fmt"
	"regexp"
	"strings"
	"testing"

	"pgregory.net/rapid"

	"verif/harness/evid"
	"verif/harness/props"
)

// Structural mutants of generated inputs. The family of TestC20 mutates
// the repository's examples token by token; what it cannot reach are
// inputs that are well-formed in every line but inconsistent as a whole:
// a definition that is missing while it is still referenced, a definition
// that occurs twice, a definition without body. Such inputs come about by
// a truncated or hand-edited file, and look-ups that "cannot fail" are
// where nil dereferences live.

const ruleC20gen = "device/target pairs drawn from the generators of the five device models (ASA with and without VPN objects, IOS, PAN-OS, NSX, Linux) with one structural mutation of the device file or of the Netspoc file: one definition block (object-group, ACL, crypto map entry, group-policy, ...; XML <entry>; JSON element of groups/services/policies/rules; iptables chain declaration) dropped while references to it stay, duplicated, emptied of its body, or renamed in its header only; oracle as for the token mutants: device.CompareFiles in-process returns exit 0 or 1, on rejection with a diagnostic, no runtime panic, no hang; " +
	"non-trivial = the mutated file differs from the generated one and the tool rejected it or produced a change script; distinct = family, role, kind of mutation and diagnostic"

type block struct{ from, to int } // byte range of one definition

var xmlEntryRe = regexp.MustCompile(`<entry name="[^"]*"[^>]*>`)

// xmlBlocks: every <entry ...>...</entry> element (balanced).
func xmlBlocks(s string) []block {
	var res []block
	for _, loc := range xmlEntryRe.FindAllStringIndex(s, -1) {
		depth, i := 0, loc[0]
		for i < len(s) {
			switch {
			case strings.HasPrefix(s[i:], "<entry "):
				depth++
				i += 7
			case strings.HasPrefix(s[i:], "</entry>"):
				depth--
				i += 8
				if depth == 0 {
					res = append(res, block{loc[0], i})
					i = len(s)
				}
			default:
				i++
			}
		}
	}
	return res
}

// lineBlocks: a line that starts in column 0 together with the indented
// lines that follow it (Cisco), or a single line (iptables, routes).
func lineBlocks(s string) []block {
	var res []block
	pos := 0
	lines := strings.SplitAfter(s, "\n")
	for i := 0; i < len(lines); {
		start := pos
		pos += len(lines[i])
		j := i + 1
		for j < len(lines) && (strings.HasPrefix(lines[j], " ") || strings.HasPrefix(lines[j], "\t")) {
			pos += len(lines[j])
			j++
		}
		if strings.TrimSpace(lines[i]) != "" {
			res = append(res, block{start, pos})
		}
		i = j
	}
	return res
}

// jsonMutate applies the mutation to one element of one array of an NSX
// file; returns "" if there is nothing to mutate.
func jsonMutate(rt *rapid.T, s, kind string) string {
	var doc map[string]any
	if json.Unmarshal([]byte(s), &doc) != nil {
		return ""
	}
	type site struct {
		holder map[string]any
		key    string
	}
	var sites []site
	var walk func(v any)
	walk = func(v any) {
		switch x := v.(type) {
		case map[string]any:
			for _, k := range sortedKeys(x) {
				if l, ok := x[k].([]any); ok && len(l) > 0 {
					if _, isObj := l[0].(map[string]any); isObj {
						sites = append(sites, site{x, k})
					}
				}
				walk(x[k])
			}
		case []any:
			for _, e := range x {
				walk(e)
			}
		}
	}
	walk(doc)
	if len(sites) == 0 {
		return ""
	}
	st := sites[rapid.IntRange(0, len(sites)-1).Draw(rt, "jsonSite")]
	l := st.holder[st.key].([]any)
	i := rapid.IntRange(0, len(l)-1).Draw(rt, "jsonElem")
	switch kind {
	case "drop":
		st.holder[st.key] = append(append([]any{}, l[:i]...), l[i+1:]...)
	case "duplicate":
		st.holder[st.key] = append(append([]any{}, l[:i+1]...), l[i:]...)
	case "empty":
		if m, ok := l[i].(map[string]any); ok {
			keep := map[string]any{}
			for _, k := range []string{"id", "display_name"} {
				if v, ok := m[k]; ok {
					keep[k] = v
				}
			}
			l[i] = keep
		}
	case "rename":
		if m, ok := l[i].(map[string]any); ok {
			if id, ok := m["id"].(string); ok {
				m["id"] = id + "x"
			}
		}
	}
	out, err := json.MarshalIndent(doc, "", " ")
	if err != nil {
		return ""
	}
	return string(out) + "\n"
}

var nameInHeader = regexp.MustCompile(`(name="[^"]*|\S+)\s*$`)

// isGroupDef: the block defines a group of objects that rules refer to by
// name (the definitions whose loss leaves dangling references inside
// otherwise intact rules).
func isGroupDef(s string, b block) bool {
	body := s[b.from:b.to]
	if strings.HasPrefix(body, "<entry") {
		last, which := -1, ""
		for _, tag := range []string{"<rules>", "<address-group>", "<address>", "<service-group>", "<service>", "<vsys>"} {
			if i := strings.LastIndex(s[:b.from], tag); i > last {
				last, which = i, tag
			}
		}
		return which == "<address-group>" || which == "<service-group>"
	}
	return strings.HasPrefix(body, "object-group ") || strings.HasPrefix(body, ":")
}

func textMutate(rt *rapid.T, s, kind string, blocks []block) string {
	if len(blocks) == 0 {
		return ""
	}
	// every second time one of the group definitions, if there is any
	if rapid.Bool().Draw(rt, "preferGroup") {
		var g []block
		for _, b := range blocks {
			if isGroupDef(s, b) {
				g = append(g, b)
			}
		}
		if len(g) > 0 {
			blocks = g
		}
	}
	b := blocks[rapid.IntRange(0, len(blocks)-1).Draw(rt, "block")]
	body := s[b.from:b.to]
	switch kind {
	case "drop":
		return s[:b.from] + s[b.to:]
	case "duplicate":
		return s[:b.to] + body + s[b.to:]
	case "empty":
		if strings.HasPrefix(body, "<entry") {
			end := strings.Index(body, ">")
			return s[:b.from] + body[:end+1] + "</entry>" + s[b.to:]
		}
		if i := strings.Index(body, "\n"); i >= 0 && i+1 < len(body) {
			return s[:b.from] + body[:i+1] + s[b.to:]
		}
		return ""
	case "rename":
		if strings.HasPrefix(body, "<entry") {
			end := strings.Index(body, `"`) + 1
			q := strings.Index(body[end:], `"`)
			return s[:b.from] + body[:end+q] + "x" + body[end+q:] + s[b.to:]
		}
		i := strings.Index(body, "\n")
		if i < 0 {
			i = len(body)
		}
		head := strings.TrimRight(body[:i], " ")
		return s[:b.from] + head + "x" + body[len(head):] + s[b.to:]
	}
	return ""
}

func TestC20gen(t *testing.T) {
	ev := evid.New(Property, ruleC20gen)
	props.Finish(t, ev)
	rapid.Check(t, func(rt *rapid.T) {
		fam := rapid.SampledFrom([]string{"asa", "asa-vpn", "ios", "panos", "panos", "nsx", "linux"}).Draw(rt, "family")
		c := props.GenCase(rt, fam, Property)
		if fam == "asa-vpn" {
			c.Family = "asa"
		}
		roles := []string{"device"}
		for _, n := range sortedKeys(c.Files) {
			if strings.HasPrefix(n, "code/") && !strings.HasSuffix(n, ".info") {
				roles = append(roles, n)
			}
		}
		role := rapid.SampledFrom(roles).Draw(rt, "role")
		kind := rapid.SampledFrom([]string{"drop", "drop", "duplicate", "empty", "rename"}).Draw(rt, "kind")
		orig := c.Files[role]
		var mutated string
		switch {
		case strings.HasPrefix(strings.TrimSpace(orig), "{"):
			mutated = jsonMutate(rt, orig, kind)
		case strings.HasPrefix(strings.TrimSpace(orig), "<"):
			mutated = textMutate(rt, orig, kind, xmlBlocks(orig))
		default:
			mutated = textMutate(rt, orig, kind, lineBlocks(orig))
		}
		if mutated == "" || mutated == orig {
			rt.Skip("nothing to mutate")
		}
		c.Files[role] = mutated
		c.Files = encodeFiles(c.Files)
		c.Params = map[string]string{"dev": "device", "spoc": "code/router"}
		c.Gen = fmt.Sprintf("generated %s pair (%s), %s: one definition %s", fam, c.Gen, role, kind)
		v := props.Judge(rt, ev, Oracle, c, nil)
		r := "device"
		if role != "device" {
			r = "netspoc"
		}
		ev.Class("gen:" + fam + ":" + r + ":" + kind)
		if v.Status == props.Pass {
			ev.NonTrivial(strings.Join([]string{"gen", fam, r, kind, v.Reason}, "\x00"), func() any {
				return map[string]any{"generator_note": c.Gen, "diagnostic": v.Reason, "files": clipFiles(c.Files)}
			})
		}
	})
}
