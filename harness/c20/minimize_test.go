package c20

import (
	"encoding/json"
	"os"
	"sort"
	"strings"
	"testing"

	"verif/harness/props"
	"verif/harness/tool"
)

// TestMinimize is a development aid (skipped unless C20_MINIMIZE names a
// saved case): it shrinks the case greedily - drop optional files, then
// lines, then tokens - while the oracle keeps reporting the same
// signature, and writes the result to $C20_MINIMIZE_OUT.
func TestMinimize(t *testing.T) {
	in := os.Getenv("C20_MINIMIZE")
	if in == "" {
		t.Skip("C20_MINIMIZE not set")
	}
	data, err := os.ReadFile(in)
	if err != nil {
		t.Fatal(err)
	}
	var c props.Case
	if err := json.Unmarshal(data, &c); err != nil {
		t.Fatal(err)
	}
	v := Oracle(&c)
	if v.Status != props.Fail {
		t.Fatalf("case does not fail")
	}
	sig := v.Sig
	still := func(files tool.Files) bool {
		cc := c
		cc.Files = files
		w := Oracle(&cc)
		return w.Status == props.Fail && w.Sig == sig
	}
	clone := func(f tool.Files) tool.Files {
		r := tool.Files{}
		for k, v := range f {
			r[k] = v
		}
		return r
	}
	names := func(f tool.Files) []string {
		var l []string
		for k := range f {
			l = append(l, k)
		}
		sort.Strings(l)
		return l
	}
	files := clone(c.Files)
	for changed := true; changed; {
		changed = false
		// Whole files.
		for _, n := range names(files) {
			if n == c.Param("dev") || n == c.Param("spoc") || strings.HasSuffix(n, ".info") {
				continue
			}
			f := clone(files)
			delete(f, n)
			if still(f) {
				files, changed = f, true
			}
		}
		// Lines, then tokens.
		for _, n := range names(files) {
			lines := strings.Split(files[n], "\n")
			for chunk := len(lines) / 2; chunk >= 1; chunk /= 2 {
				for i := 0; i+chunk <= len(lines); {
					l := append(append([]string{}, lines[:i]...), lines[i+chunk:]...)
					f := clone(files)
					f[n] = strings.Join(l, "\n")
					if still(f) {
						lines, files, changed = l, f, true
					} else {
						i += chunk
					}
				}
			}
			for li := 0; li < len(lines); li++ {
				for j := 0; ; j++ {
					sp := tokenSpans(lines[li])
					if j >= len(sp) || len(sp) < 2 {
						break
					}
					var s string
					if j+1 < len(sp) {
						s = lines[li][:sp[j].a] + lines[li][sp[j+1].a:]
					} else {
						s = lines[li][:sp[j-1].b]
					}
					l := append([]string{}, lines...)
					l[li] = s
					f := clone(files)
					f[n] = strings.Join(l, "\n")
					if still(f) {
						lines, files, changed = l, f, true
						j--
					}
				}
			}
		}
	}
	c.Files = files
	v = Oracle(&c)
	c.Sig, c.Msg = v.Sig, v.Msg
	c.Gen = "minimised from: " + c.Gen
	out, _ := json.MarshalIndent(&c, "", " ")
	if p := os.Getenv("C20_MINIMIZE_OUT"); p != "" {
		if err := os.WriteFile(p, out, 0644); err != nil {
			t.Fatal(err)
		}
	}
	t.Logf("minimised %s:\n%s", sig, out)
}
