// Package c20 decides property C20 ("malformed input ends in a
// diagnostic") on a finite, deterministically enumerated family of mutants
// of the repository's own example configurations.
package c20

import (
	"sort"
	"strings"

	"verif/harness/props"
	"verif/harness/tool"
)

// Roles of the files of one example.
const (
	RoleDevice = "device"
	RoleCode   = "code"
	RoleIPv6   = "ipv6"
	RoleRaw    = "raw"
	RoleInfo   = "info"
)

var roleOrder = []string{RoleDevice, RoleCode, RoleIPv6, RoleRaw, RoleInfo}

// roleFile gives the file name of a role inside a Triple ("" if absent).
func roleFile(files tool.Files, role string) string {
	has := func(n string) string {
		if _, ok := files[n]; ok {
			return n
		}
		return ""
	}
	switch role {
	case RoleDevice:
		return has("device")
	case RoleCode:
		return has("code/router")
	case RoleIPv6:
		return has("code/ipv6/router")
	case RoleRaw:
		return has("code/router.raw")
	case RoleInfo:
		if n := has("code/router.info"); n != "" {
			return n
		}
		return has("code/ipv6/router.info")
	}
	return ""
}

// swappedFile is the name under which the mutated file is placed to reach
// the OTHER argument position of `drc FILE1 FILE2`: FILE1 ("device") is
// read with the same loader as FILE2, including its ipv6/ and .raw
// companions, so every Netspoc-side file has a FILE1-side twin and the
// device file has a FILE2-side twin.
func swappedFile(role string) string {
	switch role {
	case RoleDevice:
		return "code/router"
	case RoleCode:
		return "device"
	case RoleIPv6:
		return "ipv6/device"
	case RoleRaw:
		return "device.raw"
	}
	return ""
}

// Mutant is one member of the family, described lazily: Content() builds
// the mutated file, Files() the complete input set.
type Mutant struct {
	Index   int64
	TripleI int
	Triple  *props.Triple
	Role    string
	Kind    string
	Pos     string // "std": file at its own place; "swapped": other argument position
	Line    int    // 1-based line of the mutated file, 0 for whole-file mutants

	whole   bool
	content string   // whole-file mutants
	lines   []string // the original lines (shared)
	repl    []string // replacement of lines[Line-1]
	pre     []string // lines put in front of the file
	post    []string // lines appended to the file
	cutTail bool     // drop everything behind the replacement (file truncated)
}

// Content is the mutated file.
func (m *Mutant) Content() string {
	if m.whole {
		return m.content
	}
	var b strings.Builder
	wr := func(l []string) {
		for _, s := range l {
			b.WriteString(s)
			b.WriteByte('\n')
		}
	}
	wr(m.pre)
	i := m.Line - 1
	wr(m.lines[:i])
	if m.cutTail {
		// No newline behind the cut.
		b.WriteString(strings.Join(m.repl, "\n"))
		return b.String()
	}
	wr(m.repl)
	wr(m.lines[i+1:])
	wr(m.post)
	return b.String()
}

// Files is the otherwise unchanged example with the mutated file.
func (m *Mutant) Files() tool.Files {
	res := make(tool.Files, len(m.Triple.Files)+1)
	for k, v := range m.Triple.Files {
		res[k] = v
	}
	name := roleFile(m.Triple.Files, m.Role)
	if m.Pos == "swapped" {
		name = swappedFile(m.Role)
	}
	res[name] = m.Content()
	return res
}

// ---------------------------------------------------------------- lines

type span struct{ a, b int }

func tokenSpans(s string) []span {
	var res []span
	i := 0
	for i < len(s) {
		for i < len(s) && (s[i] == ' ' || s[i] == '\t' || s[i] == '\r') {
			i++
		}
		if i >= len(s) {
			break
		}
		a := i
		for i < len(s) && !(s[i] == ' ' || s[i] == '\t' || s[i] == '\r') {
			i++
		}
		res = append(res, span{a, i})
	}
	return res
}

type lineMut struct {
	kind      string
	repl      []string
	pre, post []string
	cutTail   bool
}

// lineMutants lists the mutants of one line in a fixed order; mutants
// equal to the original line and repeated results are dropped.
func lineMutants(l string) []lineMut {
	sp := tokenSpans(l)
	n := len(sp)
	if n == 0 {
		return nil
	}
	var res []lineMut
	seen := map[string]bool{"R\x00" + l: true}
	add := func(m lineMut) {
		k := "R\x00" + strings.Join(m.repl, "\n")
		if m.repl == nil {
			k = "D"
		}
		if m.cutTail {
			k = "C" + k
		}
		if m.pre != nil || m.post != nil {
			k += "\x01" + strings.Join(m.pre, "\n") + "\x01" + strings.Join(m.post, "\n")
		}
		if seen[k] {
			return
		}
		seen[k] = true
		res = append(res, m)
	}
	one := func(kind, s string) { add(lineMut{kind: kind, repl: []string{s}}) }
	tok := func(i int) string { return l[sp[i].a:sp[i].b] }

	// Word-prefix truncations of the line: 0 .. n-1 words are left.
	add(lineMut{kind: "trunc-line"}) // nothing left: line removed
	for k := 1; k < n; k++ {
		one("trunc-line", l[:sp[k-1].b])
	}
	// The same cuts applied to the file: everything behind is lost.
	for k := 1; k <= n; k++ {
		add(lineMut{kind: "trunc-file", repl: []string{l[:sp[k-1].b]}, cutTail: true})
	}
	// Deletion of one token.
	for j := 0; j < n; j++ {
		if n == 1 {
			break // same as line removed
		}
		var s string
		if j+1 < n {
			s = l[:sp[j].a] + l[sp[j+1].a:]
		} else {
			s = l[:sp[j-1].b]
		}
		one("del-token", s)
	}
	// Duplication of one token.
	for j := 0; j < n; j++ {
		one("dup-token", l[:sp[j].b]+" "+tok(j)+l[sp[j].b:])
	}
	// Swap of adjacent tokens.
	for j := 0; j+1 < n; j++ {
		one("swap-token", l[:sp[j].a]+tok(j+1)+l[sp[j].b:sp[j+1].a]+tok(j)+l[sp[j+1].b:])
	}
	// Unterminated double quote in front of one token.
	for j := 0; j < n; j++ {
		one("quote-token", l[:sp[j].a]+`"`+l[sp[j].a:])
	}
	// Indentation.
	one("indent+1", " "+l)
	if sp[0].a > 0 {
		one("indent-1", l[1:])
		one("indent-removed", l[sp[0].a:])
	}
	// Line duplicated.
	add(lineMut{kind: "dup-line", repl: []string{l, l}})
	// Indented line moved to top level (front and end of the file).
	if sp[0].a > 0 {
		add(lineMut{kind: "move-toplevel", pre: []string{l[sp[0].a:]}})
		add(lineMut{kind: "move-toplevel", post: []string{l[sp[0].a:]}})
	}
	return res
}

// --------------------------------------------------------- whole files

type fileMut struct {
	kind    string
	content string
}

var (
	longToken = strings.Repeat("A", 200000) + "\n"
	longLine  = strings.Repeat("permit ", 30000) + "\n"
	deepJSON  = strings.Repeat("[", 100000)
	deepJSON2 = strings.Repeat(`{"a":`, 100000)
	deepXML   = strings.Repeat("<a>", 100000)
)

func isStructured(s string) bool {
	t := strings.TrimLeft(s, " \t\r\n")
	if t == "" {
		return false
	}
	switch t[0] {
	case '<', '{':
		return true
	case '[':
		return !strings.HasPrefix(t, "[APPEND]")
	}
	return false
}

// fileMutants lists the whole-file mutants of one file in a fixed order.
func fileMutants(orig string) []fileMut {
	var res []fileMut
	// Fixed contents: distinct from each other by construction.
	fixed := func(kind, s string) {
		if s != orig {
			res = append(res, fileMut{kind, s})
		}
	}
	// Contents derived from the original: may coincide.
	seen := map[string]bool{orig: true}
	add := func(kind, s string) {
		if seen[s] {
			return
		}
		seen[s] = true
		res = append(res, fileMut{kind, s})
	}
	fixed("empty", "")
	fixed("whitespace", " \n\t \n   \n")
	fixed("whitespace", "\n")
	fixed("garbage", "\x00")
	fixed("garbage", "\xff\xfe\xfd")
	fixed("garbage", "\x00\xff binary \x01\x02\n\x7f\x80\n")
	fixed("garbage", longToken)
	fixed("garbage", longLine)
	fixed("garbage", deepJSON)
	fixed("garbage", deepJSON2)
	fixed("garbage", deepXML)
	fixed("lone-append", "[APPEND]\n")
	fixed("lone-append", "[APPEND]")
	fixed("lone-append", "<APPEND/>\n")
	fixed("unterminated-quote", `"`)
	fixed("unterminated-quote", "\"abc def\n")
	if orig != "" {
		add("garbage", "\xef\xbb\xbf"+orig) // byte order mark
		add("garbage", strings.ReplaceAll(orig, " ", "\x00"))
		add("garbage", strings.ReplaceAll(orig, "\n", "\r\n"))
		add("lone-append", "[APPEND]\n"+orig)
		add("lone-append", orig+"[APPEND]\n")
		add("lone-append", "<APPEND/>\n"+orig)
		add("unterminated-quote", orig+"\"unterminated\n")
		add("unterminated-quote", "\""+orig)
	}
	if isStructured(orig) {
		for i := 0; i+1 < len(orig); i++ {
			switch orig[i] {
			case '>', ',', '{', '[':
				res = append(res, fileMut{"trunc-struct", orig[:i+1]})
			}
		}
	}
	return res
}

// ----------------------------------------------------------- enumeration

// positions of a role.
func positions(role string) []string {
	if role == RoleInfo {
		return []string{"std"}
	}
	return []string{"std", "swapped"}
}

// Enumerate walks the whole family in a fixed order and calls yield for
// every member whose index is selected. Only selected members cause any
// allocation beyond the per-line mutant list. Returns the family size.
// yield returning false stops the walk.
func Enumerate(corpus []props.Triple, selected func(idx int64) bool, yield func(m *Mutant) bool) int64 {
	var idx int64
	for ti := range corpus {
		t := &corpus[ti]
		for _, role := range roleOrder {
			name := roleFile(t.Files, role)
			if name == "" {
				continue
			}
			orig := t.Files[name]
			pos := positions(role)
			emit := func(m Mutant) bool {
				for _, p := range pos {
					if selected == nil || selected(idx) {
						mm := m
						mm.Index, mm.TripleI, mm.Triple, mm.Role, mm.Pos = idx, ti, t, role, p
						if !yield(&mm) {
							return false
						}
					}
					idx++
				}
				return true
			}
			lines := splitLines(orig)
			keep := representativeLines(lines)
			for li, l := range lines {
				if keep != nil && !keep[li] {
					continue
				}
				for _, lm := range lineMutants(l) {
					if !emit(Mutant{Kind: lm.kind, Line: li + 1, lines: lines,
						repl: lm.repl, pre: lm.pre, post: lm.post, cutTail: lm.cutTail}) {
						return idx
					}
				}
			}
			for _, fm := range fileMutants(orig) {
				if !emit(Mutant{Kind: fm.kind, whole: true, content: fm.content}) {
					return idx
				}
			}
		}
	}
	return idx
}

// LongFile is the number of lines above which a file is reduced to
// representative lines. One example of the repository (ios_long-acl.t) is
// a generated ACL of 10 000 lines that differ only in a port number; one
// compare of it costs about one second and 0.8 GB, so that its 900 000
// line mutants cannot be enumerated. In such a file every run of
// consecutive lines that are equal up to digits is represented by its
// first two and its last two lines.
const LongFile = 1000

func lineShape(l string) string {
	b := make([]byte, 0, len(l))
	for i := 0; i < len(l); i++ {
		c := l[i]
		if c >= '0' && c <= '9' {
			if n := len(b); n > 0 && b[n-1] == '#' {
				continue
			}
			c = '#'
		}
		b = append(b, c)
	}
	return string(b)
}

// representativeLines returns nil (all lines) for ordinary files.
func representativeLines(lines []string) []bool {
	if len(lines) <= LongFile {
		return nil
	}
	keep := make([]bool, len(lines))
	start := 0
	for i := 1; i <= len(lines); i++ {
		if i < len(lines) && lineShape(lines[i]) == lineShape(lines[start]) {
			continue
		}
		// run is lines[start:i]
		for j := start; j < i; j++ {
			if j-start < 2 || i-j <= 2 {
				keep[j] = true
			}
		}
		start = i
	}
	return keep
}

func splitLines(s string) []string {
	if s == "" {
		return nil
	}
	l := strings.Split(s, "\n")
	if l[len(l)-1] == "" {
		l = l[:len(l)-1]
	}
	return l
}

// FamilySizes counts the family per "family/role".
func FamilySizes(corpus []props.Triple) (total int64, per map[string]int64) {
	per = map[string]int64{}
	total = Enumerate(corpus, nil, func(m *Mutant) bool {
		per[m.Triple.Family+"/"+m.Role]++
		return true
	})
	return
}

func sortedKeys[V any](m map[string]V) []string {
	l := make([]string, 0, len(m))
	for k := range m {
		l = append(l, k)
	}
	sort.Strings(l)
	return l
}
