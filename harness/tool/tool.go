// Package tool adapts the code under test (Netspoc-Approve, compiled from
// the repo's working tree through the module replace) to the harness.
package tool

import (
	"fmt"
	"io"
	"net/url"
	"os"
	"path/filepath"
	"runtime/debug"
	"sort"
	"strings"
	"sync"

	"github.com/hknutzen/Netspoc-Approve/go/pkg/device"
)

// Files is a set of input files, keyed by path relative to the case dir.
// Conventional keys: "device", "code/router", "code/ipv6/router",
// "code/router.raw", "code/router.info", "code/ipv6/router.info".
type Files map[string]string

type Result struct {
	Stdout string
	Stderr string
	Exit   int
	Panic  string // non-empty if a non-bailout panic escaped
}

func (r Result) Crashed() bool { return r.Panic != "" }

var (
	mu      sync.Mutex
	workDir string
	outF    *os.File
	errF    *os.File
)

func setup() {
	if workDir != "" {
		return
	}
	base := os.Getenv("VERIF_SCRATCH")
	if base == "" {
		base = os.TempDir()
	}
	d, err := os.MkdirTemp(base, "vcase-")
	if err != nil {
		panic(err)
	}
	workDir = d
	outF, err = os.Create(filepath.Join(d, ".stdout"))
	if err != nil {
		panic(err)
	}
	errF, err = os.Create(filepath.Join(d, ".stderr"))
	if err != nil {
		panic(err)
	}
}

// Cleanup removes the per-process scratch directory.
func Cleanup() {
	mu.Lock()
	defer mu.Unlock()
	if workDir != "" {
		outF.Close()
		errF.Close()
		os.RemoveAll(workDir)
		workDir = ""
	}
}

func Info(model string) string {
	return fmt.Sprintf("{\"model\": %q, \"name_list\": [\"router\"], \"ip_list\": [\"10.1.13.33\"]}\n", model)
}

func writeFiles(dir string, files Files) {
	os.RemoveAll(dir)
	for name, content := range files {
		p := filepath.Join(dir, name)
		os.MkdirAll(filepath.Dir(p), 0755)
		if err := os.WriteFile(p, []byte(content), 0644); err != nil {
			panic(err)
		}
	}
}

func readBack(f *os.File) string {
	f.Seek(0, io.SeekStart)
	b, _ := io.ReadAll(f)
	return string(b)
}

// Compare runs the function behind `drc FILE1 FILE2` in-process on the
// given files: file1 is files[dev], file2 is files[spoc] with its
// ipv6/raw/info companions. Output is captured.
func Compare(files Files, dev, spoc string) Result {
	mu.Lock()
	defer mu.Unlock()
	setup()
	dir := filepath.Join(workDir, "c")
	writeFiles(dir, files)
	outF.Truncate(0)
	outF.Seek(0, io.SeekStart)
	errF.Truncate(0)
	errF.Seek(0, io.SeekStart)
	oldOut, oldErr := os.Stdout, os.Stderr
	os.Stdout, os.Stderr = outF, errF
	var res Result
	func() {
		defer func() {
			if e := recover(); e != nil {
				res.Panic = fmt.Sprintf("%v\n%s", e, debug.Stack())
				res.Exit = 2
			}
		}()
		res.Exit = device.CompareFiles(
			filepath.Join(dir, dev), filepath.Join(dir, spoc), false)
	}()
	os.Stdout, os.Stderr = oldOut, oldErr
	res.Stdout = readBack(outF)
	res.Stderr = strings.ReplaceAll(readBack(errF), dir+"/", "")
	return res
}

// CompareStd runs Compare with the conventional names.
func CompareStd(files Files) Result {
	return Compare(files, "device", "code/router")
}

// Changed reports whether stderr carries the "device changed" marker.
func (r Result) Changed() bool {
	return strings.Contains(r.Stderr, "comp: *** device changed ***")
}
func (r Result) Unchanged() bool {
	return strings.Contains(r.Stderr, "comp: device unchanged")
}

// CiscoScript splits stdout of an ASA/IOS/Linux compare into steps. A step
// holds one command, or two for a joined line ("a\N b").
func CiscoScript(stdout string) [][]string {
	var steps [][]string
	for _, line := range strings.Split(stdout, "\n") {
		if line == "" {
			continue
		}
		parts := strings.Split(line, "\\N ")
		steps = append(steps, parts)
	}
	return steps
}

// HTTPCmd is one PAN-OS API command as printed by drc.
type PanCmd struct {
	Action  string
	Type    string
	XPath   string
	Element string
	Where   string
	Dst     string
	Raw     string
}

// PanScript parses stdout of a PAN-OS compare.
func PanScript(stdout string) ([]PanCmd, error) {
	var res []PanCmd
	for _, line := range strings.Split(stdout, "\n") {
		if line == "" {
			continue
		}
		c := PanCmd{Raw: line}
		// element may contain '&' only URL-escaped; printed form is the
		// query-unescaped text, so split carefully on known keys.
		rest := line
		keys := []string{"action=", "type=", "xpath=", "element=", "where=", "dst="}
		type kv struct {
			k   string
			pos int
		}
		var found []kv
		for _, k := range keys {
			idx := 0
			for {
				i := strings.Index(rest[idx:], k)
				if i < 0 {
					break
				}
				p := idx + i
				if p == 0 || rest[p-1] == '&' {
					found = append(found, kv{k, p})
					break
				}
				idx = p + 1
			}
		}
		sort.Slice(found, func(i, j int) bool { return found[i].pos < found[j].pos })
		for i, f := range found {
			end := len(rest)
			if i+1 < len(found) {
				end = found[i+1].pos - 1
			}
			v := rest[f.pos+len(f.k) : end]
			switch f.k {
			case "action=":
				c.Action = v
			case "type=":
				c.Type = v
			case "xpath=":
				c.XPath = v
			case "element=":
				c.Element = v
			case "where=":
				c.Where = v
			case "dst=":
				c.Dst = v
			}
		}
		if c.Action == "" {
			return nil, fmt.Errorf("cannot parse PAN-OS command %q", line)
		}
		res = append(res, c)
	}
	return res, nil
}

var _ = url.QueryUnescape
