package linuxm

import (
	"fmt"
	"net/netip"
	"sort"
	"strconv"
	"strings"
)

// ---------------------------------------------------------------- abstract

type AddrM struct {
	P   netip.Prefix
	Neg bool
}
type StrM struct {
	V   string
	Neg bool
}
type ProtoM struct {
	Num int
	Neg bool
}
type PortM struct {
	Lo, Hi int
	Neg    bool
}

// MarkV is the effect of the MARK target in its general (xmark) form:
// mark = (mark AND NOT Mask) XOR Val.
type MarkV struct{ Val, Mask uint32 }

// Rule is one iptables rule, independent of any spelling.
type Rule struct {
	Src, Dst     *AddrM
	In, Out      *StrM
	Proto        *ProtoM
	SPort, DPort *PortM
	ICMP         *StrM    // "type" or "type/code", numeric
	Syn          int      // 0 none, +1 --syn, -1 ! --syn
	State        []string // sorted set of connection states
	Jump, Goto   string
	LogLevel     int // -1 none
	LogPrefix    string // --log-prefix of the LOG target, without quotes
	SetMark      *MarkV
	ToSource     string
	ToDest       string
	RejectWith   string

	// StateFirst: the state match was loaded before the protocol's own
	// match (tcp, udp, icmp), as in "-p tcp -m state --state NEW --dport 22"
	// where the tcp match is only loaded when --dport is read. It has no
	// influence on what the rule matches (not part of Canon), but
	// iptables-save prints the matches in the order they were loaded.
	StateFirst bool

	// Raw holds, per canonical option name, the text as it was written
	// (negation position and arguments). Only used to measure how much two
	// spellings of one rule differ; not part of the rule.
	Raw map[string]string
}

func (r *Rule) Clone() *Rule {
	n := *r
	cp := func(p *AddrM) *AddrM {
		if p == nil {
			return nil
		}
		x := *p
		return &x
	}
	cs := func(p *StrM) *StrM {
		if p == nil {
			return nil
		}
		x := *p
		return &x
	}
	cpo := func(p *PortM) *PortM {
		if p == nil {
			return nil
		}
		x := *p
		return &x
	}
	n.Src, n.Dst = cp(r.Src), cp(r.Dst)
	n.In, n.Out, n.ICMP = cs(r.In), cs(r.Out), cs(r.ICMP)
	n.SPort, n.DPort = cpo(r.SPort), cpo(r.DPort)
	if r.Proto != nil {
		x := *r.Proto
		n.Proto = &x
	}
	if r.SetMark != nil {
		x := *r.SetMark
		n.SetMark = &x
	}
	n.State = append([]string(nil), r.State...)
	n.Raw = nil
	return &n
}

func negs(b bool) string {
	if b {
		return "!"
	}
	return ""
}

// Canon is the spelling-independent text of the rule.
func (r *Rule) Canon() string {
	var l []string
	add := func(k, v string) { l = append(l, k+"="+v) }
	if r.Src != nil {
		add("src", negs(r.Src.Neg)+r.Src.P.String())
	}
	if r.Dst != nil {
		add("dst", negs(r.Dst.Neg)+r.Dst.P.String())
	}
	if r.In != nil {
		add("in", negs(r.In.Neg)+r.In.V)
	}
	if r.Out != nil {
		add("out", negs(r.Out.Neg)+r.Out.V)
	}
	if r.Proto != nil {
		add("proto", negs(r.Proto.Neg)+itoa(r.Proto.Num))
	}
	if r.SPort != nil {
		add("sport", fmt.Sprintf("%s%d-%d", negs(r.SPort.Neg), r.SPort.Lo, r.SPort.Hi))
	}
	if r.DPort != nil {
		add("dport", fmt.Sprintf("%s%d-%d", negs(r.DPort.Neg), r.DPort.Lo, r.DPort.Hi))
	}
	if r.ICMP != nil {
		add("icmp", negs(r.ICMP.Neg)+r.ICMP.V)
	}
	if r.Syn != 0 {
		add("syn", itoa(r.Syn))
	}
	if len(r.State) > 0 {
		add("state", strings.Join(r.State, ","))
	}
	if r.Jump != "" {
		add("jump", r.Jump)
	}
	if r.Goto != "" {
		add("goto", r.Goto)
	}
	if r.LogLevel >= 0 {
		add("loglevel", itoa(r.LogLevel))
	}
	if r.LogPrefix != "" {
		add("logprefix", r.LogPrefix)
	}
	if r.SetMark != nil {
		add("mark", fmt.Sprintf("%#x/%#x", r.SetMark.Val, r.SetMark.Mask))
	}
	if r.ToSource != "" {
		add("to-source", r.ToSource)
	}
	if r.ToDest != "" {
		add("to-destination", r.ToDest)
	}
	if r.RejectWith != "" {
		add("reject-with", r.RejectWith)
	}
	return strings.Join(l, " ")
}

type Chain struct {
	Name   string
	Policy string // "ACCEPT", "DROP" for built-in chains, "-" for user chains
	Rules  []*Rule
}

func (c *Chain) Builtin() bool { return c.Policy != "-" }

type Table struct {
	Name   string
	Chains []*Chain
}

func (t *Table) Chain(name string) *Chain {
	for _, c := range t.Chains {
		if c.Name == name {
			return c
		}
	}
	return nil
}

// Ruleset is the whole iptables state (nil or empty = no table loaded).
type Ruleset struct {
	Tables []*Table
}

func (rs *Ruleset) Table(name string) *Table {
	if rs == nil {
		return nil
	}
	for _, t := range rs.Tables {
		if t.Name == name {
			return t
		}
	}
	return nil
}

func (rs *Ruleset) Clone() *Ruleset {
	n := &Ruleset{}
	if rs == nil {
		return n
	}
	for _, t := range rs.Tables {
		nt := &Table{Name: t.Name}
		for _, c := range t.Chains {
			nc := &Chain{Name: c.Name, Policy: c.Policy}
			for _, r := range c.Rules {
				nc.Rules = append(nc.Rules, r.Clone())
			}
			nt.Chains = append(nt.Chains, nc)
		}
		n.Tables = append(n.Tables, nt)
	}
	return n
}

// Canon: tables, chains, policies and ordered rules; order of tables and
// of chain declarations is immaterial.
func (rs *Ruleset) Canon() string {
	if rs == nil {
		return ""
	}
	var tl []string
	for _, t := range rs.Tables {
		var cl []string
		for _, c := range t.Chains {
			s := "  chain " + c.Name + " policy " + c.Policy + "\n"
			for i, r := range c.Rules {
				s += fmt.Sprintf("    %d: %s\n", i, r.Canon())
			}
			cl = append(cl, s)
		}
		sort.Strings(cl)
		tl = append(tl, "table "+t.Name+"\n"+strings.Join(cl, ""))
	}
	sort.Strings(tl)
	return strings.Join(tl, "")
}

// OnlyOnDevice lists the tables of rs that other lacks.
func (rs *Ruleset) TablesMissingIn(other *Ruleset) []string {
	var l []string
	if rs == nil {
		return nil
	}
	for _, t := range rs.Tables {
		if other.Table(t.Name) == nil {
			l = append(l, t.Name)
		}
	}
	sort.Strings(l)
	return l
}

// BuiltinsConsistent: for every table both have, the sets of built-in
// chains are equal. A kernel always prints all built-in chains of a loaded
// table, and they can neither be created nor removed, so a pair that
// violates this does not describe a device and a realisable target.
func BuiltinsConsistent(a, b *Ruleset) bool {
	if a == nil || b == nil {
		return true
	}
	for _, ta := range a.Tables {
		tb := b.Table(ta.Name)
		if tb == nil {
			continue
		}
		set := func(t *Table) string {
			var l []string
			for _, c := range t.Chains {
				if c.Builtin() {
					l = append(l, c.Name)
				}
			}
			sort.Strings(l)
			return strings.Join(l, ",")
		}
		if set(ta) != set(tb) {
			return false
		}
	}
	return true
}

// Load gives the state after running an iptables-restore file (without
// --noflush) on rs: every table the file names is flushed, its user chains
// are removed and it is rebuilt from the file; a built-in chain the file
// does not mention keeps its policy; tables the file does not name are not
// touched.
func (rs *Ruleset) Load(file *Ruleset) *Ruleset {
	n := rs.Clone()
	for _, ft := range file.Tables {
		var nt *Table
		for _, t := range n.Tables {
			if t.Name == ft.Name {
				nt = t
			}
		}
		if nt == nil {
			nt = &Table{Name: ft.Name}
			n.Tables = append(n.Tables, nt)
		}
		var keep []*Chain
		for _, c := range nt.Chains {
			if c.Builtin() && ft.Chain(c.Name) == nil {
				keep = append(keep, &Chain{Name: c.Name, Policy: c.Policy})
			}
		}
		nt.Chains = keep
		for _, c := range ft.Chains {
			nc := &Chain{Name: c.Name, Policy: c.Policy}
			for _, r := range c.Rules {
				nc.Rules = append(nc.Rules, r.Clone())
			}
			nt.Chains = append(nt.Chains, nc)
		}
	}
	return n
}

// ------------------------------------------------------------ vocabulary

// protocol numbers and their names in /etc/protocols (IANA).
var protoByName = map[string]int{
	"icmp": 1, "igmp": 2, "tcp": 6, "udp": 17, "gre": 47, "esp": 50, "ah": 51,
	"ipv6-icmp": 58, "icmpv6": 58, "ospf": 89, "vrrp": 112, "sctp": 132, "udplite": 136,
}

var protoName = map[int]string{
	1: "icmp", 2: "igmp", 6: "tcp", 17: "udp", 47: "gre", 50: "esp", 51: "ah",
	58: "ipv6-icmp", 89: "ospf", 112: "vrrp", 132: "sctp", 136: "udplite",
}

// names iptables knows without /etc/protocols.
var protoInternal = map[int]string{6: "tcp", 17: "udp", 1: "icmp", 50: "esp", 51: "ah", 132: "sctp", 136: "udplite", 58: "ipv6-icmp"}

var logLevels = map[string]int{
	"emerg": 0, "panic": 0, "alert": 1, "crit": 2, "err": 3, "error": 3,
	"warning": 4, "warn": 4, "notice": 5, "info": 6, "debug": 7,
}

// order in which the state match prints its bits
var stateOrder = []string{"INVALID", "NEW", "RELATED", "ESTABLISHED", "UNTRACKED"}

var extTargets = map[string]bool{
	"ACCEPT": true, "DROP": true, "RETURN": true, "QUEUE": true, "LOG": true, "REJECT": true,
	"MARK": true, "SNAT": true, "DNAT": true, "MASQUERADE": true, "REDIRECT": true, "NOTRACK": true,
}

// built-in chains per table in the order the kernel lists them.
var builtinOrder = map[string][]string{
	"filter": {"INPUT", "FORWARD", "OUTPUT"},
	"nat":    {"PREROUTING", "INPUT", "OUTPUT", "POSTROUTING"},
	"mangle": {"PREROUTING", "INPUT", "FORWARD", "OUTPUT", "POSTROUTING"},
	"raw":    {"PREROUTING", "OUTPUT"},
}

// ------------------------------------------------------------------ parser

var optArgs = map[string]int{
	"-s": 1, "--source": 1, "--src": 1, "-d": 1, "--destination": 1, "--dst": 1,
	"-i": 1, "--in-interface": 1, "-o": 1, "--out-interface": 1,
	"-p": 1, "--protocol": 1, "-m": 1, "--match": 1, "-j": 1, "--jump": 1, "-g": 1, "--goto": 1,
	"--sport": 1, "--source-port": 1, "--dport": 1, "--destination-port": 1,
	"--icmp-type": 1, "--syn": 0, "--tcp-flags": 2, "--state": 1,
	"--log-level": 1, "--log-prefix": 1, "--set-mark": 1, "--set-xmark": 1,
	"--to-source": 1, "--to-destination": 1, "--reject-with": 1,
}

var optCanon = map[string]string{
	"--source": "-s", "--src": "-s", "--destination": "-d", "--dst": "-d",
	"--in-interface": "-i", "--out-interface": "-o", "--protocol": "-p", "--match": "-m",
	"--jump": "-j", "--goto": "-g", "--source-port": "--sport", "--destination-port": "--dport",
}

var negatable = map[string]bool{"-s": true, "-d": true, "-i": true, "-o": true, "-p": true,
	"--sport": true, "--dport": true, "--icmp-type": true, "--syn": true, "--tcp-flags": true}

func parseAddr(v string) (netip.Prefix, error) {
	if strings.Contains(v, "/") {
		p, err := netip.ParsePrefix(v)
		if err != nil || !p.Addr().Is4() {
			return netip.Prefix{}, unsup("address %q", v)
		}
		if p.Masked() != p {
			return netip.Prefix{}, unsup("address %q has host bits", v)
		}
		return p, nil
	}
	a, err := netip.ParseAddr(v)
	if err != nil || !a.Is4() {
		return netip.Prefix{}, unsup("address %q", v)
	}
	return netip.PrefixFrom(a, 32), nil
}

func parsePorts(v string) (lo, hi int, err error) {
	num := func(s string, def int) (int, error) {
		if s == "" {
			return def, nil
		}
		n, e := strconv.Atoi(s)
		if e != nil || n < 0 || n > 65535 {
			return 0, unsup("port %q", s)
		}
		return n, nil
	}
	if a, b, ok := strings.Cut(v, ":"); ok {
		if lo, err = num(a, 0); err != nil {
			return
		}
		if hi, err = num(b, 65535); err != nil {
			return
		}
		if lo > hi {
			return 0, 0, unsup("port range %q", v)
		}
		return
	}
	if v == "" {
		return 0, 0, unsup("empty port")
	}
	lo, err = num(v, 0)
	return lo, lo, err
}

func parseMark(v string) (*MarkV, error) {
	val, mask, hasMask := strings.Cut(v, "/")
	x, err := strconv.ParseUint(val, 0, 32)
	if err != nil {
		return nil, unsup("mark %q", v)
	}
	m := uint64(0xffffffff)
	if hasMask {
		if m, err = strconv.ParseUint(mask, 0, 32); err != nil {
			return nil, unsup("mark %q", v)
		}
	}
	return &MarkV{Val: uint32(x), Mask: uint32(m)}, nil
}

// ParseRule parses one "-A chain ..." line in any of the spellings
// iptables-restore accepts (the vocabulary of optArgs).
func ParseRule(line string) (chain string, r *Rule, err error) {
	t := strings.Fields(line)
	if len(t) < 2 || t[0] != "-A" {
		return "", nil, unsup("rule line %q", line)
	}
	chain = t[1]
	r = &Rule{LogLevel: -1, Raw: map[string]string{}}
	type optT struct {
		neg  bool
		args []string
	}
	opts := map[string]optT{}
	var matches []string
	stateAt, protoMatchAt := -1, -1
	i := 2
	neg := false
	for i < len(t) {
		tok := t[i]
		if tok == "!" {
			if neg {
				return "", nil, unsup("double negation in %q", line)
			}
			neg = true
			i++
			continue
		}
		n, ok := optArgs[tok]
		if !ok {
			return "", nil, unsup("option %q", tok)
		}
		opt := tok
		if c, ok := optCanon[opt]; ok {
			opt = c
		}
		i++
		pos := ""
		if neg {
			pos = "! <opt> "
		}
		if n > 0 && i < len(t) && t[i] == "!" {
			if neg {
				return "", nil, unsup("double negation in %q", line)
			}
			neg = true
			pos = "<opt> ! "
			i++
		}
		if i+n > len(t) {
			return "", nil, unsup("missing argument of %q in %q", tok, line)
		}
		args := t[i : i+n]
		i += n
		if neg && !negatable[opt] {
			return "", nil, unsup("negated %q", opt)
		}
		switch {
		case opt == "-m" && strings.ToLower(args[0]) == "state":
			if stateAt < 0 {
				stateAt = i
			}
		case opt == "-m", opt == "--sport", opt == "--dport", opt == "--syn", opt == "--tcp-flags", opt == "--icmp-type":
			if protoMatchAt < 0 {
				protoMatchAt = i
			}
		}
		if opt == "-m" {
			matches = append(matches, strings.ToLower(args[0]))
			r.Raw["-m "+strings.ToLower(args[0])] = "present"
		} else {
			if _, dup := opts[opt]; dup {
				return "", nil, unsup("option %q given twice", opt)
			}
			opts[opt] = optT{neg, args}
			rk := opt
			switch opt {
			case "--set-xmark":
				rk, pos = "--set-mark", "xmark "+pos
			case "--tcp-flags":
				rk, pos = "--syn", "flags "+pos
			}
			r.Raw[rk] = pos + strings.Join(args, " ")
		}
		neg = false
	}
	if neg {
		return "", nil, unsup("trailing '!' in %q", line)
	}
	hasMatch := func(m string) bool {
		for _, x := range matches {
			if x == m {
				return true
			}
		}
		return false
	}
	for _, m := range matches {
		switch m {
		case "tcp", "udp", "icmp", "state":
		default:
			return "", nil, unsup("match %q", m)
		}
	}
	for _, k := range []string{"-s", "-d"} {
		if o, ok := opts[k]; ok {
			p, err := parseAddr(o.args[0])
			if err != nil {
				return "", nil, err
			}
			a := &AddrM{P: p, Neg: o.neg}
			if k == "-s" {
				r.Src = a
			} else {
				r.Dst = a
			}
		}
	}
	if o, ok := opts["-i"]; ok {
		r.In = &StrM{o.args[0], o.neg}
	}
	if o, ok := opts["-o"]; ok {
		r.Out = &StrM{o.args[0], o.neg}
	}
	if o, ok := opts["-p"]; ok {
		v := strings.ToLower(o.args[0])
		num, known := protoByName[v]
		if !known {
			n, e := strconv.Atoi(v)
			if e != nil || n < 0 || n > 255 {
				return "", nil, unsup("protocol %q", o.args[0])
			}
			num = n
		}
		if v == "all" || num == 0 {
			return "", nil, unsup("protocol all")
		}
		r.Proto = &ProtoM{num, o.neg}
	}
	isProto := func(n int) bool { return r.Proto != nil && !r.Proto.Neg && r.Proto.Num == n }
	for _, m := range matches {
		if (m == "tcp" && !isProto(6)) || (m == "udp" && !isProto(17)) || (m == "icmp" && !isProto(1)) {
			return "", nil, unsup("-m %s without -p %s", m, m)
		}
	}
	for _, k := range []string{"--sport", "--dport"} {
		if o, ok := opts[k]; ok {
			if !isProto(6) && !isProto(17) {
				return "", nil, unsup("%s without -p tcp|udp", k)
			}
			lo, hi, err := parsePorts(o.args[0])
			if err != nil {
				return "", nil, err
			}
			pm := &PortM{lo, hi, o.neg}
			if k == "--sport" {
				r.SPort = pm
			} else {
				r.DPort = pm
			}
		}
	}
	if o, ok := opts["--icmp-type"]; ok {
		if !isProto(1) {
			return "", nil, unsup("--icmp-type without -p icmp")
		}
		for _, p := range strings.Split(o.args[0], "/") {
			if _, e := strconv.Atoi(p); e != nil {
				return "", nil, unsup("icmp type %q", o.args[0])
			}
		}
		r.ICMP = &StrM{o.args[0], o.neg}
	}
	if o, ok := opts["--syn"]; ok {
		if !isProto(6) {
			return "", nil, unsup("--syn without -p tcp")
		}
		r.Syn = 1
		if o.neg {
			r.Syn = -1
		}
	}
	if o, ok := opts["--tcp-flags"]; ok {
		if !isProto(6) {
			return "", nil, unsup("--tcp-flags without -p tcp")
		}
		if r.Syn != 0 {
			return "", nil, unsup("--syn and --tcp-flags")
		}
		mask := strings.Split(strings.ToUpper(o.args[0]), ",")
		sort.Strings(mask)
		if strings.Join(mask, ",") != "ACK,FIN,RST,SYN" || strings.ToUpper(o.args[1]) != "SYN" {
			return "", nil, unsup("--tcp-flags %s", strings.Join(o.args, " "))
		}
		r.Syn = 1
		if o.neg {
			r.Syn = -1
		}
	}
	if o, ok := opts["--state"]; ok {
		if !hasMatch("state") {
			return "", nil, unsup("--state without -m state")
		}
		set := map[string]bool{}
		for _, s := range strings.Split(strings.ToUpper(o.args[0]), ",") {
			valid := false
			for _, x := range stateOrder {
				valid = valid || x == s
			}
			if !valid {
				return "", nil, unsup("state %q", s)
			}
			set[s] = true
		}
		for s := range set {
			r.State = append(r.State, s)
		}
		sort.Strings(r.State)
	} else if hasMatch("state") {
		return "", nil, unsup("-m state without --state")
	}
	r.StateFirst = stateAt >= 0 && protoMatchAt >= 0 && stateAt < protoMatchAt
	if o, ok := opts["-j"]; ok {
		r.Jump = o.args[0]
	}
	if o, ok := opts["-g"]; ok {
		r.Goto = o.args[0]
	}
	if (r.Jump == "") == (r.Goto == "") {
		return "", nil, unsup("rule needs exactly one of -j / -g: %q", line)
	}
	if o, ok := opts["--log-level"]; ok {
		if r.Jump != "LOG" {
			return "", nil, unsup("--log-level without -j LOG")
		}
		v := strings.ToLower(o.args[0])
		if n, ok := logLevels[v]; ok {
			r.LogLevel = n
		} else if n, e := strconv.Atoi(v); e == nil && n >= 0 && n <= 7 {
			r.LogLevel = n
		} else {
			return "", nil, unsup("log level %q", o.args[0])
		}
	} else if r.Jump == "LOG" {
		r.LogLevel = 4 // default level of the LOG target: warning
	}
	if o, ok := opts["--log-prefix"]; ok {
		if r.Jump != "LOG" {
			return "", nil, unsup("--log-prefix without -j LOG")
		}
		// one word, quoted or not (a quoted text with blanks is split by
		// Fields and refused above as unknown option or missing -j)
		v := o.args[0]
		if strings.HasPrefix(v, `"`) != strings.HasSuffix(v, `"`) || v == `"` {
			return "", nil, unsup("log prefix %q", v)
		}
		v = strings.Trim(v, `"`)
		if v == "" || strings.ContainsAny(v, `"\'`) {
			return "", nil, unsup("log prefix %q", v)
		}
		r.LogPrefix = v
	}
	_, hasSM := opts["--set-mark"]
	_, hasXM := opts["--set-xmark"]
	if hasSM || hasXM {
		if r.Jump != "MARK" || hasSM && hasXM {
			return "", nil, unsup("mark option without -j MARK")
		}
		if hasSM {
			// --set-mark v/m: clear the bits of m, OR in v == xmark v/(m|v)
			mv, err := parseMark(opts["--set-mark"].args[0])
			if err != nil {
				return "", nil, err
			}
			mv.Mask |= mv.Val
			r.SetMark = mv
		} else {
			mv, err := parseMark(opts["--set-xmark"].args[0])
			if err != nil {
				return "", nil, err
			}
			r.SetMark = mv
		}
	} else if r.Jump == "MARK" {
		return "", nil, unsup("-j MARK without mark option")
	}
	for _, x := range []struct {
		opt, target string
		dst         *string
	}{{"--to-source", "SNAT", &r.ToSource}, {"--to-destination", "DNAT", &r.ToDest}, {"--reject-with", "REJECT", &r.RejectWith}} {
		if o, ok := opts[x.opt]; ok {
			if r.Jump != x.target {
				return "", nil, unsup("%s without -j %s", x.opt, x.target)
			}
			*x.dst = o.args[0]
		}
	}
	if r.Jump == "REJECT" && r.RejectWith == "" {
		r.RejectWith = "icmp-port-unreachable" // documented default
	}
	if (r.Jump == "SNAT" && r.ToSource == "") || (r.Jump == "DNAT" && r.ToDest == "") {
		return "", nil, unsup("-j %s without address", r.Jump)
	}
	return chain, r, nil
}

// ParseRuleset reads the iptables part of a file: table sections with
// chain declarations and "-A" lines. Comment lines and blank lines are
// skipped. With strict set the text is checked the way iptables-restore
// checks a file it is about to load (Refusal errors): every table section
// must be closed by COMMIT, rules need a declared chain, jump and goto
// targets must exist in the table, built-in chains need a real policy.
func ParseRuleset(lines []string, strict bool) (*Ruleset, error) {
	rs := &Ruleset{}
	var cur *Table
	open := false
	for _, line := range lines {
		line = strings.TrimSpace(line)
		if line == "" || line[0] == '#' {
			continue
		}
		switch {
		case line[0] == '*':
			if strict && open {
				return nil, refuse("restore-syntax", "table %s opened before COMMIT of table %s", line[1:], cur.Name)
			}
			name := line[1:]
			if rs.Table(name) != nil {
				return nil, unsup("table %s given twice", name)
			}
			cur = &Table{Name: name}
			rs.Tables = append(rs.Tables, cur)
			open = true
		case line[0] == ':':
			w := strings.Fields(line[1:])
			if cur == nil || !open || len(w) < 2 {
				if strict {
					return nil, refuse("restore-syntax", "chain line %q outside of a table", line)
				}
				return nil, unsup("chain line %q", line)
			}
			if cur.Chain(w[0]) != nil {
				return nil, unsup("chain %s declared twice", w[0])
			}
			switch w[1] {
			case "ACCEPT", "DROP", "-":
			default:
				return nil, unsup("policy %q", w[1])
			}
			cur.Chains = append(cur.Chains, &Chain{Name: w[0], Policy: w[1]})
		case line == "COMMIT":
			if strict && !open {
				return nil, refuse("restore-syntax", "COMMIT without table")
			}
			open = false
		case strings.HasPrefix(line, "-A "):
			if cur == nil || !open {
				if strict {
					return nil, refuse("restore-syntax", "rule %q outside of a table", line)
				}
				return nil, unsup("rule outside of table: %q", line)
			}
			cn, r, err := ParseRule(line)
			if err != nil {
				return nil, err
			}
			ch := cur.Chain(cn)
			if ch == nil {
				if strict {
					return nil, refuse("restore-no-chain", "rule %q: no chain %s in table %s", line, cn, cur.Name)
				}
				return nil, unsup("rule for undeclared chain: %q", line)
			}
			ch.Rules = append(ch.Rules, r)
		default:
			return nil, unsup("line %q", line)
		}
	}
	if strict && open {
		return nil, refuse("restore-syntax", "table %s is not closed by COMMIT", cur.Name)
	}
	if strict {
		for _, t := range rs.Tables {
			for _, c := range t.Chains {
				for _, r := range c.Rules {
					tg := r.Jump + r.Goto
					if r.Goto != "" || !extTargets[tg] {
						tc := t.Chain(tg)
						if tc == nil {
							return nil, refuse("restore-no-target", "rule of chain %s refers to missing chain %s in table %s", c.Name, tg, t.Name)
						}
					}
				}
			}
		}
	}
	return rs, nil
}

// SpellingDistance counts, over the rules that are equal in a and b (same
// table, chain and position), the options whose text differs between the
// two files (an option present on one side only, e.g. "-m tcp", counts).
func SpellingDistance(a, b *Ruleset) int {
	n := 0
	if a == nil || b == nil {
		return 0
	}
	for _, ta := range a.Tables {
		tb := b.Table(ta.Name)
		if tb == nil {
			continue
		}
		for _, ca := range ta.Chains {
			cb := tb.Chain(ca.Name)
			if cb == nil {
				continue
			}
			for i, ra := range ca.Rules {
				if i >= len(cb.Rules) || cb.Rules[i].Canon() != ra.Canon() {
					continue
				}
				rb := cb.Rules[i]
				keys := map[string]bool{}
				for k := range ra.Raw {
					keys[k] = true
				}
				for k := range rb.Raw {
					keys[k] = true
				}
				for k := range keys {
					if ra.Raw[k] != rb.Raw[k] {
						n++
					}
				}
			}
		}
	}
	return n
}
