package linuxm

import (
	"strings"
)

// State is what Netspoc manages on a Linux host.
type State struct {
	Routes *RouteTable
	Rules  *Ruleset
}

func (s *State) Clone() *State {
	return &State{Routes: s.Routes.Clone(), Rules: s.Rules.Clone()}
}

// ParseFile reads a device file (lines of `ip route show` prefixed with
// "ip route add ", followed by the output of iptables-save) or a Netspoc
// code file (ip route add lines and an iptables-restore file).
func ParseFile(text string) (*State, error) {
	var rl, tl []string
	for _, line := range strings.Split(text, "\n") {
		line = strings.TrimSpace(line)
		if line == "" || line[0] == '#' {
			continue
		}
		if strings.HasPrefix(line, "ip route") {
			rl = append(rl, line)
		} else {
			tl = append(tl, line)
		}
	}
	rt, err := ParseRouteLines(rl)
	if err != nil {
		return nil, err
	}
	rs, err := ParseRuleset(tl, false)
	if err != nil {
		return nil, err
	}
	return &State{Routes: rt, Rules: rs}, nil
}

func (s *State) PrintDevice(sp Spelling) string {
	return s.Routes.PrintShow(sp.rtDev()) + s.Rules.PrintSave(sp)
}

func (s *State) PrintTarget(sp Spelling) string {
	return s.Routes.PrintNetspoc(sp.rtNs()) + s.Rules.PrintNetspoc(sp)
}

// Script is the parsed standard output of a Linux compare.
type Script struct {
	RouteSteps [][]string // one or two commands per step (joined line)
	DiffLine   string     // "iptables differs at ..." or ""
	Restore    []string   // lines of the iptables-restore file (may be nil)
}

func (sc *Script) Empty() bool { return len(sc.RouteSteps) == 0 && sc.DiffLine == "" }

// RouteCmds is the flat list of route commands.
func (sc *Script) RouteCmds() []string {
	var l []string
	for _, s := range sc.RouteSteps {
		l = append(l, s...)
	}
	return l
}

// ParseScript splits the output of the tool: route commands first, then,
// for an iptables change, one line telling where the rulesets differ
// followed by the complete file that would be copied to the host.
func ParseScript(stdout string) (*Script, error) {
	sc := &Script{}
	lines := strings.Split(stdout, "\n")
	for i := 0; i < len(lines); i++ {
		line := lines[i]
		if line == "" {
			continue
		}
		if strings.HasPrefix(line, "iptables differs at ") {
			sc.DiffLine = line
			rest := lines[i+1:]
			if len(rest) == 0 || !strings.HasPrefix(rest[0], "#!") || !strings.HasSuffix(rest[0], "iptables-restore") {
				return nil, unsup("iptables change without '#!...iptables-restore' line")
			}
			for _, l := range rest[1:] {
				if l != "" {
					sc.Restore = append(sc.Restore, l)
				}
			}
			return sc, nil
		}
		parts := strings.Split(line, "\\N ")
		for _, p := range parts {
			if !strings.HasPrefix(p, "ip route add ") && !strings.HasPrefix(p, "ip route del ") {
				return nil, unsup("script line %q", line)
			}
		}
		if len(parts) > 2 {
			return nil, unsup("script line with more than two commands: %q", line)
		}
		sc.RouteSteps = append(sc.RouteSteps, parts)
	}
	return sc, nil
}

// ApplyRestore loads the emitted iptables-restore file: it is parsed and
// checked strictly (Refusal if iptables-restore would reject it) and then
// replaces the tables it names.
func (s *State) ApplyRestore(lines []string) (file *Ruleset, err error) {
	file, err = ParseRuleset(lines, true)
	if err != nil {
		return nil, err
	}
	s.Rules = s.Rules.Load(file)
	return file, nil
}
