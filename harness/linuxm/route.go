// Package linuxm is a strict, independent model of the two things
// Netspoc-Approve manages on a Linux host: the table of static routes
// (spelling of `ip route show`, commands `ip route add|del`) and the
// iptables ruleset (spelling of iptables-save, replaced by loading an
// iptables-restore file). It shares no code with the tool.
package linuxm

import (
	"fmt"
	"net/netip"
	"sort"
	"strconv"
	"strings"
)

// ErrUnsupported: the text is outside the vocabulary of the model.
type ErrUnsupported struct{ What string }

func (e *ErrUnsupported) Error() string { return "unsupported by model: " + e.What }
func unsup(format string, a ...any) error {
	return &ErrUnsupported{fmt.Sprintf(format, a...)}
}

// Refusal: a real host would refuse this command.
type Refusal struct{ Rule, Msg string }

func (e *Refusal) Error() string { return "refused[" + e.Rule + "]: " + e.Msg }
func refuse(rule, format string, a ...any) error {
	return &Refusal{rule, fmt.Sprintf(format, a...)}
}

// ------------------------------------------------------------------ routes

// Route is a static route "Dst via Hop [dev Dev]".
type Route struct {
	Dst netip.Prefix
	Hop netip.Addr
	Dev string
}

func (r Route) Key() string { return r.Dst.String() + " via " + r.Hop.String() }

// RLine is one line of the table: either a static route or a foreign line
// (connected network, link-scope route, route of a routing daemon) which is
// kept verbatim and is none of Netspoc's business.
type RLine struct {
	Static  bool
	R       Route
	Foreign string
}

// RouteTable is the routing table of the host.
// Multipath selects the arm of DESIGN App. B: false = kernel behaviour
// (one route per destination: "File exists"), true = several routes per
// destination are possible, only exact duplicates are refused.
type RouteTable struct {
	Lines     []RLine
	Multipath bool
}

func (t *RouteTable) Clone() *RouteTable {
	n := &RouteTable{Multipath: t.Multipath}
	n.Lines = append(n.Lines, t.Lines...)
	return n
}

func (t *RouteTable) Statics() []Route {
	var l []Route
	for _, x := range t.Lines {
		if x.Static {
			l = append(l, x.R)
		}
	}
	return l
}

// HasMultiDst: some destination has more than one static route.
func (t *RouteTable) HasMultiDst() bool {
	seen := map[netip.Prefix]bool{}
	for _, r := range t.Statics() {
		if seen[r.Dst] {
			return true
		}
		seen[r.Dst] = true
	}
	return false
}

// StaticCanon is the sorted set of static routes (dev is not part of it:
// the next hop determines the interface).
func (t *RouteTable) StaticCanon() string {
	var l []string
	for _, r := range t.Statics() {
		l = append(l, r.Key())
	}
	sort.Strings(l)
	return strings.Join(l, "\n")
}

func parseDst(w string) (netip.Prefix, error) {
	if w == "default" {
		return netip.PrefixFrom(netip.IPv4Unspecified(), 0), nil
	}
	if strings.Contains(w, "/") {
		p, err := netip.ParsePrefix(w)
		if err != nil || !p.Addr().Is4() {
			return netip.Prefix{}, unsup("route destination %q", w)
		}
		if p.Masked() != p {
			return netip.Prefix{}, unsup("route destination %q has host bits", w)
		}
		return p, nil
	}
	a, err := netip.ParseAddr(w)
	if err != nil || !a.Is4() {
		return netip.Prefix{}, unsup("route destination %q", w)
	}
	return netip.PrefixFrom(a, 32), nil
}

// parseRouteSpec parses "D via H [dev X]" (what follows `ip route add|del`
// and what `ip route show` prints for a static route). Lines that are not
// static routes are reported as foreign.
func parseRouteSpec(spec string) (r Route, foreign bool, err error) {
	w := strings.Fields(spec)
	if len(w) == 0 {
		return r, false, unsup("empty route")
	}
	// classify by attributes (iproute2: connected routes carry
	// "proto kernel scope link", routes of daemons "proto <name|number>",
	// routes added at boot by old tools "proto boot").
	hasVia := false
	for i := 1; i < len(w); i++ {
		switch w[i] {
		case "via":
			hasVia = true
		case "proto":
			if i+1 < len(w) && w[i+1] != "static" {
				foreign = true
			}
		case "scope":
			if i+1 < len(w) && (w[i+1] == "link" || w[i+1] == "host") {
				foreign = true
			}
		}
	}
	if foreign {
		return r, true, nil
	}
	if !hasVia {
		return r, false, unsup("route without via and without scope/proto: %q", spec)
	}
	if len(w) < 3 || w[1] != "via" {
		return r, false, unsup("route %q", spec)
	}
	if r.Dst, err = parseDst(w[0]); err != nil {
		return r, false, err
	}
	h, e := netip.ParseAddr(w[2])
	if e != nil || !h.Is4() {
		return r, false, unsup("next hop %q", w[2])
	}
	r.Hop = h
	rest := w[3:]
	if len(rest) == 2 && rest[0] == "dev" {
		r.Dev = rest[1]
		rest = nil
	}
	if len(rest) != 0 {
		return r, false, unsup("route attributes %q", strings.Join(rest, " "))
	}
	return r, false, nil
}

// ParseRouteLines reads lines of the form "ip route add <spec>" (the form
// of the Netspoc file and of the device file given to `drc FILE1 FILE2`,
// where <spec> is a line of `ip route show`).
func ParseRouteLines(lines []string) (*RouteTable, error) {
	t := &RouteTable{}
	for _, line := range lines {
		spec, ok := strings.CutPrefix(strings.TrimSpace(line), "ip route add ")
		if !ok {
			return nil, unsup("route line %q", line)
		}
		r, foreign, err := parseRouteSpec(spec)
		if err != nil {
			return nil, err
		}
		if foreign {
			t.Lines = append(t.Lines, RLine{Foreign: strings.TrimSpace(spec)})
		} else {
			t.Lines = append(t.Lines, RLine{Static: true, R: r})
		}
	}
	return t, nil
}

// Exec executes one emitted command.
func (t *RouteTable) Exec(cmd string) error {
	w := strings.Fields(cmd)
	if len(w) < 4 || w[0] != "ip" || w[1] != "route" || (w[2] != "add" && w[2] != "del") {
		return unsup("command %q", cmd)
	}
	r, foreign, err := parseRouteSpec(strings.Join(w[3:], " "))
	if err != nil {
		return err
	}
	if foreign {
		return unsup("command on a foreign route %q", cmd)
	}
	switch w[2] {
	case "add":
		for _, x := range t.Lines {
			if !x.Static {
				continue
			}
			if x.R.Dst == r.Dst && x.R.Hop == r.Hop {
				return refuse("file-exists", "%q: RTNETLINK answers: File exists (identical route present)", cmd)
			}
			if !t.Multipath && x.R.Dst == r.Dst {
				return refuse("file-exists", "%q: RTNETLINK answers: File exists (destination still has route via %s)", cmd, x.R.Hop)
			}
		}
		t.Lines = append(t.Lines, RLine{Static: true, R: r})
	case "del":
		for i, x := range t.Lines {
			if x.Static && x.R.Dst == r.Dst && x.R.Hop == r.Hop &&
				(r.Dev == "" || x.R.Dev == "" || r.Dev == x.R.Dev) {
				t.Lines = append(t.Lines[:i:i], t.Lines[i+1:]...)
				return nil
			}
		}
		return refuse("no-such-route", "%q: RTNETLINK answers: No such process", cmd)
	}
	return nil
}

// RouteSpelling selects how the table is printed.
type RouteSpelling struct {
	DefaultWord bool // "default" instead of "0.0.0.0/0"
	Host32      bool // "/32" suffix on host routes (Netspoc only; the kernel never prints it)
}

func dstText(p netip.Prefix, sp RouteSpelling) string {
	switch {
	case p.Bits() == 0 && sp.DefaultWord:
		return "default"
	case p.Bits() == 32 && !sp.Host32:
		return p.Addr().String()
	}
	return p.String()
}

// PrintShow prints the table as the device file of `drc FILE1 FILE2`:
// every line of `ip route show` prefixed with "ip route add ".
func (t *RouteTable) PrintShow(sp RouteSpelling) string {
	sp.Host32 = false
	var b strings.Builder
	for _, x := range t.Lines {
		if !x.Static {
			b.WriteString("ip route add " + x.Foreign + "\n")
			continue
		}
		b.WriteString("ip route add " + dstText(x.R.Dst, sp) + " via " + x.R.Hop.String())
		if x.R.Dev != "" {
			b.WriteString(" dev " + x.R.Dev)
		}
		b.WriteString("\n")
	}
	return b.String()
}

// PrintNetspoc prints the static routes as the Netspoc compiler does.
func (t *RouteTable) PrintNetspoc(sp RouteSpelling) string {
	var b strings.Builder
	for _, r := range t.Statics() {
		b.WriteString("ip route add " + dstText(r.Dst, sp) + " via " + r.Hop.String() + "\n")
	}
	return b.String()
}

// Covered: some static route matches the address.
func (t *RouteTable) Covered(a netip.Addr) bool {
	for _, x := range t.Lines {
		if x.Static && x.R.Dst.Contains(a) {
			return true
		}
	}
	return false
}

// RouteUniverse gives representative destination addresses for C14: first,
// last and one inner address of every prefix of either table, the
// addresses just outside, and one address far away.
func RouteUniverse(ts ...*RouteTable) []netip.Addr {
	seen := map[netip.Addr]bool{}
	var l []netip.Addr
	add := func(a netip.Addr) {
		if a.IsValid() && a.Is4() && !seen[a] {
			seen[a] = true
			l = append(l, a)
		}
	}
	for _, t := range ts {
		for _, r := range t.Statics() {
			first := r.Dst.Addr()
			n := uint32(1) << (32 - r.Dst.Bits())
			if r.Dst.Bits() == 0 {
				n = 0 // wraps; handled below
			}
			f := first.As4()
			base := uint32(f[0])<<24 | uint32(f[1])<<16 | uint32(f[2])<<8 | uint32(f[3])
			mk := func(v uint32) netip.Addr {
				return netip.AddrFrom4([4]byte{byte(v >> 24), byte(v >> 16), byte(v >> 8), byte(v)})
			}
			add(first)
			if r.Dst.Bits() == 0 {
				add(mk(0xffffffff))
				add(mk(0x08080808))
				continue
			}
			add(mk(base + n - 1))
			add(mk(base + n/2))
			add(mk(base - 1))
			add(mk(base + n))
		}
	}
	add(netip.MustParseAddr("198.51.100.7"))
	sort.Slice(l, func(i, j int) bool { return l[i].Less(l[j]) })
	return l
}

func itoa(i int) string { return strconv.Itoa(i) }
