package linuxm

import (
	"net/netip"

	"pgregory.net/rapid"
)

// Pair is a generated (device A, target B) pair with the spelling in which
// both are written to files.
type Pair struct {
	A, B *State
	Sp   Spelling
	Mode string
	Ops  []string
	Ties int
}

type GenOpts struct {
	Routes bool // generate route sets
	IPT    bool // generate iptables rulesets
	Ties   bool // force ties: two routes to one destination, duplicate rules
}

// ----------------------------------------------------------------- routes

var routeDsts = []string{
	"0.0.0.0/0", "10.0.0.0/8", "10.1.0.0/16", "10.1.1.0/24", "10.1.1.128/25", "10.1.1.130/32",
	"10.1.2.0/24", "10.2.0.0/16", "10.2.3.0/24", "10.2.3.4/32", "192.168.0.0/16", "192.168.7.0/24",
	// same network address as a shorter prefix above
	"10.1.0.0/24", "10.2.0.0/24", "10.0.0.0/16", "10.1.1.128/26",
}

type hopT struct{ ip, dev string }

var routeHops = []hopT{{"10.9.1.1", "eth0"}, {"10.9.1.2", "eth0"}, {"10.9.1.3", "eth0"}, {"10.9.2.1", "eth1"}, {"10.9.2.2", "eth1"}}

// lines of `ip route show` that are none of Netspoc's business
var foreignLines = []string{
	"10.9.1.0/24 dev eth0 proto kernel scope link src 10.9.1.9",
	"10.9.2.0/24 dev eth1 proto kernel scope link src 10.9.2.9",
	"169.254.0.0/16 dev eth0 scope link metric 1000",
	"172.16.5.0/24 via 10.9.1.7 dev eth0 proto 186 metric 20",
	"172.16.6.0/24 via 10.9.2.7 dev eth1 proto boot",
	"10.9.3.0/24 dev eth2 proto kernel scope link src 10.9.3.9 linkdown",
}

func drawHop(rt *rapid.T, label string) hopT { return rapid.SampledFrom(routeHops).Draw(rt, label) }

func mkRoute(dst string, h hopT) Route {
	return Route{Dst: netip.MustParsePrefix(dst), Hop: netip.MustParseAddr(h.ip), Dev: h.dev}
}

func genRouteSet(rt *rapid.T, label string) []Route {
	idx := rapid.SliceOfNDistinct(rapid.IntRange(0, len(routeDsts)-1), 0, 6, rapid.ID[int]).Draw(rt, label+"Dsts")
	var l []Route
	for _, i := range idx {
		l = append(l, mkRoute(routeDsts[i], drawHop(rt, label+"Hop")))
	}
	return l
}

func hasDst(l []Route, p netip.Prefix) bool {
	for _, r := range l {
		if r.Dst == p {
			return true
		}
	}
	return false
}

func hasRoute(l []Route, x Route) bool {
	for _, r := range l {
		if r.Dst == x.Dst && r.Hop == x.Hop {
			return true
		}
	}
	return false
}

func otherHop(rt *rapid.T, cur netip.Addr) hopT {
	var l []hopT
	for _, h := range routeHops {
		if h.ip != cur.String() {
			l = append(l, h)
		}
	}
	return rapid.SampledFrom(l).Draw(rt, "newHop")
}

// genRoutePair: B is drawn, A is derived from B by edit operators (or both
// are drawn independently from the small universe).
func genRoutePair(rt *rapid.T, p *Pair, ties bool) {
	b := genRouteSet(rt, "b")
	var a []Route
	if rapid.IntRange(0, 9).Draw(rt, "routeMode") == 0 {
		p.Mode += "rt-independent "
		a = genRouteSet(rt, "a")
	} else {
		p.Mode += "rt-derived "
		a = append(a, b...)
		n := rapid.IntRange(0, 5).Draw(rt, "nRouteOps")
		for i := 0; i < n; i++ {
			switch op := rapid.SampledFrom([]string{"del", "add", "hop", "hop", "default", "specific", "second"}).Draw(rt, "routeOp"); op {
			case "del": // device lacks a target route
				if len(a) > 0 {
					k := rapid.IntRange(0, len(a)-1).Draw(rt, "k")
					a = append(a[:k:k], a[k+1:]...)
					p.Ops = append(p.Ops, "rt:missing-on-device")
				}
			case "add": // device has a route the target lacks
				d := rapid.SampledFrom(routeDsts).Draw(rt, "dst")
				if !hasDst(a, netip.MustParsePrefix(d)) {
					a = append(a, mkRoute(d, drawHop(rt, "hop")))
					p.Ops = append(p.Ops, "rt:extra-on-device")
				}
			case "hop":
				if len(a) > 0 {
					k := rapid.IntRange(0, len(a)-1).Draw(rt, "k")
					h := otherHop(rt, a[k].Hop)
					x := mkRoute(a[k].Dst.String(), h)
					if !hasRoute(a, x) {
						a[k] = x
						p.Ops = append(p.Ops, "rt:hop-changed")
					}
				}
			case "default":
				def := netip.MustParsePrefix("0.0.0.0/0")
				side := &a
				if rapid.Bool().Draw(rt, "defaultOnTarget") {
					side = &b
				}
				found := -1
				for k, r := range *side {
					if r.Dst == def {
						found = k
					}
				}
				if found >= 0 {
					x := mkRoute("0.0.0.0/0", otherHop(rt, (*side)[found].Hop))
					if !hasRoute(*side, x) {
						(*side)[found] = x
					}
				} else {
					*side = append(*side, mkRoute("0.0.0.0/0", drawHop(rt, "hop")))
				}
				p.Ops = append(p.Ops, "rt:default-switch")
			case "specific": // target gets a more specific route inside an existing one
				for _, d := range routeDsts {
					dp := netip.MustParsePrefix(d)
					if hasDst(b, dp) {
						continue
					}
					inside := false
					for _, r := range b {
						if r.Dst.Bits() < dp.Bits() && r.Dst.Contains(dp.Addr()) {
							inside = true
						}
					}
					if inside {
						b = append(b, mkRoute(d, drawHop(rt, "hop")))
						p.Ops = append(p.Ops, "rt:more-specific")
						break
					}
				}
			case "second":
				if !ties && rapid.IntRange(0, 2).Draw(rt, "skipSecond") != 0 {
					continue
				}
				addSecond(rt, p, &a, &b)
			}
		}
	}
	if ties {
		addSecond(rt, p, &a, &b)
	}
	a = rapid.Permutation(a).Draw(rt, "orderA")
	b = rapid.Permutation(b).Draw(rt, "orderB")
	if !rapid.Bool().Draw(rt, "withDev") {
		for i := range a {
			a[i].Dev = ""
		}
	}
	for _, r := range b {
		p.B.Routes.Lines = append(p.B.Routes.Lines, RLine{Static: true, R: Route{Dst: r.Dst, Hop: r.Hop}})
	}
	for _, r := range a {
		p.A.Routes.Lines = append(p.A.Routes.Lines, RLine{Static: true, R: r})
	}
	// foreign lines at drawn positions
	nf := rapid.IntRange(0, 3).Draw(rt, "nForeign")
	for i := 0; i < nf; i++ {
		f := rapid.SampledFrom(foreignLines).Draw(rt, "foreign")
		dup := false
		for _, x := range p.A.Routes.Lines {
			dup = dup || x.Foreign == f
		}
		if dup {
			continue
		}
		pos := rapid.IntRange(0, len(p.A.Routes.Lines)).Draw(rt, "foreignPos")
		l := append([]RLine(nil), p.A.Routes.Lines[:pos]...)
		l = append(l, RLine{Foreign: f})
		p.A.Routes.Lines = append(l, p.A.Routes.Lines[pos:]...)
		p.Ops = append(p.Ops, "rt:foreign-line")
	}
}

func addSecond(rt *rapid.T, p *Pair, a, b *[]Route) {
	side, name := a, "device"
	if rapid.Bool().Draw(rt, "secondOnTarget") {
		side, name = b, "target"
	}
	if len(*side) == 0 {
		*side = append(*side, mkRoute(rapid.SampledFrom(routeDsts).Draw(rt, "dst"), drawHop(rt, "hop")))
	}
	k := rapid.IntRange(0, len(*side)-1).Draw(rt, "k")
	x := mkRoute((*side)[k].Dst.String(), otherHop(rt, (*side)[k].Hop))
	if !hasRoute(*side, x) {
		*side = append(*side, x)
		p.Ops = append(p.Ops, "rt:second-route-"+name)
		p.Ties++
	}
}

// --------------------------------------------------------------- iptables

// (among them addresses that differ only in their last characters: host .2
// / .3 / .22 / .23, prefix /22 / /23 of one network)
var iptAddrs = []string{"10.1.1.1/32", "10.1.1.2/32", "10.1.1.0/24", "10.1.2.0/24", "10.2.0.0/16", "10.1.1.16/28", "224.0.0.18/32",
	"10.1.1.3/32", "10.1.1.22/32", "10.1.1.23/32", "10.20.0.0/22", "10.20.0.0/23"}
var iptPorts = [][2]int{{22, 22}, {80, 80}, {123, 123}, {1024, 65535}, {0, 1023}, {3000, 4000}, {8080, 8080}, {10000, 65535}, {80, 81}}
var iptIfaces = []string{"eth0", "eth1"}
// log prefixes ("" = none); those with other characters than letters,
// digits, '_' and '-' are printed in quotes by iptables-save
var logPrefixes = []string{"", "", "", "fwlog", "fw_in", "fw#in", "fw#out", "fw#", "drop:", "n#1"}

var iptUserChains = []string{"c1", "c2", "c3", "eth0_in", "droplog"}

// pct is true with probability n/100; the draw shrinks towards false.
func pct(rt *rapid.T, n int, label string) bool {
	return rapid.IntRange(0, 99).Draw(rt, label) >= 100-n
}

func genAddr(rt *rapid.T, label string) *AddrM {
	return &AddrM{P: netip.MustParsePrefix(rapid.SampledFrom(iptAddrs).Draw(rt, label)), Neg: pct(rt, 10, label+"Neg")}
}

func genPort(rt *rapid.T, risky bool, label string) *PortM {
	p := rapid.SampledFrom(iptPorts).Draw(rt, label)
	neg := pct(rt, 8, label+"Neg")
	if neg && p[0] == 0 && !risky {
		neg = false
	}
	return &PortM{Lo: p[0], Hi: p[1], Neg: neg}
}

// genRule draws a rule that iptables accepts in the given table and chain;
// later = user chains this chain may jump to (keeps the chain graph acyclic).
// risky admits the vocabulary of the analysed known findings (protocols the
// device prints by name, positive --syn, marks >= 2^31, negated port ranges
// starting at 0, negated vrrp/ipv6-icmp, state match loaded before the
// protocol match), so that most cases stay clear of them.
func genRule(rt *rapid.T, risky bool, table, chain string, builtin bool, later []string) *Rule {
	r := &Rule{LogLevel: -1}
	if pct(rt, 50, "hasSrc") {
		r.Src = genAddr(rt, "src")
	}
	if pct(rt, 45, "hasDst") {
		r.Dst = genAddr(rt, "dst")
	}
	inOK := !builtin || chain == "INPUT" || chain == "FORWARD" || chain == "PREROUTING"
	outOK := !builtin || chain == "OUTPUT" || chain == "FORWARD" || chain == "POSTROUTING"
	if inOK && pct(rt, 25, "hasIn") {
		r.In = &StrM{rapid.SampledFrom(iptIfaces).Draw(rt, "in"), pct(rt, 8, "inNeg")}
	}
	if outOK && pct(rt, 12, "hasOut") {
		r.Out = &StrM{rapid.SampledFrom(iptIfaces).Draw(rt, "out"), pct(rt, 8, "outNeg")}
	}
	switch k := rapid.IntRange(0, 99).Draw(rt, "protoKind"); {
	case k < 18:
	case k < 50:
		r.Proto = &ProtoM{Num: 6}
	case k < 65:
		r.Proto = &ProtoM{Num: 17}
	case k < 77:
		r.Proto = &ProtoM{Num: 1}
	case k < 84:
		r.Proto = &ProtoM{Num: 112}
	case k < 88:
		r.Proto = &ProtoM{Num: 58}
	case risky:
		r.Proto = &ProtoM{Num: rapid.SampledFrom([]int{50, 51, 47, 89}).Draw(rt, "otherProto")}
	}
	if r.Proto != nil {
		switch r.Proto.Num {
		case 6, 17:
			if pct(rt, 25, "hasSport") {
				r.SPort = genPort(rt, risky, "sport")
			}
			if pct(rt, 60, "hasDport") {
				r.DPort = genPort(rt, risky, "dport")
			}
			if r.Proto.Num == 6 {
				switch k := rapid.IntRange(0, 9).Draw(rt, "syn"); {
				case k < 2:
					r.Syn = -1
				case k < 3 && risky:
					r.Syn = 1
				}
			}
		case 1:
			if pct(rt, 60, "hasIcmpType") {
				r.ICMP = &StrM{rapid.SampledFrom([]string{"0", "8", "3/1", "11"}).Draw(rt, "icmpType"), pct(rt, 5, "icmpNeg")}
			}
		}
		if r.SPort == nil && r.DPort == nil && r.Syn == 0 && r.ICMP == nil && pct(rt, 8, "protoNeg") {
			// negated vrrp / ipv6-icmp belongs to the risky vocabulary
			r.Proto.Neg = risky || (r.Proto.Num != 112 && r.Proto.Num != 58)
		}
	}
	if pct(rt, 15, "hasState") {
		all := []string{"ESTABLISHED", "INVALID", "NEW", "RELATED"}
		mask := rapid.IntRange(1, 15).Draw(rt, "states")
		for i, s := range all {
			if mask&(1<<i) != 0 {
				r.State = append(r.State, s)
			}
		}
	}
	if risky && len(r.State) > 0 && (r.SPort != nil || r.DPort != nil || r.Syn != 0 || r.ICMP != nil) {
		r.StateFirst = rapid.Bool().Draw(rt, "stateFirst")
	}
	// target
	switch table {
	case "mangle":
		if pct(rt, 70, "mark") {
			r.Jump = "MARK"
			v := rapid.SampledFrom([]uint32{1, 2, 15, 255, 4096}).Draw(rt, "markVal")
			if risky && pct(rt, 10, "bigMark") {
				v = 0x80000001
			}
			r.SetMark = &MarkV{Val: v, Mask: 0xffffffff}
		} else {
			r.Jump = "ACCEPT"
		}
	case "nat":
		switch {
		case chain == "POSTROUTING" && pct(rt, 80, "snat"):
			if pct(rt, 25, "masq") {
				r.Jump = "MASQUERADE"
			} else {
				r.Jump, r.ToSource = "SNAT", rapid.SampledFrom([]string{"10.2.3.4", "10.9.1.9"}).Draw(rt, "toSource")
			}
		case (chain == "PREROUTING" || chain == "OUTPUT") && pct(rt, 80, "dnat"):
			r.Jump, r.ToDest = "DNAT", rapid.SampledFrom([]string{"10.1.1.5", "10.1.2.5"}).Draw(rt, "toDest")
		default:
			r.Jump = "ACCEPT"
		}
	default:
		k := rapid.IntRange(0, 99).Draw(rt, "targetKind")
		switch {
		case k < 35:
			r.Jump = "ACCEPT"
		case k < 55:
			r.Jump = "DROP"
		case k < 72 && len(later) > 0:
			r.Jump = rapid.SampledFrom(later).Draw(rt, "jumpTo")
		case k < 82 && len(later) > 0:
			r.Goto = rapid.SampledFrom(later).Draw(rt, "gotoTo")
		case k < 90:
			r.Jump = "LOG"
			r.LogLevel = rapid.SampledFrom([]int{7, 7, 7, 6, 5, 3}).Draw(rt, "logLevel")
			r.LogPrefix = rapid.SampledFrom(logPrefixes).Draw(rt, "logPrefix")
		case k < 95:
			r.Jump, r.RejectWith = "REJECT", rapid.SampledFrom([]string{"icmp-host-prohibited", "icmp-net-unreachable"}).Draw(rt, "rejectWith")
		case !builtin:
			r.Jump = "RETURN"
		default:
			r.Jump = "ACCEPT"
		}
	}
	return r
}

func genTable(rt *rapid.T, risky bool, name string) *Table {
	t := &Table{Name: name}
	var users []string
	if name == "filter" {
		n := rapid.IntRange(0, 3).Draw(rt, "nUserChains")
		idx := rapid.SliceOfNDistinct(rapid.IntRange(0, len(iptUserChains)-1), n, n, rapid.ID[int]).Draw(rt, "userChains")
		for _, i := range idx {
			users = append(users, iptUserChains[i])
		}
	}
	for _, b := range builtinOrder[name] {
		pol := "ACCEPT"
		if name == "filter" && pct(rt, 60, "policyDrop") {
			pol = "DROP"
		}
		t.Chains = append(t.Chains, &Chain{Name: b, Policy: pol})
	}
	for _, u := range users {
		t.Chains = append(t.Chains, &Chain{Name: u, Policy: "-"})
	}
	for _, c := range t.Chains {
		later := users
		if !c.Builtin() {
			for i, u := range users {
				if u == c.Name {
					later = users[i+1:]
				}
			}
		}
		max := 3
		if name != "filter" {
			max = 2
		}
		n := rapid.IntRange(0, max).Draw(rt, "nRules")
		for i := 0; i < n; i++ {
			c.Rules = append(c.Rules, genRule(rt, risky, name, c.Name, c.Builtin(), later))
		}
	}
	return t
}

func genRuleset(rt *rapid.T, risky bool) *Ruleset {
	rs := &Ruleset{}
	rs.Tables = append(rs.Tables, genTable(rt, risky, "filter"))
	if pct(rt, 30, "hasNat") {
		rs.Tables = append(rs.Tables, genTable(rt, risky, "nat"))
	}
	if pct(rt, 25, "hasMangle") {
		rs.Tables = append(rs.Tables, genTable(rt, risky, "mangle"))
	}
	return rs
}

func laterOf(t *Table, c *Chain) []string {
	var l []string
	seen := c.Builtin()
	for _, x := range t.Chains {
		if x.Builtin() {
			continue
		}
		if seen {
			l = append(l, x.Name)
		}
		if x.Name == c.Name {
			seen = true
		}
	}
	return l
}

// editRuleset applies one drawn edit operator; returns its name ("" if it
// was not applicable).
func editRuleset(rt *rapid.T, risky bool, rs *Ruleset, op string) string {
	t := rs.Tables[rapid.IntRange(0, len(rs.Tables)-1).Draw(rt, "editTable")]
	c := t.Chains[rapid.IntRange(0, len(t.Chains)-1).Draw(rt, "editChain")]
	switch op {
	case "rule-add":
		pos := rapid.IntRange(0, len(c.Rules)).Draw(rt, "pos")
		r := genRule(rt, risky, t.Name, c.Name, c.Builtin(), laterOf(t, c))
		l := append([]*Rule(nil), c.Rules[:pos]...)
		l = append(l, r)
		c.Rules = append(l, c.Rules[pos:]...)
	case "rule-del":
		if len(c.Rules) == 0 {
			return ""
		}
		k := rapid.IntRange(0, len(c.Rules)-1).Draw(rt, "k")
		c.Rules = append(c.Rules[:k:k], c.Rules[k+1:]...)
	case "rule-swap":
		if len(c.Rules) < 2 {
			return ""
		}
		k := rapid.IntRange(0, len(c.Rules)-2).Draw(rt, "k")
		c.Rules[k], c.Rules[k+1] = c.Rules[k+1], c.Rules[k]
	case "rule-dup":
		if len(c.Rules) == 0 {
			return ""
		}
		k := rapid.IntRange(0, len(c.Rules)-1).Draw(rt, "k")
		l := append([]*Rule(nil), c.Rules[:k+1]...)
		l = append(l, c.Rules[k].Clone())
		c.Rules = append(l, c.Rules[k+1:]...)
	case "rule-tweak":
		if len(c.Rules) == 0 {
			return ""
		}
		r := c.Rules[rapid.IntRange(0, len(c.Rules)-1).Draw(rt, "k")]
		switch what := rapid.SampledFrom([]string{"dport", "sport", "src", "srcneg", "dst", "syn", "state", "target", "proto", "twoaddrs"}).Draw(rt, "tweak"); {
		case what == "dport" && r.DPort != nil:
			*r.DPort = *genPort(rt, risky, "dport")
		case what == "sport" && r.SPort != nil:
			*r.SPort = *genPort(rt, risky, "sport")
		case what == "src":
			r.Src = genAddr(rt, "src")
		case what == "srcneg" && r.Src != nil:
			r.Src.Neg = !r.Src.Neg
		case what == "dst":
			r.Dst = genAddr(rt, "dst")
		case what == "twoaddrs":
			r.Src = genAddr(rt, "src")
			r.Dst = genAddr(rt, "dst")
		case what == "syn" && r.Proto != nil && r.Proto.Num == 6 && !r.Proto.Neg:
			r.Syn = rapid.SampledFrom([]int{-1, 0}).Draw(rt, "syn")
		case what == "state":
			if len(r.State) > 0 {
				r.State = nil
			} else {
				r.State = []string{"ESTABLISHED", "RELATED"}
			}
		case what == "target":
			switch {
			case r.Jump == "ACCEPT":
				r.Jump = "DROP"
			case r.Jump == "DROP":
				r.Jump = "ACCEPT"
			case r.Jump == "LOG":
				if rapid.Bool().Draw(rt, "logWhat") {
					r.LogLevel = rapid.SampledFrom([]int{7, 6, 5, 3}).Draw(rt, "logLevel")
				} else {
					r.LogPrefix = rapid.SampledFrom(logPrefixes).Draw(rt, "logPrefix")
				}
			case r.Jump == "MARK":
				r.SetMark.Val++
				r.SetMark.Mask = 0xffffffff
			case r.Goto != "":
				r.Jump, r.Goto = r.Goto, ""
			case r.Jump != "" && !extTargets[r.Jump]:
				r.Jump, r.Goto = "", r.Jump
			default:
				return ""
			}
		case what == "proto" && r.SPort == nil && r.DPort == nil && r.Syn == 0 && r.ICMP == nil:
			r.Proto = &ProtoM{Num: rapid.SampledFrom([]int{6, 17, 1, 112, 58}).Draw(rt, "proto")}
		default:
			return ""
		}
	case "policy":
		if !c.Builtin() || t.Name != "filter" {
			return ""
		}
		if c.Policy == "DROP" {
			c.Policy = "ACCEPT"
		} else {
			c.Policy = "DROP"
		}
	case "chain-add":
		for _, u := range []string{"c4", "c5"} {
			if t.Name == "filter" && t.Chain(u) == nil {
				nc := &Chain{Name: u, Policy: "-"}
				n := rapid.IntRange(0, 2).Draw(rt, "nRules")
				for i := 0; i < n; i++ {
					nc.Rules = append(nc.Rules, genRule(rt, risky, t.Name, u, false, nil))
				}
				t.Chains = append(t.Chains, nc)
				if pct(rt, 60, "referenced") {
					bi := t.Chains[0]
					bi.Rules = append(bi.Rules, &Rule{LogLevel: -1, Jump: u})
				}
				return op
			}
		}
		return ""
	case "chain-del":
		if c.Builtin() {
			return ""
		}
		var keep []*Chain
		for _, x := range t.Chains {
			if x == c {
				continue
			}
			var rl []*Rule
			for _, r := range x.Rules {
				if r.Jump != c.Name && r.Goto != c.Name {
					rl = append(rl, r)
				}
			}
			x.Rules = rl
			keep = append(keep, x)
		}
		t.Chains = keep
	case "table-add":
		for _, n := range []string{"nat", "mangle"} {
			if rs.Table(n) == nil {
				rs.Tables = append(rs.Tables, genTable(rt, risky, n))
				return op
			}
		}
		return ""
	case "table-del":
		if len(rs.Tables) < 2 {
			return ""
		}
		k := rapid.IntRange(1, len(rs.Tables)-1).Draw(rt, "k")
		rs.Tables = append(rs.Tables[:k:k], rs.Tables[k+1:]...)
	}
	return op
}

var iptOps = []string{"rule-add", "rule-del", "rule-swap", "rule-dup", "rule-tweak", "rule-tweak", "rule-tweak",
	"policy", "chain-add", "chain-del", "table-add", "table-del"}

// genRulesetPair: R1 is drawn; R2 = R1 or R1 edited. Which of the two is
// the device is drawn as well.
func genRulesetPair(rt *rapid.T, p *Pair, ties bool) {
	risky := pct(rt, 12, "riskyVocabulary")
	if risky {
		p.Ops = append(p.Ops, "ipt:risky-vocabulary")
	}
	r1 := genRuleset(rt, risky)
	r2 := r1.Clone()
	n := 0
	if !pct(rt, 30, "iptEqual") {
		n = rapid.IntRange(1, 3).Draw(rt, "nIptOps")
	}
	for i := 0; i < n; i++ {
		op := rapid.SampledFrom(iptOps).Draw(rt, "iptOp")
		if done := editRuleset(rt, risky, r2, op); done != "" {
			p.Ops = append(p.Ops, "ipt:"+done)
		}
	}
	if ties {
		for _, rs := range []*Ruleset{r1, r2} {
			for _, t := range rs.Tables {
				for _, c := range t.Chains {
					if len(c.Rules) > 0 {
						c.Rules = append(c.Rules, c.Rules[len(c.Rules)-1].Clone())
						p.Ties++
					}
				}
			}
		}
	}
	if rapid.Bool().Draw(rt, "iptSwapSides") {
		r1, r2 = r2, r1
		p.Ops = append(p.Ops, "ipt:sides-swapped")
	}
	p.A.Rules, p.B.Rules = r1, r2
	p.Mode += "ipt "
}

// GenPair draws a (device, target) pair.
func GenPair(rt *rapid.T, o GenOpts) *Pair {
	p := &Pair{
		A: &State{Routes: &RouteTable{}, Rules: &Ruleset{}},
		B: &State{Routes: &RouteTable{}, Rules: &Ruleset{}},
	}
	if o.Routes {
		genRoutePair(rt, p, o.Ties)
	}
	if o.IPT {
		genRulesetPair(rt, p, o.Ties)
	}
	p.Sp = Spelling(rapid.Uint32Range(0, 1<<SpellingBits-1).Draw(rt, "spelling"))
	if p.Sp.has(SvNoProtoFile) {
		// a host without /etc/protocols cannot load a file that names
		// protocols iptables does not know by itself
		p.Sp &^= NsProtoName
	}
	return p
}
