package iosm

import (
	"fmt"
	"net/netip"
	"sort"
	"strconv"
	"strings"

	"pgregory.net/rapid"
)

// ------------------------------------------------------------ scope/canon

type Scope struct {
	Intfs    map[string]bool // interfaces the target defines
	VRFs     map[string]bool // VRFs the target mentions (interfaces or routes)
	RouteVRF map[string]bool // VRFs for which the target has routes
	Empty    bool            // target mentions no VRF at all: nothing is aligned
}

func routeVRF(r string) string {
	f := strings.Fields(r)
	if len(f) > 3 && f[2] == "vrf" {
		return f[3]
	}
	return ""
}

func ScopeOf(b *State) Scope {
	sc := Scope{Intfs: map[string]bool{}, VRFs: map[string]bool{}, RouteVRF: map[string]bool{}}
	for _, i := range b.Intfs {
		sc.Intfs[i.Name] = true
		sc.VRFs[i.VRF] = true
	}
	for r := range b.Routes {
		sc.VRFs[routeVRF(r)] = true
		sc.RouteVRF[routeVRF(r)] = true
	}
	sc.Empty = len(sc.VRFs) == 0
	return sc
}

// ACLRuns is the filtering content of an ACL: runs of consecutive entries
// with the same action, entries inside a run as a sorted multiset; remarks
// are not part of the filter verdict.
func (s *State) ACLRuns(name string) string {
	l, ok := s.ACLs[name]
	if !ok {
		return "<missing acl " + name + ">"
	}
	var out []string
	var run []string
	cur := ""
	flush := func() {
		if len(run) > 0 {
			sort.Strings(run)
			out = append(out, cur+"{"+strings.Join(run, "; ")+"}")
		}
		run = nil
	}
	for _, e := range l {
		if e.IsRemark {
			continue
		}
		act := "deny"
		if e.Permit {
			act = "permit"
		}
		if act != cur {
			flush()
			cur = act
		}
		run = append(run, e.Key(true))
	}
	flush()
	return strings.Join(out, " | ")
}

func (s *State) Canon(sc Scope) string {
	var out []string
	for _, i := range s.Intfs {
		if !sc.Intfs[i.Name] {
			continue
		}
		line := "intf " + i.Name
		if i.In != "" {
			line += "\n  in: " + s.ACLRuns(i.In)
		}
		if i.Out != "" {
			line += "\n  out: " + s.ACLRuns(i.Out)
		}
		if i.Crypto != "" {
			var es []string
			for _, e := range s.Crypto[i.Crypto] {
				if e.Kind == "gdoi" {
					continue
				}
				x := "peers " + strings.Join(e.Peers, ",")
				if e.FilterIn != "" {
					x += " in: " + s.ACLRuns(e.FilterIn)
				}
				if e.FilterOut != "" {
					x += " out: " + s.ACLRuns(e.FilterOut)
				}
				es = append(es, x)
			}
			sort.Strings(es)
			if len(es) > 0 {
				line += "\n  crypto: " + strings.Join(es, "\n          ")
			}
		}
		out = append(out, line)
	}
	var rs []string
	for r := range s.Routes {
		if sc.RouteVRF[routeVRF(r)] {
			rs = append(rs, r)
		}
	}
	sort.Strings(rs)
	out = append(out, rs...)
	return strings.Join(out, "\n")
}

// Protected: ACLs and crypto maps outside Netspoc's scope (C07).
func (s *State) Protected(sc Scope) map[string]bool {
	reach := map[string]bool{}
	prot := map[string]bool{}
	visitCrypto := func(n string, set map[string]bool) {
		if n == "" || s.Crypto[n] == nil {
			return
		}
		set["crypto:"+n] = true
		for _, e := range s.Crypto[n] {
			for _, a := range []string{e.FilterIn, e.FilterOut} {
				if a != "" && s.ACLs[a] != nil {
					set["acl:"+a] = true
				}
			}
		}
	}
	managedIntf := func(i *Intf) bool {
		if sc.Empty {
			return false
		}
		return sc.VRFs[i.VRF] && sc.Intfs[i.Name]
	}
	for _, i := range s.Intfs {
		set := prot
		if managedIntf(i) {
			set = reach
		}
		for _, a := range []string{i.In, i.Out} {
			if a != "" && s.ACLs[a] != nil {
				set["acl:"+a] = true
			}
		}
		visitCrypto(i.Crypto, set)
	}
	for n := range s.ACLs {
		if !reach["acl:"+n] && !strings.Contains(n, "-DRC-") {
			prot["acl:"+n] = true
		}
	}
	for n := range s.Crypto {
		gdoi := false
		for _, e := range s.Crypto[n] {
			gdoi = gdoi || e.Kind == "gdoi"
		}
		if gdoi || (!reach["crypto:"+n] && !strings.Contains(n, "-DRC-")) {
			visitCrypto(n, prot)
		}
	}
	return prot
}

func (s *State) ObjText(key string) (string, bool) {
	kind, name, _ := strings.Cut(key, ":")
	switch kind {
	case "acl":
		l, ok := s.ACLs[name]
		if !ok {
			return "", false
		}
		var b strings.Builder
		for _, e := range l {
			b.WriteString(e.Key(true) + "\n")
		}
		return b.String(), true
	case "crypto":
		l, ok := s.Crypto[name]
		if !ok {
			return "", false
		}
		var b strings.Builder
		for _, e := range l {
			fmt.Fprintf(&b, "%d %s %v %s %s %v\n", e.Seq, e.Kind, e.Peers, e.FilterIn, e.FilterOut, e.Extra)
		}
		return b.String(), true
	}
	return "", false
}

// FrameText: everything else that must stay: interfaces outside the
// scope with all their settings, addresses of all interfaces, routes of
// unmanaged VRFs, unmodelled lines.
func (s *State) FrameText(sc Scope) string {
	var out []string
	for _, i := range s.Intfs {
		base := fmt.Sprintf("interface %s vrf=%s shut=%v addr=%v inspect=%s extra=%v", i.Name, i.VRF, i.Shut, i.Addr, i.Inspect, i.Extra)
		if sc.Empty || !sc.VRFs[i.VRF] || !sc.Intfs[i.Name] {
			base += fmt.Sprintf(" in=%s out=%s crypto=%s", i.In, i.Out, i.Crypto)
		}
		out = append(out, base)
	}
	var rs []string
	for r := range s.Routes {
		if !sc.RouteVRF[routeVRF(r)] {
			rs = append(rs, r)
		}
	}
	sort.Strings(rs)
	out = append(out, rs...)
	out = append(out, s.Opaque...)
	return strings.Join(out, "\n")
}

// ---------------------------------------------------------------- packets

type Packet struct {
	Proto        string
	Src, Dst     netip.Addr
	SPort, DPort int
	ICMPType     int
	Established  bool
}

func (p Packet) String() string {
	return fmt.Sprintf("%s %s:%d -> %s:%d icmp-type %d", p.Proto, p.Src, p.SPort, p.Dst, p.DPort, p.ICMPType)
}

func portMatch(po Port, p int) bool {
	switch po.Op {
	case "":
		return true
	case "eq":
		return p == po.Lo
	case "neq":
		return p != po.Lo
	case "gt":
		return p > po.Lo
	case "lt":
		return p < po.Lo
	case "range":
		return po.Lo <= p && p <= po.Hi
	}
	return false
}

func aceMatch(a *ACE, p Packet) bool {
	if a.IsRemark {
		return false
	}
	if a.Proto != "ip" && a.Proto != p.Proto {
		return false
	}
	if !a.Src.Contains(p.Src) || !a.Dst.Contains(p.Dst) {
		return false
	}
	switch a.Proto {
	case "tcp", "udp":
		if !portMatch(a.SPort, p.SPort) || !portMatch(a.DPort, p.DPort) {
			return false
		}
		if strings.Contains(a.Tail, "established") && !p.Established {
			return false
		}
	case "icmp":
		if a.ICMP != "" {
			t, _, _ := strings.Cut(a.ICMP, " ")
			n, _ := strconv.Atoi(t)
			if n != p.ICMPType {
				return false
			}
		}
	}
	return true
}

func (s *State) Verdict(acl string, p Packet) (bool, int) {
	for i, e := range s.ACLs[acl] {
		if aceMatch(&e.ACE, p) {
			return e.Permit, i + 1
		}
	}
	return false, 0
}

func Universe(states ...*State) []Packet {
	addrs := map[netip.Addr]bool{netip.MustParseAddr("8.8.8.8"): true}
	ports := map[int]bool{1: true, 65000: true}
	protos := map[string]bool{"tcp": true}
	icmps := map[int]bool{8: true}
	srcPorts := false
	addPfx := func(p netip.Prefix) {
		addrs[p.Addr()] = true
		if p.Bits() == 0 || p.Bits() == 32 {
			return
		}
		a := p.Addr().As4()
		v := uint32(a[0])<<24 | uint32(a[1])<<16 | uint32(a[2])<<8 | uint32(a[3])
		size := uint32(1) << (32 - p.Bits())
		for _, x := range []uint32{v + size, v + 1} {
			addrs[netip.AddrFrom4([4]byte{byte(x >> 24), byte(x >> 16), byte(x >> 8), byte(x)})] = true
		}
	}
	for _, s := range states {
		for _, l := range s.ACLs {
			for _, e := range l {
				if e.IsRemark {
					continue
				}
				addPfx(e.Src)
				addPfx(e.Dst)
				for _, po := range []Port{e.SPort, e.DPort} {
					if po.Op != "" {
						for _, n := range []int{po.Lo, po.Lo + 1, po.Hi, po.Hi + 1} {
							if n > 0 && n < 65536 {
								ports[n] = true
							}
						}
					}
				}
				if e.SPort.Op != "" {
					srcPorts = true
				}
				if e.Proto != "ip" {
					protos[e.Proto] = true
				}
				if e.ICMP != "" {
					t, _, _ := strings.Cut(e.ICMP, " ")
					n, _ := strconv.Atoi(t)
					icmps[n] = true
				}
			}
		}
	}
	var al []netip.Addr
	for a := range addrs {
		al = append(al, a)
	}
	sort.Slice(al, func(i, j int) bool { return al[i].Less(al[j]) })
	var pl []int
	for p := range ports {
		pl = append(pl, p)
	}
	sort.Ints(pl)
	var prl []string
	for p := range protos {
		prl = append(prl, p)
	}
	sort.Strings(prl)
	var il []int
	for t := range icmps {
		il = append(il, t)
	}
	sort.Ints(il)
	var res []Packet
	for _, src := range al {
		for _, dst := range al {
			for _, pr := range prl {
				switch pr {
				case "tcp", "udp":
					for _, dp := range pl {
						res = append(res, Packet{Proto: pr, Src: src, Dst: dst, SPort: 40000, DPort: dp})
						if pr == "tcp" {
							res = append(res, Packet{Proto: pr, Src: src, Dst: dst, SPort: 40000, DPort: dp, Established: true})
						}
					}
					if srcPorts {
						for _, sp := range pl {
							res = append(res, Packet{Proto: pr, Src: src, Dst: dst, SPort: sp, DPort: pl[len(pl)/2]})
						}
					}
				case "icmp":
					for _, t := range il {
						res = append(res, Packet{Proto: pr, Src: src, Dst: dst, ICMPType: t})
					}
				default:
					res = append(res, Packet{Proto: pr, Src: src, Dst: dst})
				}
			}
		}
	}
	return res
}

// -------------------------------------------------------------- generator

type GenOpts struct {
	Decorate bool
	Ties     bool
	MaxLines int
	// RoutingOnlyIn: one in so many derived pairs gets a target without
	// interface definitions (0 = 10).
	RoutingOnlyIn int
}

var (
	hosts4   = []string{"10.1.1.1", "10.1.1.2", "10.1.1.3", "10.1.2.4", "10.2.2.2", "192.168.7.7"}
	nets4    = []string{"10.1.1.0/24", "10.1.0.0/16", "10.2.2.0/24", "10.1.1.0/30", "172.16.0.0/12"}
	portList = []int{22, 80, 443, 53, 123, 8080}
	intfList = []string{"Ethernet0", "Ethernet1", "Serial0"}
	dsts     = []string{"0.0.0.0/0", "10.0.0.0/8", "10.3.0.0/16", "10.3.3.0/24", "10.3.3.128/25", "192.168.0.0/16"}
	gws      = []string{"10.1.1.254", "10.2.2.254", "10.1.1.253"}
)

func pfx(s string) netip.Prefix { return netip.MustParsePrefix(s) }

func genAddr(t *rapid.T, label string) netip.Prefix {
	switch rapid.IntRange(0, 9).Draw(t, label+"K") {
	case 0, 1, 2:
		return pfx("0.0.0.0/0")
	case 3, 4, 5, 6:
		return pfx(rapid.SampledFrom(hosts4).Draw(t, label+"H") + "/32")
	default:
		return pfx(rapid.SampledFrom(nets4).Draw(t, label+"N"))
	}
}

func genPort(t *rapid.T, label string) Port {
	k := rapid.IntRange(0, 9).Draw(t, label+"K")
	if k < 5 {
		return Port{}
	}
	p := rapid.SampledFrom(portList).Draw(t, label+"P")
	switch k {
	case 5:
		return Port{Op: "range", Lo: p, Hi: p + rapid.IntRange(1, 1000).Draw(t, label+"R")}
	case 6:
		return Port{Op: rapid.SampledFrom([]string{"gt", "lt", "neq"}).Draw(t, label+"O"), Lo: p}
	}
	return Port{Op: "eq", Lo: p}
}

func genACE(t *rapid.T, label string) *ACE {
	a := &ACE{}
	a.Permit = rapid.IntRange(0, 2).Draw(t, label+"act") != 0
	a.Proto = rapid.SampledFrom([]string{"ip", "ip", "tcp", "tcp", "tcp", "udp", "icmp", "50"}).Draw(t, label+"proto")
	a.Src = genAddr(t, label+"src")
	a.Dst = genAddr(t, label+"dst")
	switch a.Proto {
	case "tcp", "udp":
		if rapid.IntRange(0, 3).Draw(t, label+"spOn") == 0 {
			a.SPort = genPort(t, label+"sp")
		}
		a.DPort = genPort(t, label+"dp")
		if a.Proto == "tcp" && rapid.IntRange(0, 9).Draw(t, label+"est") == 0 {
			a.Tail = "established"
		}
	case "icmp":
		a.ICMP = rapid.SampledFrom([]string{"", "8", "0", "3", "3 3", "11"}).Draw(t, label+"icmp")
	}
	switch rapid.IntRange(0, 9).Draw(t, label+"log") {
	case 0, 1:
		a.Log = "log"
	case 2:
		a.Log = "log-input"
	}
	return a
}

func hasDup(l []*Entry, a *ACE) bool {
	k := a.Key(false)
	for _, e := range l {
		if !e.IsRemark && e.Key(false) == k {
			return true
		}
	}
	return false
}

func genACL(t *rapid.T, max int, label string) []*Entry {
	n := rapid.IntRange(1, max).Draw(t, label+"len")
	var l []*Entry
	for i := 0; i < n; i++ {
		if rapid.IntRange(0, 14).Draw(t, fmt.Sprintf("%s%drem", label, i)) == 0 {
			l = append(l, &Entry{ACE: ACE{IsRemark: true, Remark: fmt.Sprintf("rule%d", i)}})
			continue
		}
		a := genACE(t, fmt.Sprintf("%s%d", label, i))
		if hasDup(l, a) {
			continue
		}
		l = append(l, &Entry{ACE: *a})
	}
	if rapid.IntRange(0, 2).Draw(t, label+"tail") != 0 {
		d := &ACE{Proto: "ip", Src: pfx("0.0.0.0/0"), Dst: pfx("0.0.0.0/0")}
		if !hasDup(l, d) {
			l = append(l, &Entry{ACE: *d})
		}
	}
	hasRule := false
	for _, e := range l {
		hasRule = hasRule || !e.IsRemark
	}
	if !hasRule {
		l = append(l, &Entry{ACE: ACE{Proto: "ip", Src: pfx("0.0.0.0/0"), Dst: pfx("0.0.0.0/0")}})
	}
	renumber(l)
	return l
}

func renumber(l []*Entry) {
	for i, e := range l {
		e.Seq = (i + 1) * 10
	}
}

func genRoutes(t *rapid.T, s *State, vrf string, n int, label string) {
	seen := map[string]bool{}
	for r := range s.Routes {
		f := strings.Fields(r)
		seen[strings.Join(f[:len(f)-1], " ")] = true
	}
	for i := 0; i < n; i++ {
		d := pfx(rapid.SampledFrom(dsts).Draw(t, fmt.Sprintf("%sD%d", label, i)))
		head := "ip route "
		if vrf != "" {
			head += "vrf " + vrf + " "
		}
		key := head + d.Addr().String() + " " + maskOf(d.Bits())
		if seen[key] {
			continue
		}
		seen[key] = true
		s.Routes[key+" "+rapid.SampledFrom(gws).Draw(t, fmt.Sprintf("%sG%d", label, i))] = true
	}
}

func GenTarget(t *rapid.T, o GenOpts, label string) *State {
	s := NewState()
	if o.MaxLines == 0 {
		o.MaxLines = 7
	}
	n := rapid.IntRange(1, 3).Draw(t, label+"nIntf")
	useVRF := rapid.IntRange(0, 3).Draw(t, label+"useVRF") == 0
	for i := 0; i < n; i++ {
		name := intfList[i]
		in := &Intf{Name: name, Addr: []string{fmt.Sprintf("ip address 10.1.%d.1 255.255.255.0", i+1)}}
		if useVRF && rapid.Bool().Draw(t, label+name+"vrf") {
			in.VRF, in.VRFKind = rapid.SampledFrom([]string{"V1", "V2"}).Draw(t, label+name+"vrfN"), "ip vrf forwarding"
		}
		if rapid.IntRange(0, 7).Draw(t, label+name+"bound") != 0 || i == 0 {
			acl := name + "_in"
			s.ACLs[acl] = genACL(t, o.MaxLines, label+acl)
			in.In = acl
		}
		if rapid.IntRange(0, 5).Draw(t, label+name+"out") == 0 {
			acl := name + "_out"
			s.ACLs[acl] = genACL(t, 3, label+acl)
			in.Out = acl
		}
		s.Intfs = append(s.Intfs, in)
	}
	if rapid.IntRange(0, 4).Draw(t, label+"crypto") == 0 {
		in := s.Intfs[rapid.IntRange(0, n-1).Draw(t, label+"cryptoIntf")]
		cm := "crypto-" + in.Name
		np := rapid.IntRange(1, 5).Draw(t, label+"cryptoN")
		for k := 1; k <= np; k++ {
			e := &CryptoEntry{Seq: k, Kind: "ipsec-isakmp", Peers: []string{fmt.Sprintf("10.9.9.%d", k)}}
			if rapid.Bool().Draw(t, fmt.Sprintf("%scf%d", label, k)) {
				acl := fmt.Sprintf("crypto-filter-%s-%d", in.Name, k)
				s.ACLs[acl] = genACL(t, 3, label+acl)
				if rapid.Bool().Draw(t, fmt.Sprintf("%scfdir%d", label, k)) {
					e.FilterIn = acl
				} else {
					e.FilterOut = acl
				}
			}
			s.Crypto[cm] = append(s.Crypto[cm], e)
		}
		in.Crypto = cm
	}
	if !rapid.Bool().Draw(t, label+"noRoutes") {
		vrfs := map[string]bool{}
		for _, i := range s.Intfs {
			vrfs[i.VRF] = true
		}
		for _, v := range sortedKeys(vrfs) {
			genRoutes(t, s, v, rapid.IntRange(0, 3).Draw(t, label+"nR"+v), label+"r"+v)
		}
	}
	return s
}

func (s *State) renameACL(old, new string) {
	if old == new || s.ACLs[new] != nil || s.ACLs[old] == nil {
		return
	}
	s.ACLs[new] = s.ACLs[old]
	delete(s.ACLs, old)
	for _, i := range s.Intfs {
		if i.In == old {
			i.In = new
		}
		if i.Out == old {
			i.Out = new
		}
	}
	for _, l := range s.Crypto {
		for _, e := range l {
			if e.FilterIn == old {
				e.FilterIn = new
			}
			if e.FilterOut == old {
				e.FilterOut = new
			}
		}
	}
}

func (s *State) mutate(t *rapid.T, label string) string {
	names := sortedKeys(s.ACLs)
	pick := func() string {
		if len(names) == 0 {
			return ""
		}
		return rapid.SampledFrom(names).Draw(t, label+"acl")
	}
	switch rapid.IntRange(0, 13).Draw(t, label+"op") {
	case 0, 1:
		n := pick()
		if n == "" {
			return "noop"
		}
		l := s.ACLs[n]
		a := genACE(t, label+"new")
		if hasDup(l, a) {
			return "noop"
		}
		i := rapid.IntRange(0, len(l)).Draw(t, label+"pos")
		s.ACLs[n] = append(l[:i:i], append([]*Entry{{ACE: *a}}, l[i:]...)...)
		renumber(s.ACLs[n])
		return "addLine"
	case 2, 3:
		n := pick()
		if n == "" || len(s.ACLs[n]) < 2 {
			return "noop"
		}
		l := s.ACLs[n]
		i := rapid.IntRange(0, len(l)-1).Draw(t, label+"pos")
		s.ACLs[n] = append(l[:i:i], l[i+1:]...)
		renumber(s.ACLs[n])
		return "delLine"
	case 4, 5:
		n := pick()
		if n == "" || len(s.ACLs[n]) < 2 {
			return "noop"
		}
		l := s.ACLs[n]
		i := rapid.IntRange(0, len(l)-1).Draw(t, label+"from")
		e := l[i]
		rest := append(l[:i:i], l[i+1:]...)
		j := rapid.IntRange(0, len(rest)).Draw(t, label+"to")
		s.ACLs[n] = append(rest[:j:j], append([]*Entry{e}, rest[j:]...)...)
		renumber(s.ACLs[n])
		return "moveLine"
	case 6:
		n := pick()
		if n == "" {
			return "noop"
		}
		l := s.ACLs[n]
		i := rapid.IntRange(0, len(l)-1).Draw(t, label+"pos")
		if l[i].IsRemark {
			return "noop"
		}
		c := *l[i]
		if rapid.Bool().Draw(t, label+"what") {
			c.Log = rapid.SampledFrom([]string{"", "log", "log-input"}).Draw(t, label+"log")
		} else {
			c.Permit = !c.Permit
			// A device cannot hold two entries that differ only in 'log'.
			if hasDup(l, &c.ACE) {
				return "noop"
			}
		}
		l[i] = &c
		return "chgLine"
	case 7:
		n := pick()
		if n == "" {
			return "noop"
		}
		base, _, _ := strings.Cut(n, "-DRC-")
		s.renameACL(n, rapid.SampledFrom([]string{base + "-DRC-0", base + "-DRC-1", base, "manual_" + base}).Draw(t, label+"nn"))
		return "renameACL"
	case 8:
		vrfs := map[string]bool{}
		for _, i := range s.Intfs {
			vrfs[i.VRF] = true
		}
		v := rapid.SampledFrom(sortedKeys(vrfs)).Draw(t, label+"vrf")
		rs := []string{}
		for r := range s.Routes {
			if routeVRF(r) == v {
				rs = append(rs, r)
			}
		}
		sort.Strings(rs)
		if len(rs) == 0 || rapid.Bool().Draw(t, label+"radd") {
			genRoutes(t, s, v, 1, label+"rt")
			return "routeAdd"
		}
		r := rapid.SampledFrom(rs).Draw(t, label+"r")
		delete(s.Routes, r)
		if rapid.Bool().Draw(t, label+"rchg") {
			f := strings.Fields(r)
			f[len(f)-1] = rapid.SampledFrom(gws).Draw(t, label+"gw")
			s.Routes[strings.Join(f, " ")] = true
			return "routeChg"
		}
		return "routeDel"
	case 9:
		i := s.Intfs[rapid.IntRange(0, len(s.Intfs)-1).Draw(t, label+"i")]
		if rapid.Bool().Draw(t, label+"unbind") {
			if rapid.Bool().Draw(t, label+"dir") {
				i.In = ""
			} else {
				i.Out = ""
			}
			return "unbind"
		}
		if n := pick(); n != "" {
			if rapid.Bool().Draw(t, label+"dir") {
				i.In = n
			} else {
				i.Out = n
			}
			return "rebind"
		}
	case 10:
		an := rapid.SampledFrom([]string{"Ethernet0_in-DRC-0", "Ethernet0_in-DRC-1", "Ethernet1_in-DRC-0", "old_acl"}).Draw(t, label+"lan")
		if s.ACLs[an] == nil {
			s.ACLs[an] = genACL(t, 2, label+"lacl")
			return "leftover"
		}
	case 11:
		n := pick()
		if n == "" || len(s.ACLs[n]) < 2 {
			return "noop"
		}
		l := s.ACLs[n]
		i := rapid.IntRange(0, len(l)-2).Draw(t, label+"pos")
		l[i], l[i+1] = l[i+1], l[i]
		renumber(l)
		return "swap"
	case 12: // crypto changes
		return s.mutateCrypto(t, label)
	case 13:
		// several changes in one ACL: shuffle a block
		n := pick()
		if n == "" || len(s.ACLs[n]) < 3 {
			return "noop"
		}
		l := s.ACLs[n]
		perm := rapid.Permutation(l).Draw(t, label+"perm")
		s.ACLs[n] = perm
		renumber(perm)
		return "shuffle"
	}
	return "noop"
}

// mutateCrypto changes the crypto map of the device (entries removed,
// renumbered, peers and filters changed).
func (s *State) mutateCrypto(t *rapid.T, label string) string {
	for _, cn := range sortedKeys(s.Crypto) {
		l := s.Crypto[cn]
		switch rapid.IntRange(0, 8).Draw(t, label+"cop") {
		case 7:
			// the device keeps the first and the last entry, numbered 1
			// and 3: the entries the target adds meet a gap followed by
			// an occupied number
			if len(l) < 3 {
				return "noop"
			}
			l[len(l)-1].Seq = 3
			s.Crypto[cn] = []*CryptoEntry{l[0], l[len(l)-1]}
			return "cryptoSparseKept"
		case 8:
			// as before, but number 3 is held by an entry of a peer the
			// target does not have
			if len(l) < 3 {
				return "noop"
			}
			s.Crypto[cn] = []*CryptoEntry{l[0], {Seq: 3, Kind: "ipsec-isakmp", Peers: []string{"10.9.9.77"}}}
			return "cryptoSparseForeign"
		case 4, 5:
			// entries removed on the device (the target adds them), the
			// numbering of the rest possibly keeps a gap
			if len(l) < 2 {
				return "noop"
			}
			k := rapid.IntRange(1, len(l)-1).Draw(t, label+"ckeep")
			perm := rapid.Permutation(l).Draw(t, label+"cperm")
			keep := append([]*CryptoEntry(nil), perm[:k]...)
			sort.Slice(keep, func(i, j int) bool { return keep[i].Seq < keep[j].Seq })
			s.Crypto[cn] = keep
			return "cryptoEntriesRemoved"
		case 6:
			// spread the numbering: 1,2,3 -> 1,3,5
			for i, e := range l {
				e.Seq = 2*i + 1
			}
			return "cryptoGap"
		case 0:
			l[0].Peers = []string{"10.9.9.77"}
			return "cryptoPeer"
		case 1:
			l[0].Seq += 5
			return "cryptoSeq"
		case 2:
			l[0].FilterIn, l[0].FilterOut = l[0].FilterOut, l[0].FilterIn
			return "cryptoFilterDir"
		case 3:
			if l[0].FilterIn != "" {
				l[0].FilterIn = ""
				return "cryptoFilterOff"
			}
		}
	}
	return "noop"
}

// plantInsertRange builds the shape "several lines inserted directly in
// front of a run of rules with one action": the target gets, in front of
// the first line of such a run, a line L with the run's action, a line D
// with the other action (mostly L with the action flipped, so that the two
// overlap) and a further line P with the run's action; the device holds L
// further down inside the same run. A correct script moves L up.
func plantInsertRange(t *rapid.T, a, b *State) string {
	var names []string
	an := map[string]string{}
	for _, n := range sortedKeys(b.ACLs) {
		for _, cand := range []string{n, n + "-DRC-0"} {
			if a.ACLs[cand] != nil {
				an[n] = cand
				names = append(names, n)
				break
			}
		}
	}
	if len(names) == 0 {
		return "noop"
	}
	n := rapid.SampledFrom(names).Draw(t, "plantACL")
	lb, la := b.ACLs[n], a.ACLs[an[n]]
	var starts []int
	prev := ""
	for i, e := range lb {
		if e.IsRemark {
			continue
		}
		act := "deny"
		if e.Permit {
			act = "permit"
		}
		if act != prev && i+1 < len(lb) && !lb[i+1].IsRemark && lb[i+1].Permit == e.Permit {
			starts = append(starts, i)
		}
		prev = act
	}
	if len(starts) == 0 {
		return "noop"
	}
	i := rapid.SampledFrom(starts).Draw(t, "plantAt")
	alpha := lb[i].Permit
	j := -1
	for x, e := range la {
		if !e.IsRemark && e.Key(true) == lb[i].Key(true) {
			j = x
			break
		}
	}
	if j < 0 {
		return "noop"
	}
	k := j
	for k+1 < len(la) && (la[k+1].IsRemark || la[k+1].Permit == alpha) {
		k++
	}
	for k > j && la[k].IsRemark {
		k--
	}
	if k == j {
		return "noop"
	}
	l := genACE(t, "plantL")
	l.Permit = alpha
	d := *l
	d.Permit = !alpha
	if rapid.IntRange(0, 2).Draw(t, "plantDrandom") == 0 {
		d = *genACE(t, "plantD")
		d.Permit = !alpha
	}
	pp := genACE(t, "plantP")
	pp.Permit = alpha
	for _, x := range []*ACE{l, &d, pp} {
		if hasDup(lb, x) || hasDup(la, x) {
			return "noop"
		}
	}
	if l.Key(false) == pp.Key(false) || d.Key(false) == pp.Key(false) {
		return "noop"
	}
	nb := append(lb[:i:i], append([]*Entry{{ACE: *l}, {ACE: d}, {ACE: *pp}}, lb[i:]...)...)
	at := rapid.IntRange(j+1, k).Draw(t, "plantOld") + 1
	na := append(la[:at:at], append([]*Entry{{ACE: *l}}, la[at:]...)...)
	res := "plantInsertRange"
	// A remark inside the run, between the run's first line and the old
	// place of L, at the same place on both sides.
	if rapid.IntRange(0, 3).Draw(t, "plantRemark") != 0 {
		p := rapid.IntRange(j+1, at).Draw(t, "plantRemarkAt")
		q := -1
		for x, e := range nb {
			if !e.IsRemark && !na[p-1].IsRemark && e.Key(true) == na[p-1].Key(true) {
				q = x
			}
		}
		if q >= 0 {
			rem := Entry{ACE: ACE{IsRemark: true, Remark: "planted"}}
			r1, r2 := rem, rem
			na = append(na[:p:p], append([]*Entry{&r1}, na[p:]...)...)
			nb = append(nb[:q+1:q+1], append([]*Entry{&r2}, nb[q+1:]...)...)
			res = "plantInsertRangeRemark"
		}
	}
	b.ACLs[n] = nb
	a.ACLs[an[n]] = na
	renumber(b.ACLs[n])
	renumber(a.ACLs[an[n]])
	return res
}

// plantRemarkOnly builds the shape "the only line that the device's ACL
// and the target's have in common is a remark": every rule of the device's
// ACL differs from its counterpart in the logging keyword only, so the two
// ACLs agree on every packet.
func plantRemarkOnly(t *rapid.T, a, b *State) string {
	var names []string
	an := map[string]string{}
	for _, n := range sortedKeys(b.ACLs) {
		for _, cand := range []string{n, n + "-DRC-0"} {
			if a.ACLs[cand] != nil {
				an[n] = cand
				names = append(names, n)
				break
			}
		}
	}
	if len(names) == 0 {
		return "noop"
	}
	n := rapid.SampledFrom(names).Draw(t, "remarkOnlyACL")
	common := false
	for _, e := range b.ACLs[n] {
		if e.IsRemark {
			for _, x := range a.ACLs[an[n]] {
				common = common || x.IsRemark && x.Remark == e.Remark
			}
		}
	}
	if !common {
		at := rapid.IntRange(0, 1).Draw(t, "remarkOnlyAt")
		for _, st := range []struct {
			s *State
			n string
		}{{a, an[n]}, {b, n}} {
			l := st.s.ACLs[st.n]
			i := at
			if i > len(l) {
				i = len(l)
			}
			st.s.ACLs[st.n] = append(l[:i:i], append([]*Entry{{ACE: ACE{IsRemark: true, Remark: "common"}}}, l[i:]...)...)
		}
	}
	for _, e := range a.ACLs[an[n]] {
		if e.IsRemark {
			continue
		}
		if e.Log == "" {
			e.Log = "log"
		} else {
			e.Log = ""
		}
	}
	renumber(a.ACLs[an[n]])
	renumber(b.ACLs[n])
	return "plantRemarkOnly"
}

type Pair struct {
	A, B *State
	Mode string
	Ops  []string
	Sp   Spelling
}

func GenPair(t *rapid.T, o GenOpts) *Pair {
	p := &Pair{}
	p.B = GenTarget(t, o, "B")
	if rapid.IntRange(0, 5).Draw(t, "independent") == 0 {
		p.Mode = "independent"
		p.A = GenTarget(t, o, "A")
		// device must know the target's interfaces with the same VRF
		for _, bi := range p.B.Intfs {
			ai := p.A.intf(bi.Name)
			if ai == nil {
				p.A.Intfs = append(p.A.Intfs, &Intf{Name: bi.Name, VRF: bi.VRF, VRFKind: bi.VRFKind, Addr: bi.Addr})
			} else {
				ai.VRF, ai.VRFKind = bi.VRF, bi.VRFKind
			}
		}
		// routes of the independent device must live in its VRFs
	} else {
		p.Mode = "derived"
		p.A = p.B.Clone()
		if rapid.IntRange(0, 2).Draw(t, "drcNames") != 0 {
			for _, n := range sortedKeys(p.A.ACLs) {
				p.A.renameACL(n, n+"-DRC-0")
			}
		}
	}
	n := rapid.IntRange(0, 6).Draw(t, "nOps")
	for i := 0; i < n; i++ {
		p.Ops = append(p.Ops, p.A.mutate(t, fmt.Sprintf("op%d", i)))
	}
	// Changes of a crypto map come in combinations (entries numbered
	// differently and a filter changed, ...): two more of them for half of
	// the devices that have a crypto map.
	if len(p.A.Crypto) > 0 && rapid.Bool().Draw(t, "cryptoCombo") {
		for i := 0; i < 2; i++ {
			p.Ops = append(p.Ops, p.A.mutateCrypto(t, fmt.Sprintf("cc%d", i)))
		}
	}
	roIn := o.RoutingOnlyIn
	if roIn == 0 {
		roIn = 10
	}
	if p.Mode == "derived" && rapid.IntRange(0, roIn-1).Draw(t, "routingOnly") == 0 {
		// The device was fully managed once; the target now is one of a
		// router with managed=routing_only: routes, no interface
		// definitions, no ACLs, no crypto.
		p.Mode = "routingOnly"
		p.B.Intfs = nil
		p.B.ACLs = map[string][]*Entry{}
		p.B.Crypto = map[string][]*CryptoEntry{}
		p.Ops = append(p.Ops, "routingOnlyTarget")
	}
	if p.Mode == "derived" && rapid.IntRange(0, 3).Draw(t, "plant") == 0 {
		p.Ops = append(p.Ops, plantInsertRange(t, p.A, p.B))
	}
	if p.Mode == "derived" && rapid.IntRange(0, 11).Draw(t, "plantRemarkOnly") == 0 {
		p.Ops = append(p.Ops, plantRemarkOnly(t, p.A, p.B))
	}
	for _, i := range p.A.Intfs {
		if i.In != "" && p.A.ACLs[i.In] == nil {
			i.In = ""
		}
		if i.Out != "" && p.A.ACLs[i.Out] == nil {
			i.Out = ""
		}
	}
	if o.Decorate {
		p.Ops = append(p.Ops, p.A.decorate(t, p.B)...)
	}
	bits := rapid.IntRange(0, 7).Draw(t, "spelling")
	if rapid.IntRange(0, 2).Draw(t, "plainSpelling") == 0 {
		bits = 0
	}
	p.Sp = Spelling{NamedPorts: bits&1 != 0, SeqNumbers: bits&2 != 0, NamedProto: bits&4 != 0}
	return p
}

// decorate adds content outside Netspoc's scope.
func (s *State) decorate(t *rapid.T, b *State) []string {
	var did []string
	if rapid.IntRange(0, 2).Draw(t, "decACL") != 0 {
		n := rapid.SampledFrom([]string{"manual_acl", "vty_acl"}).Draw(t, "decACLn")
		if s.ACLs[n] == nil {
			s.ACLs[n] = genACL(t, 3, "decACLb")
			did = append(did, "dec:unboundACL")
		}
	}
	if rapid.IntRange(0, 2).Draw(t, "decVRF") != 0 {
		// interface in a VRF the target does not mention
		an := rapid.SampledFrom([]string{"lo9_in", "lo9_in-DRC-0"}).Draw(t, "decVRFacl")
		if s.ACLs[an] == nil && s.intf("Loopback9") == nil {
			s.ACLs[an] = genACL(t, 3, "decVRFb")
			s.Intfs = append(s.Intfs, &Intf{Name: "Loopback9", VRF: "OTHER", VRFKind: "ip vrf forwarding",
				Addr: []string{"ip address 10.99.9.1 255.255.255.0"}, In: an})
			s.Routes["ip route vrf OTHER 10.77.0.0 255.255.0.0 10.99.9.2"] = true
			did = append(did, "dec:unmanagedVRF")
		}
	}
	if rapid.IntRange(0, 2).Draw(t, "decIntf") != 0 {
		// interface in a managed VRF that the target does not define
		vrf, kind := "", ""
		if len(b.Intfs) > 0 {
			vrf, kind = b.Intfs[0].VRF, b.Intfs[0].VRFKind
		}
		an := rapid.SampledFrom([]string{"tun7_in", "tun7_in-DRC-0"}).Draw(t, "decIntfacl")
		if s.ACLs[an] == nil && s.intf("Tunnel7") == nil {
			s.ACLs[an] = genACL(t, 3, "decIntfb")
			s.Intfs = append(s.Intfs, &Intf{Name: "Tunnel7", VRF: vrf, VRFKind: kind,
				Addr: []string{"ip address 10.98.9.1 255.255.255.0"}, In: an, Shut: rapid.Bool().Draw(t, "decIntfShut")})
			did = append(did, "dec:unknownIntf")
		}
	}
	if len(b.Routes) == 0 && rapid.Bool().Draw(t, "decRoutes") {
		genRoutes(t, s, "", 2, "decRt")
		did = append(did, "dec:routes")
	}
	if rapid.Bool().Draw(t, "decOpaque") {
		lines := []string{"hostname r1", "logging buffered 4096", "ntp server 10.1.1.8", "snmp-server community public RO",
			"line vty 0 4", "router ospf 1", "ip domain-name example.com"}
		n := rapid.IntRange(1, 3).Draw(t, "decOpaqueN")
		for i := 0; i < n; i++ {
			l := rapid.SampledFrom(lines).Draw(t, fmt.Sprintf("decOpaque%d", i))
			dup := false
			for _, x := range s.Opaque {
				dup = dup || x == l
			}
			if !dup {
				s.Opaque = append(s.Opaque, l)
				if l == "line vty 0 4" {
					s.Opaque = append(s.Opaque, " access-class vty_acl in", " transport input ssh")
				}
				if l == "router ospf 1" {
					s.Opaque = append(s.Opaque, " network 10.1.1.0 0.0.0.255 area 0")
				}
			}
		}
		did = append(did, "dec:opaque")
	}
	if rapid.IntRange(0, 3).Draw(t, "decGdoi") == 0 && s.Crypto["GETVPN"] == nil {
		s.Crypto["GETVPN"] = []*CryptoEntry{{Seq: 10, Kind: "gdoi", Extra: []string{"set group G1"}}}
		if i := s.intf("Tunnel7"); i != nil && i.Crypto == "" {
			i.Crypto = "GETVPN"
		}
		did = append(did, "dec:gdoi")
	}
	return did
}

// NetspocText prints the target as Netspoc writes it.
func (s *State) NetspocText() string { return s.Print(Spelling{}) }
