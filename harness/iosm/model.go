// Package iosm is an independent, strict, executable model of the part of
// Cisco IOS configuration that Netspoc-Approve manages: named extended
// ACLs with sequence numbers, interface bindings, crypto map entries with
// filter ACLs, static routes per VRF.
package iosm

import (
	"fmt"
	"net/netip"
	"sort"
	"strconv"
	"strings"
)

type ErrUnsupported struct{ What string }

func (e *ErrUnsupported) Error() string { return "unsupported by model: " + e.What }
func unsupported(format string, a ...any) error {
	return &ErrUnsupported{fmt.Sprintf(format, a...)}
}

type Refusal struct{ Rule, Msg string }

func (e *Refusal) Error() string { return "refused[" + e.Rule + "]: " + e.Msg }
func refuse(rule, format string, a ...any) error {
	return &Refusal{rule, fmt.Sprintf(format, a...)}
}

type Port struct {
	Op     string
	Lo, Hi int
}

type ACE struct {
	IsRemark bool
	Remark   string
	Permit   bool
	Proto    string
	Src, Dst netip.Prefix
	SPort    Port
	DPort    Port
	ICMP     string
	Log      string // "", "log", "log-input"
	Tail     string // established, fragments ...
}

type Entry struct {
	Seq int
	ACE
}

type Intf struct {
	Name    string
	VRF     string
	VRFKind string // "vrf forwarding" or "ip vrf forwarding"
	Shut    bool
	Addr    []string
	Inspect string
	In, Out string
	Crypto  string
	Extra   []string
}

type CryptoEntry struct {
	Seq       int
	Kind      string // ipsec-isakmp | gdoi
	Peers     []string
	FilterIn  string
	FilterOut string
	Extra     []string
}

type State struct {
	Intfs  []*Intf
	ACLs   map[string][]*Entry
	Routes map[string]bool // "ip route [vrf V] NET MASK GW"
	Crypto map[string][]*CryptoEntry
	Opaque []string

	mode     string // "", acl, intf, crypto
	modeName string
	modeSeq  int
	left     bool
}

func NewState() *State {
	return &State{ACLs: map[string][]*Entry{}, Routes: map[string]bool{}, Crypto: map[string][]*CryptoEntry{}}
}

func (s *State) Clone() *State {
	n := NewState()
	for _, i := range s.Intfs {
		c := *i
		c.Addr = append([]string(nil), i.Addr...)
		c.Extra = append([]string(nil), i.Extra...)
		n.Intfs = append(n.Intfs, &c)
	}
	for k, l := range s.ACLs {
		nl := make([]*Entry, len(l))
		for i, e := range l {
			c := *e
			nl[i] = &c
		}
		n.ACLs[k] = nl
	}
	for k, v := range s.Routes {
		n.Routes[k] = v
	}
	for k, l := range s.Crypto {
		nl := make([]*CryptoEntry, len(l))
		for i, e := range l {
			c := *e
			c.Peers = append([]string(nil), e.Peers...)
			c.Extra = append([]string(nil), e.Extra...)
			nl[i] = &c
		}
		n.Crypto[k] = nl
	}
	n.Opaque = append([]string(nil), s.Opaque...)
	return n
}

func (s *State) EndSession() { s.mode, s.modeName, s.modeSeq, s.left = "", "", 0, false }

// ------------------------------------------------------------ spelling

type Spelling struct {
	NamedPorts bool
	SeqNumbers bool // IOS-XE prints sequence numbers
	NamedProto bool
}

var devTCP = map[int]string{80: "www", 22: "22", 53: "domain", 443: "443", 25: "smtp", 21: "ftp", 23: "telnet",
	179: "bgp", 110: "pop3", 49: "tacacs", 514: "cmd", 513: "login", 37: "time"}
var devUDP = map[int]string{53: "domain", 123: "ntp", 161: "snmp", 162: "snmptrap", 514: "syslog", 69: "tftp",
	67: "bootps", 68: "bootpc", 500: "isakmp", 4500: "non500-isakmp", 520: "rip", 37: "time"}
var devProto = map[int]string{50: "esp", 51: "ahp", 47: "gre", 89: "ospf", 88: "eigrp", 2: "igmp", 103: "pim"}

var tcpByName = map[string]int{"www": 80, "domain": 53, "smtp": 25, "ftp": 21, "ftp-data": 20, "telnet": 23, "bgp": 179,
	"pop3": 110, "tacacs": 49, "cmd": 514, "login": 513, "time": 37, "echo": 7, "discard": 9, "daytime": 13,
	"chargen": 19, "whois": 43, "gopher": 70, "finger": 79, "hostname": 101, "pop2": 109, "sunrpc": 111,
	"ident": 113, "nntp": 119, "irc": 194, "exec": 512, "lpd": 515, "talk": 517, "uucp": 540, "klogin": 543,
	"kshell": 544, "drip": 3949, "onep-plain": 15001, "onep-tls": 15002}
var udpByName = map[string]int{"domain": 53, "ntp": 123, "snmp": 161, "snmptrap": 162, "syslog": 514, "tftp": 69,
	"bootps": 67, "bootpc": 68, "isakmp": 500, "non500-isakmp": 4500, "rip": 520, "time": 37, "echo": 7,
	"discard": 9, "nameserver": 42, "tacacs": 49, "sunrpc": 111, "netbios-ns": 137, "netbios-dgm": 138,
	"netbios-ss": 139, "xdmcp": 177, "dnsix": 195, "mobile-ip": 434, "pim-auto-rp": 496, "biff": 512, "who": 513,
	"talk": 517, "ripv6": 521}
var protoByName = map[string]int{"esp": 50, "ahp": 51, "gre": 47, "ospf": 89, "eigrp": 88, "igmp": 2, "pim": 103,
	"ipinip": 4, "nos": 94, "pcp": 108}

func wildOf(bits int) string {
	var m uint32
	if bits < 32 {
		m = ^uint32(0) >> bits
	}
	return fmt.Sprintf("%d.%d.%d.%d", byte(m>>24), byte(m>>16), byte(m>>8), byte(m))
}

func maskOf(bits int) string {
	var m uint32
	if bits > 0 {
		m = ^uint32(0) << (32 - bits)
	}
	return fmt.Sprintf("%d.%d.%d.%d", byte(m>>24), byte(m>>16), byte(m>>8), byte(m))
}

func addrPrint(p netip.Prefix) string {
	switch p.Bits() {
	case 0:
		return "any"
	case 32:
		return "host " + p.Addr().String()
	}
	return p.Addr().String() + " " + wildOf(p.Bits())
}

func portName(proto string, n int, sp Spelling) string {
	if sp.NamedPorts {
		m := devTCP
		if proto == "udp" {
			m = devUDP
		}
		if s, ok := m[n]; ok {
			return s
		}
	}
	return strconv.Itoa(n)
}

func (p Port) print(proto string, sp Spelling) string {
	switch p.Op {
	case "":
		return ""
	case "range":
		return "range " + portName(proto, p.Lo, sp) + " " + portName(proto, p.Hi, sp)
	}
	return p.Op + " " + portName(proto, p.Lo, sp)
}

func (a *ACE) Body(sp Spelling) string {
	if a.IsRemark {
		return "remark " + a.Remark
	}
	w := []string{"deny"}
	if a.Permit {
		w[0] = "permit"
	}
	pr := a.Proto
	if sp.NamedProto {
		if n, err := strconv.Atoi(pr); err == nil {
			if s, ok := devProto[n]; ok {
				pr = s
			}
		}
	}
	w = append(w, pr, addrPrint(a.Src))
	if s := a.SPort.print(a.Proto, sp); s != "" {
		w = append(w, s)
	}
	w = append(w, addrPrint(a.Dst))
	if s := a.DPort.print(a.Proto, sp); s != "" {
		w = append(w, s)
	}
	if a.ICMP != "" {
		w = append(w, a.ICMP)
	}
	if a.Tail != "" {
		w = append(w, a.Tail)
	}
	if a.Log != "" {
		w = append(w, a.Log)
	}
	return strings.Join(w, " ")
}

func (a *ACE) Key(withLog bool) string {
	c := *a
	if !withLog {
		c.Log = ""
	}
	return c.Body(Spelling{})
}

func sortedKeys[V any](m map[string]V) []string {
	l := make([]string, 0, len(m))
	for k := range m {
		l = append(l, k)
	}
	sort.Strings(l)
	return l
}

func (s *State) Print(sp Spelling) string {
	var b strings.Builder
	for _, l := range s.Opaque {
		b.WriteString(l + "\n")
	}
	for _, name := range sortedKeys(s.ACLs) {
		fmt.Fprintf(&b, "ip access-list extended %s\n", name)
		for _, e := range s.ACLs[name] {
			if sp.SeqNumbers {
				fmt.Fprintf(&b, " %d %s\n", e.Seq, e.Body(sp))
			} else {
				fmt.Fprintf(&b, " %s\n", e.Body(sp))
			}
		}
	}
	for _, name := range sortedKeys(s.Crypto) {
		for _, e := range s.Crypto[name] {
			fmt.Fprintf(&b, "crypto map %s %d %s\n", name, e.Seq, e.Kind)
			for _, x := range e.Extra {
				b.WriteString(" " + x + "\n")
			}
			if e.FilterIn != "" {
				fmt.Fprintf(&b, " set ip access-group %s in\n", e.FilterIn)
			}
			if e.FilterOut != "" {
				fmt.Fprintf(&b, " set ip access-group %s out\n", e.FilterOut)
			}
			for _, p := range e.Peers {
				fmt.Fprintf(&b, " set peer %s\n", p)
			}
		}
	}
	for _, i := range s.Intfs {
		fmt.Fprintf(&b, "interface %s\n", i.Name)
		if i.VRF != "" {
			fmt.Fprintf(&b, " %s %s\n", i.VRFKind, i.VRF)
		}
		for _, a := range i.Addr {
			b.WriteString(" " + a + "\n")
		}
		if i.In != "" {
			fmt.Fprintf(&b, " ip access-group %s in\n", i.In)
		}
		if i.Out != "" {
			fmt.Fprintf(&b, " ip access-group %s out\n", i.Out)
		}
		if i.Inspect != "" {
			fmt.Fprintf(&b, " ip inspect %s\n", i.Inspect)
		}
		if i.Crypto != "" {
			fmt.Fprintf(&b, " crypto map %s\n", i.Crypto)
		}
		for _, e := range i.Extra {
			b.WriteString(" " + e + "\n")
		}
		if i.Shut {
			b.WriteString(" shutdown\n")
		}
	}
	for _, r := range sortedKeys(s.Routes) {
		b.WriteString(r + "\n")
	}
	return b.String()
}

// ------------------------------------------------------------- parsing

type words []string

func (w *words) peek() string {
	if len(*w) == 0 {
		return ""
	}
	return (*w)[0]
}
func (w *words) next() string {
	if len(*w) == 0 {
		return ""
	}
	x := (*w)[0]
	*w = (*w)[1:]
	return x
}

func parseWild(s string) (int, bool) {
	a, err := netip.ParseAddr(s)
	if err != nil || !a.Is4() {
		return 0, false
	}
	b := a.As4()
	m := ^(uint32(b[0])<<24 | uint32(b[1])<<16 | uint32(b[2])<<8 | uint32(b[3]))
	bits := 0
	for bits < 32 && m&(1<<(31-bits)) != 0 {
		bits++
	}
	if bits < 32 && m<<bits != 0 {
		return 0, false
	}
	return bits, true
}

func parseMask(s string) (int, bool) {
	a, err := netip.ParseAddr(s)
	if err != nil || !a.Is4() {
		return 0, false
	}
	b := a.As4()
	m := uint32(b[0])<<24 | uint32(b[1])<<16 | uint32(b[2])<<8 | uint32(b[3])
	bits := 0
	for bits < 32 && m&(1<<(31-bits)) != 0 {
		bits++
	}
	if bits < 32 && m<<bits != 0 {
		return 0, false
	}
	return bits, true
}

func parseAddr(w *words) (netip.Prefix, error) {
	t := w.next()
	switch t {
	case "any":
		return netip.MustParsePrefix("0.0.0.0/0"), nil
	case "host":
		a, err := netip.ParseAddr(w.next())
		if err != nil || !a.Is4() {
			return netip.Prefix{}, unsupported("host address")
		}
		return netip.PrefixFrom(a, 32), nil
	case "", "object-group":
		return netip.Prefix{}, unsupported("address %q", t)
	}
	a, err := netip.ParseAddr(t)
	if err != nil || !a.Is4() {
		return netip.Prefix{}, unsupported("address %q", t)
	}
	bits, ok := parseWild(w.next())
	if !ok {
		return netip.Prefix{}, unsupported("wildcard after %q", t)
	}
	if bits == 32 || bits == 0 {
		// IOS never prints these spellings; keep them outside the model.
		return netip.Prefix{}, unsupported("host/any spelled with wildcard")
	}
	return netip.PrefixFrom(a, bits), nil
}

func portNum(proto, t string) (int, error) {
	if n, err := strconv.Atoi(t); err == nil && n >= 0 && n <= 65535 {
		return n, nil
	}
	m := tcpByName
	if proto == "udp" {
		m = udpByName
	}
	if n, ok := m[t]; ok {
		return n, nil
	}
	return 0, unsupported("port %q", t)
}

func parsePort(proto string, w *words) (Port, error) {
	switch w.peek() {
	case "eq", "gt", "lt", "neq":
		op := w.next()
		n, err := portNum(proto, w.next())
		return Port{Op: op, Lo: n}, err
	case "range":
		w.next()
		lo, err := portNum(proto, w.next())
		if err != nil {
			return Port{}, err
		}
		hi, err := portNum(proto, w.next())
		return Port{Op: "range", Lo: lo, Hi: hi}, err
	}
	return Port{}, nil
}

// ParseACE parses an ACL entry without sequence number.
func ParseACE(body string) (*ACE, error) {
	f := words(strings.Fields(body))
	a := &ACE{}
	switch act := f.next(); act {
	case "remark":
		a.IsRemark = true
		_, a.Remark, _ = strings.Cut(body, "remark ")
		return a, nil
	case "permit":
		a.Permit = true
	case "deny":
	default:
		return nil, unsupported("action %q", act)
	}
	p := f.next()
	if n, ok := protoByName[p]; ok {
		p = strconv.Itoa(n)
	}
	switch p {
	case "1":
		p = "icmp"
	case "6":
		p = "tcp"
	case "17":
		p = "udp"
	case "":
		return nil, unsupported("missing protocol")
	}
	if _, err := strconv.Atoi(p); err != nil {
		switch p {
		case "ip", "tcp", "udp", "icmp":
		default:
			return nil, unsupported("protocol %q", p)
		}
	}
	a.Proto = p
	var err error
	if a.Src, err = parseAddr(&f); err != nil {
		return nil, err
	}
	ported := p == "tcp" || p == "udp"
	if ported {
		if a.SPort, err = parsePort(p, &f); err != nil {
			return nil, err
		}
	}
	if a.Dst, err = parseAddr(&f); err != nil {
		return nil, err
	}
	if ported {
		if a.DPort, err = parsePort(p, &f); err != nil {
			return nil, err
		}
	}
	if p == "icmp" {
		for len(f) > 0 {
			if _, err := strconv.Atoi(f.peek()); err != nil {
				break
			}
			if a.ICMP != "" {
				a.ICMP += " "
			}
			a.ICMP += f.next()
		}
	}
	for len(f) > 0 {
		t := f.next()
		switch t {
		case "log", "log-input":
			a.Log = t
		case "established", "fragments":
			if a.Tail != "" {
				a.Tail += " "
			}
			a.Tail += t
		default:
			return nil, unsupported("ACE tail %q", t)
		}
	}
	return a, nil
}

func parseEntry(line string) (*Entry, error) {
	f := strings.Fields(line)
	seq := 0
	if len(f) > 0 {
		if n, err := strconv.Atoi(f[0]); err == nil {
			seq = n
			line = strings.Join(f[1:], " ")
		}
	}
	a, err := ParseACE(line)
	if err != nil {
		return nil, err
	}
	return &Entry{Seq: seq, ACE: *a}, nil
}

func Parse(text string) (*State, error) {
	s := NewState()
	type block struct {
		head string
		sub  []string
	}
	var blocks []*block
	banner := ""
	for _, raw := range strings.Split(text, "\n") {
		line := strings.TrimRight(raw, " \t\r")
		if banner != "" {
			// Text of a banner is not configuration; kept verbatim.
			s.Opaque = append(s.Opaque, raw)
			if strings.Contains(line, banner) {
				banner = ""
			}
			continue
		}
		if f := strings.Fields(line); len(f) >= 3 && f[0] == "banner" && strings.HasPrefix(f[2], "^C") {
			s.Opaque = append(s.Opaque, raw)
			if !strings.Contains(strings.Join(f[2:], " ")[2:], "^C") {
				banner = "^C"
			}
			continue
		}
		if line == "" || line[0] == '!' {
			continue
		}
		if line[0] == ' ' {
			if len(blocks) == 0 {
				return nil, unsupported("indented first line")
			}
			b := blocks[len(blocks)-1]
			b.sub = append(b.sub, line)
			continue
		}
		blocks = append(blocks, &block{head: line})
	}
	for _, b := range blocks {
		f := strings.Fields(b.head)
		var subs []string
		indent := -1
		for _, l := range b.sub {
			ind := len(l) - len(strings.TrimLeft(l, " "))
			if indent < 0 {
				indent = ind
			}
			if ind != indent {
				return nil, unsupported("nested sub-commands")
			}
			subs = append(subs, strings.Join(strings.Fields(l), " "))
		}
		switch {
		case len(f) == 4 && f[0] == "ip" && f[1] == "access-list" && f[2] == "extended":
			name := f[3]
			if _, dup := s.ACLs[name]; dup {
				return nil, unsupported("ACL %s twice", name)
			}
			var l []*Entry
			for _, sl := range subs {
				e, err := parseEntry(sl)
				if err != nil {
					return nil, err
				}
				l = append(l, e)
			}
			// Device numbering: keep given numbers, else 10,20,...
			for i, e := range l {
				if e.Seq == 0 {
					e.Seq = (i + 1) * 10
				}
			}
			s.ACLs[name] = l
		case f[0] == "interface" && len(f) == 2:
			i := &Intf{Name: f[1]}
			for _, sl := range subs {
				sf := strings.Fields(sl)
				switch {
				case sl == "shutdown":
					i.Shut = true
				case strings.HasPrefix(sl, "ip address ") || strings.HasPrefix(sl, "ip unnumbered "):
					i.Addr = append(i.Addr, sl)
				case strings.HasPrefix(sl, "vrf forwarding ") && len(sf) == 3:
					i.VRF, i.VRFKind = sf[2], "vrf forwarding"
				case strings.HasPrefix(sl, "ip vrf forwarding ") && len(sf) == 4:
					i.VRF, i.VRFKind = sf[3], "ip vrf forwarding"
				case strings.HasPrefix(sl, "ip inspect "):
					i.Inspect = strings.TrimPrefix(sl, "ip inspect ")
				case len(sf) == 4 && sf[0] == "ip" && sf[1] == "access-group" && sf[3] == "in":
					i.In = sf[2]
				case len(sf) == 4 && sf[0] == "ip" && sf[1] == "access-group" && sf[3] == "out":
					i.Out = sf[2]
				case len(sf) == 3 && sf[0] == "crypto" && sf[1] == "map":
					i.Crypto = sf[2]
				default:
					i.Extra = append(i.Extra, sl)
				}
			}
			s.Intfs = append(s.Intfs, i)
		case len(f) >= 5 && f[0] == "ip" && f[1] == "route":
			n := 5
			if f[2] == "vrf" {
				n = 7
			}
			if len(f) != n {
				return nil, unsupported("ip route form %q", b.head)
			}
			s.Routes[strings.Join(f, " ")] = true
		case len(f) == 5 && f[0] == "crypto" && f[1] == "map" && (f[4] == "ipsec-isakmp" || f[4] == "gdoi"):
			seq, err := strconv.Atoi(f[3])
			if err != nil {
				return nil, unsupported("crypto map seq")
			}
			e := &CryptoEntry{Seq: seq, Kind: f[4]}
			for _, sl := range subs {
				sf := strings.Fields(sl)
				switch {
				case len(sf) == 3 && sf[0] == "set" && sf[1] == "peer":
					e.Peers = append(e.Peers, sf[2])
				case len(sf) == 5 && sl == "set ip access-group "+sf[3]+" in":
					e.FilterIn = sf[3]
				case len(sf) == 5 && sl == "set ip access-group "+sf[3]+" out":
					e.FilterOut = sf[3]
				default:
					e.Extra = append(e.Extra, sl)
				}
			}
			s.Crypto[f[2]] = append(s.Crypto[f[2]], e)
		case f[0] == "crypto" || (f[0] == "ip" && len(f) > 1 && f[1] == "access-list"):
			return nil, unsupported("command %q", b.head)
		default:
			s.Opaque = append(s.Opaque, b.head)
			s.Opaque = append(s.Opaque, b.sub...)
		}
	}
	return s, nil
}

// ----------------------------------------------------------- execution

func (s *State) intf(name string) *Intf {
	for _, i := range s.Intfs {
		if i.Name == name {
			return i
		}
	}
	return nil
}

func (s *State) aclUser(name string) string {
	for _, i := range s.Intfs {
		if i.In == name || i.Out == name {
			return "interface " + i.Name
		}
	}
	for _, cn := range sortedKeys(s.Crypto) {
		for _, e := range s.Crypto[cn] {
			if e.FilterIn == name || e.FilterOut == name {
				return "crypto map " + cn
			}
		}
	}
	return ""
}

func (s *State) Exec(line string) error {
	line = strings.TrimRight(line, " \t\r")
	if s.left {
		return refuse("mode", "command %q sent after leaving configuration mode", line)
	}
	f := strings.Fields(line)
	if len(f) == 0 {
		return nil
	}
	if line == "exit" {
		if s.mode == "" {
			s.left = true
		}
		s.mode = ""
		return nil
	}
	switch s.mode {
	case "acl":
		if ok, err := s.execACLSub(f, line); ok {
			return err
		}
	case "intf":
		if ok, err := s.execIntfSub(f, line); ok {
			return err
		}
	case "crypto":
		if ok, err := s.execCryptoSub(f, line); ok {
			return err
		}
	}
	ok, err := s.execTop(f, line)
	if ok {
		return err
	}
	if s.mode != "" {
		return refuse("mode", "%q is neither valid in mode %s %s nor at top level", line, s.mode, s.modeName)
	}
	return unsupported("command %q", line)
}

func (s *State) execTop(f []string, line string) (bool, error) {
	neg := false
	if f[0] == "no" {
		neg = true
		f = f[1:]
	}
	if len(f) == 0 {
		return false, nil
	}
	switch {
	case len(f) == 6 && f[0] == "ip" && f[1] == "access-list" && f[2] == "resequence" && !neg:
		s.mode = ""
		l, ok := s.ACLs[f[3]]
		if !ok {
			return true, refuse("missing", "resequence of missing ACL %s", f[3])
		}
		start, e1 := strconv.Atoi(f[4])
		step, e2 := strconv.Atoi(f[5])
		if e1 != nil || e2 != nil || start < 1 || step < 1 {
			return true, unsupported("resequence arguments")
		}
		for i, e := range l {
			e.Seq = start + i*step
		}
		return true, nil
	case len(f) == 4 && f[0] == "ip" && f[1] == "access-list" && f[2] == "extended":
		name := f[3]
		if neg {
			s.mode = ""
			if _, ok := s.ACLs[name]; !ok {
				return true, refuse("missing", "ACL %s does not exist", name)
			}
			if who := s.aclUser(name); who != "" {
				return true, refuse("in-use", "ACL %s is still used by %s", name, who)
			}
			delete(s.ACLs, name)
			return true, nil
		}
		if _, ok := s.ACLs[name]; !ok {
			s.ACLs[name] = nil
		}
		s.mode, s.modeName = "acl", name
		return true, nil
	case len(f) == 2 && f[0] == "interface" && !neg:
		if s.intf(f[1]) == nil {
			return true, refuse("missing", "interface %s does not exist", f[1])
		}
		s.mode, s.modeName = "intf", f[1]
		return true, nil
	case len(f) >= 5 && f[0] == "ip" && f[1] == "route":
		s.mode = ""
		n := 5
		if f[2] == "vrf" {
			n = 7
		}
		if len(f) != n {
			return true, unsupported("ip route form %q", line)
		}
		key := strings.Join(f, " ")
		if neg {
			if !s.Routes[key] {
				return true, refuse("missing", "route %q does not exist", key)
			}
			delete(s.Routes, key)
			return true, nil
		}
		if s.Routes[key] {
			return true, refuse("duplicate", "route %q exists", key)
		}
		s.Routes[key] = true
		return true, nil
	case len(f) == 5 && f[0] == "crypto" && f[1] == "map" && (f[4] == "ipsec-isakmp" || f[4] == "gdoi"):
		seq, err := strconv.Atoi(f[3])
		if err != nil {
			return true, unsupported("crypto map seq")
		}
		name := f[2]
		l := s.Crypto[name]
		idx := -1
		for i, e := range l {
			if e.Seq == seq {
				idx = i
			}
		}
		if neg {
			s.mode = ""
			if idx < 0 {
				return true, refuse("missing", "crypto map %s %d does not exist", name, seq)
			}
			if len(l) == 1 {
				for _, i := range s.Intfs {
					if i.Crypto == name {
						return true, refuse("in-use", "last entry of crypto map %s removed while bound to %s", name, i.Name)
					}
				}
				delete(s.Crypto, name)
				return true, nil
			}
			s.Crypto[name] = append(l[:idx:idx], l[idx+1:]...)
			return true, nil
		}
		if idx < 0 {
			l = append(l, &CryptoEntry{Seq: seq, Kind: f[4]})
			sort.SliceStable(l, func(i, j int) bool { return l[i].Seq < l[j].Seq })
			s.Crypto[name] = l
		} else if l[idx].Kind != f[4] {
			return true, refuse("type", "crypto map %s %d has kind %s", name, seq, l[idx].Kind)
		}
		s.mode, s.modeName, s.modeSeq = "crypto", name, seq
		return true, nil
	}
	return false, nil
}

func (s *State) execACLSub(f []string, line string) (bool, error) {
	name := s.modeName
	l := s.ACLs[name]
	neg := false
	if f[0] == "no" {
		neg = true
		f = f[1:]
		if len(f) == 0 {
			return false, nil
		}
	}
	seq := 0
	if n, err := strconv.Atoi(f[0]); err == nil {
		seq = n
		f = f[1:]
	}
	if neg && seq > 0 && len(f) == 0 {
		for i, e := range l {
			if e.Seq == seq {
				s.ACLs[name] = append(l[:i:i], l[i+1:]...)
				return true, nil
			}
		}
		return true, refuse("line", "ACL %s has no entry with sequence number %d", name, seq)
	}
	if len(f) == 0 {
		return false, nil
	}
	switch f[0] {
	case "permit", "deny", "remark":
	default:
		return false, nil
	}
	a, err := ParseACE(strings.Join(f, " "))
	if err != nil {
		return true, err
	}
	if neg {
		for i, e := range l {
			if e.Key(true) == a.Key(true) && (seq == 0 || e.Seq == seq) {
				s.ACLs[name] = append(l[:i:i], l[i+1:]...)
				return true, nil
			}
		}
		return true, refuse("missing", "ACL %s has no entry %q", name, a.Body(Spelling{}))
	}
	if !a.IsRemark {
		k := a.Key(false)
		for _, e := range l {
			if !e.IsRemark && e.Key(false) == k {
				return true, refuse("duplicate", "ACL %s already contains %q (seq %d)", name, e.Body(Spelling{}), e.Seq)
			}
		}
	}
	if seq == 0 {
		last := 0
		if len(l) > 0 {
			last = l[len(l)-1].Seq
		}
		s.ACLs[name] = append(l, &Entry{Seq: last + 10, ACE: *a})
		return true, nil
	}
	pos := len(l)
	for i, e := range l {
		if e.Seq == seq {
			return true, refuse("line", "ACL %s: sequence number %d is occupied", name, seq)
		}
		if e.Seq > seq {
			pos = i
			break
		}
	}
	n := make([]*Entry, 0, len(l)+1)
	n = append(n, l[:pos]...)
	n = append(n, &Entry{Seq: seq, ACE: *a})
	n = append(n, l[pos:]...)
	s.ACLs[name] = n
	return true, nil
}

func (s *State) execIntfSub(f []string, line string) (bool, error) {
	i := s.intf(s.modeName)
	neg := false
	if f[0] == "no" {
		neg = true
		f = f[1:]
	}
	switch {
	case len(f) >= 2 && f[0] == "ip" && f[1] == "access-group":
		if len(f) != 4 || (f[3] != "in" && f[3] != "out") {
			return true, unsupported("ip access-group form")
		}
		slot := &i.In
		if f[3] == "out" {
			slot = &i.Out
		}
		if neg {
			if *slot != f[2] {
				return true, refuse("missing", "interface %s has no 'ip access-group %s %s'", i.Name, f[2], f[3])
			}
			*slot = ""
			return true, nil
		}
		if _, ok := s.ACLs[f[2]]; !ok {
			return true, refuse("dangling", "ip access-group references missing ACL %s", f[2])
		}
		*slot = f[2]
		return true, nil
	case len(f) >= 2 && f[0] == "crypto" && f[1] == "map":
		// "crypto map NAME SEQ ..." is a global command; IOS falls back to
		// the global parser for a line that the sub-mode does not accept.
		if len(f) != 3 {
			return false, nil
		}
		if neg {
			if i.Crypto != f[2] {
				return true, refuse("missing", "interface %s has no crypto map %s", i.Name, f[2])
			}
			i.Crypto = ""
			return true, nil
		}
		if len(s.Crypto[f[2]]) == 0 {
			return true, refuse("dangling", "interface binds missing crypto map %s", f[2])
		}
		i.Crypto = f[2]
		return true, nil
	}
	return false, nil
}

func (s *State) execCryptoSub(f []string, line string) (bool, error) {
	var e *CryptoEntry
	for _, x := range s.Crypto[s.modeName] {
		if x.Seq == s.modeSeq {
			e = x
		}
	}
	if e == nil {
		return false, nil
	}
	neg := false
	if f[0] == "no" {
		neg = true
		f = f[1:]
	}
	switch {
	case len(f) == 3 && f[0] == "set" && f[1] == "peer":
		idx := -1
		for i, p := range e.Peers {
			if p == f[2] {
				idx = i
			}
		}
		if neg {
			if idx < 0 {
				return true, refuse("missing", "crypto map has no peer %s", f[2])
			}
			e.Peers = append(e.Peers[:idx:idx], e.Peers[idx+1:]...)
			return true, nil
		}
		if idx >= 0 {
			return true, refuse("duplicate", "peer %s already set", f[2])
		}
		if len(e.Peers) > 0 {
			// Not a rule of the device (IOS takes several peers), but of
			// C08: entries are identified by their peer and a new entry
			// gets a free number, so a peer is only ever set in an entry
			// that has none; otherwise the number addresses the entry of
			// somebody else.
			return true, refuse("seq-occupied", "crypto map %s %d is the entry of peer %s; peer %s would be added to it",
				s.modeName, s.modeSeq, e.Peers[0], f[2])
		}
		e.Peers = append(e.Peers, f[2])
		return true, nil
	case len(f) == 5 && f[0] == "set" && f[1] == "ip" && f[2] == "access-group" && (f[4] == "in" || f[4] == "out"):
		slot := &e.FilterIn
		if f[4] == "out" {
			slot = &e.FilterOut
		}
		if neg {
			if *slot != f[3] {
				return true, refuse("missing", "crypto map entry has no filter %s %s", f[3], f[4])
			}
			*slot = ""
			return true, nil
		}
		if _, ok := s.ACLs[f[3]]; !ok {
			return true, refuse("dangling", "crypto filter references missing ACL %s", f[3])
		}
		*slot = f[3]
		return true, nil
	case len(f) >= 2 && f[0] == "match" && f[1] == "address":
		return true, unsupported("match address")
	}
	return false, nil
}
