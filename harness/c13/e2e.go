package c13

import (
	"encoding/json"
	"fmt"
	"os"
	"path/filepath"
	"sort"
	"strings"

	"verif/harness/dlg"
	"verif/harness/props"
	"verif/harness/tool"
)

// End-to-end arm of C13: the status file is written by the real do-approve
// (approve / compare, with and without --brief, as bin/approve-all and
// bin/compare-all call it) talking to the IOS simulator, and the real
// missing-approve is asked after every action. The device and the policies
// hold one static route whose next hop is the "version" of the code.

type E2EAction struct {
	Op    string `json:"op"` // newpolicy | approve | compare | drift
	V     int    `json:"v,omitempty"`
	Brief bool   `json:"brief,omitempty"`
}

func e2eCode(v int) string {
	return fmt.Sprintf("ip route 10.20.0.0 255.255.0.0 10.1.2.%d\n", v)
}

func e2eDevice(v int) string {
	return "interface Ethernet0\n ip address 10.1.2.1 255.255.255.0\n" + e2eCode(v)
}

type e2eObs struct {
	kind    string // approve | compare
	policy  int    // code version of the observed policy
	changed bool
}

// oracleE2E replays the history of the case.
func oracleE2E(c *props.Case) props.Verdict {
	var hist []E2EAction
	if err := json.Unmarshal([]byte(c.Param("history")), &hist); err != nil {
		return props.DiscardV("bad history")
	}
	e, err := dlg.NewEnv(dlg.Options{CheckBanner: "NetSPoC"})
	if err != nil {
		return props.DiscardV("harness: " + err.Error())
	}
	defer e.Close()
	stateFile := filepath.Join(e.Dir, "state.json")
	plan := map[string]any{"family": "ios", "hostname": "router", "password": e.Password,
		"banner": "*** managed by NetSPoC ***\n", "transcript": filepath.Join(e.Dir, "transcript"),
		"state_file": stateFile, "device": e2eDevice(1)}
	sim, err := e.PlanFile("dev", plan)
	if err != nil {
		return props.DiscardV("harness: " + err.Error())
	}
	dev := 1 // version the device carries
	cur := 0 // version of the current policy (0: none yet)
	var last *e2eObs
	var log strings.Builder
	classes := []string{"c13:e2e"}
	for i, a := range hist {
		switch a.Op {
		case "newpolicy":
			if _, err := e.NewPolicy(map[string]string{"router": e2eCode(a.V), "router.info": tool.Info("IOS")}); err != nil {
				return props.DiscardV("harness: " + err.Error())
			}
			cur = a.V
			fmt.Fprintf(&log, "%d. new policy p%d with code version %d\n", i+1, e.Policy, a.V)
		case "drift":
			dev = a.V
			st := map[string]any{"running": e2eDevice(a.V), "saved": e2eDevice(a.V)}
			b, _ := json.Marshal(st)
			os.WriteFile(stateFile, b, 0644)
			fmt.Fprintf(&log, "%d. manual change: device now carries version %d\n", i+1, a.V)
		case "approve", "compare":
			if cur == 0 {
				continue
			}
			args := []string{}
			if a.Brief {
				args = append(args, "--brief")
				classes = append(classes, "c13:e2e:brief-"+a.Op)
			}
			args = append(args, a.Op, "router")
			r := e.Run(sim, "do-approve", args...)
			fmt.Fprintf(&log, "%d. do-approve %s: exit %d %s\n", i+1, strings.Join(args, " "), r.Exit, strings.TrimSpace(firstLine(r.Stdout+r.Stderr)))
			if r.TimedOut {
				return props.DiscardV("timeout-under-load")
			}
			if a.Op == "approve" {
				if r.Exit != 0 {
					return props.DiscardV("approve-failed-in-harness: " + r.Stdout + r.Stderr)
				}
				dev = cur
				last = &e2eObs{"approve", cur, false}
			} else {
				changed := dev != cur
				if changed {
					classes = append(classes, "c13:e2e:compare-found-difference")
				}
				last = &e2eObs{"compare", cur, changed}
			}
		}
		if cur == 0 {
			continue
		}
		// what the property demands now
		established := last != nil && !last.changed && last.policy == cur
		want := !established
		ma := e.Run("", "missing-approve")
		listed := false
		for _, l := range strings.Split(ma.Stdout, "\n") {
			if strings.TrimSpace(l) == "router" {
				listed = true
			}
		}
		status, _ := os.ReadFile(filepath.Join(e.Base, "status", "router"))
		fmt.Fprintf(&log, "   missing-approve lists router: %v (demanded: %v); status %s\n", listed, want, strings.TrimSpace(string(status)))
		if want && !listed {
			return props.FailV("status:e2e-forgotten-device", "after action %d missing-approve omits the device although its latest conclusive observation does not establish the current code\n%s", i+1, log.String())
		}
		if !want && listed {
			return props.FailV("status:e2e-listed-although-established", "after action %d missing-approve lists the device although its latest conclusive observation establishes the current code\n%s", i+1, log.String())
		}
	}
	sort.Strings(classes)
	return props.PassV(len(hist) >= 3, dedupStrings(classes)...)
}

func firstLine(s string) string {
	if i := strings.Index(s, "\n"); i >= 0 {
		return s[:i]
	}
	return s
}

func dedupStrings(l []string) []string {
	var out []string
	for i, s := range l {
		if i == 0 || s != l[i-1] {
			out = append(out, s)
		}
	}
	return out
}

func init() { props.Register("C13", "e2e", oracleE2E) }
