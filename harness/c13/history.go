// Package c13 decides property C13 (missing-approve never forgets a
// device and omits what is provably up to date) with a model-based history
// check. Status arm: status.SetApprove / status.SetCompare are driven
// in-process with results dictated by a reference model of the device, the
// policies tree is written by the harness, and the REAL missing-approve
// binary is asked after every action.
package c13

import (
	"encoding/json"
	"fmt"
)

// Code is the Netspoc code of one device in one policy: a content variant
// per file, 0 = file absent.
//
//	[0] code/<dev>           (v4, or v6 when the policy tree is in ipv6 mode)
//	[1] code/<sub>/<dev>     (sub = "ipv6", or "ipv4" in ipv6 mode)
//	[2] code/<dev>.raw
//	[3] code/<sub>/<dev>.raw
//
// File content is a pure function of (device, slot, variant), hence equal
// tuples <=> byte-identical code.
type Code [4]int

func (c Code) valid() bool {
	for _, v := range c {
		if v < 0 || v > 9 {
			return false
		}
	}
	return c[0] != 0 || c[1] != 0
}

// Action kinds.
const (
	KPolicy  = "policy"  // new policy pN+1 becomes current; Code per device
	KApprove = "approve" // successful approve of Dev with current policy
	KFail    = "fail"    // failed approve of Dev; device unchanged
	KCompare = "compare" // compare of Dev with current policy
	KDrift   = "drift"   // manual change on Dev; Pol=0: something unique, Pol=N: device now carries code(pN)
	KBzip    = "bzip2"   // compress-policies on old policy Pol
	KRemove  = "remove"  // delete-old-policies on old policy Pol
	KDamage  = "damage"  // status file of Dev damaged; Mode trunc|empty|junk|nul|gone
)

type Action struct {
	K    string `json:"k"`
	Dt   int    `json:"dt"`             // clock advance before the action, seconds, >= 1
	Dev  int    `json:"dev"`            // device index
	Code []Code `json:"code,omitempty"` // KPolicy: code per device
	Pol  int    `json:"pol,omitempty"`  // KBzip, KRemove, KDrift
	Mode string `json:"mode,omitempty"` // KDamage
	Off  int    `json:"off,omitempty"`  // KDamage trunc/nul: offset, reduced modulo the file length
	Junk string `json:"junk,omitempty"` // KDamage junk: new file content (never a believable status)
}

func (a Action) String() string {
	switch a.K {
	case KPolicy:
		return fmt.Sprintf("policy %v", a.Code)
	case KBzip, KRemove:
		return fmt.Sprintf("%s p%d", a.K, a.Pol)
	case KDrift:
		if a.Pol == 0 {
			return fmt.Sprintf("drift dev%d -> unique", a.Dev)
		}
		return fmt.Sprintf("drift dev%d -> code(p%d)", a.Dev, a.Pol)
	case KDamage:
		return fmt.Sprintf("damage dev%d %s off=%d junk=%q", a.Dev, a.Mode, a.Off, a.Junk)
	}
	return fmt.Sprintf("%s dev%d", a.K, a.Dev)
}

// History is the complete, replayable input of one oracle evaluation.
type History struct {
	Devs []string `json:"devs"` // device names (no dot)
	Sub  string   `json:"sub"`  // "ipv6" (normal) or "ipv4" (tree in ipv6 mode); fixed for the history
	Init []Code   `json:"init"` // code of p1 per device
	Acts []Action `json:"acts"`
}

func (h *History) JSON() string {
	b, _ := json.Marshal(h)
	return string(b)
}

func parseHistory(s string) (*History, error) {
	var h History
	if err := json.Unmarshal([]byte(s), &h); err != nil {
		return nil, err
	}
	if len(h.Devs) < 1 || len(h.Devs) > 8 {
		return nil, fmt.Errorf("need 1..8 devices")
	}
	seen := map[string]bool{}
	for _, d := range h.Devs {
		if d == "" || d == "ipv4" || d == "ipv6" || seen[d] {
			return nil, fmt.Errorf("bad device name %q", d)
		}
		for _, r := range d {
			if !(r >= 'a' && r <= 'z' || r >= 'A' && r <= 'Z' || r >= '0' && r <= '9' || r == '-' || r == '_') {
				return nil, fmt.Errorf("bad device name %q", d)
			}
		}
		seen[d] = true
	}
	if h.Sub != "ipv6" && h.Sub != "ipv4" {
		return nil, fmt.Errorf("sub must be ipv6 or ipv4")
	}
	chk := func(l []Code) error {
		if len(l) != len(h.Devs) {
			return fmt.Errorf("code list must have one entry per device")
		}
		for _, c := range l {
			if !c.valid() {
				return fmt.Errorf("bad code tuple %v", c)
			}
		}
		return nil
	}
	if err := chk(h.Init); err != nil {
		return nil, err
	}
	npol := 1
	gone := map[int]bool{}
	for i, a := range h.Acts {
		bad := func(m string) error { return fmt.Errorf("action %d (%s): %s", i, a, m) }
		if a.Dt < 1 {
			return nil, bad("dt < 1")
		}
		if a.Dev < 0 || a.Dev >= len(h.Devs) {
			return nil, bad("device index")
		}
		switch a.K {
		case KPolicy:
			if err := chk(a.Code); err != nil {
				return nil, bad(err.Error())
			}
			npol++
		case KApprove, KFail, KCompare:
		case KDrift:
			if a.Pol < 0 || a.Pol > npol {
				return nil, bad("policy number")
			}
		case KBzip, KRemove:
			if a.Pol < 1 || a.Pol >= npol {
				return nil, bad("not an old policy")
			}
			if gone[a.Pol] {
				return nil, bad("policy already removed")
			}
			if a.K == KRemove {
				gone[a.Pol] = true
			}
		case KDamage:
			switch a.Mode {
			case "trunc", "empty", "nul", "gone":
			case "junk":
				if believable(a.Junk) {
					return nil, bad("junk parses into a status")
				}
			default:
				return nil, bad("mode")
			}
			if a.Off < 0 {
				return nil, bad("offset")
			}
		default:
			return nil, bad("kind")
		}
	}
	return &h, nil
}

// believable reports whether junk would be read as a status carrying any
// information. Such content is a forged status, not a damaged one, and is
// outside the property's quantifier.
func believable(junk string) bool {
	type action struct {
		Result string `json:"result"`
		Policy string `json:"policy"`
		Time   int64  `json:"time"`
	}
	var v struct {
		Approve action `json:"approve"`
		Compare action `json:"compare"`
	}
	json.Unmarshal([]byte(junk), &v)
	return v.Approve != action{} || v.Compare != action{}
}
