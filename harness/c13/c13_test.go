package c13

import (
	"encoding/json"
	"flag"
	"os"
	"testing"

	"pgregory.net/rapid"

	"verif/harness/evid"
	"verif/harness/props"
	"verif/harness/tool"
)

var replayFile = flag.String("replayfile", "", "re-evaluate the oracle on a saved case (no generator)")

func TestMain(m *testing.M) {
	flag.Parse()
	code := m.Run()
	CleanupBinary()
	tool.Cleanup()
	os.Exit(code)
}

// TestReplay re-runs the oracle of a saved failing case without rapid.
func TestReplay(t *testing.T) { props.ReplayMain(t, *replayFile) }

const ruleC13 = "histories over {new policy (v4/v6/raw same, changed, reverted), approve ok, approve failed, compare, manual drift, " +
	"bzip2 of an old policy, removal of an old policy, damaged status file} on 1-3 devices with strictly increasing clock; " +
	"status.SetApprove/SetCompare driven in-process by a reference model of the device, the real missing-approve binary asked after every action; " +
	"plus an end-to-end arm: histories over {new policy, do-approve approve, do-approve compare (each with or without --brief), manual drift} with the real do-approve against the IOS simulator writing the status file; " +
	"non-trivial = history of >=4 actions with a new policy after an observation and at least one of " +
	"{failed approve, drift followed by compare, bzip2, removal, damage}; distinct = the history (JSON)"

func TestC13(t *testing.T) {
	ev := evid.New("C13", ruleC13)
	props.Finish(t, ev)
	if _, err := Binary(); err != nil {
		t.Fatalf("INCONCLUSIVE %v", err)
	}
	maxActs := 12
	if props.Thorough() {
		maxActs = 20
	}
	t.Run("e2e", func(t *testing.T) {
		// Each history costs several runs of the real binaries: a bounded
		// number per shard.
		budget := 30
		if props.Thorough() {
			budget = 150
		}
		done := 0
		rapid.Check(t, func(rt *rapid.T) {
			if done >= budget {
				return
			}
			done++
			n := rapid.IntRange(2, 7).Draw(rt, "len")
			h := []E2EAction{{Op: "newpolicy", V: rapid.IntRange(1, 2).Draw(rt, "v0")}}
			for len(h) < n+1 {
				switch rapid.SampledFrom([]string{"newpolicy", "approve", "approve", "compare", "compare", "compare", "drift", "drift"}).Draw(rt, "op") {
				case "newpolicy":
					h = append(h, E2EAction{Op: "newpolicy", V: rapid.IntRange(1, 3).Draw(rt, "v")})
				case "approve":
					h = append(h, E2EAction{Op: "approve", Brief: rapid.Bool().Draw(rt, "brief")})
				case "compare":
					h = append(h, E2EAction{Op: "compare", Brief: rapid.Bool().Draw(rt, "brief")})
				case "drift":
					h = append(h, E2EAction{Op: "drift", V: rapid.IntRange(1, 3).Draw(rt, "dv")})
				}
			}
			data, _ := json.Marshal(h)
			c := &props.Case{Property: "C13", Family: "e2e", Files: tool.Files{}, Params: map[string]string{"history": string(data)}, Gen: "e2e arm"}
			props.Judge(rt, ev, oracleE2E, c, func() any { return c })
		})
	})
	t.Run("status", func(t *testing.T) {
		rapid.Check(t, func(rt *rapid.T) {
			h := GenHistory(rt, maxActs)
			c := &props.Case{
				Property: "C13",
				Family:   "status",
				Files:    tool.Files{},
				Params:   map[string]string{"history": h.JSON()},
				Gen:      "status arm",
			}
			props.Judge(rt, ev, Oracle, c, func() any { return c })
		})
	})
}
