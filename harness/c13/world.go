package c13

import (
	"bytes"
	"fmt"
	"io/fs"
	"os"
	"os/exec"
	"path/filepath"
	"strings"
	"sync"
	"time"

	"github.com/hknutzen/Netspoc-Approve/go/pkg/program"

	"verif/harness/props"
)

// ------------------------------------------------ the real missing-approve

var (
	binOnce sync.Once
	binPath string
	binErr  error
	binDir  string // scratch directory owned by this process, "" if none
)

// Binary returns the path of the real missing-approve binary, built once
// per test process from the repo's working tree (or taken from the
// driver's $VERIF_BIN when that holds one).
func Binary() (string, error) {
	binOnce.Do(func() {
		if d := os.Getenv("VERIF_BIN"); d != "" {
			p := filepath.Join(d, "missing-approve")
			if st, err := os.Stat(p); err == nil && st.Mode().IsRegular() {
				binPath = p
				return
			}
		}
		dir, err := os.MkdirTemp(os.Getenv("VERIF_SCRATCH"), "c13-bin-")
		if err != nil {
			binErr = err
			return
		}
		binDir = dir
		out := filepath.Join(dir, "bin", "missing-approve")
		os.MkdirAll(filepath.Dir(out), 0755)
		cmd := exec.Command("go", "build", "-o", out, "./cmd/missing-approve")
		cmd.Dir = filepath.Join(props.RepoDir(), "go")
		cmd.Env = append(os.Environ(), "GOFLAGS=-mod=mod", "GOPROXY=off", "GOSUMDB=off",
			"GOTOOLCHAIN=local", "CGO_ENABLED=0")
		if o, err := cmd.CombinedOutput(); err != nil {
			binErr = fmt.Errorf("go build missing-approve: %v\n%s", err, o)
			return
		}
		binPath = out
	})
	return binPath, binErr
}

// CleanupBinary removes the scratch directory of a self-built binary.
func CleanupBinary() {
	if binDir != "" {
		os.RemoveAll(binDir)
	}
}

var (
	bzOnce sync.Once
	bzPath string
)

func bzip2Path() string {
	bzOnce.Do(func() { bzPath, _ = exec.LookPath("bzip2") })
	return bzPath
}

// ------------------------------------------------------------- the world

// world is one basedir on disk plus a HOME with the config file.
type world struct {
	root string
	base string
	home string
	cfg  *program.Config
	h    *History
	now  time.Time
}

var epoch = time.Date(2024, time.March, 1, 10, 0, 0, 0, time.UTC)

func newWorld(h *History) (*world, error) {
	root, err := os.MkdirTemp(os.Getenv("VERIF_SCRATCH"), "c13-")
	if err != nil {
		return nil, err
	}
	w := &world{root: root, base: filepath.Join(root, "base"), home: filepath.Join(root, "home"), h: h, now: epoch}
	w.cfg = &program.Config{BaseDir: w.base}
	for _, d := range []string{w.home, filepath.Join(w.base, "policies"), filepath.Join(w.base, "status")} {
		if err := os.MkdirAll(d, 0755); err != nil {
			return w, err
		}
	}
	conf := "basedir = " + w.base + "\n"
	if err := os.WriteFile(filepath.Join(w.home, ".netspoc-approve"), []byte(conf), 0644); err != nil {
		return w, err
	}
	return w, nil
}

// keepScratch: with C13_KEEP set the basedir of a replay is left behind
// for reproduction by hand.
func keepScratch() bool { return os.Getenv("C13_KEEP") != "" }

func (w *world) close() {
	os.Unsetenv("TEST_TIME")
	if !keepScratch() {
		os.RemoveAll(w.root)
	}
}

// tick advances the clock that status.* reads through mytime.Now.
func (w *world) tick(dt int) {
	w.now = w.now.Add(time.Duration(dt) * time.Second)
	os.Setenv("TEST_TIME", w.now.Format("2006-Jan-02 15:04:05"))
}

var slotNames = [4]string{"main", "sub", "raw", "subraw"}

func content(dev string, slot, variant int) string {
	var b strings.Builder
	fmt.Fprintf(&b, "! [ BEGIN %s ]\n! %s code, variant %d\n", dev, slotNames[slot], variant)
	for i := 0; i <= variant; i++ {
		fmt.Fprintf(&b, "access-list %s_in extended permit tcp 10.%d.%d.0 255.255.255.0 host 10.9.9.%d eq 80\n",
			slotNames[slot], slot, variant, i+1)
	}
	fmt.Fprintf(&b, "! [ END %s ]\n", dev)
	return b.String()
}

func (w *world) slotPath(pol int, dev string, slot int) string {
	p := filepath.Join(w.base, "policies", fmt.Sprintf("p%d", pol), "code")
	switch slot {
	case 0:
		return filepath.Join(p, dev)
	case 1:
		return filepath.Join(p, w.h.Sub, dev)
	case 2:
		return filepath.Join(p, dev+".raw")
	}
	return filepath.Join(p, w.h.Sub, dev+".raw")
}

// newPolicy writes policies/pN the way newpolicy.sh leaves it (code tree,
// a toplevel compile.log, a log directory) and moves 'current' to it.
func (w *world) newPolicy(n int, codes []Code) error {
	pdir := filepath.Join(w.base, "policies", fmt.Sprintf("p%d", n))
	for _, d := range []string{filepath.Join(pdir, "code"), filepath.Join(pdir, "log")} {
		if err := os.MkdirAll(d, 0755); err != nil {
			return err
		}
	}
	if err := os.WriteFile(filepath.Join(pdir, "compile.log"), []byte("Netspoc, version 2024\nFinished\n"), 0644); err != nil {
		return err
	}
	for i, dev := range w.h.Devs {
		for slot, v := range codes[i] {
			if v == 0 {
				continue
			}
			p := w.slotPath(n, dev, slot)
			os.MkdirAll(filepath.Dir(p), 0755)
			if err := os.WriteFile(p, []byte(content(dev, slot, v)), 0644); err != nil {
				return err
			}
		}
		// Files with a dot are no devices for missing-approve.
		info := fmt.Sprintf("{\"generated_by\":\"p%d\",\"model\":\"ASA\",\"name_list\":[%q]}\n", n, dev)
		if err := os.WriteFile(filepath.Join(pdir, "code", dev+".info"), []byte(info), 0644); err != nil {
			return err
		}
	}
	cur := filepath.Join(w.base, "policies", "current")
	tmp := cur + ".new"
	os.Remove(tmp)
	if err := os.Symlink(fmt.Sprintf("p%d", n), tmp); err != nil {
		return err
	}
	return os.Rename(tmp, cur)
}

// bzipPolicy does what bin/compress-policies does to one policy
// directory: find <dir> -mindepth 2 -type f | xargs bzip2 -9 -f
func (w *world) bzipPolicy(n int) error {
	pdir := filepath.Join(w.base, "policies", fmt.Sprintf("p%d", n))
	var files []string
	err := filepath.WalkDir(pdir, func(p string, d fs.DirEntry, err error) error {
		if err != nil {
			return err
		}
		if !d.Type().IsRegular() {
			return nil
		}
		rel, _ := filepath.Rel(pdir, p)
		if strings.Count(rel, string(filepath.Separator)) < 1 {
			return nil // toplevel file, e.g. compile.log
		}
		if strings.HasSuffix(p, ".bz2") {
			return nil // bzip2 itself skips these
		}
		files = append(files, p)
		return nil
	})
	if err != nil || len(files) == 0 {
		return err
	}
	cmd := exec.Command(bzip2Path(), append([]string{"-9", "-f"}, files...)...)
	if o, err := cmd.CombinedOutput(); err != nil {
		return fmt.Errorf("bzip2: %v %s", err, o)
	}
	return nil
}

func (w *world) removePolicy(n int) error {
	return os.RemoveAll(filepath.Join(w.base, "policies", fmt.Sprintf("p%d", n)))
}

func (w *world) statusPath(dev string) string { return filepath.Join(w.base, "status", dev) }

func (w *world) statusBytes(dev string) string {
	d, err := os.ReadFile(w.statusPath(dev))
	if err != nil {
		return "<no file>"
	}
	return fmt.Sprintf("%q", d)
}

func (w *world) damage(dev string, a Action) error {
	p := w.statusPath(dev)
	data, _ := os.ReadFile(p)
	switch a.Mode {
	case "gone":
		os.Remove(p)
		return nil
	case "empty":
		data = nil
	case "junk":
		data = []byte(a.Junk)
	case "trunc":
		if len(data) > 0 {
			data = data[:a.Off%len(data)] // strictly shorter
		}
	case "nul":
		// A NUL byte is invalid everywhere in a JSON text.
		if len(data) > 0 {
			data = bytes.Clone(data)
			data[a.Off%len(data)] = 0
		}
	}
	return os.WriteFile(p, data, 0644)
}

type maResult struct {
	listed map[string]int
	stdout string
	stderr string
	exit   int
}

// missingApprove runs the real binary with HOME pointing to the scratch home.
func (w *world) missingApprove() (maResult, error) {
	bin, err := Binary()
	if err != nil {
		return maResult{}, err
	}
	cmd := exec.Command(bin)
	cmd.Dir = w.root
	cmd.Env = []string{"HOME=" + w.home, "PATH=" + os.Getenv("PATH"), "LANG=C"}
	var so, se bytes.Buffer
	cmd.Stdout, cmd.Stderr = &so, &se
	err = cmd.Run()
	r := maResult{listed: map[string]int{}, stdout: so.String(), stderr: se.String()}
	if err != nil {
		ee, ok := err.(*exec.ExitError)
		if !ok {
			return r, err
		}
		r.exit = ee.ExitCode()
	}
	for _, f := range strings.Fields(r.stdout) {
		r.listed[f]++
	}
	return r, nil
}
