package c13

import (
	"fmt"
	"sort"
	"strings"

	"github.com/hknutzen/Netspoc-Approve/go/pkg/status"

	"verif/harness/props"
)

const (
	SigF4         = "status:F4-failed-approve-overwrites-ok-approve"
	SigF4Listed   = "status:not-omitted-after-failed-approve-overwrites-ok-approve"
	SigForgotten  = "status:forgotten-device"
	SigNotOmitted = "status:not-omitted"
	SigToolError  = "status:missing-approve-error"
	polPlain      = 0
	polCompressed = 1
	polRemoved    = 2
	wantList      = "must be listed"
	wantOmit      = "must be omitted"
	wantOpen      = "open"
)

func init() { props.Register("C13", "status", Oracle) }

// ------------------------------------------------------- reference model

// obs is one conclusive observation: "at time t the device carried code
// equal / not equal to code(p<pol>)".
type obs struct {
	kind  string // "approve" | "compare"
	pol   int
	equal bool
	t     int64
}

func (o *obs) String() string {
	if o == nil {
		return "none"
	}
	rel := "="
	if !o.equal {
		rel = "!="
	}
	return fmt.Sprintf("%s@%d: device %s code(p%d)", o.kind, o.t, rel, o.pol)
}

type devModel struct {
	// What the device carries: a code tuple, or (unique > 0) something
	// that is the code of no policy.
	carries Code
	unique  int

	okApprove *obs // last successful approve since the last damage
	compare   *obs // last compare since the last damage

	// Bookkeeping for signatures and classes only (not for expectations).
	attemptT    int64 // time of the last approve attempt (ok or failed) since the last damage
	failAfterOK bool  // a failed approve followed okApprove: its record is overwritten
	driftOpen   bool  // manual drift not yet seen by a compare
}

// latest is the latest conclusive observation: the later of the last
// successful approve and the last compare. Failed approves contribute
// nothing, damage erases everything.
func (d *devModel) latest() *obs {
	switch {
	case d.okApprove == nil:
		return d.compare
	case d.compare == nil:
		return d.okApprove
	case d.compare.t > d.okApprove.t:
		return d.compare
	}
	return d.okApprove
}

type model struct {
	h       *History
	codes   [][]Code // codes[n-1][dev] for policy pn
	state   []int    // disk state of policy pn
	cur     int
	devs    []*devModel
	nunique int
}

func (m *model) code(pol, dev int) Code { return m.codes[pol-1][dev] }

func (m *model) carriesCode(dev int, c Code) bool {
	d := m.devs[dev]
	return d.unique == 0 && d.carries == c
}

// expect derives from the property text what missing-approve must say
// about a device.
func (m *model) expect(dev int) (want, why string) {
	o := m.devs[dev].latest()
	switch {
	case o == nil:
		return wantList, "no conclusive observation"
	case !o.equal:
		return wantList, "latest observation is a compare that found a difference"
	case m.code(o.pol, dev) != m.code(m.cur, dev):
		return wantList, fmt.Sprintf("observed code(p%d)=%v differs from current code(p%d)=%v",
			o.pol, m.code(o.pol, dev), m.cur, m.code(m.cur, dev))
	case m.state[o.pol-1] == polRemoved:
		return wantOpen, fmt.Sprintf("observed policy p%d is no longer on disk", o.pol)
	}
	return wantOmit, fmt.Sprintf("device = code(p%d) = code(p%d), p%d on disk", o.pol, m.cur, o.pol)
}

// --------------------------------------------------------------- oracle

type violation struct {
	sig string
	msg string
}

// Oracle replays the history of the case on a fresh basedir and checks the
// real missing-approve after every action. Pure function of the case.
func Oracle(c *props.Case) props.Verdict {
	h, err := parseHistory(c.Param("history"))
	if err != nil {
		return props.DiscardV("bad-history")
	}
	if _, err := Binary(); err != nil {
		return props.UncoveredV("cannot build missing-approve: " + err.Error())
	}
	for _, a := range h.Acts {
		if a.K == KBzip && bzip2Path() == "" {
			return props.UncoveredV("no bzip2 binary in PATH")
		}
	}
	w, err := newWorld(h)
	if w != nil {
		defer w.close()
	}
	if err != nil {
		return props.UncoveredV("scratch: " + err.Error())
	}

	m := &model{h: h}
	for range h.Devs {
		m.nunique++
		m.devs = append(m.devs, &devModel{unique: m.nunique}) // factory state
	}
	addPolicy := func(codes []Code) error {
		m.codes = append(m.codes, codes)
		m.state = append(m.state, polPlain)
		m.cur = len(m.codes)
		return w.newPolicy(m.cur, codes)
	}
	w.tick(1)
	if err := addPolicy(h.Init); err != nil {
		return props.UncoveredV("scratch: " + err.Error())
	}

	classes := map[string]bool{}
	var viol []violation
	var trace []string
	ioErr := ""

	check := func(step int) {
		r, err := w.missingApprove()
		if err != nil {
			ioErr = err.Error()
			return
		}
		ctx := func(dev int) string {
			var b strings.Builder
			fmt.Fprintf(&b, "after step %d; current policy p%d; devices %v; sub=%s\n", step, m.cur, h.Devs, h.Sub)
			for _, l := range trace {
				b.WriteString("  " + l + "\n")
			}
			for n := range m.codes {
				fmt.Fprintf(&b, "  p%d %s code=%v\n", n+1, [...]string{"plain", "bz2", "removed"}[m.state[n]], m.codes[n])
			}
			if dev >= 0 {
				d := m.devs[dev]
				fmt.Fprintf(&b, "model %s: carries=%s okApprove=[%v] compare=[%v] latest=[%v] failedApproveAfterOK=%v\n",
					h.Devs[dev], m.carriesString(dev), d.okApprove, d.compare, d.latest(), d.failAfterOK)
				fmt.Fprintf(&b, "status/%s: %s\n", h.Devs[dev], w.statusBytes(h.Devs[dev]))
			}
			fmt.Fprintf(&b, "missing-approve: exit=%d stdout=%q stderr=%q\n", r.exit, r.stdout, r.stderr)
			if keepScratch() {
				fmt.Fprintf(&b, "kept: %s\n", w.root)
			}
			return b.String()
		}
		if r.exit != 0 || r.stderr != "" {
			viol = append(viol, violation{SigToolError, "missing-approve failed on a well-formed basedir\n" + ctx(-1)})
			return
		}
		for name, n := range r.listed {
			if n > 1 {
				classes["out:duplicate-name"] = true
			}
			known := false
			for _, d := range h.Devs {
				known = known || d == name
			}
			if !known {
				classes["out:unknown-name"] = true
			}
		}
		for i, name := range h.Devs {
			want, why := m.expect(i)
			listed := r.listed[name] > 0
			d := m.devs[i]
			o := d.latest()
			switch want {
			case wantOpen:
				classes["expect:open-policy-removed"] = true
				if listed {
					classes["open:listed"] = true
				} else {
					classes["open:omitted"] = true
				}
			case wantList:
				switch {
				case o == nil:
					classes["expect:list:no-observation"] = true
				case !o.equal:
					classes["expect:list:diff"] = true
				default:
					classes["expect:list:code-differs"] = true
				}
				if !listed {
					sig := SigForgotten
					// Root cause F4: the record of the successful approve was
					// overwritten by a later failed approve and the tool fell
					// back to an older compare of a policy whose code equals
					// the current one.
					if o != nil && o.kind == "approve" && d.failAfterOK &&
						d.compare != nil && d.compare.equal && d.compare.t < o.t &&
						m.code(d.compare.pol, i) == m.code(m.cur, i) {
						sig = SigF4
					}
					viol = append(viol, violation{sig, fmt.Sprintf(
						"device %s is OMITTED but %s: %s\n%s", name, want, why, ctx(i))})
				}
			case wantOmit:
				switch {
				case o.pol == m.cur:
					classes["expect:omit:same-policy"] = true
				case m.state[o.pol-1] == polCompressed:
					classes["expect:omit:file-compare-bz2"] = true
				default:
					classes["expect:omit:file-compare"] = true
				}
				if listed {
					sig := SigNotOmitted
					// Same root cause as F4, harmless direction: the only
					// record of the successful approve is gone.
					if o.kind == "approve" && d.failAfterOK {
						sig = SigF4Listed
					}
					viol = append(viol, violation{sig, fmt.Sprintf(
						"device %s is LISTED but %s: %s\n%s", name, want, why, ctx(i))})
				}
			}
		}
	}

	check(-1)

	// Flags for classes / non-triviality.
	var sawObs, policyAfterObs, hasFail, hasDriftCompare, hasBzip, hasRemove, hasDamage bool

	for step, a := range h.Acts {
		if ioErr != "" {
			break
		}
		w.tick(a.Dt)
		now := w.now.Unix()
		name := h.Devs[a.Dev]
		d := m.devs[a.Dev]
		pol := fmt.Sprintf("p%d", m.cur)
		classes["act:"+a.K] = true
		note := ""
		switch a.K {
		case KPolicy:
			old := m.codes[m.cur-1]
			if sawObs {
				policyAfterObs = true
			}
			for i, c := range a.Code {
				if c != old[i] {
					classes["chg:code"] = true
					for n := m.cur - 1; n >= 1; n-- {
						if m.code(n, i) == c {
							classes["chg:revert-to-older-code"] = true
							break
						}
					}
				} else {
					classes["chg:same-code"] = true
				}
				for s, cl := range [4]string{"chg:main", "chg:sub", "chg:raw", "chg:subraw"} {
					if c[s] != old[i][s] {
						classes[cl] = true
						if s == 1 || s == 3 {
							if h.Sub == "ipv6" {
								classes["chg:v6"] = true
							} else {
								classes["chg:v4-in-ipv6-mode"] = true
							}
						}
						if s >= 2 {
							switch {
							case old[i][s] == 0:
								classes["chg:raw-added"] = true
							case c[s] == 0:
								classes["chg:raw-removed"] = true
							default:
								classes["chg:raw-changed"] = true
							}
						}
						if s == 0 && h.Sub == "ipv4" {
							classes["chg:v6"] = true
						}
					}
				}
			}
			if err := addPolicy(a.Code); err != nil {
				ioErr = err.Error()
			}
			note = fmt.Sprintf("-> p%d", m.cur)
		case KApprove:
			d.carries, d.unique = m.code(m.cur, a.Dev), 0
			d.okApprove = &obs{"approve", m.cur, true, now}
			d.attemptT, d.failAfterOK, d.driftOpen = now, false, false
			sawObs = true
			status.SetApprove(w.cfg, name, pol, false)
			note = pol + " OK"
		case KFail:
			hasFail = true
			if d.okApprove != nil {
				d.failAfterOK = true
				classes["failed-approve-after-ok-approve"] = true
			}
			d.attemptT = now
			status.SetApprove(w.cfg, name, pol, true)
			note = pol + " FAILED"
		case KCompare:
			changed := !m.carriesCode(a.Dev, m.code(m.cur, a.Dev))
			if changed && d.compare != nil && !d.compare.equal && d.compare.t >= d.attemptT {
				// status.SetCompare keeps the older DIFF entry here.
				classes["compare:sticky-diff"] = true
			}
			if d.driftOpen {
				hasDriftCompare = true
				d.driftOpen = false
			}
			if changed {
				classes["compare:diff"] = true
			} else {
				classes["compare:uptodate"] = true
			}
			d.compare = &obs{"compare", m.cur, !changed, now}
			sawObs = true
			status.SetCompare(w.cfg, name, pol, changed)
			note = fmt.Sprintf("%s changed=%v", pol, changed)
		case KDrift:
			if a.Pol == 0 {
				m.nunique++
				d.carries, d.unique = Code{}, m.nunique
			} else {
				d.carries, d.unique = m.code(a.Pol, a.Dev), 0
			}
			d.driftOpen = true
		case KBzip:
			hasBzip = true
			if m.state[a.Pol-1] == polPlain {
				if err := w.bzipPolicy(a.Pol); err != nil {
					ioErr = err.Error()
				}
				m.state[a.Pol-1] = polCompressed
			}
		case KRemove:
			hasRemove = true
			if err := w.removePolicy(a.Pol); err != nil {
				ioErr = err.Error()
			}
			m.state[a.Pol-1] = polRemoved
		case KDamage:
			hasDamage = true
			classes["damage:"+a.Mode] = true
			if d.latest() != nil {
				classes["damage:erases-observation"] = true
			}
			if err := w.damage(name, a); err != nil {
				ioErr = err.Error()
			}
			d.okApprove, d.compare, d.attemptT, d.failAfterOK = nil, nil, 0, false
			note = "status now " + w.statusBytes(name)
		}
		trace = append(trace, fmt.Sprintf("%2d t=%d %s %s", step, now, a, note))
		if ioErr != "" {
			break
		}
		check(step)
	}
	if ioErr != "" {
		return props.UncoveredV("scratch: " + ioErr)
	}

	if len(viol) > 0 {
		// Report a violation without a known root cause first, so that the
		// search continues behind F4 within a single history as well.
		rank := map[string]int{SigToolError: 0, SigForgotten: 1, SigNotOmitted: 2, SigF4: 3, SigF4Listed: 4}
		sort.SliceStable(viol, func(i, j int) bool { return rank[viol[i].sig] < rank[viol[j].sig] })
		v := viol[0]
		return props.FailV(v.sig, "%s", v.msg)
	}

	if hasFail {
		classes["has:failed-approve"] = true
	}
	if hasDriftCompare {
		classes["has:drift+compare"] = true
	}
	if hasBzip {
		classes["has:bzip2"] = true
	}
	if hasRemove {
		classes["has:removal"] = true
	}
	if hasDamage {
		classes["has:damage"] = true
	}
	if policyAfterObs {
		classes["has:policy-change-after-observation"] = true
	}
	classes[fmt.Sprintf("devices:%d", len(h.Devs))] = true
	switch n := len(h.Acts); {
	case n < 4:
		classes["len:1-3"] = true
	case n < 8:
		classes["len:4-7"] = true
	case n <= 12:
		classes["len:8-12"] = true
	default:
		classes["len:13+"] = true
	}
	classes["layout:sub="+h.Sub] = true
	nt := len(h.Acts) >= 4 && policyAfterObs && (hasFail || hasDriftCompare || hasBzip || hasRemove || hasDamage)
	var cl []string
	for k := range classes {
		cl = append(cl, k)
	}
	sort.Strings(cl)
	return props.PassV(nt, cl...)
}

func (m *model) carriesString(dev int) string {
	d := m.devs[dev]
	if d.unique > 0 {
		return fmt.Sprintf("unique#%d", d.unique)
	}
	return fmt.Sprintf("%v", d.carries)
}
