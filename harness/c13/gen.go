package c13

import (
	"pgregory.net/rapid"
)

var devNames = []string{"fw-a", "r_b", "C3"}

// Junk that replaces a status file: never parses into a status that says
// anything (see believable).
var junkSamples = []string{
	"\x00\x00\x00\x00\x00\x00\x00\x00",
	"{}",
	"null",
	"[]",
	"{\"approve\":17,\"compare\":\"x\"}",
	"{\"approve\":{\"result\":\"OK\",\"policy\":\"p1\",\"time\":1709", // cut mid-number
	"p1 OK 2024-03-01\n",
	"<<<<<<< HEAD\n",
	"{\"approve\":{\"result\":\"OK\" \"policy\":\"p1\"}}",
	"\xff\xfe garbage \n",
}

// rawAction is drawn independently of the state reached so far and has
// few draws, so that rapid can drop and simplify single actions while
// shrinking; GenHistory interprets it against the state (an action that is
// impossible there is not offered). rapid's integer generators prefer small
// values, therefore the weighted choices go through mix(): uniform over the
// options, 0 -> first option.
type rawAction struct {
	Keep bool   // false (the shrink target) = the action is left out
	Kind uint64 // action kind, weighted by profile and state
	Dev  int
	Dt   int
	Seed uint64 // all other parameters of the action
}

func mix(u uint64) uint64 {
	u *= 0x9E3779B97F4A7C15
	u ^= u >> 29
	u *= 0xBF58476D1CE4E5B9
	u ^= u >> 32
	return u
}

func pick(u uint64, n int) int { return int(mix(u) % uint64(n)) }

type wopt struct {
	name string
	w    int
}

func pickW(u uint64, opts []wopt) string {
	total := 0
	for _, o := range opts {
		total += o.w
	}
	r := pick(u, total)
	for _, o := range opts {
		if r < o.w {
			return o.name
		}
		r -= o.w
	}
	return opts[0].name
}

var dtChoices = []int{1, 2, 5, 60, 3600, 86400}

var genRaw = rapid.Custom(func(t *rapid.T) rawAction {
	var r rawAction
	// 3 of 4 slots are used; rapid's own slice lengths are mostly short.
	k1, k2 := rapid.Bool().Draw(t, "keep"), rapid.Bool().Draw(t, "keep")
	r.Keep = k1 || k2
	r.Kind = rapid.Uint64().Draw(t, "kind")
	r.Dev = rapid.IntRange(0, 5).Draw(t, "dev")
	r.Dt = dtChoices[rapid.IntRange(0, len(dtChoices)-1).Draw(t, "dt")]
	r.Seed = rapid.Uint64().Draw(t, "seed")
	return r
})

// GenHistory draws a history of at most maxActs actions; the executed
// sequence is exactly the returned one.
func GenHistory(t *rapid.T, maxActs int) *History {
	ndev := []int{1, 1, 1, 2, 2, 3}[pick(rapid.Uint64().Draw(t, "ndev"), 6)]
	h := &History{Devs: devNames[:ndev]}
	h.Sub = []string{"ipv6", "ipv6", "ipv6", "ipv4"}[pick(rapid.Uint64().Draw(t, "sub"), 4)]

	for range h.Devs {
		u := rapid.Uint64().Draw(t, "init")
		var c Code
		c[0] = []int{1, 1, 1, 2, 0}[pick(u, 5)]
		c[1] = []int{0, 0, 1, 2}[pick(u+1, 4)]
		c[2] = []int{0, 0, 0, 1}[pick(u+2, 4)]
		c[3] = []int{0, 0, 0, 0, 0, 1}[pick(u+3, 6)]
		if c[0] == 0 && c[1] == 0 {
			c[0] = 1
		}
		if c[1] == 0 {
			c[3] = 0
		}
		h.Init = append(h.Init, c)
	}

	// A profile fixes the action mix of the history: "core" concentrates on
	// the interplay of policy changes and observations, "housekeeping" on
	// compression, removal and damage, "cycle" follows the daily routine
	// (newpolicy, then approve-all / compare runs, then the next policy).
	profile := []string{"mixed", "mixed", "core", "cycle", "cycle", "housekeeping"}[pick(rapid.Uint64().Draw(t, "profile"), 6)]
	weight := map[string]map[string]int{
		"mixed":        {KPolicy: 5, KApprove: 4, KFail: 3, KCompare: 5, KDrift: 3, KDamage: 2, KBzip: 2, KRemove: 2},
		"core":         {KPolicy: 4, KApprove: 3, KFail: 3, KCompare: 4, KDrift: 1, KDamage: 0, KBzip: 1, KRemove: 0},
		"housekeeping": {KPolicy: 4, KApprove: 3, KFail: 1, KCompare: 3, KDrift: 1, KDamage: 3, KBzip: 4, KRemove: 3},
		"cycle":        {KPolicy: 1, KApprove: 5, KFail: 3, KCompare: 4, KDrift: 1, KDamage: 0, KBzip: 0, KRemove: 0},
	}[profile]
	// With low diversity a device's code only toggles one file between two
	// variants, so that old code comes back often; that is what the
	// comparison with an older policy's files is for.
	lowDiversity := rapid.Bool().Draw(t, "lowDiversity")
	toggleSlot := make([]int, ndev)
	for d := range toggleSlot {
		toggleSlot[d] = []int{0, 0, 0, 1, 1, 2, 2, 3}[pick(rapid.Uint64().Draw(t, "toggleSlot"), 8)]
	}

	raws := rapid.SliceOfN(genRaw, maxActs, maxActs).Draw(t, "acts")

	codes := [][]Code{h.Init} // per policy
	state := []int{polPlain}
	old := func(pred func(n int) bool) []int {
		var l []int
		for n := 1; n < len(codes); n++ {
			if pred(n) {
				l = append(l, n)
			}
		}
		return l
	}
	sincePolicy := 0 // observations since the last new policy ("cycle" only)
	for _, raw := range raws {
		if !raw.Keep {
			continue
		}
		var r [10]uint64
		for i := range r {
			r[i] = raw.Seed + uint64(i)*0x100000001
		}
		if profile == "cycle" {
			weight[KPolicy] = 1 + 4*sincePolicy/ndev
			weight[KBzip] = sincePolicy
		}
		plain := old(func(n int) bool { return state[n-1] == polPlain })
		there := old(func(n int) bool { return state[n-1] != polRemoved })
		var opts []wopt
		// The order is the shrink order: Kind == 0 selects the first.
		for _, k := range []string{KApprove, KCompare, KFail, KPolicy, KDrift, KDamage, KBzip, KRemove} {
			if k == KBzip && len(plain) == 0 || k == KRemove && len(there) == 0 {
				continue
			}
			opts = append(opts, wopt{k, weight[k]})
		}
		a := Action{K: pickW(raw.Kind, opts), Dt: raw.Dt}
		if a.K != KPolicy && a.K != KBzip && a.K != KRemove {
			a.Dev = raw.Dev % ndev
		}
		switch a.K {
		case KPolicy:
			cur := codes[len(codes)-1]
			sincePolicy = 0
			for d := range h.Devs {
				c := cur[d]
				u := r[3+d]
				hows := []string{"same", "same", "edit", "edit", "edit", "revert", "revert"}
				if lowDiversity {
					hows = []string{"same", "toggle", "toggle"}
				}
				switch hows[pick(u, len(hows))] {
				case "toggle":
					s := toggleSlot[d]
					switch {
					case s == 0 || s == 1 && c[0] == 0:
						c[s] = 3 - max(c[s], 1) // 1 <-> 2
					case c[s] == 0:
						c[s] = 1
					default:
						c[s] = 0
					}
				case "edit":
					slot := []int{0, 0, 0, 1, 1, 2, 2, 3}[pick(u+1, 8)]
					c[slot] = []int{1, 2, 1, 2, 0, 3}[pick(u+2, 6)]
					if c[0] == 0 && c[1] == 0 {
						c[slot] = 1
					}
				case "revert":
					c = codes[pick(u+3, len(codes))][d]
				}
				a.Code = append(a.Code, c)
			}
			codes = append(codes, a.Code)
			state = append(state, polPlain)
		case KBzip:
			a.Pol = plain[pick(r[3], len(plain))]
			state[a.Pol-1] = polCompressed
		case KRemove:
			a.Pol = there[pick(r[3], len(there))]
			state[a.Pol-1] = polRemoved
		case KDrift:
			// Mostly something unique; sometimes exactly the code of a policy
			// (an admin typing in what Netspoc would have generated).
			if pick(r[3], 3) == 1 {
				a.Pol = 1 + pick(r[4], len(codes))
			}
		case KDamage:
			a.Mode = []string{"empty", "trunc", "trunc", "junk", "junk", "nul", "gone"}[pick(r[3], 7)]
			switch a.Mode {
			case "trunc", "nul":
				a.Off = pick(r[4], 200)
			case "junk":
				a.Junk = junkSamples[pick(r[4], len(junkSamples))]
			}
		}
		if a.K == KApprove || a.K == KFail || a.K == KCompare {
			sincePolicy++
		}
		h.Acts = append(h.Acts, a)
	}
	return h
}
